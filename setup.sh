#!/bin/bash
# Builds the whole framework from files on disk only (offline).
set -e
cd "$(dirname "$0")"
export CARGO_NET_OFFLINE=true
mkdir -p ocaml/gen evidence replays .work
[ -x shim/build.sh ] && (cd shim && ./build.sh)
[ -x harness/build.sh ] && (cd harness && ./build.sh)
[ -f coq/_CoqProject ] && (cd coq && coq_makefile -f _CoqProject -o Makefile >/dev/null && timeout 3000 make -j16 >/dev/null)
[ -x ocaml/build.sh ] && (cd ocaml && ./build.sh)
echo setup ok
