#!/bin/bash
# usage: seedsweep_ns.sh [jobs]  — for every stored seeded change: nseval.sh (private copies in a mount namespace, /repo untouched)
# with the checks recorded as catching it (quick tier); <jobs> evaluations at a time; writes seeded/SWEEP.txt
cd /verif
jobs=${1:-5}
tmp=/tmp/ns/sweep; rm -rf $tmp; mkdir -p $tmp
one() {
  d=$1; name=$(basename $d)
  checks=$(python3 -c "import json;print(' '.join(json.load(open('$d/meta.json'))['caught_by_checks']))")
  out=$(/verif/nseval.sh sw-$name /verif/$d/patch.diff $checks 2>&1 | grep -v WARNING)
  if echo "$out" | grep -q "patch does not apply"; then echo "$name: patch no longer applies to /repo HEAD" > $tmp/$name.txt; return; fi
  for c in $checks; do
    if echo "$out" | grep "sw-$name $c:" | grep -q "VIOLATION property=$c"; then echo "$name $c: caught"; else echo "$name $c: MISSED"; fi
  done > $tmp/$name.txt
}
export -f one; export tmp
ls -d seeded/*/ | xargs -P $jobs -I{} bash -c 'one {}'
cat $tmp/*.txt | sort > seeded/SWEEP.txt
grep -c caught seeded/SWEEP.txt; grep -v caught seeded/SWEEP.txt
