#!/bin/bash
# usage: nseval.sh <name> <patch.diff | -> <check ids...>
# Runs checks against a private copy of /repo (with the patch applied) and a private copy of /verif, both bind-mounted over the
# real paths inside a new mount namespace: /repo itself is never touched, so evaluations can run next to other work.
# The copies live under /tmp/ns/<name> and are removed afterwards.  (Registered MANIFEST commands never use this.)
name=$1; patch=$2; shift 2
d=/tmp/ns/$name; rm -rf $d; mkdir -p $d/repo $d/verif
rsync -a --exclude target /repo/ $d/repo/
rsync -a --exclude .git --exclude .work --exclude replays /verif/ $d/verif/
mkdir -p $d/verif/replays $d/verif/.work
( cd $d/repo && git checkout -q -- . 2>/dev/null; [ "$patch" = "-" ] || git apply "$patch" ) || { echo "$name: patch does not apply"; rm -rf $d; exit 2; }
unshare -m bash -c "mount --bind $d/repo /repo && mount --bind $d/verif /verif && cd /verif && for p in $*; do out=\$(./check \$p --tier quick 2>/dev/null | grep -E '^(VIOLATION|KNOWN-FINDING)' | head -3 | tr '\n' ' '); echo \"$name \$p: \${out:-no violation}\"; done; mkdir -p /tmp/ns/replays-$name; cp /verif/replays/* /tmp/ns/replays-$name/ 2>/dev/null"
rm -rf $d
