#!/bin/bash
set -e
cd "$(dirname "$0")"
mkdir -p _build
cp gen/fjmodel.ml gen/fjmodel.mli fjm.ml _build/
cd _build
ocamlfind ocamlopt -w -a -package unix -linkpkg fjmodel.mli fjmodel.ml fjm.ml -o fjm
echo "fjm built"
