(* fjm — driver around the extracted Coq model (gen/fjmodel.ml).
   Parses the shared program language, runs the model, prints one observation
   line per program line in the same format as the implementation harness fjv. *)
open Fjmodel
type string = Stdlib.String.t

(* ---------- N <-> int ---------- *)
let rec pos_of_int i = if i = 1 then XH else if i land 1 = 0 then XO (pos_of_int (i lsr 1)) else XI (pos_of_int (i lsr 1))
let n_of_int i = if i = 0 then N0 else Npos (pos_of_int i)
let rec int_of_pos = function XH -> 1 | XO p -> 2 * int_of_pos p | XI p -> 2 * int_of_pos p + 1
let int_of_n = function N0 -> 0 | Npos p -> int_of_pos p
(* decimal strings of arbitrary size (u64 values do not fit OCaml's 63-bit int) *)
let n_of_string s =
  (* s decimal; build via repeated *10 + digit on a bit list using OCaml's Int64 unsigned tricks is messy:
     use arbitrary precision by hand on lists of bits (little endian) *)
  let add_bits a b =
    let rec go a b c = match a, b with
      | [], [] -> if c then [true] else []
      | x :: a', [] -> let s = (x <> c) in s :: go a' [] (x && c)
      | [], y :: b' -> let s = (y <> c) in s :: go [] b' (y && c)
      | x :: a', y :: b' -> let s = (x <> y) <> c in s :: go a' b' ((x && y) || (x && c) || (y && c))
    in go a b false in
  let times10 a = add_bits (false :: a) (false :: false :: false :: a) in
  let bits_of_digit d = let rec go d = if d = 0 then [] else (d land 1 = 1) :: go (d lsr 1) in go d in
  let bits = ref [] in
  String.iter (fun ch -> bits := add_bits (times10 !bits) (bits_of_digit (Char.code ch - 48))) s;
  (* strip high zeros *)
  let rec strip = function [] -> [] | l -> (match List.rev l with false :: r -> strip (List.rev r) | _ -> l) in
  let rec to_pos = function
    | [] -> failwith "zero" | [true] -> XH
    | true :: r -> XI (to_pos r) | false :: r -> XO (to_pos r) in
  match strip !bits with [] -> N0 | l -> Npos (to_pos l)
let string_of_n n =
  (* decimal string of arbitrary N: repeated division of a bit list by 10 *)
  let rec bits_of_pos = function XH -> [true] | XO p -> false :: bits_of_pos p | XI p -> true :: bits_of_pos p in
  match n with N0 -> "0" | Npos p ->
    let be = List.rev (bits_of_pos p) in   (* big endian *)
    let rec divmod10 bits = (* returns quotient bits (big endian) and remainder *)
      let q, r = List.fold_left (fun (q, r) b -> let r' = r * 2 + (if b then 1 else 0) in
                                 if r' >= 10 then (true :: q, r' - 10) else (false :: q, r')) ([], 0) bits in
      (List.rev q, r) in
    let rec strip = function false :: r -> strip r | l -> l in
    let rec go bits acc = match strip bits with
      | [] -> acc
      | b -> let q, r = divmod10 b in go q (String.make 1 (Char.chr (48 + r)) ^ acc) in
    let s = go be "" in if s = "" then "0" else s

(* ---------- hex ---------- *)
let hexval c = match c with '0'..'9' -> Char.code c - 48 | 'a'..'f' -> Char.code c - 87 | 'A'..'F' -> Char.code c - 55 | _ -> failwith "hex"
let bytes_of_hex s : n list =
  if s = "-" then [] else begin
    let l = String.length s in
    let rec go i = if i >= l then [] else n_of_int (hexval s.[i] * 16 + hexval s.[i+1]) :: go (i + 2) in go 0 end
let hex_of_bytes (b : n list) =
  if b = [] then "-" else String.concat "" (List.map (fun x -> Printf.sprintf "%02x" (int_of_n x)) b)
let bytes_of_ascii s = List.init (String.length s) (fun i -> n_of_int (Char.code s.[i]))
let ascii_of_bytes b = String.init (List.length b) (fun i -> Char.chr (int_of_n (List.nth b i)))

(* ---------- oracle for xxh3 / lz4 (the same crates the implementation links) ---------- *)
let oracle = ref None
let get_oracle () = match !oracle with
  | Some o -> o
  | None ->
      let fjv = try Sys.getenv "FJV" with Not_found -> "/verif/harness/target/release/fjv" in
      let (ic, oc) = Unix.open_process (fjv ^ " oracle") in
      oracle := Some (ic, oc); (ic, oc)
let ask line = let (ic, oc) = get_oracle () in output_string oc (line ^ "\n"); flush oc; input_line ic
let hash_cache : (string, n) Hashtbl.t = Hashtbl.create 64
let hash (b : n list) : n =
  let h = hex_of_bytes b in
  match Hashtbl.find_opt hash_cache h with Some v -> v | None ->
    let v = n_of_string (ask ("h " ^ h)) in Hashtbl.replace hash_cache h v; v
let compress (b : n list) : n list = bytes_of_hex (ask ("c " ^ hex_of_bytes b))
let decompress (b : n list) (len : n) : n list option =
  let r = ask (Printf.sprintf "d %s %s" (string_of_n len) (hex_of_bytes b)) in
  if String.length r >= 3 && String.sub r 0 2 = "ok" then Some (bytes_of_hex (String.sub r 3 (String.length r - 3))) else None

(* ---------- parsing ---------- *)
let split c s = String.split_on_char c s
let num_after prefix tok =
  (* "h12" -> 12 *)
  let pl = String.length prefix in
  if String.length tok > pl && String.sub tok 0 pl = prefix then n_of_int (int_of_string (String.sub tok pl (String.length tok - pl)))
  else failwith ("bad ref " ^ tok)
let parse_h = num_after "h"
let parse_view tok = if tok = "-" then VwNone else match tok.[0] with
  | 's' -> VwSnap (num_after "s" tok) | 't' -> VwTx (num_after "t" tok) | _ -> failwith "view"
let parse_bound s = if s = "*" then BUnb else match s.[0] with
  | '[' -> BIncl (bytes_of_hex (let r = String.sub s 1 (String.length s - 1) in if r = "" then "-" else r))
  | '(' -> BExcl (bytes_of_hex (let r = String.sub s 1 (String.length s - 1) in if r = "" then "-" else r))
  | _ -> failwith "bound"
let parse_range s = if s = "all" then RAll else match split ':' s with
  | ["prefix"; p] -> RPrefix (bytes_of_hex p)
  | ["range"; lo; hi] -> RRange (parse_bound lo, parse_bound hi)
  | _ -> failwith "range"
let parse_dir s = if s = "fwd" then DFwd else if s = "rev" then DRev else match split ':' s with
  | ["zip"; p] -> DZip (List.init (String.length p) (fun i -> p.[i] = 'f'))
  | _ -> failwith "dir"
let parse_fn s = if s = "none" then FnNone else match split ':' s with
  | ["set"; v] -> FnSet (bytes_of_hex v) | ["app"; v] -> FnApp (bytes_of_hex v) | _ -> failwith "fn"
let parse_bitem s = match split ':' s with
  | [h; "p"; k; v] -> BPut (parse_h h, bytes_of_hex k, bytes_of_hex v)
  | [h; "d"; k] -> BDel (parse_h h, bytes_of_hex k)
  | [h; "w"; k] -> BDelW (parse_h h, bytes_of_hex k)
  | _ -> failwith "bitem"
let parse_iitem s =
  let l = String.length s in
  if l > 0 && s.[l-1] = '!' then ITomb (bytes_of_hex (String.sub s 0 (l-1)))
  else match String.index_opt s '=' with
    | Some i -> IPut (bytes_of_hex (String.sub s 0 i), bytes_of_hex (let v = String.sub s (i+1) (l-i-1) in if v = "" then "-" else v))
    | None -> failwith "iitem"
let parse_rule (s : string) : frule =
  let parts = split ',' s in
  let rem = ref [] and rep = ref [] in
  List.iter (fun p -> if p <> "" then match p.[0] with
    | 'r' -> rem := n_of_int (int_of_string ("0x" ^ String.sub p 1 2)) :: !rem
    | 'p' -> (match split ':' (String.sub p 1 (String.length p - 1)) with
              | [b; v] -> rep := (n_of_int (int_of_string ("0x" ^ b)), bytes_of_hex v) :: !rep
              | _ -> failwith "rule")
    | _ -> failwith "rule") parts;
  { fr_remove = List.rev !rem; fr_replace = List.rev !rep }

type line = Op of op | Open of dbmode * (n list * frule) list | Skip | Multi of op list | Journals

let parse_open toks =
  let mode = ref MPlain and filters = ref [] in
  List.iter (fun t ->
    if t = "plain" then mode := MPlain else if t = "sw" then mode := MSw else if t = "occ" then mode := MOcc
    else if String.length t > 8 && String.sub t 0 8 = "filters=" then
      List.iter (fun f -> match String.index_opt f ':' with
        | Some i -> filters := (bytes_of_ascii (String.sub f 0 i), parse_rule (String.sub f (i+1) (String.length f - i - 1))) :: !filters
        | None -> ()) (split ';' (String.sub t 8 (String.length t - 8)))) toks;
  Open (!mode, List.rev !filters)

let parse_line (s : string) : line =
  let toks = List.filter (fun t -> t <> "") (split ' ' s) in
  let hx = bytes_of_hex in
  match toks with
  | "open" :: r -> parse_open r
  | "reopen" :: _ -> Op OReopen
  | "ks" :: h :: name :: _ -> Op (OKs (parse_h h, bytes_of_ascii name))
  | ["delks"; h] -> Op (ODelKs (parse_h h))
  | ["drop"; h] -> Op (ODropH (parse_h h))
  | ["exists"; name] -> Op (OExists (bytes_of_ascii name))
  | ["names"] -> Op ONames
  | ["put"; h; k; v] -> Op (OPut (parse_h h, hx k, hx v))
  | ["bigfill"; h; count; kib; tag] ->
      (* <count> puts of key "bf<tag><%04d>" with <kib> KiB of data: the model gets the 6-byte placeholder ff fe fd fc hi lo *)
      let kib = int_of_string kib in
      let v = List.map n_of_int [255; 254; 253; 252; kib / 256; kib mod 256] in
      Multi (List.init (int_of_string count) (fun i -> OPut (parse_h h, bytes_of_ascii (Printf.sprintf "bf%s%04d" tag i), v)))
  | ["del"; h; k] -> Op (ODel (parse_h h, hx k))
  | ["delw"; h; k] -> Op (ODelW (parse_h h, hx k))
  | ["clear"; h] -> Op (OClear (parse_h h))
  | "batch" :: _dur :: items -> Op (OBatch (List.map parse_bitem items))
  | "ingest" :: h :: items -> Op (OIngest (parse_h h, List.map parse_iitem items))
  | "persist" :: _ -> Op OPersist
  | ["take"; h; k] -> Op (OTake (parse_h h, hx k))
  | ["fu"; h; k; f] -> Op (OFu (parse_h h, hx k, parse_fn f))
  | ["uf"; h; k; f] -> Op (OUf (parse_h h, hx k, parse_fn f))
  | ["get"; v; h; k] -> Op (OGet (parse_view v, parse_h h, hx k))
  | ["has"; v; h; k] -> Op (OHas (parse_view v, parse_h h, hx k))
  | ["size"; v; h; k] -> Op (OSize (parse_view v, parse_h h, hx k))
  | ["first"; v; h] -> Op (OFirst (parse_view v, parse_h h))
  | ["last"; v; h] -> Op (OLast (parse_view v, parse_h h))
  | ["len"; v; h] -> Op (OLen (parse_view v, parse_h h))
  | ["empty"; v; h] -> Op (OEmpty (parse_view v, parse_h h))
  | ["scan"; v; h; d; r] -> Op (OScan (parse_view v, parse_h h, parse_dir d, parse_range r))
  | ["snap"; s; "open"] -> Op (OSnapOpen (num_after "s" s))
  | ["snap"; s; "close"] -> Op (OSnapClose (num_after "s" s))
  | ["it"; i; "open"; v; h; r] -> Op (OItOpen (num_after "i" i, parse_view v, parse_h h, parse_range r))
  | ["it"; i; "next"] -> Op (OItNext (num_after "i" i))
  | ["it"; i; "back"] -> Op (OItBack (num_after "i" i))
  | ["it"; i; "close"] -> Op (OItClose (num_after "i" i))
  | ["tx"; t; "begin"] -> Op (OTxBegin (num_after "t" t))
  | ["tx"; t; "put"; h; k; v] -> Op (OTxPut (num_after "t" t, parse_h h, hx k, hx v))
  | ["tx"; t; "del"; h; k] -> Op (OTxDel (num_after "t" t, parse_h h, hx k))
  | ["tx"; t; "take"; h; k] -> Op (OTxTake (num_after "t" t, parse_h h, hx k))
  | ["tx"; t; "fu"; h; k; f] -> Op (OTxFu (num_after "t" t, parse_h h, hx k, parse_fn f))
  | ["tx"; t; "uf"; h; k; f] -> Op (OTxUf (num_after "t" t, parse_h h, hx k, parse_fn f))
  | ["tx"; t; "commit"] -> Op (OTxCommit (num_after "t" t))
  | ["tx"; t; ("rollback" | "drop")] -> Op (OTxRollback (num_after "t" t))
  | ["rotate"; h] -> Op (ORotate (parse_h h))
  | ["step"] -> Op OStep
  | ["drain"] -> Op ODrain
  | ["major"; h] -> Op (OMajor (parse_h h))
  | ["gc"] -> Op (OGc false)
  | ["pullup"] -> Op (OGc true)
  | ["dump"] -> Op ODump
  | ["journals"] -> Journals
  | _ -> Skip

(* ---------- printing ---------- *)
(* the placeholder ff fe fd fc hi lo stands for (256 hi + lo) KiB of data; the harness prints such values as BIG<bytes> *)
let show_val v = match List.map int_of_n v with
  | [255; 254; 253; 252; a; b] -> Printf.sprintf "BIG%d" ((a * 256 + b) * 1024)
  | _ -> hex_of_bytes v
let kv_str (k, v) = hex_of_bytes k ^ "=" ^ show_val v
let list_str l = if l = [] then "-" else String.concat "," (List.map kv_str l)
let err_str c = match int_of_n c with 1 -> "poisoned" | 2 -> "deleted" | 20 -> "notx" | 21 -> "busy" | n -> "code" ^ string_of_int n
let obs_str = function
  | Ox ObOk -> "ok" | Ox (ObErr c) -> "err " ^ err_str c
  | Ox (ObOpt None) -> "none" | Ox (ObOpt (Some b)) -> "some " ^ show_val b
  | Ox (ObBool b) -> if b then "true" else "false"
  | Ox (ObNum n) -> string_of_n n
  | Ox (ObKv None) -> "none" | Ox (ObKv (Some p)) -> "some " ^ kv_str p
  | Ox (ObList l) -> list_str l
  | Ox ObBadref -> "badref" | Ox ObPanic -> "panic"
  | Ox (ObOkN n) -> "ok " ^ string_of_n n
  | Ox (ObStep k) -> (match int_of_n k with 0 -> "none" | 1 -> "rotate" | 2 -> "flush" | 3 -> "compact" | _ -> "?")
  | Ox (ObNames l) -> let l = List.sort compare (List.map ascii_of_bytes l) in if l = [] then "-" else String.concat "," l
  | Ox ObConflict -> "conflict"
  | Ox (ObDump l) ->
      let l = List.sort compare (List.map (fun (n, kv) -> (ascii_of_bytes n, kv)) l) in
      if l = [] then "-" else String.concat ";" (List.map (fun (n, kv) -> n ^ "{" ^ (if kv = [] then "" else String.concat "," (List.map kv_str kv)) ^ "}") l)
  | OxOptN None -> "none" | OxOptN (Some n) -> "some " ^ string_of_n n

let cfg_of_string s =
  if s = "as_is" then as_is else if s = "ideal" then ideal
  else (* bit string in field order *)
    let b i = s.[i] = '1' in
    { d_replay_shadow = b 0; d_clear_replay = b 1; d_iter_max = b 2; d_id_reuse = b 3;
      d_double_close = b 4; d_sizeof_untracked = b 5; d_seqno_journal = b 6 }

let read_lines file = let ic = open_in file in
  let rec go acc = match input_line ic with l -> go (l :: acc) | exception End_of_file -> close_in ic; List.rev acc in go []

let cmd_run cfgs file =
  let cfg = cfg_of_string cfgs in
  let lines = read_lines file in
  let d = ref (db_init MPlain []) in
  List.iteri (fun i l ->
    let t = String.trim l in
    if t = "" || t.[0] = '#' then () else
    let lineno = i + 1 in
    match (try parse_line t with _ -> Skip) with
    | Open (m, f) -> d := db_init m f; Printf.printf "%d ok\n" lineno
    | Skip -> Printf.printf "%d skip\n" lineno
    | Journals -> Printf.printf "%d %d\n" lineno (List.length (!d).d_sealed + 1)
    | Multi ops ->
        let last = ref "ok" in
        List.iter (fun o -> let (d', x) = db_step cfg !d o in d := d'; let r = obs_str x in if r <> "ok" then last := r) ops;
        Printf.printf "%d %s\n" lineno !last
    | Op o -> let (d', x) = db_step cfg !d o in d := d'; Printf.printf "%d %s\n" lineno (obs_str x)) lines

(* ---------- journal commands ---------- *)
let read_file_bytes file : n list =
  let ic = open_in_bin file in let len = in_channel_length ic in
  let s = really_input_string ic len in close_in ic;
  List.init len (fun i -> n_of_int (Char.code s.[i]))
let vt_code = function VValue -> 0 | VTomb -> 1 | VWeak -> 2 | VIndir -> 4
let vt_of_code = function 0 -> VValue | 1 -> VTomb | 2 -> VWeak | _ -> VIndir
let batch_str b =
  Printf.sprintf "batch %s %s | %s" (string_of_n b.rb_seqno)
    (if b.rb_items = [] then "-" else String.concat "," (List.map (fun i ->
        Printf.sprintf "%s:%d:%s:%s" (string_of_n i.ri_ks) (vt_code i.ri_vt) (hex_of_bytes i.ri_key) (hex_of_bytes i.ri_value)) b.rb_items))
    (if b.rb_clears = [] then "-" else String.concat "," (List.map string_of_n b.rb_clears))
let cmd_readjournal file =
  let bytes = read_file_bytes file in
  let (bs, out) = read_journal hash compress decompress bytes in
  List.iter (fun b -> print_endline (batch_str b)) bs;
  (match out with
   | RStop n -> Printf.printf "end ok\nlen %s\n" (string_of_n n)
   | RErr InsufficientLength -> Printf.printf "end err journal:InsufficientLength\nlen %d\n" (List.length bytes)
   | RErr TooManyItems -> Printf.printf "end err journal:TooManyItems\nlen %d\n" (List.length bytes)
   | RErr ChecksumMismatch -> Printf.printf "end err journal:ChecksumMismatch\nlen %d\n" (List.length bytes)
   | ROutOfFuel -> print_endline "end outoffuel")

(* many cuts of one journal in one process (shares the hash cache):
   stdin lines "<m> <pad>", output: the readjournal lines for C[:m] ++ zeros pad, then "--" *)
let cmd_cuts file =
  let ic = open_in_bin file in let len = in_channel_length ic in
  let s = really_input_string ic len in close_in ic;
  let arr = Array.init len (fun i -> n_of_int (Char.code s.[i])) in
  (try while true do
    let l = input_line stdin in
    match split ' ' (String.trim l) with
    | m :: pad :: alter ->
        let m = int_of_string m and pad = int_of_string pad in

        let rec zeros k acc = if k = 0 then acc else zeros (k - 1) (N0 :: acc) in
        let rec pre i acc = if i < 0 then acc else pre (i - 1) (arr.(i) :: acc) in
        let bytes = pre (min m (Array.length arr) - 1) (zeros pad []) in
        let bytes = match alter with
          | [off; v] -> let off = int_of_string off and v = n_of_int (int_of_string v) in
                        List.mapi (fun i x -> if i = off then v else x) bytes
          | _ -> bytes in
        let (bs, out) = read_journal hash compress decompress bytes in
        List.iter (fun b -> print_endline (batch_str b)) bs;
        (match out with
         | RStop n -> Printf.printf "end ok\nlen %s\n" (string_of_n n)
         | RErr InsufficientLength -> Printf.printf "end err journal:InsufficientLength\nlen %d\n" (m + pad)
         | RErr TooManyItems -> Printf.printf "end err journal:TooManyItems\nlen %d\n" (m + pad)
         | RErr ChecksumMismatch -> Printf.printf "end err journal:ChecksumMismatch\nlen %d\n" (m + pad)
         | ROutOfFuel -> print_endline "end outoffuel");
        print_endline "--"; flush stdout
    | _ -> ()
  done with End_of_file -> ())

(* encode: stdin lines "batch <seqno> <items> | <clears>" in writer order is lost (items before clears);
   the writer emits one record kind per batch, which is all the implementation ever produces *)
let cmd_encode comp_s thr_s =
  let cfgc = if comp_s = "lz4" then CLz4 else CNone in
  let thr = n_of_string thr_s in
  let batches = ref [] in
  (try while true do
    let l = input_line stdin in
    match split ' ' l with
    | ["batch"; sq; items; "|"; clears] ->
        let recs_i = if items = "-" then [] else List.map (fun it -> match split ':' it with
          | [ks; vt; k; v] -> let v = bytes_of_hex v in
              RItem (n_of_string ks, bytes_of_hex k, v, vt_of_code (int_of_string vt), choose_comp cfgc thr v)
          | _ -> failwith "item") (split ',' items) in
        let recs_c = if clears = "-" then [] else List.map (fun c -> RClear (n_of_string c)) (split ',' clears) in
        batches := { wb_seqno = n_of_string sq; wb_records = recs_i @ recs_c } :: !batches
    | _ -> ()
  done with End_of_file -> ());
  print_endline (hex_of_bytes (enc_journal hash compress (List.rev !batches)))

(* ---------- options (C16) ---------- *)
let n_of_hex s = n_of_string (Printf.sprintf "%u" (int_of_string ("0x" ^ s)))
let parse_list f s = if s = "" then [] else List.map f (split ',' s)
let parse_comp s = if s = "lz4" then CLz4 else CNone
let parse_opts (toks : string list) : opts =
  List.fold_left (fun o tok ->
    match String.index_opt tok '=' with
    | None -> o
    | Some i ->
      let k = String.sub tok 0 i and v = String.sub tok (i + 1) (String.length tok - i - 1) in
      let b x = x = "1" in
      match k with
      | "mt" -> { o with o_mt = n_of_string v }
      | "manualp" -> { o with o_manual = b v }
      | "eprh" -> { o with o_eprh = b v }
      | "dbs" -> { o with o_dbs = parse_list n_of_string v }
      | "dbri" -> { o with o_dbri = parse_list n_of_string v }
      | "dbhr" -> { o with o_dbhr = parse_list n_of_hex v }
      | "ibpin" -> { o with o_ibpin = parse_list b v }
      | "fbpin" -> { o with o_fbpin = parse_list b v }
      | "ibpart" -> { o with o_ibpart = parse_list b v }
      | "fbpart" -> { o with o_fbpart = parse_list b v }
      | "dbc" -> { o with o_dbc = parse_list parse_comp v }
      | "ibc" -> { o with o_ibc = parse_list parse_comp v }
      | "fp" -> { o with o_fp = parse_list (fun e -> if e = "n" then FNoFilter
                   else if e.[0] = 'b' then FBits (n_of_hex (String.sub e 1 8)) else FFpr (n_of_hex (String.sub e 1 8))) v }
      | "lev" -> (match split ':' v with
                  | [a; t; r] -> { o with o_strategy = SLeveled (n_of_string a, n_of_string t, parse_list n_of_hex r) }
                  | _ -> o)
      | "fifo" -> (match split ':' v with
                   | [l; t] -> { o with o_strategy = SFifo (n_of_string l, if t = "-" then None else Some (n_of_string t)) }
                   | _ -> o)
      | "blob" -> (match split ':' v with
                   | [a; t; st; ag; c] -> { o with o_blob = Some { b_thr = n_of_string a; b_target = n_of_string t;
                                              b_stale = n_of_hex st; b_age = n_of_hex ag; b_comp = parse_comp c } }
                   | _ -> o)
      | _ -> o) default_opts toks
let cfg_line (o : opts) =
  let rows = List.map (fun (k, v) -> (ascii_of_bytes k, v)) (encode_kvs o) in
  let rows = List.sort compare rows in
  String.concat "," (List.map (fun (k, v) -> k ^ "=" ^ hex_of_bytes v) rows)
  ^ ",kvsep=" ^ (match o.o_blob with Some _ -> "1" | None -> "0")
(* stdin: one option record per line (ksx tokens); output per line: the cfg line right after creation and the
   cfg line of from_kvs(encode_kvs o) (what a reopen restores) *)
let cmd_opts () =
  (try while true do
    let l = input_line stdin in
    let o = parse_opts (List.filter (fun t -> t <> "") (split ' ' l)) in
    print_endline (cfg_line o);
    (match from_kvs (encode_kvs o) with
     | Some o' -> print_endline (cfg_line o')
     | None -> print_endline "decode-failed")
  done with End_of_file -> ())

(* ---------- version marker (C17): stdin lines "<markerhex|absent> <locked 0|1> <journal0 0|1>" ---------- *)
let cmd_marker () =
  (try while true do
    let l = input_line stdin in
    match split ' ' (String.trim l) with
    | [m; lk; j0] ->
        let d = { ds_marker = (if m = "absent" then None else Some (bytes_of_hex m)); ds_lock_held = (lk = "1");
                  ds_has_journal0 = (j0 = "1") } in
        let (eff, r) = open_db d in
        let rs = match r with OpenOk -> "ok" | InvalidVersion _ -> "err version" | Locked -> "err locked" | IoError -> "err io" in
        let mutating = List.exists (fun e -> match e with FsCreateJournal | FsWriteMarker | FsTruncateJournalTail -> true | _ -> false) eff in
        Printf.printf "%s %s\n" rs (if mutating then "modifies" else "unmodified")
    | _ -> ()
  done with End_of_file -> ())

(* ---------- journal writer buffering (C09): stdin lines "b <len> <len> ..." (one write_all per entry) or
   "p buffer|data|all"; prints the OS-level effects in order ---------- *)
let rec nat_of_int i = if i = 0 then O else S (nat_of_int (i - 1))
let rec int_of_nat = function O -> 0 | S n -> 1 + int_of_nat n
let cmd_writer () =
  let st = ref w_init in
  (try while true do
    let l = input_line stdin in
    match split ' ' (String.trim l) with
    | "b" :: lens ->
        let entries = List.map (fun x -> List.init (int_of_string x) (fun _ -> N0)) lens in
        st := w_step !st (WBatch entries)
    | ["p"; m] -> st := w_step !st (WPersist (match m with "data" -> PSyncData | "all" -> PSyncAll | _ -> PBuffer))
    | _ -> ()
  done with End_of_file -> ());
  List.iter (fun e -> match e with
    | OsWrite n -> Printf.printf "write %d\n" (int_of_nat n)
    | OsFdatasync -> print_endline "fdatasync"
    | OsFsync -> print_endline "fsync") (List.rev (!st).w_log)

(* JournalMgr.v: one op per line; prints "<journal_count> <evicted records>" after every op
   c <k> create | w <k>* write batch | r <k> rotate memtable | f <k> flush | s seal | m maintenance | d <k> delete | x <k> <seqno> compaction drop *)
let cmd_jmgr () =
  let st = ref jinit in
  (try while true do
    let l = input_line stdin in
    let n x = n_of_int (int_of_string x) in
    (match split ' ' (String.trim l) with
    | ["c"; k] -> st := jstep !st (JCreate (n k))
    | "w" :: ks -> st := jstep !st (JWrite (List.map n ks))
    | ["r"; k] -> st := jstep !st (JRotate (n k))
    | ["f"; k] -> st := jstep !st (JFlush (n k))
    | ["s"] -> st := jstep !st JSeal
    | ["m"] -> st := jstep !st JMaint
    | ["d"; k] -> st := jstep !st (JDelete (n k))
    | ["x"; k; x] -> st := jstep !st (JCompactDrop (n k, n x))
    | _ -> ());
    Printf.printf "%d %d\n" (int_of_n (journal_count !st)) (List.length (!st).m_evicted)
  done with End_of_file -> ())

let () =
  match Array.to_list Sys.argv with
  | [_; "jmgr"] -> cmd_jmgr ()
  | [_; "writer"] -> cmd_writer ()
  | [_; "marker"] -> cmd_marker ()
  | [_; "opts"] -> cmd_opts ()
  | [_; "run"; cfg; file] -> cmd_run cfg file
  | [_; "readjournal"; file] -> cmd_readjournal file
  | [_; "cuts"; file] -> cmd_cuts file
  | [_; "encode"; comp; thr] -> cmd_encode comp thr
  | _ -> prerr_endline "usage: fjm run <as_is|ideal|bits> <program> | readjournal <file> | encode <none|lz4> <threshold>"; exit 2
