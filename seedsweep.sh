#!/bin/bash
# runs every check under several seeds (false-alarm hunt); usage: seedsweep.sh "1 2 3" [tier]
./setup.sh >/dev/null 2>&1
for s in $1; do
  for p in C01 C02 C03 C04 C05 C06 C07 C08 C09 C10 C11 C12 C13 C14 C15 C16 C17 C18; do
    out=$(VERIF_SEED=$s ./check $p --tier ${2:-quick} 2>/dev/null | grep -E "VIOLATION" | head -2)
    echo "seed=$s $p ${out:-ok}"
  done
done
