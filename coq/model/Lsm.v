(* Lsm.v — the lsm-tree contract fjall relies on, as an executable model:
   memtables, sealed memtables, tables, super-version history with snapshot
   selection, flush / compaction with the CompactionStream GC rule, clear,
   ingestion.  Modelled (not verified): block format, levels, blobs, files. *)
From FJ Require Export Bytes Codec.

Record ent := mkEnt { ek : bytes; es : N; et : vtype; ev : bytes }.

Definition is_tomb (e : ent) : bool :=
  match et e with VTomb | VWeak => true | _ => false end.

Definition same_slot (a b : ent) : bool := list_eqb (ek a) (ek b) && (es a =? es b).

(* memtable: newest insertion first; inserting an existing (key,seqno) replaces it
   (crossbeam SkipMap::insert semantics, InternalKey = (user_key, Reverse(seqno))) *)
Definition mem_insert (e : ent) (l : list ent) : list ent :=
  e :: filter (fun x => negb (same_slot e x)) l.

(* newest entry of key k with seqno < I in l; on equal seqnos the first one wins *)
Fixpoint best (k : bytes) (I : N) (l : list ent) (acc : option ent) : option ent :=
  match l with
  | [] => acc
  | e :: r =>
      if list_eqb (ek e) k && (es e <? I) then
        match acc with
        | Some a => if es a <? es e then best k I r (Some e) else best k I r acc
        | None => best k I r (Some e)
        end
      else best k I r acc
  end.
Definition newest (k : bytes) (I : N) (l : list ent) : option ent := best k I l None.

Definition max_seq (l : list ent) : option N :=
  fold_left (fun acc e => match acc with
                          | Some m => Some (N.max m (es e))
                          | None => Some (es e)
                          end) l None.
Definition omax (a b : option N) : option N :=
  match a, b with
  | Some x, Some y => Some (N.max x y)
  | Some x, None => Some x
  | None, y => y
  end.

(* ---- compaction filters (deterministic, decided from the key) ---- *)
Inductive verdict := FKeep | FRemove | FReplace (v : bytes).
Record frule := { fr_remove : list N; fr_replace : list (N * bytes) }.
Definition rule_verdict (r : frule) (k : bytes) : verdict :=
  match k with
  | [] => FKeep
  | b :: _ =>
      if existsb (N.eqb b) (fr_remove r) then FRemove
      else match find (fun p => N.eqb b (fst p)) (fr_replace r) with
           | Some (_, v) => FReplace v
           | None => FKeep
           end
  end.
Definition apply_filter (f : option frule) (e : ent) : ent :=
  if is_tomb e then e else
  match f with
  | None => e
  | Some r =>
      match rule_verdict r (ek e) with
      | FKeep => e
      | FRemove => mkEnt (ek e) (es e) VTomb []
      | FReplace v => mkEnt (ek e) (es e) VValue v
      end
  end.

(* ---- the CompactionStream rule for the versions of ONE key, newest first ---- *)
Fixpoint gc_key (W : N) (evict : bool) (f : option frule) (l : list ent) : list ent :=
  match l with
  | [] => []
  | h :: t =>
      let h' := apply_filter f h in
      match t with
      | [] => if is_tomb h' && evict then [] else [h']
      | p :: _ =>
          if es p <? W then
            (* the tail is expired: drained; a strong tombstone at the last level goes too *)
            if is_tomb h' && evict then [] else [h']
          else h' :: gc_key W evict f t
      end
  end.

(* insertion sort of entries by (key asc, seqno desc); stable w.r.t. input order *)
Definition ent_before (a b : ent) : bool :=
  if bytes_ltb (ek a) (ek b) then true
  else if bytes_ltb (ek b) (ek a) then false
  else es b <? es a.
Fixpoint ins_ent (e : ent) (l : list ent) : list ent :=
  match l with
  | [] => [e]
  | x :: r => if ent_before x e || same_slot x e then x :: ins_ent e r else e :: l
  end.
Definition sort_ents (l : list ent) : list ent := fold_right ins_ent [] (rev l).

(* split a sorted list into the leading group of one key and the rest *)
Fixpoint take_key (k : bytes) (l : list ent) : list ent * list ent :=
  match l with
  | [] => ([], [])
  | e :: r => if list_eqb (ek e) k then let (g, r') := take_key k r in (e :: g, r')
              else ([], l)
  end.
Fixpoint gc_groups (fuel : nat) (W : N) (evict : bool) (f : option frule) (l : list ent) : list ent :=
  match fuel with
  | O => l
  | S n =>
      match l with
      | [] => []
      | e :: _ => let (g, r) := take_key (ek e) l in
                  gc_key W evict f g ++ gc_groups n W evict f r
      end
  end.
(* the merged, GC'd stream over a set of entries *)
Definition gc_stream (W : N) (evict : bool) (f : option frule) (l : list ent) : list ent :=
  let s := sort_ents l in gc_groups (S (length s)) W evict f s.

(* ---- trees ---- *)
Record memt := { m_id : N; m_ents : list ent }.
Record version := {
  v_seq : N;
  v_active : N;
  v_sealed : list N;            (* memtable ids, newest first *)
  v_tables : list ent           (* all table entries of this version *)
}.
Record tree := {
  mems : list memt;             (* heap of memtables, shared between versions *)
  vers : list version;          (* newest first, never empty *)
  next_mid : N
}.

Definition tree_init : tree :=
  {| mems := [ {| m_id := 0; m_ents := [] |} ];
     vers := [ {| v_seq := 0; v_active := 0; v_sealed := []; v_tables := [] |} ];
     next_mid := 1 |}.

Definition dummy_version : version :=
  {| v_seq := 0; v_active := 0; v_sealed := []; v_tables := [] |}.
Definition latest (t : tree) : version := hd dummy_version (vers t).

Definition mem_of (t : tree) (id : N) : list ent :=
  match find (fun m => m_id m =? id) (mems t) with
  | Some m => m_ents m
  | None => []
  end.
Definition set_mem (t : tree) (id : N) (l : list ent) : list memt :=
  map (fun m => if m_id m =? id then {| m_id := id; m_ents := l |} else m) (mems t).

Definition with_latest (t : tree) (v : version) : list version :=
  match vers t with
  | [] => [v]
  | _ :: r => v :: r
  end.

(* SuperVersions::get_version_for_snapshot *)
Definition select_version (t : tree) (I : N) : option version :=
  if I =? 0 then Some (last (vers t) dummy_version)
  else find (fun v => v_seq v <? I) (vers t).

(* append to the active memtable of the latest version *)
Definition t_append (t : tree) (e : ent) : tree :=
  let a := v_active (latest t) in
  {| mems := set_mem t a (mem_insert e (mem_of t a)); vers := vers t; next_mid := next_mid t |}.

(* Tree::rotate_memtable: replaces the latest version in place, no seqno *)
Definition t_rotate (t : tree) : tree * bool :=
  let v := latest t in
  match mem_of t (v_active v) with
  | [] => (t, false)
  | _ =>
      let nid := next_mid t in
      ({| mems := {| m_id := nid; m_ents := [] |} :: mems t;
          vers := with_latest t {| v_seq := v_seq v; v_active := nid;
                                   v_sealed := v_active v :: v_sealed v;
                                   v_tables := v_tables v |};
          next_mid := nid + 1 |}, true)
  end.

(* SuperVersions::maintenance *)
Fixpoint keep_from_first (p : version -> bool) (l : list version) : list version :=
  (* l newest first: keep everything up to and including the first (= newest) match *)
  match l with
  | [] => []
  | v :: r => if p v then [v] else v :: keep_from_first p r
  end.
Definition vh_maintenance (W : N) (t : tree) : tree :=
  if W =? 0 then t
  else match vers t with
       | [] | [_] => t
       | _ => if existsb (fun v => v_seq v <? W) (vers t)
              then {| mems := mems t; vers := keep_from_first (fun v => v_seq v <? W) (vers t);
                      next_mid := next_mid t |}
              else t
       end.

(* AbstractTree::flush + register_tables: all sealed memtables at once.
   [s] is the seqno drawn for the new super-version. *)
Definition t_flush (W : N) (s : N) (t : tree) : tree * bool :=
  let v := latest t in
  match v_sealed v with
  | [] => (t, false)
  | ids =>
      let ents := flat_map (mem_of t) ids in
      let out := gc_stream W false None ents in
      match out with
      | [] => (t, true)      (* nothing to write: no registration *)
      | _ =>
        (vh_maintenance W
          {| mems := mems t;
             vers := {| v_seq := s; v_active := v_active v; v_sealed := [];
                        v_tables := out ++ v_tables v |} :: vers t;
             next_mid := next_mid t |}, true)
      end
  end.

(* compaction over all tables of the latest version *)
Definition t_compact (W : N) (s : N) (evict : bool) (f : option frule) (t : tree) : tree :=
  let v := latest t in
  match v_tables v with
  | [] => t
  | tb =>
      vh_maintenance W
        {| mems := mems t;
           vers := {| v_seq := s; v_active := v_active v; v_sealed := v_sealed v;
                      v_tables := gc_stream W evict f tb |} :: vers t;
           next_mid := next_mid t |}
  end.

(* Tree::clear *)
Definition t_clear (s : N) (t : tree) : tree :=
  let nid := next_mid t in
  {| mems := {| m_id := nid; m_ents := [] |} :: mems t;
     vers := {| v_seq := s; v_active := nid; v_sealed := []; v_tables := [] |} :: vers t;
     next_mid := nid + 1 |}.

(* Tree::clear_active_memtable (recovery only): replaces latest in place *)
Definition t_clear_active (t : tree) : tree :=
  let v := latest t in
  match mem_of t (v_active v) with
  | [] => t
  | _ =>
      let nid := next_mid t in
      {| mems := {| m_id := nid; m_ents := [] |} :: mems t;
         vers := with_latest t {| v_seq := v_seq v; v_active := nid; v_sealed := [];
                                  v_tables := v_tables v |};
         next_mid := nid + 1 |}
  end.

(* register ingested tables (all entries carry the global seqno g) *)
Definition t_register_ingest (g : N) (items : list ent) (t : tree) : tree :=
  let v := latest t in
  {| mems := mems t;
     vers := {| v_seq := g; v_active := v_active v; v_sealed := v_sealed v;
                v_tables := items ++ v_tables v |} :: vers t;
     next_mid := next_mid t |}.

(* ---- reads ---- *)
Definition first_some {A} (l : list (option A)) : option A :=
  fold_right (fun o acc => match o with Some _ => o | None => acc end) None l.

(* point read: first hit in active -> sealed (newest first) -> tables *)
Definition v_get_ent (t : tree) (v : version) (k : bytes) (I : N) : option ent :=
  first_some (newest k I (mem_of t (v_active v))
              :: map (fun id => newest k I (mem_of t id)) (v_sealed v)
              ++ [newest k I (v_tables v)]).

(* all entries a scan of this version merges, in source priority order *)
Definition v_all (t : tree) (v : version) : list ent :=
  mem_of t (v_active v) ++ flat_map (mem_of t) (v_sealed v) ++ v_tables v.

Fixpoint ins_key (k : bytes) (l : list bytes) : list bytes :=
  match l with
  | [] => [k]
  | x :: r => if bytes_ltb k x then k :: l else if list_eqb k x then l else x :: ins_key k r
  end.
Definition keys_of (l : list ent) : list bytes := fold_right (fun e acc => ins_key (ek e) acc) [] l.

(* merged scan: per key the highest visible seqno wins; tombstones hide *)
Definition vis (I : N) (l : list ent) : list ent := filter (fun e => es e <? I) l.
Definition scan_ents (l : list ent) (I : N) : list (bytes * bytes) :=
  let vl := vis I l in
  flat_map (fun k => match newest k I vl with
                     | Some e => if is_tomb e then [] else [(k, ev e)]
                     | None => []
                     end) (keys_of vl).

Definition t_get (t : tree) (k : bytes) (I : N) : option (option bytes) :=
  match select_version t I with
  | None => None                               (* "should always find a SuperVersion" panics *)
  | Some v => Some (match v_get_ent t v k I with
                    | Some e => if is_tomb e then None else Some (ev e)
                    | None => None
                    end)
  end.

Definition t_scan (t : tree) (I : N) : option (list (bytes * bytes)) :=
  match select_version t I with
  | None => None
  | Some v => Some (scan_ents (v_all t v) I)
  end.

Definition t_highest_mem (t : tree) : option N :=
  let v := latest t in
  omax (max_seq (mem_of t (v_active v)))
       (fold_right (fun id acc => omax (max_seq (mem_of t id)) acc) None (v_sealed v)).
Definition t_highest_persisted (t : tree) : option N := max_seq (v_tables (latest t)).
Definition t_highest (t : tree) : option N := omax (t_highest_mem t) (t_highest_persisted t).
Definition t_sealed_count (t : tree) : nat := length (v_sealed (latest t)).
Definition t_active_empty (t : tree) : bool :=
  match mem_of t (v_active (latest t)) with [] => true | _ => false end.

Definition MAXSEQ : N := 18446744073709551615.   (* SeqNo::MAX *)
