(* Writer.v — the journal writer's buffering and persist modes (src/journal/writer.rs):
   an 8 KiB std::io::BufWriter over the journal file, the is_buffer_dirty flag, persist(Buffer|SyncData|SyncAll).
   The file is modelled as the byte list handed to the OS plus the length known to be durable. *)
From FJ Require Export Bytes.

Inductive pmode := PBuffer | PSyncData | PSyncAll.
Inductive oseffect := OsWrite (len : nat) | OsFdatasync | OsFsync.

Record wst := {
  w_buf : bytes;          (* BufWriter's user-space buffer *)
  w_os : bytes;           (* bytes handed to the OS (survive a process crash) *)
  w_synced : nat;         (* length of w_os known durable (survives power loss) *)
  w_dirty : bool;         (* is_buffer_dirty *)
  w_log : list oseffect   (* system calls issued, newest first *)
}.

Definition CAP : nat := 8192.          (* JOURNAL_BUFFER_BYTES *)

Definition w_init : wst := {| w_buf := []; w_os := []; w_synced := 0; w_dirty := false; w_log := [] |}.

Definition flush_buf (s : wst) : wst :=
  match w_buf s with
  | [] => s
  | b => {| w_buf := []; w_os := w_os s ++ b; w_synced := w_synced s; w_dirty := w_dirty s;
            w_log := OsWrite (length b) :: w_log s |}
  end.

(* BufWriter::write_all(data) for one entry: spill if it does not fit, bypass the buffer if it is large *)
Definition w_write_all (s : wst) (data : bytes) : wst :=
  let s1 := if Nat.ltb CAP (length (w_buf s) + length data) then flush_buf s else s in
  if Nat.leb CAP (length data)
  then {| w_buf := w_buf s1; w_os := w_os s1 ++ data; w_synced := w_synced s1; w_dirty := w_dirty s1;
          w_log := OsWrite (length data) :: w_log s1 |}
  else {| w_buf := w_buf s1 ++ data; w_os := w_os s1; w_synced := w_synced s1; w_dirty := w_dirty s1;
          w_log := w_log s1 |}.

(* write_raw / write_clear / write_batch: mark dirty, then one write_all per entry (Start, items, End) *)
Definition w_write_batch (s : wst) (entries : list bytes) : wst :=
  fold_left w_write_all entries
    {| w_buf := w_buf s; w_os := w_os s; w_synced := w_synced s; w_dirty := true; w_log := w_log s |}.

Definition w_persist (s : wst) (m : pmode) : wst :=
  let s1 := if w_dirty s
            then let f := flush_buf s in
                 {| w_buf := w_buf f; w_os := w_os f; w_synced := w_synced f; w_dirty := false; w_log := w_log f |}
            else s in
  match m with
  | PBuffer => s1
  | PSyncData => {| w_buf := w_buf s1; w_os := w_os s1; w_synced := length (w_os s1); w_dirty := w_dirty s1;
                    w_log := OsFdatasync :: w_log s1 |}
  | PSyncAll => {| w_buf := w_buf s1; w_os := w_os s1; w_synced := length (w_os s1); w_dirty := w_dirty s1;
                   w_log := OsFsync :: w_log s1 |}
  end.

(* the logical byte stream written so far, and what survives *)
Definition w_content (s : wst) : bytes := w_os s ++ w_buf s.
Definition crash_image (s : wst) : bytes := w_os s.
Definition powerloss_image (s : wst) : bytes := firstn (w_synced s) (w_os s).

Inductive wop := WBatch (entries : list bytes) | WPersist (m : pmode).
Definition w_step (s : wst) (o : wop) : wst :=
  match o with WBatch es => w_write_batch s es | WPersist m => w_persist s m end.
