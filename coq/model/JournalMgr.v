(* JournalMgr.v — sealing and reclaiming journals (src/journal/manager.rs, src/supervisor.rs build_seqno_map,
   src/worker_pool.rs worker_tick Flush arm, src/keyspace/mod.rs write path / rotate_memtable, flush of sealed memtables).
   Every step below is one critical section of the code (journal lock / journal-manager lock), so a run of the model
   is one interleaving of the real threads at the granularity of those sections. *)
From FJ Require Export Bytes.

Record jitem := { j_recs : list (N * N);       (* (keyspace id, seqno) of every record in the file *)
                  j_wms : list (N * N) }.      (* eviction watermarks: (keyspace id, lsn) *)

Record jm := {
  m_next : N;                          (* next seqno *)
  m_kss : list N;                      (* keyspaces known to the supervisor *)
  m_act : N -> list N;                 (* seqnos in the active memtable, oldest first *)
  m_sld : N -> list N;                 (* seqnos in sealed (not yet flushed) memtables, oldest first *)
  m_flushed : N -> list N;             (* every seqno that ever reached a table of the keyspace *)
  m_tab : N -> list N;                 (* seqnos present in the current tables (compaction may drop superseded ones) *)
  m_del : N -> bool;                   (* is_deleted flag *)
  m_active : list (N * N);             (* records of the active journal *)
  m_sealed : list jitem;               (* sealed journals, oldest first *)
  m_evicted : list (N * N)             (* records of journal files that were unlinked (ghost, for the theorems) *)
}.

Definition upd {A} (f : N -> A) (k : N) (v : A) : N -> A := fun x => if x =? k then v else f x.

Definition max_list (l : list N) : option N :=
  match l with [] => None | x :: r => Some (fold_left N.max r x) end.

(* get_highest_persisted_seqno *)
Definition persisted (s : jm) (k : N) : option N := max_list (m_tab s k).
(* get_highest_memtable_seqno: active and sealed memtables *)
Definition mem_high (s : jm) (k : N) : option N := max_list (m_sld s k ++ m_act s k).

(* Supervisor::build_seqno_map *)
Definition build_seqno_map (s : jm) : list (N * N) :=
  flat_map (fun k => match mem_high s k with Some l => [(k, l)] | None => [] end) (m_kss s).

(* JournalManager::maintenance: is the watermark satisfied? *)
Definition wm_ok (s : jm) (w : N * N) : bool :=
  m_del s (fst w) || match persisted s (fst w) with Some p => snd w <=? p | None => false end.
Definition can_evict (s : jm) (it : jitem) : bool := forallb (wm_ok s) (j_wms it).

Fixpoint evict_loop (s : jm) (items : list jitem) : list jitem * list (N * N) :=
  match items with
  | [] => ([], [])
  | it :: r => if can_evict s it then let (r', ev) := evict_loop s r in (r', j_recs it ++ ev)
               else (items, [])
  end.

Inductive jop :=
| JCreate (k : N)            (* create keyspace *)
| JWrite (ks : list N)       (* one batch: draws a seqno, journal record + memtable insert per keyspace, under the journal lock *)
| JRotate (k : N)            (* rotate_memtable *)
| JFlush (k : N)             (* flush of all sealed memtables of k (tables registered) *)
| JSeal                      (* worker: journal > 64 MB -> build_seqno_map + rotate_journal, under the journal lock *)
| JMaint                     (* JournalManager::maintenance *)
| JDelete (k : N)            (* delete_keyspace *)
| JCompactDrop (k : N) (x : N).   (* a compaction drops seqno x from the tables (superseded version, evicted tombstone) *)

Definition set_mem (s : jm) act sld flushed tab : jm :=
  {| m_next := m_next s; m_kss := m_kss s; m_act := act; m_sld := sld; m_flushed := flushed; m_tab := tab;
     m_del := m_del s; m_active := m_active s; m_sealed := m_sealed s; m_evicted := m_evicted s |}.

Definition jstep (s : jm) (o : jop) : jm :=
  match o with
  | JCreate k =>
      if existsb (N.eqb k) (m_kss s) then s else
      {| m_next := m_next s; m_kss := k :: m_kss s; m_act := m_act s; m_sld := m_sld s; m_flushed := m_flushed s;
         m_tab := m_tab s; m_del := m_del s; m_active := m_active s; m_sealed := m_sealed s; m_evicted := m_evicted s |}
  | JWrite ks =>
      let ks := filter (fun k => existsb (N.eqb k) (m_kss s) && negb (m_del s k)) ks in
      let q := m_next s in
      {| m_next := q + 1; m_kss := m_kss s;
         m_act := fold_left (fun f k => upd f k (f k ++ [q])) ks (m_act s);
         m_sld := m_sld s; m_flushed := m_flushed s; m_tab := m_tab s; m_del := m_del s;
         m_active := m_active s ++ map (fun k => (k, q)) ks; m_sealed := m_sealed s; m_evicted := m_evicted s |}
  | JRotate k =>
      set_mem s (upd (m_act s) k []) (upd (m_sld s) k (m_sld s k ++ m_act s k)) (m_flushed s) (m_tab s)
  | JFlush k =>
      set_mem s (m_act s) (upd (m_sld s) k []) (upd (m_flushed s) k (m_flushed s k ++ m_sld s k))
              (upd (m_tab s) k (m_tab s k ++ m_sld s k))
  | JSeal =>
      {| m_next := m_next s; m_kss := m_kss s; m_act := m_act s; m_sld := m_sld s; m_flushed := m_flushed s;
         m_tab := m_tab s; m_del := m_del s; m_active := [];
         m_sealed := m_sealed s ++ [{| j_recs := m_active s; j_wms := build_seqno_map s |}]; m_evicted := m_evicted s |}
  | JMaint =>
      let (rest, ev) := evict_loop s (m_sealed s) in
      {| m_next := m_next s; m_kss := m_kss s; m_act := m_act s; m_sld := m_sld s; m_flushed := m_flushed s;
         m_tab := m_tab s; m_del := m_del s; m_active := m_active s; m_sealed := rest; m_evicted := m_evicted s ++ ev |}
  | JDelete k =>
      {| m_next := m_next s; m_kss := m_kss s; m_act := m_act s; m_sld := m_sld s; m_flushed := m_flushed s;
         m_tab := m_tab s; m_del := upd (m_del s) k true; m_active := m_active s; m_sealed := m_sealed s;
         m_evicted := m_evicted s |}
  | JCompactDrop k x =>
      set_mem s (m_act s) (m_sld s) (m_flushed s) (upd (m_tab s) k (filter (fun y => negb (y =? x)) (m_tab s k)))
  end.

Definition jinit : jm :=
  {| m_next := 0; m_kss := []; m_act := fun _ => []; m_sld := fun _ => []; m_flushed := fun _ => [];
     m_tab := fun _ => []; m_del := fun _ => false; m_active := []; m_sealed := []; m_evicted := [] |}.

Definition jrun (ops : list jop) : jm := fold_left jstep ops jinit.
Definition journal_count (s : jm) : N := N.of_nat (length (m_sealed s)) + 1.
