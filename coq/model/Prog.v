(* Prog.v — the program interpreter over the model: one observation per operation.
   The same programs run against the implementation through `fjv`.          *)
From FJ Require Export Db.

Inductive obsx := Ox (o : obs) | OxOptN (o : option N).

Definition TXBASE : N := 9223372036854775808.   (* 0x8000_0000_0000_0000 *)

Definition handle_ks (d : db) (h : N) : option kspace :=
  match alookup h (d_handles d) with
  | Some id => ks_of d id
  | None => None
  end.

Definition set_trk (d : db) (t : tracker) : db := upd d (d_seqno d) t (d_kss d).

Definition set_tx (d : db) (t : N) (x : txst) : db :=
  upd_views d (d_handles d) (d_snaps d) (d_iters d) (aset t x (d_txs d)) (d_occ d).
Definition del_tx (d : db) (t : N) : db :=
  upd_views d (d_handles d) (d_snaps d) (d_iters d) (aremove t (d_txs d)) (d_occ d).

Definition resolve_view (d : db) (v : view) : option rview :=
  match v with
  | VwNone => Some RvLatest
  | VwSnap n => match alookup n (d_snaps d) with Some i => Some (RvAt i) | None => None end
  | VwTx t => match alookup t (d_txs d) with Some x => Some (RvTx x) | None => None end
  end.

(* SSI read tracking *)
Definition mark (d : db) (v : view) (id : N) (r : option rd) : db :=
  match d_mode d, v, r with
  | MOcc, VwTx t, Some r' =>
      match alookup t (d_txs d) with
      | Some x => set_tx d t {| tx_instant := tx_instant x; tx_over := tx_over x; tx_seq := tx_seq x;
                                tx_cm := cm_read (tx_cm x) id r' |}
      | None => d
      end
  | _, _, _ => d
  end.

Definition apply_fn (f : fnspec) (prev : option bytes) : option bytes :=
  match f with
  | FnNone => None
  | FnSet v => Some v
  | FnApp v => Some (match prev with Some p => p ++ v | None => v end)
  end.

Definition opt_bytes_eqb (a b : option bytes) : bool :=
  match a, b with
  | Some x, Some y => list_eqb x y
  | None, None => true
  | _, _ => false
  end.

Definition tx_write (x : txst) (id : N) (k v : bytes) (vt : vtype) (track : bool) : txst :=
  {| tx_instant := tx_instant x;
     tx_over := aset id (mem_insert (mkEnt k (tx_seq x) vt v) (over_of x id)) (tx_over x);
     tx_seq := tx_seq x + 1;
     tx_cm := if track then cm_write (tx_cm x) id k else tx_cm x |}.

(* fetch_update / update_fetch inside a transaction; returns (tx', prev, updated) or None on a failed read *)
Definition tx_rmw (occ : bool) (x : txst) (id : N) (t : tree) (k : bytes) (f : fnspec)
  : option (txst * option bytes * option bytes) :=
  match tx_get_raw x id t k with
  | None => None
  | Some prev =>
      let updated := apply_fn f prev in
      let x1 := match updated with
                | Some v => if opt_bytes_eqb prev (Some v) then x else tx_write x id k v VValue false
                | None => match prev with Some _ => tx_write x id k [] VTomb false | None => x end
                end in
      let x2 := if occ then
                  {| tx_instant := tx_instant x1; tx_over := tx_over x1; tx_seq := tx_seq x1;
                     tx_cm := cm_write (cm_read (tx_cm x1) id (RdSingle k)) id k |}
                else x1 in
      Some (x2, prev, updated)
  end.

(* newest entry per key of an ephemeral memtable, as batch items *)
Definition commit_items_of (id : N) (over : list ent) : list ritem :=
  flat_map (fun k => match newest k TWO64 over with
                     | Some e => [{| ri_ks := id; ri_key := k; ri_value := ev e; ri_vt := et e |}]
                     | None => []
                     end) (keys_of over).

Definition tx_items (x : txst) : list ritem :=
  flat_map (fun p => commit_items_of (fst p) (snd p)) (tx_over x).

Definition close_n (cfg : defects) (d : db) (i : N) : db := set_trk d (tr_close (d_trk d) i).

(* committing a write transaction; result obs *)
Definition tx_commit (cfg : defects) (d : db) (x : txst) : db * obs :=
  match tx_over x with
  | [] => (close_n cfg d (tx_instant x), ObOk)
  | _ =>
    match d_mode d with
    | MOcc =>
        let conflicted := existsb (fun p => (tx_instant x <? fst p) && has_conflict (tx_cm x) (snd p)) (d_occ d) in
        let d1 := close_n cfg d (tx_instant x) in                       (* close_raw in with_commit *)
        let W := W_of d1 in
        let d2 := upd_views d1 (d_handles d1) (d_snaps d1) (d_iters d1) (d_txs d1)
                    (filter (fun p => W <? fst p) (d_occ d1)) in
        let second := fun dd => if d_double_close cfg then close_n cfg dd (tx_instant x) else dd in
        if conflicted then (second d2, ObConflict)
        else if d_poisoned d2 then (second d2, ObErr E_POISONED)
        else
          let items := tx_items x in
          let d3 := commit_batch d2 items items in
          let d4 := upd_views d3 (d_handles d3) (d_snaps d3) (d_iters d3) (d_txs d3)
                      ((visible (d_trk d3), tx_cm x) :: d_occ d3) in
          (second d4, ObOk)
    | _ =>
        if d_poisoned d then (close_n cfg d (tx_instant x), ObErr E_POISONED)
        else let items := tx_items x in
             (close_n cfg (commit_batch d items items) (tx_instant x), ObOk)
    end
  end.

Definition tx_new (d : db) : db * txst :=
  let (trk, i) := tr_open (d_trk d) in
  (set_trk d trk, {| tx_instant := i; tx_over := []; tx_seq := TXBASE; tx_cm := cm_empty |}).

(* single-operation helper on a transactional keyspace: write_tx; op; commit *)
Definition helper_write (cfg : defects) (d : db) (id : N) (k v : bytes) (vt : vtype) : db * obs :=
  let (d1, x) := tx_new d in
  tx_commit cfg d1 (tx_write x id k v vt true).

Definition helper_rmw (cfg : defects) (d : db) (id : N) (t : tree) (k : bytes) (f : fnspec) (ret_prev : bool)
  : db * obs :=
  let (d1, x) := tx_new d in
  match tx_rmw (match d_mode d with MOcc => true | _ => false end) x id t k f with
  | None => (d1, ObPanic)
  | Some (x', prev, updated) =>
      let (d2, o) := tx_commit cfg d1 x' in
      match o with
      | ObOk => (d2, ObOpt (if ret_prev then prev else updated))
      | _ => (d2, o)
      end
  end.

Definition any_tx_open (d : db) : bool := match d_txs d with [] => false | _ => true end.

Definition kv_hd (l : list (bytes * bytes)) : option (bytes * bytes) :=
  match l with [] => None | x :: _ => Some x end.
Definition kv_last (l : list (bytes * bytes)) : option (bytes * bytes) :=
  match l with [] => None | _ => Some (last l ([], [])) end.

Definition read_op (d : db) (v : view) (h : N)
  (track : option rd)
  (f : rview -> N -> tree -> option obsx) : db * obsx :=
  match handle_ks d h, resolve_view d v with
  | Some ks, Some rv =>
      match f rv (k_id ks) (k_tree ks) with
      | Some o => (mark d v (k_id ks) track, o)
      | None => (d, Ox ObPanic)
      end
  | _, _ => (d, Ox ObBadref)
  end.

Definition omap {A B} (f : A -> B) (o : option A) : option B :=
  match o with Some a => Some (f a) | None => None end.

Definition db_step (cfg : defects) (d : db) (o : op) : db * obsx :=
  let ox := fun (p : db * obs) => (fst p, Ox (snd p)) in
  let istx := match d_mode d with MPlain => false | _ => true end in
  let isocc := match d_mode d with MOcc => true | _ => false end in
  match o with
  | OReopen => (do_reopen cfg d, Ox ObOk)
  | OKs h name => ox (do_ks d h name)
  | ODelKs h => ox (do_delks d h)
  | ODropH h =>
      match alookup h (d_handles d) with
      | Some _ => (upd_views d (aremove h (d_handles d)) (d_snaps d) (d_iters d) (d_txs d) (d_occ d), Ox ObOk)
      | None => (d, Ox ObBadref)
      end
  | OExists name => (d, Ox (ObBool (match blookup name (d_map d) with Some _ => true | None => false end)))
  | ONames => (d, Ox (ObNames (map fst (d_map d))))
  | OPut h k v =>
      match handle_ks d h with
      | None => (d, Ox ObBadref)
      | Some ks => if istx then (if (match d_mode d with MSw => any_tx_open d | _ => false end)
                                 then (d, Ox (ObErr E_BUSY)) else ox (helper_write cfg d (k_id ks) k v VValue))
                   else ox (write_one d (k_id ks) k v VValue VValue)
      end
  | ODel h k =>
      match handle_ks d h with
      | None => (d, Ox ObBadref)
      | Some ks => if istx then (if (match d_mode d with MSw => any_tx_open d | _ => false end)
                                 then (d, Ox (ObErr E_BUSY)) else ox (helper_write cfg d (k_id ks) k [] VTomb))
                   else ox (write_one d (k_id ks) k [] VTomb VTomb)
      end
  | ODelW h k =>
      match handle_ks d h with
      | None => (d, Ox ObBadref)
      | Some ks => if istx then (if (match d_mode d with MSw => any_tx_open d | _ => false end)
                                 then (d, Ox (ObErr E_BUSY)) else ox (helper_write cfg d (k_id ks) k [] VWeak))
                   else ox (write_one d (k_id ks) k [] VWeak VTomb)
      end
  | OClear h =>
      match handle_ks d h with
      | None => (d, Ox ObBadref)
      | Some ks => ox (do_clear d (k_id ks))
      end
  | OBatch items =>
      let resolved := map (fun it => match it with
                                     | BPut h k v => omap (fun ks => {| ri_ks := k_id ks; ri_key := k; ri_value := v; ri_vt := VValue |}) (handle_ks d h)
                                     | BDel h k => omap (fun ks => {| ri_ks := k_id ks; ri_key := k; ri_value := []; ri_vt := VTomb |}) (handle_ks d h)
                                     | BDelW h k => omap (fun ks => {| ri_ks := k_id ks; ri_key := k; ri_value := []; ri_vt := VWeak |}) (handle_ks d h)
                                     end) items in
      if existsb (fun x => match x with None => true | Some _ => false end) resolved then (d, Ox ObBadref)
      else
        let its := flat_map (fun x => match x with Some i => [i] | None => [] end) resolved in
        match its with
        | [] => (d, Ox ObOk)
        | _ => if d_poisoned d then (d, Ox (ObErr E_POISONED)) else (commit_batch d its its, Ox ObOk)
        end
  | OIngest h items =>
      match handle_ks d h with
      | None => (d, Ox ObBadref)
      | Some ks => ox (do_ingest d (k_id ks) items)
      end
  | OPersist => (d, Ox (if d_poisoned d then ObErr E_POISONED else ObOk))
  | OTake h k =>
      match handle_ks d h with
      | None => (d, Ox ObBadref)
      | Some ks => if negb istx then (d, Ox (ObErr E_NOTX))
                   else if (match d_mode d with MSw => any_tx_open d | _ => false end) then (d, Ox (ObErr E_BUSY))
                   else ox (helper_rmw cfg d (k_id ks) (k_tree ks) k FnNone true)
      end
  | OFu h k f =>
      match handle_ks d h with
      | None => (d, Ox ObBadref)
      | Some ks => if negb istx then (d, Ox (ObErr E_NOTX))
                   else if (match d_mode d with MSw => any_tx_open d | _ => false end) then (d, Ox (ObErr E_BUSY))
                   else ox (helper_rmw cfg d (k_id ks) (k_tree ks) k f true)
      end
  | OUf h k f =>
      match handle_ks d h with
      | None => (d, Ox ObBadref)
      | Some ks => if negb istx then (d, Ox (ObErr E_NOTX))
                   else if (match d_mode d with MSw => any_tx_open d | _ => false end) then (d, Ox (ObErr E_BUSY))
                   else ox (helper_rmw cfg d (k_id ks) (k_tree ks) k f false)
      end
  | OGet v h k =>
      read_op d v h (Some (RdSingle k)) (fun rv id t => omap (fun r => Ox (ObOpt r)) (view_get rv id t k))
  | OHas v h k =>
      read_op d v h (Some (RdSingle k))
        (fun rv id t => omap (fun r => Ox (ObBool (match r with Some _ => true | None => false end))) (view_get rv id t k))
  | OSize v h k =>
      read_op d v h (if d_sizeof_untracked cfg then None else Some (RdSingle k))
        (fun rv id t => omap (fun r => OxOptN (omap blen r)) (view_get rv id t k))
  | OFirst v h => read_op d v h (Some RdAll) (fun rv id t => omap (fun l => Ox (ObKv (kv_hd l))) (view_scan rv id t))
  | OLast v h => read_op d v h (Some RdAll) (fun rv id t => omap (fun l => Ox (ObKv (kv_last l))) (view_scan rv id t))
  | OLen v h => read_op d v h (Some RdAll) (fun rv id t => omap (fun l => Ox (ObNum (N.of_nat (length l)))) (view_scan rv id t))
  | OEmpty v h => read_op d v h (Some RdAll)
                    (fun rv id t => omap (fun l => Ox (ObBool (match l with [] => true | _ => false end))) (view_scan rv id t))
  | OScan v h dir r =>
      read_op d v h (Some (rd_of_range r))
        (fun rv id t => omap (fun l => Ox (ObList (consume dir (restrict r l)))) (view_scan rv id t))
  | OSnapOpen s =>
      let (trk, i) := tr_open (d_trk d) in
      let d1 := set_trk d trk in
      (upd_views d1 (d_handles d1) (aset s i (d_snaps d1)) (d_iters d1) (d_txs d1) (d_occ d1), Ox (ObOkN i))
  | OSnapClose s =>
      match alookup s (d_snaps d) with
      | None => (d, Ox ObBadref)
      | Some i => let d1 := set_trk d (tr_close (d_trk d) i) in
                  (upd_views d1 (d_handles d1) (aremove s (d_snaps d1)) (d_iters d1) (d_txs d1) (d_occ d1), Ox ObOk)
      end
  | OItOpen i v h r =>
      match handle_ks d h, resolve_view d v with
      | Some ks, Some rv =>
          (* the nonce: a fresh open for the keyspace API, a clone of the view's nonce otherwise *)
          let '(d1, inst, rv') :=
            match rv with
            | RvLatest => let (trk, i0) := tr_open (d_trk d) in (set_trk d trk, i0, RvAt i0)
            | RvAt i0 => (set_trk d (tr_clone (d_trk d) i0), i0, rv)
            | RvTx x => (set_trk d (tr_clone (d_trk d) (tx_instant x)), tx_instant x, rv)
            end in
          match view_scan rv' (k_id ks) (k_tree ks) with
          | None => (d1, Ox ObPanic)
          | Some l =>
              let d2 := mark d1 v (k_id ks) (Some (rd_of_range r)) in
              (upd_views d2 (d_handles d2) (d_snaps d2)
                         (aset i {| it_items := restrict r l; it_instant := inst |} (d_iters d2))
                         (d_txs d2) (d_occ d2), Ox ObOk)
          end
      | _, _ => (d, Ox ObBadref)
      end
  | OItNext i =>
      match alookup i (d_iters d) with
      | None => (d, Ox ObBadref)
      | Some s => (upd_views d (d_handles d) (d_snaps d)
                     (aset i {| it_items := tl (it_items s); it_instant := it_instant s |} (d_iters d))
                     (d_txs d) (d_occ d), Ox (ObKv (kv_hd (it_items s))))
      end
  | OItBack i =>
      match alookup i (d_iters d) with
      | None => (d, Ox ObBadref)
      | Some s => (upd_views d (d_handles d) (d_snaps d)
                     (aset i {| it_items := removelast (it_items s); it_instant := it_instant s |} (d_iters d))
                     (d_txs d) (d_occ d), Ox (ObKv (kv_last (it_items s))))
      end
  | OItClose i =>
      match alookup i (d_iters d) with
      | None => (d, Ox ObBadref)
      | Some s => let d1 := set_trk d (tr_close (d_trk d) (it_instant s)) in
                  (upd_views d1 (d_handles d1) (d_snaps d1) (aremove i (d_iters d1)) (d_txs d1) (d_occ d1), Ox ObOk)
      end
  | OTxBegin t =>
      match d_mode d with
      | MPlain => (d, Ox (ObErr E_NOTX))
      | MSw => if any_tx_open d then (d, Ox (ObErr E_BUSY))
               else let (d1, x) := tx_new d in (set_tx d1 t x, Ox ObOk)
      | MOcc => let (d1, x) := tx_new d in (set_tx d1 t x, Ox ObOk)
      end
  | OTxPut t h k v =>
      match alookup t (d_txs d), handle_ks d h with
      | Some x, Some ks => (set_tx d t (tx_write x (k_id ks) k v VValue isocc), Ox ObOk)
      | _, _ => (d, Ox ObBadref)
      end
  | OTxDel t h k =>
      match alookup t (d_txs d), handle_ks d h with
      | Some x, Some ks => (set_tx d t (tx_write x (k_id ks) k [] VTomb isocc), Ox ObOk)
      | _, _ => (d, Ox ObBadref)
      end
  | OTxTake t h k =>
      match alookup t (d_txs d), handle_ks d h with
      | Some x, Some ks =>
          match tx_rmw isocc x (k_id ks) (k_tree ks) k FnNone with
          | None => (d, Ox ObPanic)
          | Some (x', prev, _) => (set_tx d t x', Ox (ObOpt prev))
          end
      | _, _ => (d, Ox ObBadref)
      end
  | OTxFu t h k f =>
      match alookup t (d_txs d), handle_ks d h with
      | Some x, Some ks =>
          match tx_rmw isocc x (k_id ks) (k_tree ks) k f with
          | None => (d, Ox ObPanic)
          | Some (x', prev, _) => (set_tx d t x', Ox (ObOpt prev))
          end
      | _, _ => (d, Ox ObBadref)
      end
  | OTxUf t h k f =>
      match alookup t (d_txs d), handle_ks d h with
      | Some x, Some ks =>
          match tx_rmw isocc x (k_id ks) (k_tree ks) k f with
          | None => (d, Ox ObPanic)
          | Some (x', _, upd') => (set_tx d t x', Ox (ObOpt upd'))
          end
      | _, _ => (d, Ox ObBadref)
      end
  | OTxCommit t =>
      match alookup t (d_txs d) with
      | None => (d, Ox ObBadref)
      | Some x => let (d1, o') := tx_commit cfg (del_tx d t) x in (d1, Ox o')
      end
  | OTxRollback t =>
      match alookup t (d_txs d) with
      | None => (d, Ox ObBadref)
      | Some x => (close_n cfg (del_tx d t) (tx_instant x), Ox ObOk)
      end
  | ORotate h =>
      match handle_ks d h with
      | None => (d, Ox ObBadref)
      | Some ks => let (d1, ok) := do_rotate d (k_id ks) in (d1, Ox (ObBool ok))
      end
  | OStep => let (d1, k) := do_step d in (d1, Ox (ObStep k))
  | ODrain => let (d1, n) := do_drain 200 d 0 in (d1, Ox (ObNum n))
  | OMajor h =>
      match handle_ks d h with
      | None => (d, Ox ObBadref)
      | Some ks => (do_compact d (k_id ks) true, Ox ObOk)
      end
  | OGc pullup =>
      (set_trk d (tr_gc (if pullup then tr_pullup (d_trk d) else d_trk d)), Ox ObOk)
  | ODump =>
      (d, Ox (ObDump (flat_map (fun p => match ks_of d (snd p) with
                                         | Some ks => match t_scan (k_tree ks) MAXSEQ with
                                                      | Some l => [(fst p, l)]
                                                      | None => [] end
                                         | None => [] end) (d_map d))))
  end.

Definition as_is : defects :=
  {| d_replay_shadow := false; d_clear_replay := false; d_iter_max := false; d_id_reuse := false;
     d_double_close := false; d_sizeof_untracked := false; d_seqno_journal := false |}.
Definition ideal : defects :=
  {| d_replay_shadow := false; d_clear_replay := false; d_iter_max := false; d_id_reuse := false;
     d_double_close := false; d_sizeof_untracked := false; d_seqno_journal := false |}.

Fixpoint run (cfg : defects) (d : db) (ops : list op) : db * list obsx :=
  match ops with
  | [] => (d, [])
  | o :: r => let (d1, x) := db_step cfg d o in
              let (d2, xs) := run cfg d1 r in (d2, x :: xs)
  end.
