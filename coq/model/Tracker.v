(* Tracker.v — src/snapshot_tracker.rs, exactly as coded *)
From FJ Require Export Bytes.

Record tracker := {
  visible : N;                    (* SnapshotTrackerInner.seqno (shared visible seqno) *)
  tdata : list (N * N);           (* instant -> count (DashMap); at most one row per instant *)
  freed : N;                      (* freed_count *)
  lowest_freed : N                (* lowest_freed_instant = GC watermark *)
}.

Definition tr_init (vis : N) : tracker :=
  {| visible := vis; tdata := []; freed := 0; lowest_freed := 0 |}.

Fixpoint bump (i : N) (l : list (N * N)) : list (N * N) :=
  match l with
  | [] => [(i, 1)]
  | (k, c) :: r => if k =? i then (k, c + 1) :: r else (k, c) :: bump i r
  end.
Fixpoint unbump (i : N) (l : list (N * N)) : list (N * N) :=
  match l with
  | [] => []                                   (* alter on a missing key: nothing *)
  | (k, c) :: r => if k =? i then (k, c - 1) :: r else (k, c) :: unbump i r   (* saturating_sub *)
  end.

(* gc(): retain rows with count > 0 or instant >= visible;
   watermark := max(old, lowest_retained - 1), lowest_retained = min retained instant,
   or the visible seqno when nothing is retained *)
Definition tr_gc (t : tracker) : tracker :=
  let thr := visible t in
  let kept := filter (fun p => (0 <? snd p) || (thr <=? fst p)) (tdata t) in
  let lowest := match kept with
                | [] => thr
                | p :: r => fold_left (fun lo q => N.min lo (fst q)) r (fst p)
                end in
  {| visible := visible t; tdata := kept; freed := freed t;
     lowest_freed := N.max (lowest_freed t) (lowest - 1) |}.

Definition tr_open (t : tracker) : tracker * N :=
  let i := visible t in
  ({| visible := visible t; tdata := bump i (tdata t); freed := freed t;
      lowest_freed := lowest_freed t |}, i).

Definition tr_clone (t : tracker) (i : N) : tracker :=
  {| visible := visible t; tdata := bump i (tdata t); freed := freed t;
     lowest_freed := lowest_freed t |}.

Definition tr_close (t : tracker) (i : N) : tracker :=
  let t' := {| visible := visible t; tdata := unbump i (tdata t); freed := freed t + 1;
               lowest_freed := lowest_freed t |} in
  if (freed t + 1) mod 10000 =? 0 then tr_gc t' else t'.

Definition tr_publish (t : tracker) (s : N) : tracker :=
  {| visible := N.max (visible t) (s + 1); tdata := tdata t; freed := freed t;
     lowest_freed := lowest_freed t |}.

Definition tr_set_visible (t : tracker) (s : N) : tracker :=
  {| visible := N.max (visible t) s; tdata := tdata t; freed := freed t;
     lowest_freed := lowest_freed t |}.

Definition tr_pullup (t : tracker) : tracker :=
  match tdata t with
  | [] => {| visible := visible t; tdata := []; freed := freed t;
             lowest_freed := visible t - 1 |}
  | _ => t
  end.

Definition tr_open_count (t : tracker) : N := fold_left (fun a p => a + snd p) (tdata t) 0.
