(* Db.v — the composed database model: write paths, journal (as a list of
   batches; the byte level is Codec/Reader), keyspace registry, background
   messages, snapshots, transactions (single-writer and SSI), recovery.
   Mirrors src/db.rs, keyspace/mod.rs, batch/mod.rs, ingestion.rs,
   recovery.rs, worker_pool.rs, flush/worker.rs, compaction/worker.rs,
   snapshot*.rs, tx/*.                                                    *)
From FJ Require Export Bytes Codec Reader Lsm Tracker.

(* ---- defect switches: [true] = what the code does today, [false] = repaired ---- *)
Record defects := {
  d_replay_shadow : bool;   (* active journal items replayed even when tables are newer (E1,E3) *)
  d_clear_replay : bool;    (* journaled Clear re-executed even when tables are newer (E11) *)
  d_iter_max : bool;        (* Keyspace::range/prefix read at SeqNo::MAX (E2) *)
  d_id_reuse : bool;        (* id counter re-seeded from surviving directories only (E5) *)
  d_double_close : bool;    (* SSI commit closes the snapshot twice (E7) *)
  d_sizeof_untracked : bool;(* size_of in an SSI write tx records no read (E8) *)
  d_seqno_journal : bool    (* recovery ignores journal batch seqnos that left no memtable entry (E14) *)
}.

(* ---- program operations ---- *)
Inductive bound := BIncl (b : bytes) | BExcl (b : bytes) | BUnb.
Inductive rangespec := RAll | RPrefix (p : bytes) | RRange (lo hi : bound).
Inductive sdir := DFwd | DRev | DZip (pat : list bool).      (* true = next, false = next_back *)
Inductive view := VwNone | VwSnap (n : N) | VwTx (n : N).
Inductive bitem := BPut (h : N) (k v : bytes) | BDel (h : N) (k : bytes) | BDelW (h : N) (k : bytes).
Inductive iitem := IPut (k v : bytes) | ITomb (k : bytes).
Inductive fnspec := FnNone | FnSet (v : bytes) | FnApp (v : bytes).
Inductive dbmode := MPlain | MSw | MOcc.

Inductive op :=
| OReopen
| OKs (h : N) (name : bytes)
| ODelKs (h : N) | ODropH (h : N) | OExists (name : bytes) | ONames
| OPut (h : N) (k v : bytes) | ODel (h : N) (k : bytes) | ODelW (h : N) (k : bytes)
| OClear (h : N) | OBatch (items : list bitem) | OIngest (h : N) (items : list iitem)
| OPersist
| OTake (h : N) (k : bytes) | OFu (h : N) (k : bytes) (f : fnspec) | OUf (h : N) (k : bytes) (f : fnspec)
| OGet (v : view) (h : N) (k : bytes) | OHas (v : view) (h : N) (k : bytes)
| OSize (v : view) (h : N) (k : bytes)
| OFirst (v : view) (h : N) | OLast (v : view) (h : N) | OLen (v : view) (h : N)
| OEmpty (v : view) (h : N) | OScan (v : view) (h : N) (d : sdir) (r : rangespec)
| OSnapOpen (s : N) | OSnapClose (s : N)
| OItOpen (i : N) (v : view) (h : N) (r : rangespec) | OItNext (i : N) | OItBack (i : N) | OItClose (i : N)
| OTxBegin (t : N) | OTxPut (t h : N) (k v : bytes) | OTxDel (t h : N) (k : bytes)
| OTxTake (t h : N) (k : bytes) | OTxFu (t h : N) (k : bytes) (f : fnspec)
| OTxUf (t h : N) (k : bytes) (f : fnspec)
| OTxCommit (t : N) | OTxRollback (t : N)
| ORotate (h : N) | OStep | ODrain | OMajor (h : N) | OGc (pullup : bool)
| ODump.

Inductive obs :=
| ObOk | ObErr (code : N) | ObOpt (o : option bytes) | ObBool (b : bool) | ObNum (n : N)
| ObKv (o : option (bytes * bytes)) | ObList (l : list (bytes * bytes)) | ObBadref | ObPanic
| ObOkN (n : N) | ObStep (k : N) | ObNames (l : list bytes) | ObConflict
| ObDump (l : list (bytes * list (bytes * bytes))).

Definition E_POISONED : N := 1.
Definition E_DELETED : N := 2.
Definition E_NOTX : N := 20.
Definition E_BUSY : N := 21.

(* ---- state ---- *)
Record kspace := {
  k_id : N; k_name : bytes; k_tree : tree; k_deleted : bool; k_filter : option frule
}.
Record sealedj := { sj_batches : list rbatch; sj_wm : list (N * N) }.
Inductive wmsg := WRotate (ksid mid : N) | WFlush | WCompact (ksid : N).

Inductive rd := RdSingle (k : bytes) | RdRange (lo hi : bound) | RdAll.
Record cm := { cm_reads : list (N * rd); cm_writes : list (N * bytes) }.   (* keyed by keyspace id *)

Record txst := {
  tx_instant : N;
  tx_over : list (N * list ent);      (* keyspace id -> ephemeral memtable *)
  tx_seq : N;
  tx_cm : cm
}.

Record itst := { it_items : list (bytes * bytes); it_instant : N }.

Record db := {
  d_seqno : N;
  d_trk : tracker;
  d_active : list rbatch;
  d_sealed : list sealedj;
  d_kss : list kspace;
  d_map : list (bytes * N);
  d_meta : list (N * bytes);
  d_next_id : N;
  d_dirs : list N;
  d_poisoned : bool;
  d_queue : list wmsg;
  d_flushq : list N;
  d_filters : list (bytes * frule);
  d_mode : dbmode;
  d_handles : list (N * N);           (* program handle -> keyspace id *)
  d_snaps : list (N * N);             (* snapshot name -> instant *)
  d_iters : list (N * itst);
  d_txs : list (N * txst);
  d_occ : list (N * cm);              (* SSI oracle: commit timestamp -> conflict manager *)
  d_meta_seq : N;                     (* highest seqno held by the meta tree *)
  d_jwritten : bool                   (* the journal writer has written since it was opened: a writer reopened in append
                                         mode reports position 0 until its first write (Writer::pos = stream_position) *)
}.

Definition db_init (mode : dbmode) (filters : list (bytes * frule)) : db :=
  {| d_seqno := 0; d_trk := tr_init 0; d_active := []; d_sealed := []; d_kss := [];
     d_map := []; d_meta := []; d_next_id := 1; d_dirs := []; d_poisoned := false;
     d_queue := []; d_flushq := []; d_filters := filters; d_mode := mode; d_handles := [];
     d_snaps := []; d_iters := []; d_txs := []; d_occ := []; d_meta_seq := 0;
     d_jwritten := true |}.

(* ---- small helpers ---- *)
Fixpoint alookup {A} (k : N) (l : list (N * A)) : option A :=
  match l with
  | [] => None
  | (x, a) :: r => if x =? k then Some a else alookup k r
  end.
Fixpoint aremove {A} (k : N) (l : list (N * A)) : list (N * A) :=
  match l with
  | [] => []
  | (x, a) :: r => if x =? k then aremove k r else (x, a) :: aremove k r
  end.
Definition aset {A} (k : N) (a : A) (l : list (N * A)) : list (N * A) := (k, a) :: aremove k l.

Fixpoint blookup (k : bytes) (l : list (bytes * N)) : option N :=
  match l with
  | [] => None
  | (x, a) :: r => if list_eqb x k then Some a else blookup k r
  end.
Definition bremove (k : bytes) (l : list (bytes * N)) : list (bytes * N) :=
  filter (fun p => negb (list_eqb (fst p) k)) l.

Definition ks_of (d : db) (id : N) : option kspace := find (fun k => k_id k =? id) (d_kss d).
Definition set_ks (d : db) (k : kspace) : list kspace :=
  map (fun x => if k_id x =? k_id k then k else x) (d_kss d).
Definition with_tree (k : kspace) (t : tree) : kspace :=
  {| k_id := k_id k; k_name := k_name k; k_tree := t; k_deleted := k_deleted k; k_filter := k_filter k |}.

(* record-update helpers (one per field that changes often) *)
Definition upd (d : db) (seqno : N) (trk : tracker) (kss : list kspace) : db :=
  {| d_seqno := seqno; d_trk := trk; d_active := d_active d; d_sealed := d_sealed d; d_kss := kss;
     d_map := d_map d; d_meta := d_meta d; d_next_id := d_next_id d; d_dirs := d_dirs d;
     d_poisoned := d_poisoned d; d_queue := d_queue d; d_flushq := d_flushq d;
     d_filters := d_filters d; d_mode := d_mode d; d_handles := d_handles d; d_snaps := d_snaps d;
     d_iters := d_iters d; d_txs := d_txs d; d_occ := d_occ d; d_meta_seq := d_meta_seq d;
     d_jwritten := d_jwritten d |}.
Definition upd_journal (d : db) (a : list rbatch) : db :=
  {| d_seqno := d_seqno d; d_trk := d_trk d; d_active := a; d_sealed := d_sealed d; d_kss := d_kss d;
     d_map := d_map d; d_meta := d_meta d; d_next_id := d_next_id d; d_dirs := d_dirs d;
     d_poisoned := d_poisoned d; d_queue := d_queue d; d_flushq := d_flushq d;
     d_filters := d_filters d; d_mode := d_mode d; d_handles := d_handles d; d_snaps := d_snaps d;
     d_iters := d_iters d; d_txs := d_txs d; d_occ := d_occ d; d_meta_seq := d_meta_seq d;
     d_jwritten := true |}.
Definition upd_queue (d : db) (q : list wmsg) (fq : list N) : db :=
  {| d_seqno := d_seqno d; d_trk := d_trk d; d_active := d_active d; d_sealed := d_sealed d; d_kss := d_kss d;
     d_map := d_map d; d_meta := d_meta d; d_next_id := d_next_id d; d_dirs := d_dirs d;
     d_poisoned := d_poisoned d; d_queue := q; d_flushq := fq;
     d_filters := d_filters d; d_mode := d_mode d; d_handles := d_handles d; d_snaps := d_snaps d;
     d_iters := d_iters d; d_txs := d_txs d; d_occ := d_occ d; d_meta_seq := d_meta_seq d;
     d_jwritten := d_jwritten d |}.
Definition upd_views (d : db) (hs : list (N * N)) (sn : list (N * N)) (its : list (N * itst))
  (txs : list (N * txst)) (occ : list (N * cm)) : db :=
  {| d_seqno := d_seqno d; d_trk := d_trk d; d_active := d_active d; d_sealed := d_sealed d; d_kss := d_kss d;
     d_map := d_map d; d_meta := d_meta d; d_next_id := d_next_id d; d_dirs := d_dirs d;
     d_poisoned := d_poisoned d; d_queue := d_queue d; d_flushq := d_flushq d;
     d_filters := d_filters d; d_mode := d_mode d; d_handles := hs; d_snaps := sn;
     d_iters := its; d_txs := txs; d_occ := occ; d_meta_seq := d_meta_seq d;
     d_jwritten := d_jwritten d |}.
Definition upd_reg (d : db) (kss : list kspace) (mp : list (bytes * N)) (meta : list (N * bytes))
  (next_id : N) (dirs : list N) (metaseq : N) : db :=
  {| d_seqno := d_seqno d; d_trk := d_trk d; d_active := d_active d; d_sealed := d_sealed d; d_kss := kss;
     d_map := mp; d_meta := meta; d_next_id := next_id; d_dirs := dirs;
     d_poisoned := d_poisoned d; d_queue := d_queue d; d_flushq := d_flushq d;
     d_filters := d_filters d; d_mode := d_mode d; d_handles := d_handles d; d_snaps := d_snaps d;
     d_iters := d_iters d; d_txs := d_txs d; d_occ := d_occ d; d_meta_seq := metaseq;
     d_jwritten := d_jwritten d |}.

(* a version upgrade inside lsm-tree: draws from the shared seqno counter and
   bumps the shared visible seqno (outside the journal lock) *)
Definition draw_version (d : db) : db * N :=
  let s := d_seqno d in
  (upd d (s + 1) (tr_set_visible (d_trk d) (s + 1)) (d_kss d), s).

Definition W_of (d : db) : N := lowest_freed (d_trk d).

(* ---- ranges ---- *)
Fixpoint strip_ff (rl : list N) : list N :=    (* on the reversed prefix *)
  match rl with
  | [] => []
  | b :: r => if b =? 255 then strip_ff r else (b + 1) :: r
  end.
Definition prefix_upper (p : bytes) : bound :=
  match strip_ff (rev p) with
  | [] => BUnb
  | l => BExcl (rev l)
  end.
Definition range_of (r : rangespec) : bound * bound :=
  match r with
  | RAll => (BUnb, BUnb)
  | RPrefix [] => (BUnb, BUnb)
  | RPrefix p => (BIncl p, prefix_upper p)
  | RRange lo hi => (lo, hi)
  end.
Definition in_lo (lo : bound) (k : bytes) : bool :=
  match lo with BUnb => true | BIncl b => bytes_leb b k | BExcl b => bytes_ltb b k end.
Definition in_hi (hi : bound) (k : bytes) : bool :=
  match hi with BUnb => true | BIncl b => bytes_leb k b | BExcl b => bytes_ltb k b end.
Definition in_range (r : bound * bound) (k : bytes) : bool := in_lo (fst r) k && in_hi (snd r) k.
Definition restrict (r : rangespec) (l : list (bytes * bytes)) : list (bytes * bytes) :=
  filter (fun p => in_range (range_of r) (fst p)) l.

(* consuming a double-ended iterator according to a pattern *)
Fixpoint zip_take (fuel : nat) (pat cur : list bool) (l : list (bytes * bytes)) : list (bytes * bytes) :=
  match fuel with
  | O => []
  | S n =>
      match l with
      | [] => []
      | _ =>
        match cur with
        | [] => match pat with [] => l | _ => zip_take n pat pat l end
        | true :: c => hd ([], []) l :: zip_take n pat c (tl l)
        | false :: c => last l ([], []) :: zip_take n pat c (removelast l)
        end
      end
  end.
Definition consume (d : sdir) (l : list (bytes * bytes)) : list (bytes * bytes) :=
  match d with
  | DFwd => l
  | DRev => rev l
  | DZip pat => zip_take (2 * length l + 2) pat pat l
  end.

(* ---- reading through a view ---- *)
Definition TWO64 : N := 18446744073709551616.

(* scan with a transaction overlay: overlay entries always count, tree entries below the instant *)
Definition scan_overlay (over : list ent) (t : tree) (I : N) : option (list (bytes * bytes)) :=
  match select_version t I with
  | None => None
  | Some v =>
      let base := filter (fun e => es e <? I) (v_all t v) in
      Some (scan_ents (over ++ base) TWO64)
  end.

Definition over_of (x : txst) (id : N) : list ent :=
  match alookup id (tx_over x) with Some l => l | None => [] end.

(* point read result: None = the read failed (no super-version) *)
Definition tx_get_raw (x : txst) (id : N) (t : tree) (k : bytes) : option (option bytes) :=
  match newest k TWO64 (over_of x id) with
  | Some e => Some (if is_tomb e then None else Some (ev e))
  | None => t_get t k (tx_instant x)
  end.

Inductive rview := RvLatest | RvAt (I : N) | RvTx (x : txst).

Definition view_get (rv : rview) (id : N) (t : tree) (k : bytes) : option (option bytes) :=
  match rv with
  | RvLatest => t_get t k MAXSEQ
  | RvAt i => t_get t k i
  | RvTx x => tx_get_raw x id t k
  end.
Definition view_scan (rv : rview) (id : N) (t : tree) : option (list (bytes * bytes)) :=
  match rv with
  | RvLatest => t_scan t MAXSEQ
  | RvAt i => t_scan t i
  | RvTx x => scan_overlay (over_of x id) t (tx_instant x)
  end.

(* ---- SSI conflict detection (conflict_manager.rs has_conflict) ---- *)
Definition rd_hits (r : rd) (k : bytes) : bool :=
  match r with
  | RdSingle x => list_eqb x k
  | RdRange lo hi => in_lo lo k && in_hi hi k
  | RdAll => true
  end.
Definition has_conflict (mine other : cm) : bool :=
  existsb (fun rr => existsb (fun w => (fst rr =? fst w) && rd_hits (snd rr) (snd w)) (cm_writes other))
          (cm_reads mine).

Definition cm_empty : cm := {| cm_reads := []; cm_writes := [] |}.
Definition cm_read (c : cm) (id : N) (r : rd) : cm :=
  {| cm_reads := (id, r) :: cm_reads c; cm_writes := cm_writes c |}.
Definition cm_write (c : cm) (id : N) (k : bytes) : cm :=
  {| cm_reads := cm_reads c; cm_writes := (id, k) :: cm_writes c |}.
Definition rd_of_range (r : rangespec) : rd :=
  match range_of r with
  | (BUnb, BUnb) => RdAll
  | (lo, hi) => RdRange lo hi
  end.

(* ---- write paths ---- *)
Definition mk_batch (s : N) (items : list ritem) (clears : list N) : rbatch :=
  {| rb_seqno := s; rb_items := items; rb_clears := clears |}.

Definition apply_item (s : N) (kss : list kspace) (it : ritem) : list kspace :=
  map (fun k => if k_id k =? ri_ks it
                then with_tree k (t_append (k_tree k) (mkEnt (ri_key it) s (ri_vt it) (ri_value it)))
                else k) kss.

(* one committed batch: journal append, apply every item with the one seqno, publish.
   [mem_items] is what goes to the memtables (remove_weak journals a weak tombstone
   but inserts a strong one) *)
Definition commit_batch (d : db) (jitems mem_items : list ritem) : db :=
  let s := d_seqno d in
  let d1 := upd_journal d (d_active d ++ [mk_batch s jitems []]) in
  upd d1 (s + 1) (tr_publish (d_trk d1) s) (fold_left (apply_item s) mem_items (d_kss d1)).

Definition write_one (d : db) (id : N) (k v : bytes) (vt mvt : vtype) : db * obs :=
  match ks_of d id with
  | None => (d, ObBadref)
  | Some ks =>
      if k_deleted ks then (d, ObErr E_DELETED)
      else if d_poisoned d then (d, ObErr E_POISONED)
      else (commit_batch d [{| ri_ks := id; ri_key := k; ri_value := v; ri_vt := vt |}]
                           [{| ri_ks := id; ri_key := k; ri_value := v; ri_vt := mvt |}], ObOk)
  end.

Definition do_clear (d : db) (id : N) : db * obs :=
  match ks_of d id with
  | None => (d, ObBadref)
  | Some ks =>
      if d_poisoned d then (d, ObErr E_POISONED)
      else
        let s := d_seqno d in
        let d1 := upd_journal d (d_active d ++ [mk_batch s [] [id]]) in
        let d2 := upd d1 (s + 1) (d_trk d1) (d_kss d1) in
        let (d3, vs) := draw_version d2 in
        let d4 := upd d3 (d_seqno d3) (tr_publish (d_trk d3) s)
                      (set_ks d3 (with_tree ks (t_clear vs (k_tree ks)))) in
        (d4, ObOk)
  end.

Definition push_msg (d : db) (m : wmsg) : db := upd_queue d (d_queue d ++ [m]) (d_flushq d).

Definition do_ingest (d : db) (id : N) (items : list iitem) : db * obs :=
  match ks_of d id with
  | None => (d, ObBadref)
  | Some ks =>
      match items with
      | [] => (upd (push_msg d (WCompact id)) (d_seqno d) (tr_gc (d_trk d)) (d_kss d), ObOk)
      | _ =>
        (* rotate + flush(W = 0) of whatever is in memory *)
        let (t1, _) := t_rotate (k_tree ks) in
        let need_flush := match v_sealed (latest t1) with [] => false | _ => true end in
        let '(d1, t2) :=
          if need_flush then let (dd, s) := draw_version d in (dd, fst (t_flush 0 s t1))
          else (d, t1) in
        let (d2, g) := draw_version d1 in
        let ents := map (fun it => match it with
                                   | IPut k v => mkEnt k g VValue v
                                   | ITomb k => mkEnt k g VTomb []
                                   end) items in
        let t3 := t_register_ingest g ents t2 in
        let d3 := upd d2 (d_seqno d2) (tr_gc (d_trk d2)) (set_ks d2 (with_tree ks t3)) in
        (push_msg d3 (WCompact id), ObOk)
      end
  end.

(* ---- size of the active journal and sealing (worker_pool.rs Flush arm, JournalManager::rotate_journal) ----
   A value of the form ff fe fd fc a b stands for (256a+b) KiB of incompressible data: the differential driver
   writes the real bytes into the implementation and this 6-byte placeholder into the model, so that programs can
   push the journal over its rotation threshold without the model having to hold the data. *)
Definition real_len (v : bytes) : N :=
  match v with
  | 255 :: 254 :: 253 :: 252 :: a :: b :: [] => (a * 256 + b) * 1024
  | _ => N.of_nat (length v)
  end.
Definition item_bytes (it : ritem) : N := 21 + N.of_nat (length (ri_key it)) + real_len (ri_value it).
Definition batch_bytes (b : rbatch) : N :=
  26 + fold_left (fun a it => a + item_bytes it) (rb_items b) 0 + 9 * N.of_nat (length (rb_clears b)).
Definition jbytes (a : list rbatch) : N := fold_left (fun acc b => acc + batch_bytes b) a 0.
Definition JLIMIT : N := 64000000.

Definition upd_sealed (d : db) (a : list rbatch) (sealed : list sealedj) : db :=
  {| d_seqno := d_seqno d; d_trk := d_trk d; d_active := a; d_sealed := sealed; d_kss := d_kss d;
     d_map := d_map d; d_meta := d_meta d; d_next_id := d_next_id d; d_dirs := d_dirs d;
     d_poisoned := d_poisoned d; d_queue := d_queue d; d_flushq := d_flushq d;
     d_filters := d_filters d; d_mode := d_mode d; d_handles := d_handles d; d_snaps := d_snaps d;
     d_iters := d_iters d; d_txs := d_txs d; d_occ := d_occ d; d_meta_seq := d_meta_seq d;
     d_jwritten := d_jwritten d |}.

(* Supervisor::build_seqno_map over the registered keyspaces *)
Definition build_wm (d : db) : list (N * N) :=
  flat_map (fun p => match ks_of d (snd p) with
                     | Some ks => match t_highest_mem (k_tree ks) with
                                  | Some l => [(snd p, l)]
                                  | None => []
                                  end
                     | None => []
                     end) (d_map d).
Definition maybe_seal (d : db) : db :=
  if d_jwritten d && (JLIMIT <? jbytes (d_active d))
  then upd_sealed d [] (d_sealed d ++ [{| sj_batches := d_active d; sj_wm := build_wm d |}])
  else d.

(* journal maintenance: eviction rule of JournalManager::maintenance *)
Definition evictable (d : db) (j : sealedj) : bool :=
  forallb (fun w => match ks_of d (fst w) with
                    | None => true
                    | Some ks => if k_deleted ks then true
                                 else match t_highest_persisted (k_tree ks) with
                                      | None => false
                                      | Some p => snd w <=? p
                                      end
                    end) (sj_wm j).
Fixpoint evict_loop (d : db) (l : list sealedj) : list sealedj :=
  match l with
  | [] => []
  | j :: r => if evictable d j then evict_loop d r else l
  end.
Definition journal_maintenance (d : db) : db :=
  {| d_seqno := d_seqno d; d_trk := d_trk d; d_active := d_active d;
     d_sealed := evict_loop d (d_sealed d); d_kss := d_kss d;
     d_map := d_map d; d_meta := d_meta d; d_next_id := d_next_id d; d_dirs := d_dirs d;
     d_poisoned := d_poisoned d; d_queue := d_queue d; d_flushq := d_flushq d;
     d_filters := d_filters d; d_mode := d_mode d; d_handles := d_handles d; d_snaps := d_snaps d;
     d_iters := d_iters d; d_txs := d_txs d; d_occ := d_occ d; d_meta_seq := d_meta_seq d;
     d_jwritten := d_jwritten d |}.

(* Keyspace::inner_rotate_memtable after a successful rotation *)
Definition after_rotate (d : db) (id : N) : db :=
  let d1 := upd_queue d (d_queue d ++ [WFlush]) (d_flushq d ++ [id]) in
  let trk := tr_gc (tr_pullup (d_trk d1)) in
  let W := lowest_freed trk in
  let kss := map (fun k => if existsb (fun p => snd p =? k_id k) (d_map d1)
                           then with_tree k (vh_maintenance W (k_tree k)) else k) (d_kss d1) in
  journal_maintenance (upd d1 (d_seqno d1) trk kss).

Definition do_rotate (d : db) (id : N) : db * bool :=
  match ks_of d id with
  | None => (d, false)
  | Some ks =>
      let (t, ok) := t_rotate (k_tree ks) in
      if ok then (after_rotate (upd d (d_seqno d) (d_trk d) (set_ks d (with_tree ks t))) id, true)
      else (d, false)
  end.

Definition do_compact (d : db) (id : N) (evict : bool) : db :=
  match ks_of d id with
  | None => d
  | Some ks =>
      match v_tables (latest (k_tree ks)) with
      | [] => d
      | _ => let (d1, s) := draw_version d in
             upd d1 (d_seqno d1) (d_trk d1)
                 (set_ks d1 (with_tree ks (t_compact (W_of d) s evict (k_filter ks) (k_tree ks))))
      end
  end.

(* one worker tick; result code: 0 none, 1 rotate, 2 flush, 3 compact *)
Definition do_step (d : db) : db * N :=
  match d_queue d with
  | [] => (d, 0)
  | m :: q =>
      let d0 := upd_queue d q (d_flushq d) in
      match m with
      | WRotate id mid =>
          match ks_of d0 id with
          | Some ks => if v_active (latest (k_tree ks)) =? mid then (fst (do_rotate d0 id), 1) else (d0, 1)
          | None => (d0, 1)
          end
      | WFlush =>
          match d_flushq d0 with
          | [] => (d0, 2)
          | id :: fq =>
              let d1 := maybe_seal (upd_queue d0 (d_queue d0) fq) in
              match ks_of d1 id with
              | None => (d1, 2)
              | Some ks =>
                  let has_sealed := match v_sealed (latest (k_tree ks)) with [] => false | _ => true end in
                  let d3 :=
                    if has_sealed then
                      let (d2, s) := draw_version d1 in
                      upd d2 (d_seqno d2) (d_trk d2)
                          (set_ks d2 (with_tree ks (fst (t_flush (W_of d1) s (k_tree ks)))))
                    else d1 in
                  (journal_maintenance (push_msg d3 (WCompact id)), 2)
              end
          end
      | WCompact id =>
          (* strategy-driven compaction: with the few tables model programs create, the leveled / FIFO
             strategies only move tables between levels (no rewrite, hence no GC and no filter);
             real merges are requested explicitly through [major] *)
          (d0, 3)
      end
  end.

Fixpoint do_drain (fuel : nat) (d : db) (n : N) : db * N :=
  match fuel with
  | O => (d, n)
  | S f => match d_queue d with
           | [] => (d, n)
           | _ => do_drain f (fst (do_step d)) (n + 1)
           end
  end.

(* ---- keyspace registry ---- *)
Definition filter_for (d : db) (name : bytes) : option frule :=
  match find (fun p => list_eqb (fst p) name) (d_filters d) with
  | Some (_, r) => Some r
  | None => None
  end.

(* Database::keyspace: existing name -> same object; else new id, new tree, meta rows by ingestion
   into the meta tree (one seqno for the ingested tables) *)
Definition do_ks (d : db) (h : N) (name : bytes) : db * obs :=
  match blookup name (d_map d) with
  | Some id => (upd_views d (aset h id (d_handles d)) (d_snaps d) (d_iters d) (d_txs d) (d_occ d), ObOk)
  | None =>
      let id := d_next_id d in
      let ks := {| k_id := id; k_name := name; k_tree := tree_init; k_deleted := false;
                   k_filter := filter_for d name |} in
      let (d1, g) := draw_version d in
      let d2 := upd_reg d1 (ks :: filter (fun k => negb (k_id k =? id)) (d_kss d1))
                  ((name, id) :: d_map d1) ((id, name) :: d_meta d1) (id + 1)
                  (id :: filter (fun x => negb (x =? id)) (d_dirs d1)) (N.max (d_meta_seq d1) g) in
      (upd_views d2 (aset h id (d_handles d2)) (d_snaps d2) (d_iters d2) (d_txs d2) (d_occ d2), ObOk)
  end.

(* Database::delete_keyspace(handle): remove_keyspace(handle.name), handle.is_deleted := true *)
Definition do_delks (d : db) (h : N) : db * obs :=
  match alookup h (d_handles d) with
  | None => (d, ObBadref)
  | Some id =>
      match ks_of d id with
      | None => (d, ObBadref)
      | Some ks =>
          let d1 :=
            match blookup (k_name ks) (d_map d) with
            | None => d
            | Some mid =>
                (* draws a seqno, ingests tombstones for the rows of the keyspace the NAME maps to *)
                let s := d_seqno d in
                let d0 := upd d (s + 1) (d_trk d) (d_kss d) in
                let (d0', g) := draw_version d0 in
                upd_reg (upd d0' (d_seqno d0') (tr_set_visible (d_trk d0') (s + 1)) (d_kss d0'))
                        (d_kss d0') (bremove (k_name ks) (d_map d0')) (aremove mid (d_meta d0'))
                        (d_next_id d0') (d_dirs d0') (N.max (d_meta_seq d0') g)
            end in
          let ks' := {| k_id := k_id ks; k_name := k_name ks; k_tree := k_tree ks; k_deleted := true;
                        k_filter := k_filter ks |} in
          (upd d1 (d_seqno d1) (d_trk d1) (set_ks d1 ks'), ObOk)
      end
  end.

(* ---- close + recovery ---- *)

(* what survives a clean close: journal batches, latest tables, meta rows, directories *)
Definition durable_tree (t : tree) : tree :=
  {| mems := [ {| m_id := 0; m_ents := [] |} ];
     vers := [ {| v_seq := 0; v_active := 0; v_sealed := []; v_tables := v_tables (latest t) |} ];
     next_mid := 1 |}.

(* keyspace objects whose is_deleted flag is set lose their directory when dropped *)
Definition dirs_after_close (d : db) : list N :=
  filter (fun id => match ks_of d id with
                    | Some ks => negb (k_deleted ks)
                    | None => true
                    end) (d_dirs d).

Definition replay_items (cfg : defects) (s : N) (kss : list kspace) (meta : list (N * bytes))
  (mp : list (bytes * N)) (items : list ritem) : list kspace :=
  fold_left (fun acc it =>
    match alookup (ri_ks it) meta with
    | None => acc
    | Some name =>
        match blookup name mp with
        | None => acc
        | Some id =>
            map (fun k => if k_id k =? id then
                            let skip := negb (d_replay_shadow cfg) &&
                                        match t_highest_persisted (k_tree k) with
                                        | Some p => s <=? p | None => false end in
                            if skip then k
                            else with_tree k (t_append (k_tree k) (mkEnt (ri_key it) s (ri_vt it) (ri_value it)))
                          else k) acc
        end
    end) items kss.

(* replay of a Clear record: Tree::clear draws from the shared counter *)
Definition replay_clears (cfg : defects) (s : N) (st : N * list kspace) (meta : list (N * bytes))
  (mp : list (bytes * N)) (clears : list N) : N * list kspace :=
  fold_left (fun acc cid =>
    match alookup cid meta with
    | None => acc
    | Some name =>
        match blookup name mp with
        | None => acc
        | Some id =>
            let '(sq, kss) := acc in
            if existsb (fun k => (k_id k =? id) &&
                                 negb (negb (d_clear_replay cfg) &&
                                       match t_highest_persisted (k_tree k) with
                                       | Some p => s <=? p | None => false end)) kss
            then (sq + 1, map (fun k => if k_id k =? id then with_tree k (t_clear sq (k_tree k)) else k) kss)
            else acc
        end
    end) clears st.

Definition replay_batch (cfg : defects) (meta : list (N * bytes)) (mp : list (bytes * N))
  (st : N * list kspace) (b : rbatch) : N * list kspace :=
  let '(sq, kss) := st in
  let kss1 := replay_items cfg (rb_seqno b) kss meta mp (rb_items b) in
  replay_clears cfg (rb_seqno b) (sq, kss1) meta mp (rb_clears b).

Definition nmax_list (l : list N) : N := fold_left N.max l 0.

(* recovery.rs recover_sealed_memtables, one sealed journal: replay, then per keyspace that has records in it either
   drop the rebuilt memtable (tables already cover it) or seal it; the journal is re-registered with watermarks
   recomputed from its records *)
Definition resolves (meta : list (N * bytes)) (mp : list (bytes * N)) (id : N) : bool :=
  match alookup id meta with
  | Some name => match blookup name mp with Some _ => true | None => false end
  | None => false
  end.
Definition wm_add (w : list (N * N)) (id s : N) : list (N * N) :=
  match alookup id w with
  | Some l => aset id (N.max l s) w
  | None => aset id s w
  end.
Definition wm_of_journal (meta : list (N * bytes)) (mp : list (bytes * N)) (bs : list rbatch) : list (N * N) :=
  fold_left (fun w b =>
    fold_left (fun w id => if resolves meta mp id then wm_add w id (rb_seqno b) else w)
              (map ri_ks (rb_items b) ++ rb_clears b) w) bs [].
Definition recover_sealed_one (cfg : defects) (meta : list (N * bytes)) (mp : list (bytes * N))
  (st : N * list kspace * list sealedj) (bs : list rbatch) : N * list kspace * list sealedj :=
  let '(sq, kss, acc) := st in
  let '(sq1, kss1) := fold_left (replay_batch cfg meta mp) bs (sq, kss) in
  let wms := wm_of_journal meta mp bs in
  let kss2 := map (fun k => match alookup (k_id k) wms with
                            | None => k
                            | Some lsn =>
                                if match t_highest_persisted (k_tree k) with Some p => lsn <=? p | None => false end
                                then with_tree k (t_clear_active (k_tree k))
                                else with_tree k (fst (t_rotate (k_tree k)))
                            end) kss1 in
  (sq1, kss2, acc ++ [{| sj_batches := bs; sj_wm := wms |}]).

Definition recover (cfg : defects) (mode : dbmode) (filters : list (bytes * frule))
  (active : list rbatch) (sealed : list (list rbatch))
  (meta : list (N * bytes)) (dirs : list (N * tree)) (prev_next_id : N) (meta_seq : N) : db :=
  (* recover_keyspaces *)
  let live := filter (fun p => match alookup (fst p) meta with Some _ => true | None => false end) dirs in
  let kss := map (fun p => {| k_id := fst p;
                              k_name := match alookup (fst p) meta with Some n => n | None => [] end;
                              k_tree := snd p; k_deleted := false;
                              k_filter := match alookup (fst p) meta with
                                          | Some n => match find (fun q => list_eqb (fst q) n) filters with
                                                      | Some (_, r) => Some r | None => None end
                                          | None => None end |}) live in
  let mp := map (fun k => (k_name k, k_id k)) kss in
  let jids := flat_map (fun b => map ri_ks (rb_items b) ++ rb_clears b) (concat sealed ++ active) in
  let next_id := if d_id_reuse cfg then nmax_list (1 :: map fst dirs) + 1
                 else nmax_list (1 :: map fst dirs ++ jids) + 1 in
  (* recover_sealed_memtables: one journal after the other *)
  let '(sq1, kss1, sealed') := fold_left (recover_sealed_one cfg meta mp) sealed (0, kss, []) in
  (* active journal *)
  let '(sq2, kss2) := fold_left (replay_batch cfg meta mp) active (sq1, kss1) in
  let seqno := fold_left (fun acc k => match t_highest (k_tree k) with
                                       | Some h => N.max acc (h + 1) | None => acc end) kss2 sq2 in
  let jmax := fold_left (fun acc b => N.max acc (rb_seqno b + 1)) (concat sealed ++ active) 0 in
  let seqno' := if d_seqno_journal cfg then seqno else N.max seqno jmax in
  let trk := tr_gc (tr_init seqno') in
  let q := flat_map (fun k => match v_sealed (latest (k_tree k)) with
                              | _ :: _ => [WFlush]
                              | [] => match v_tables (latest (k_tree k)) with
                                      | [] => [] | _ => [WCompact (k_id k)] end
                              end) kss2 in
  let fq := flat_map (fun k => match v_sealed (latest (k_tree k)) with
                               | _ :: _ => [k_id k] | [] => [] end) kss2 in
  {| d_seqno := seqno'; d_trk := trk; d_active := active; d_sealed := sealed';
     d_kss := kss2; d_map := mp; d_meta := meta; d_next_id := next_id;
     d_dirs := map fst live; d_poisoned := false; d_queue := q; d_flushq := fq;
     d_filters := filters; d_mode := mode; d_handles := []; d_snaps := []; d_iters := [];
     d_txs := []; d_occ := []; d_meta_seq := meta_seq;
     d_jwritten := false |}.

Definition do_reopen (cfg : defects) (d : db) : db :=
  let dirs := dirs_after_close d in
  let trees := flat_map (fun id => match ks_of d id with
                                   | Some ks => [(id, durable_tree (k_tree ks))]
                                   | None => [] end) dirs in
  recover cfg (d_mode d) (d_filters d) (d_active d) (map sj_batches (d_sealed d))
          (d_meta d) trees (d_next_id d) (d_meta_seq d).
