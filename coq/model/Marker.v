(* Marker.v — version marker check (src/version.rs, db.rs check_version / create_or_recover)
   and the lock-file handle machine (locked_file.rs, Drop impls).                              *)
From FJ Require Export Bytes.

Definition MARKER_MAGIC : bytes := [70; 74; 76].      (* "FJL" *)

(* FormatVersion::parse_file_header *)
Definition parse_file_header (b : bytes) : option N :=
  match b with
  | m0 :: m1 :: m2 :: v :: _ =>
      if list_eqb [m0; m1; m2] MARKER_MAGIC
      then (if (v =? 1) || (v =? 2) || (v =? 3) then Some v else None)
      else None
  | _ => None
  end.

Inductive open_result := OpenOk | InvalidVersion (v : option N) | Locked | IoError.

(* Database::check_version *)
Definition check_version (b : bytes) : open_result :=
  match parse_file_header b with
  | Some v => if v =? 3 then OpenOk else InvalidVersion (Some v)
  | None => InvalidVersion None
  end.

(* file-system effects of an open attempt, in program order *)
Inductive fs_effect :=
| FsMkdirs | FsCreateLockFile | FsCreateJournal | FsWriteMarker | FsFsyncDirs
| FsTruncateJournalTail | FsFsyncJournal | FsOpenTrees.

Record dirstate := {
  ds_marker : option bytes;       (* content of <db>/version, if the file exists *)
  ds_lock_held : bool;            (* some live handle of another instance holds the flock *)
  ds_has_journal0 : bool          (* <db>/0.jnl exists *)
}.

(* Database::create_or_recover as a list of effects and a result.
   recover: check_version, then try_acquire (3 attempts), then everything else. *)
Definition open_db (d : dirstate) : list fs_effect * open_result :=
  match ds_marker d with
  | Some b =>
      match check_version b with
      | OpenOk =>
          if ds_lock_held d then ([], Locked)
          else ([FsTruncateJournalTail; FsFsyncJournal; FsOpenTrees], OpenOk)
      | r => ([], r)
      end
  | None =>
      (* create_new: create_dir_all, lock (create or open), keyspaces dir, journal 0 (create_new), marker last *)
      if ds_lock_held d then ([FsMkdirs], Locked)
      else if ds_has_journal0 d then ([FsMkdirs; FsCreateLockFile], IoError)
      else ([FsMkdirs; FsCreateLockFile; FsCreateJournal; FsWriteMarker; FsFsyncDirs; FsOpenTrees], OpenOk)
  end.

(* ---- the lock guard: an Arc shared by the database and every keyspace handle ---- *)
Record lockst := { l_refs : nat; l_locked : bool }.
Inductive lock_op := LAcquire | LClone | LDrop.
Definition lock_step (s : lockst) (o : lock_op) : lockst :=
  match o with
  | LAcquire => if l_locked s then s else {| l_refs := 1; l_locked := true |}
  | LClone => if l_locked s then {| l_refs := S (l_refs s); l_locked := true |} else s
  | LDrop => match l_refs s with
             | O => s
             | 1%nat => {| l_refs := 0; l_locked := false |}
             | S n => {| l_refs := n; l_locked := true |}
             end
  end.
