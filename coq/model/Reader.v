(* Reader.v — journal reader + batch reader state machine
   (src/journal/reader.rs, batch_reader.rs) over a byte list.             *)
From FJ Require Export Codec.

Inductive rerr := InsufficientLength | TooManyItems | ChecksumMismatch.

Record ritem := { ri_ks : N; ri_key : bytes; ri_value : bytes; ri_vt : vtype }.
Record rbatch := { rb_seqno : N; rb_items : list ritem; rb_clears : list N }.

(* how the read ended: the file is cut back to [final_len] (RStop), or the
   reader returned a hard error and left the file alone (RErr) *)
Inductive routcome := RStop (final_len : N) | RErr (e : rerr) | ROutOfFuel.

Record rstate := {
  in_batch : bool;
  counter : N;
  bseq : N;
  items : list ritem;      (* reversed *)
  clears : list N;         (* reversed *)
  acc : list bytes;        (* re-encoded entries fed to the hasher, reversed *)
  batch_last : N;          (* end of the last complete batch *)
  pos : N                  (* end of the last decoded entry *)
}.

Definition rinit : rstate :=
  {| in_batch := false; counter := 0; bseq := 0; items := []; clears := [];
     acc := []; batch_last := 0; pos := 0 |}.

Section Reader.
  Variable hash : bytes -> N.
  Variable compress : bytes -> bytes.
  Variable decompress : bytes -> N -> option bytes.

  Notation enc_entry := (enc_entry compress).
  Notation dec_entry := (dec_entry decompress).

  Fixpoint read_loop (fuel : nat) (st : rstate) (l : bytes) (out : list rbatch)
    : list rbatch * routcome :=
    match fuel with
    | O => (rev out, ROutOfFuel)
    | S f =>
      match dec_entry l with
      | None => (rev out, RStop (if in_batch st then batch_last st else pos st))
      | Some (e, r, n) =>
        let pos' := pos st + n in
        match e with
        | EStart c s =>
            if in_batch st then (rev out, RStop (batch_last st))
            else read_loop f {| in_batch := true; counter := c; bseq := s;
                                items := items st; clears := clears st; acc := acc st;
                                batch_last := batch_last st; pos := pos' |} r out
        | EEnd x =>
            if 0 <? counter st then (rev out, RErr InsufficientLength)
            else if negb (in_batch st) then (rev out, RStop (batch_last st))
            else if hash (concat (rev (acc st))) =? x then
              read_loop f {| in_batch := false; counter := 0; bseq := bseq st;
                             items := []; clears := []; acc := [];
                             batch_last := pos'; pos := pos' |} r
                ({| rb_seqno := bseq st; rb_items := rev (items st);
                    rb_clears := rev (clears st) |} :: out)
            else (rev out, RErr ChecksumMismatch)
        | EItem ks k v vt c =>
            if negb (in_batch st) then (rev out, RStop (batch_last st))
            else if counter st =? 0 then (rev out, RErr TooManyItems)
            else read_loop f {| in_batch := true; counter := counter st - 1; bseq := bseq st;
                                items := {| ri_ks := ks; ri_key := k; ri_value := v; ri_vt := vt |}
                                           :: items st;
                                clears := clears st;
                                acc := enc_entry e :: acc st;
                                batch_last := batch_last st; pos := pos' |} r out
        | EClear ks =>
            if negb (in_batch st) then (rev out, RStop (batch_last st))
            else if counter st =? 0 then (rev out, RErr TooManyItems)
            else read_loop f {| in_batch := true; counter := counter st - 1; bseq := bseq st;
                                items := items st; clears := ks :: clears st;
                                acc := enc_entry e :: acc st;
                                batch_last := batch_last st; pos := pos' |} r out
        end
      end
    end.

  Definition read_journal (l : bytes) : list rbatch * routcome :=
    read_loop (S (length l)) rinit l [].

  (* what a written batch looks like once read back *)
  Definition ritems_of (rs : list record) : list ritem :=
    flat_map (fun r => match r with
                       | RItem ks k v vt _ => [{| ri_ks := ks; ri_key := k; ri_value := v; ri_vt := vt |}]
                       | RClear _ => []
                       end) rs.
  Definition rclears_of (rs : list record) : list N :=
    flat_map (fun r => match r with RItem _ _ _ _ _ => [] | RClear ks => [ks] end) rs.
  Definition rbatch_of (b : wbatch) : rbatch :=
    {| rb_seqno := wb_seqno b; rb_items := ritems_of (wb_records b);
       rb_clears := rclears_of (wb_records b) |}.
End Reader.
