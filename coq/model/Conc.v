(* Conc.v — interleaving model of the commit protocol (batch/mod.rs commit, keyspace/mod.rs insert):
   acquire the journal mutex, draw the seqno, apply the items one by one, publish, release.
   Readers take a snapshot (instant = visible seqno) at any point.  The journal mutex is the slot
   [inflight] (mutual exclusion of std::sync::Mutex is assumed).  [EBump] is lsm-tree's version
   upgrade: it draws from the shared counter and advances the shared visible seqno without the mutex. *)
From FJ Require Export Bytes.

Inductive phase := PLocked | PDrawn (s k : N) | PPublished (s : N).

Record cst := {
  c_seq : N;                      (* next seqno *)
  c_vis : N;                      (* visible seqno *)
  c_inflight : option phase;      (* holder of the journal mutex, if any *)
  c_mem : list (N * N)            (* applied items: (batch seqno, item index) *)
}.

Inductive event := EAcq | EDraw | EApply | EPub | ERel | ESnap | EBump.

Definition cinit : cst := {| c_seq := 0; c_vis := 0; c_inflight := None; c_mem := [] |}.

(* n = number of items per batch (any n) *)
Definition cstep (n : N) (s : cst) (e : event) : option cst :=
  match e, c_inflight s with
  | EAcq, None => Some {| c_seq := c_seq s; c_vis := c_vis s; c_inflight := Some PLocked; c_mem := c_mem s |}
  | EDraw, Some PLocked =>
      Some {| c_seq := c_seq s + 1; c_vis := c_vis s; c_inflight := Some (PDrawn (c_seq s) 0); c_mem := c_mem s |}
  | EApply, Some (PDrawn q k) =>
      if k <? n then Some {| c_seq := c_seq s; c_vis := c_vis s; c_inflight := Some (PDrawn q (k + 1));
                             c_mem := (q, k) :: c_mem s |}
      else None
  | EPub, Some (PDrawn q k) =>
      if k =? n then Some {| c_seq := c_seq s; c_vis := N.max (c_vis s) (q + 1);
                             c_inflight := Some (PPublished q); c_mem := c_mem s |}
      else None
  | ERel, Some (PPublished _) =>
      Some {| c_seq := c_seq s; c_vis := c_vis s; c_inflight := None; c_mem := c_mem s |}
  | ESnap, _ => Some s
  | EBump, _ =>
      Some {| c_seq := c_seq s + 1; c_vis := N.max (c_vis s) (c_seq s + 1); c_inflight := c_inflight s;
              c_mem := c_mem s |}
  | _, _ => None
  end.

Fixpoint crun (n : N) (s : cst) (es : list event) : option cst :=
  match es with
  | [] => Some s
  | e :: r => match cstep n s e with Some s' => crun n s' r | None => None end
  end.

(* what a snapshot opened in state s (instant = visible seqno) sees *)
Definition seen (s : cst) : list (N * N) := filter (fun p => fst p <? c_vis s) (c_mem s).
Definition is_bump (e : event) : bool := match e with EBump => true | _ => false end.
