(* Options.v — keyspace options and their stored form
   (src/keyspace/options.rs encode_kvs / from_kvs, src/keyspace/config/*.rs).
   f32 values are carried as their 32-bit patterns.                         *)
From FJ Require Export Bytes Codec.
From Coq Require Import String Ascii.
Open Scope N_scope.

Inductive fentry := FNoFilter | FBits (bits : N) | FFpr (bits : N).
Inductive strategy :=
| SLeveled (l0 target : N) (ratios : list N)
| SFifo (limit : N) (ttl : option N).
Record blobopts := { b_thr : N; b_target : N; b_stale : N; b_age : N; b_comp : comp }.

Record opts := {
  o_mt : N; o_manual : bool; o_eprh : bool;
  o_dbs : list N; o_dbri : list N; o_ibri : list N; o_dbhr : list N;
  o_ibpin : list bool; o_fbpin : list bool; o_ibpart : list bool; o_fbpart : list bool;
  o_dbc : list comp; o_ibc : list comp; o_fp : list fentry;
  o_levels : N; o_strategy : strategy; o_blob : option blobopts
}.

(* ---- the six policy codecs: one length byte, then the items ---- *)
Definition len_byte {A} (l : list A) : N := N.of_nat (List.length l) mod 256.     (* `len() as u8` *)

Definition enc_u32s (l : list N) : bytes := len_byte l :: flat_map (le_enc 4) l.
Definition enc_u8s (l : list N) : bytes := len_byte l :: map (fun x => x mod 256) l.
Definition enc_bools (l : list bool) : bytes := len_byte l :: map (fun b : bool => if b then 1 else 0) l.
Definition enc_comps (l : list comp) : bytes := len_byte l :: map comp_code l.
Definition enc_fentry (e : fentry) : bytes :=
  match e with
  | FNoFilter => [0]
  | FBits b => 1 :: 0 :: le_enc 4 b
  | FFpr b => 1 :: 1 :: le_enc 4 b
  end.
Definition enc_filters (l : list fentry) : bytes := len_byte l :: flat_map enc_fentry l.

Fixpoint pmany {A} (p : parser A) (n : nat) : parser (list A) :=
  match n with
  | O => pret []
  | S k => x <- p ;; xs <- pmany p k ;; pret (x :: xs)
  end.
Definition run_all {A} (p : parser A) (b : bytes) : option A :=
  match p b with Some (a, _, _) => Some a | None => None end.
Definition plist {A} (item : parser A) : parser (list A) :=
  n <- pnum 1 ;; pmany item (N.to_nat n).

Definition dec_u32s := run_all (plist (pnum 4)).
Definition dec_u8s := run_all (plist (pnum 1)).
Definition dec_bools := run_all (plist (b <- pnum 1 ;; pret (b =? 1))).
Definition dec_comps := run_all (plist (c <- pnum 1 ;; popt (comp_of_code c))).
Definition p_fentry : parser fentry :=
  t <- pnum 1 ;;
  if t =? 0 then pret FNoFilter
  else if t =? 1 then
    k <- pnum 1 ;;
    if k =? 0 then (b <- pnum 4 ;; pret (FBits b))
    else if k =? 1 then (b <- pnum 4 ;; pret (FFpr b))
    else pfail                                     (* the code panics *)
  else pfail.
Definition dec_filters := run_all (plist p_fentry).

(* ---- rows ---- *)
Definition str (s : string) : bytes := map (fun a => N_of_ascii a) (list_ascii_of_string s).
Definition row := (bytes * bytes)%type.

Definition strategy_rows (s : strategy) : list row :=
  match s with
  | SLeveled l0 target ratios =>
      [ (str "compaction_strategy", str "LeveledCompaction");
        (str "leveled_l0_threshold", [l0 mod 256]);
        (str "leveled_target_size", le_enc 8 target);
        (str "leveled_level_ratio_policy", len_byte ratios :: flat_map (le_enc 4) ratios) ]
  | SFifo limit ttl =>
      [ (str "compaction_strategy", str "FifoCompaction");
        (str "fifo_limit", le_enc 8 limit);
        (str "fifo_ttl", [match ttl with Some _ => 1 | None => 0 end]);
        (str "fifo_ttl_seconds", match ttl with Some t => le_enc 8 t | None => le_enc 8 0 end) ]
  end.

Definition blob_rows (b : option blobopts) : list row :=
  match b with
  | None => []
  | Some o =>
      [ (str "blob", [1]);
        (str "blob_age_cutoff", le_enc 4 (b_age o));
        (str "blob_compression", [comp_code (b_comp o)]);
        (str "blob_file_target_size", le_enc 8 (b_target o));
        (str "blob_separation_threshold", le_enc 4 (b_thr o));
        (str "blob_staleness_threshold", le_enc 4 (b_stale o)) ]
  end.

Definition encode_kvs (o : opts) : list row :=
  [ (str "data_block_compression_policy", enc_comps (o_dbc o));
    (str "data_block_hash_ratio_policy", enc_u32s (o_dbhr o));
    (str "data_block_restart_interval_policy", enc_u8s (o_dbri o));
    (str "data_block_size_policy", enc_u32s (o_dbs o));
    (str "expect_point_read_hits", [if o_eprh o then 1 else 0]);
    (str "filter_block_partitioning_policy", enc_bools (o_fbpart o));
    (str "filter_block_pinning_policy", enc_bools (o_fbpin o));
    (str "filter_policy", enc_filters (o_fp o));
    (str "index_block_compression_policy", enc_comps (o_ibc o));
    (str "index_block_partitioning_policy", enc_bools (o_ibpart o));
    (str "index_block_pinning_policy", enc_bools (o_ibpin o));
    (str "index_block_restart_interval_policy", enc_u8s (o_ibri o));
    (str "level_count", [o_levels o mod 256]);
    (str "manual_journal_persist", [if o_manual o then 1 else 0]);
    (str "max_memtable_size", le_enc 8 (o_mt o));
    (str "version", [3]) ]
  ++ strategy_rows (o_strategy o) ++ blob_rows (o_blob o).

Fixpoint rget (name : bytes) (rows : list row) : option bytes :=
  match rows with
  | [] => None
  | (k, v) :: r => if list_eqb k name then Some v else rget name r
  end.

Definition obind {A B} (o : option A) (f : A -> option B) : option B :=
  match o with Some a => f a | None => None end.
Notation "x <-- o ;;; q" := (obind o (fun x => q)) (at level 61, o at next level, right associativity).

Definition dec_strategy (rows : list row) : option strategy :=
  name <-- rget (str "compaction_strategy") rows ;;;
  if list_eqb name (str "LeveledCompaction") then
    l0 <-- rget (str "leveled_l0_threshold") rows ;;;
    tg <-- rget (str "leveled_target_size") rows ;;;
    rp <-- rget (str "leveled_level_ratio_policy") rows ;;;
    l0' <-- run_all (pnum 1) l0 ;;;
    tg' <-- run_all (pnum 8) tg ;;;
    rp' <-- dec_u32s rp ;;;
    Some (SLeveled l0' tg' rp')
  else if list_eqb name (str "FifoCompaction") then
    lim <-- rget (str "fifo_limit") rows ;;;
    has <-- rget (str "fifo_ttl") rows ;;;
    lim' <-- run_all (pnum 8) lim ;;;
    if list_eqb has [1] then
      t <-- rget (str "fifo_ttl_seconds") rows ;;;
      t' <-- run_all (pnum 8) t ;;;
      Some (SFifo lim' (Some t'))
    else Some (SFifo lim' None)
  else None.

Definition dec_blob (rows : list row) : option (option blobopts) :=
  match rget (str "blob") rows with
  | None => Some None
  | Some _ =>
      age <-- rget (str "blob_age_cutoff") rows ;;;
      cp <-- rget (str "blob_compression") rows ;;;
      tg <-- rget (str "blob_file_target_size") rows ;;;
      th <-- rget (str "blob_separation_threshold") rows ;;;
      st <-- rget (str "blob_staleness_threshold") rows ;;;
      age' <-- run_all (pnum 4) age ;;;
      cp' <-- run_all (c <- pnum 1 ;; popt (comp_of_code c)) cp ;;;
      tg' <-- run_all (pnum 8) tg ;;;
      th' <-- run_all (pnum 4) th ;;;
      st' <-- run_all (pnum 4) st ;;;
      Some (Some {| b_thr := th'; b_target := tg'; b_stale := st'; b_age := age'; b_comp := cp' |})
  end.

Definition from_kvs (rows : list row) : option opts :=
  dbc <-- obind (rget (str "data_block_compression_policy") rows) dec_comps ;;;
  ibc <-- obind (rget (str "index_block_compression_policy") rows) dec_comps ;;;
  dbs <-- obind (rget (str "data_block_size_policy") rows) dec_u32s ;;;
  fbpart <-- obind (rget (str "filter_block_partitioning_policy") rows) dec_bools ;;;
  ibpart <-- obind (rget (str "index_block_partitioning_policy") rows) dec_bools ;;;
  fbpin <-- obind (rget (str "filter_block_pinning_policy") rows) dec_bools ;;;
  ibpin <-- obind (rget (str "index_block_pinning_policy") rows) dec_bools ;;;
  dbri <-- obind (rget (str "data_block_restart_interval_policy") rows) dec_u8s ;;;
  ibri <-- obind (rget (str "index_block_restart_interval_policy") rows) dec_u8s ;;;
  dbhr <-- obind (rget (str "data_block_hash_ratio_policy") rows) dec_u32s ;;;
  eprh <-- rget (str "expect_point_read_hits") rows ;;;
  fp <-- obind (rget (str "filter_policy") rows) dec_filters ;;;
  blob <-- dec_blob rows ;;;
  strat <-- dec_strategy rows ;;;
  manual <-- rget (str "manual_journal_persist") rows ;;;
  mt <-- obind (rget (str "max_memtable_size") rows) (run_all (pnum 8)) ;;;
  Some {| o_mt := mt; o_manual := list_eqb manual [1]; o_eprh := list_eqb eprh [1];
          o_dbs := dbs; o_dbri := dbri; o_ibri := ibri; o_dbhr := dbhr;
          o_ibpin := ibpin; o_fbpin := fbpin; o_ibpart := ibpart; o_fbpart := fbpart;
          o_dbc := dbc; o_ibc := ibc; o_fp := fp;
          o_levels := 7;                           (* "Levels are currently hard coded to 7" *)
          o_strategy := strat; o_blob := blob |}.

Definition default_opts : opts :=
  {| o_mt := 67108864; o_manual := false; o_eprh := false;
     o_dbs := [4096]; o_dbri := [10; 16]; o_ibri := [1]; o_dbhr := [0];
     o_ibpin := [true; true; false]; o_fbpin := [true; false];
     o_ibpart := [false; false; false; true]; o_fbpart := [false; false; false; true];
     o_dbc := [CNone; CNone; CLz4]; o_ibc := [CNone];
     o_fp := [FFpr 953267991; FBits 1092616192];     (* 0.0001f32 = 0x38d1b717, 10.0f32 = 0x41200000 *)
     o_levels := 7; o_strategy := SLeveled 4 67108864 [1092616192]; o_blob := None |}.
