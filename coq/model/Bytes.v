(* Bytes.v — byte strings, little-endian integers, and a tiny parser monad.
   Model only: definitions, no proofs (proofs live in proofs/).            *)
From Coq Require Export List NArith Bool Lia.
Export ListNotations.
Open Scope N_scope.

Definition bytes := list N.

(* little-endian encoding of [x mod 256^w] on [w] bytes (what byteorder's
   write_uNN::<LittleEndian> does after the `as uNN` truncating cast) *)
Fixpoint le_enc (w : nat) (x : N) : bytes :=
  match w with
  | O => []
  | S w' => (x mod 256) :: le_enc w' (x / 256)
  end.

Fixpoint le_val (l : bytes) : N :=
  match l with
  | [] => 0
  | b :: r => b + 256 * le_val r
  end.

Definition zeros (z : nat) : bytes := repeat 0 z.

Definition blen (l : bytes) : N := N.of_nat (length l).

(* take exactly k bytes *)
Fixpoint takeN (l : bytes) (k : N) : option (bytes * bytes) :=
  if N.eqb k 0 then Some ([], l)
  else match l with
       | [] => None
       | x :: l' =>
           match takeN l' (N.pred k) with
           | Some (c, r) => Some (x :: c, r)
           | None => None
           end
       end.

(* parser: input -> (value, rest, bytes consumed) *)
Definition parser (A : Type) := bytes -> option (A * bytes * N).

Definition pret {A} (a : A) : parser A := fun l => Some (a, l, 0).
Definition pfail {A} : parser A := fun _ => None.
Definition pbind {A B} (p : parser A) (f : A -> parser B) : parser B :=
  fun l => match p l with
           | Some (a, r, n) =>
               match f a r with
               | Some (b, r', m) => Some (b, r', n + m)
               | None => None
               end
           | None => None
           end.
Definition ptake (k : N) : parser bytes :=
  fun l => match takeN l k with
           | Some (c, r) => Some (c, r, k)
           | None => None
           end.
Definition pnum (w : N) : parser N := pbind (ptake w) (fun c => pret (le_val c)).
Definition pguard (b : bool) : parser unit := if b then pret tt else pfail.
Definition popt {A} (o : option A) : parser A :=
  match o with Some a => pret a | None => pfail end.

Notation "x <- p ;; q" := (pbind p (fun x => q))
  (at level 61, p at next level, right associativity).

Fixpoint list_eqb (a b : bytes) : bool :=
  match a, b with
  | [], [] => true
  | x :: a', y :: b' => N.eqb x y && list_eqb a' b'
  | _, _ => false
  end.

(* lexicographic order on byte strings (the key order of the store) *)
Fixpoint bytes_ltb (a b : bytes) : bool :=
  match a, b with
  | [], [] => false
  | [], _ :: _ => true
  | _ :: _, [] => false
  | x :: a', y :: b' => if N.ltb x y then true else if N.eqb x y then bytes_ltb a' b' else false
  end.
Definition bytes_leb (a b : bytes) : bool := negb (bytes_ltb b a).
