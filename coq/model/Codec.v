(* Codec.v — the journal entry format (src/journal/entry.rs, writer.rs).
   xxh3 and lz4 are Section variables: uninterpreted functions.          *)
From FJ Require Export Bytes.

Inductive vtype := VValue | VTomb | VWeak | VIndir.
Inductive comp := CNone | CLz4.

Definition vtype_code (v : vtype) : N :=
  match v with VValue => 0 | VTomb => 1 | VWeak => 2 | VIndir => 4 end.
Definition vtype_of_code (n : N) : option vtype :=
  if n =? 0 then Some VValue else if n =? 1 then Some VTomb
  else if n =? 2 then Some VWeak else if n =? 4 then Some VIndir else None.
Definition comp_code (c : comp) : N := match c with CNone => 0 | CLz4 => 1 end.
Definition comp_of_code (n : N) : option comp :=
  if n =? 0 then Some CNone else if n =? 1 then Some CLz4 else None.

Definition vtype_eqb (a b : vtype) : bool := N.eqb (vtype_code a) (vtype_code b).

(* Source-derived constants (checked against the Rust source by py/srcfacts.py,
   which regenerates gen/SrcFacts.v; see proofs/CodecFacts.v) *)
Definition TAG_START : N := 1.
Definition TAG_ITEM  : N := 2.
Definition TAG_END   : N := 3.
Definition TAG_CLEAR : N := 4.
Definition MAGIC : bytes := [70; 74; 76; 3].   (* "FJL" 3 *)

Inductive entry :=
| EStart (count seqno : N)
| EItem (ks : N) (key value : bytes) (vt : vtype) (c : comp)
| EEnd (checksum : N)
| EClear (ks : N).

Section Codec.
  Variable hash : bytes -> N.
  Variable compress : bytes -> bytes.
  Variable decompress : bytes -> N -> option bytes.   (* stored bytes, expected length *)

  Definition stored_of (value : bytes) (c : comp) : bytes :=
    match c with CNone => value | CLz4 => compress value end.

  Definition enc_entry (e : entry) : bytes :=
    match e with
    | EStart count seqno => TAG_START :: le_enc 4 count ++ le_enc 8 seqno
    | EItem ks key value vt c =>
        let st := stored_of value c in
        TAG_ITEM :: vtype_code vt :: comp_code c ::
          le_enc 8 ks ++ le_enc 2 (blen key) ++ le_enc 4 (blen value) ++ le_enc 4 (blen st)
          ++ key ++ st
    | EEnd x => TAG_END :: le_enc 8 x ++ MAGIC
    | EClear ks => TAG_CLEAR :: le_enc 8 ks
    end.

  Definition dec_start : parser entry :=
    c <- pnum 4 ;; s <- pnum 8 ;; pret (EStart c s).

  Definition dec_item : parser entry :=
    vtb <- pnum 1 ;; vt <- popt (vtype_of_code vtb) ;;
    cb <- pnum 1 ;; c <- popt (comp_of_code cb) ;;
    ks <- pnum 8 ;; klen <- pnum 2 ;; vlen <- pnum 4 ;; slen <- pnum 4 ;;
    key <- ptake klen ;; st <- ptake slen ;;
    value <- popt (match c with
                   | CNone => if vlen =? blen st then Some st else None   (* stored length must equal the real length *)
                   | CLz4 => decompress st vlen
                   end) ;;
    pret (EItem ks key value vt c).

  Definition dec_end : parser entry :=
    x <- pnum 8 ;; m <- ptake 4 ;; _ <- pguard (list_eqb m MAGIC) ;; pret (EEnd x).

  Definition dec_clear : parser entry :=
    ks <- pnum 8 ;; pret (EClear ks).

  Definition dec_entry : parser entry :=
    t <- pnum 1 ;;
    if t =? TAG_START then dec_start
    else if t =? TAG_ITEM then dec_item
    else if t =? TAG_END then dec_end
    else if t =? TAG_CLEAR then dec_clear
    else pfail.

  (* ---- batches as the writer produces them (writer.rs write_raw / write_clear / write_batch) ---- *)

  Inductive record :=
  | RItem (ks : N) (key value : bytes) (vt : vtype) (c : comp)
  | RClear (ks : N).

  Definition entry_of_record (r : record) : entry :=
    match r with
    | RItem ks k v vt c => EItem ks k v vt c
    | RClear ks => EClear ks
    end.

  Definition enc_records (rs : list record) : bytes :=
    concat (map (fun r => enc_entry (entry_of_record r)) rs).

  Record wbatch := { wb_seqno : N; wb_records : list record }.

  Definition enc_batch (b : wbatch) : bytes :=
    let body := enc_records (wb_records b) in
    enc_entry (EStart (N.of_nat (length (wb_records b))) (wb_seqno b))
      ++ body ++ enc_entry (EEnd (hash body)).

  Definition enc_journal (bs : list wbatch) : bytes := concat (map enc_batch bs).

  (* the writer's compression choice (writer.rs): per item, by configured type and threshold *)
  Definition choose_comp (cfg : comp) (threshold : N) (value : bytes) : comp :=
    if (0 <? threshold) && (threshold <=? blen value) then cfg else CNone.
End Codec.
