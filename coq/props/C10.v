(* C10 — a journal file is deleted only when nothing in it is still needed.  Only property theorems.
   Model: JournalMgr.v (one step = one critical section of the real code: a write under the journal lock, a memtable
   rotation, the registration of flushed tables, journal sealing with build_seqno_map under the journal lock,
   JournalManager::maintenance, delete_keyspace, a compaction dropping an item).  The crash part of the statement
   ("a crash immediately after any journal deletion loses nothing") is decided on the real code by fault enumeration
   (py/props/c10.py); the theorems give the reason for every interleaving of these steps. *)
From FJ Require Import Bytes JournalMgr JournalMgrP.

(* every record of every unlinked journal file had reached a table of its keyspace, or the keyspace was deleted *)
Theorem C10_evicted_only_when_durable : forall (ops : list jop) (k x : N),
  In (k, x) (m_evicted (jrun ops)) -> In x (m_flushed (jrun ops) k) \/ m_del (jrun ops) k = true.
Proof. exact evicted_only_when_durable. Qed.

(* journals are reclaimed oldest first: maintenance removes a prefix of the sealed list, and exactly its records *)
Theorem C10_oldest_first : forall s : jm,
  exists pre, m_sealed s = pre ++ m_sealed (jstep s JMaint) /\
              m_evicted (jstep s JMaint) = m_evicted s ++ flat_map j_recs pre.
Proof. exact maintenance_oldest_first. Qed.

(* once all keyspaces are flushed the number of journal files returns to one.  PARTIAL: under the side condition that no
   compaction has dropped the newest flushed item of a keyspace (then get_highest_persisted_seqno falls below the
   watermark and the journal stays until that keyspace flushes something newer — liveness only, nothing is lost) *)
Theorem C10_back_to_one_partial : forall ops : list jop,
  all_flushed (jrun ops) -> newest_kept (jrun ops) -> journal_count (jstep (jrun ops) JMaint) = 1.
Proof. exact back_to_one. Qed.

(* the statements are not vacuous: a lagging keyspace keeps the sealed journal, its flush releases it *)
Theorem C10_example :
  journal_count (jrun c10_example) = 2 /\ m_evicted (jrun c10_example) = [] /\
  journal_count (jrun (c10_example ++ [JRotate 2; JFlush 2; JMaint])) = 1 /\
  m_evicted (jrun (c10_example ++ [JRotate 2; JFlush 2; JMaint])) = [(1, 0); (2, 1); (1, 2); (2, 2)].
Proof. exact c10_example_runs. Qed.

Print Assumptions C10_evicted_only_when_durable.
Print Assumptions C10_oldest_first.
Print Assumptions C10_back_to_one_partial.
Print Assumptions C10_example.
