(* C10 — a journal file is deleted only when nothing in it is still needed.  Only property theorems.
   Model: JournalMgr.v (one step = one critical section of the real code: a write under the journal lock, a memtable
   rotation, the registration of flushed tables, journal sealing with build_seqno_map under the journal lock,
   JournalManager::maintenance, delete_keyspace, a compaction dropping an item).  The crash part of the statement
   ("a crash immediately after any journal deletion loses nothing") is decided on the real code by fault enumeration
   (py/props/c10.py); the theorems give the reason for every interleaving of these steps. *)
From FJ Require Import Bytes JournalMgr JournalMgrP.
From FJ Require Import Reader Lsm Tracker Db OrderP DbOrderP RefineP RecoverInvP JournalInvP.

(* every record of every unlinked journal file had reached a table of its keyspace, or the keyspace was deleted *)
Theorem C10_evicted_only_when_durable : forall (ops : list jop) (k x : N),
  In (k, x) (m_evicted (jrun ops)) -> In x (m_flushed (jrun ops) k) \/ m_del (jrun ops) k = true.
Proof. exact evicted_only_when_durable. Qed.

(* journals are reclaimed oldest first: maintenance removes a prefix of the sealed list, and exactly its records *)
Theorem C10_oldest_first : forall s : jm,
  exists pre, m_sealed s = pre ++ m_sealed (jstep s JMaint) /\
              m_evicted (jstep s JMaint) = m_evicted s ++ flat_map j_recs pre.
Proof. exact maintenance_oldest_first. Qed.

(* once all keyspaces are flushed the number of journal files returns to one.  PARTIAL: under the side condition that no
   compaction has dropped the newest flushed item of a keyspace (then get_highest_persisted_seqno falls below the
   watermark and the journal stays until that keyspace flushes something newer — liveness only, nothing is lost) *)
Theorem C10_back_to_one_partial : forall ops : list jop,
  all_flushed (jrun ops) -> newest_kept (jrun ops) -> journal_count (jstep (jrun ops) JMaint) = 1.
Proof. exact back_to_one. Qed.

(* the statements are not vacuous: a lagging keyspace keeps the sealed journal, its flush releases it *)
Theorem C10_example :
  journal_count (jrun c10_example) = 2 /\ m_evicted (jrun c10_example) = [] /\
  journal_count (jrun (c10_example ++ [JRotate 2; JFlush 2; JMaint])) = 1 /\
  m_evicted (jrun (c10_example ++ [JRotate 2; JFlush 2; JMaint])) = [(1, 0); (2, 1); (1, 2); (2, 2)].
Proof. exact c10_example_runs. Qed.

(* at the level of the database model (Db.v: the journal as sealed files + active file, eviction by JournalManager::maintenance's
   rule against the watermarks taken at sealing, flush, rotation, compaction, ingestion, clear): in EVERY state reached by a
   program of keyspace creation, writes, batches, clears, ingestion, rotation, worker steps, drains and major compaction, every
   entry that lives only in a memtable (active or sealed) of a registered, undeleted keyspace has its batch in a journal file
   that still exists — a journal file is unlinked only when nothing in it is still needed *)
Theorem C10_journal_complete : forall mode filters (ops : list wop) (ks : kspace) (e : ent),
  let d := fold_left wstep ops (db_init mode filters) in
  In ks (d_kss d) -> In (k_id ks) (map snd (d_map d)) -> k_deleted ks = false ->
  In e (memsrc (k_tree ks)) -> exists b, In b (J d) /\ rb_seqno b = es e.
Proof. exact journal_complete. Qed.

(* ... also with keyspace deletions anywhere in the program: a deleted keyspace no longer holds a journal back, but deleting it
   never releases a journal that another registered keyspace still needs *)
Theorem C10_journal_complete_with_deletion : forall mode filters (ops : list dop) (ks : kspace) (e : ent),
  let d := fold_left dstep ops (db_init mode filters) in
  In ks (d_kss d) -> In (k_id ks) (map snd (d_map d)) -> k_deleted ks = false ->
  In e (memsrc (k_tree ks)) -> exists b, In b (J d) /\ rb_seqno b = es e.
Proof. exact journal_complete_with_deletion. Qed.

(* the step that matters: eviction keeps the invariant (M2: completeness, M3: a sealed journal's watermarks cover every
   memtable entry of a registered keyspace whose batch it holds) *)
Theorem C10_eviction_keeps_journal_complete : forall d, UQ d -> DInv d -> MJ d -> MJ (journal_maintenance d).
Proof. exact MJ_evict. Qed.

Print Assumptions C10_evicted_only_when_durable.
Print Assumptions C10_oldest_first.
Print Assumptions C10_back_to_one_partial.
Print Assumptions C10_example.
Print Assumptions C10_journal_complete.
Print Assumptions C10_eviction_keeps_journal_complete.
Print Assumptions C10_journal_complete_with_deletion.
