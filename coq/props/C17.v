(* C17 — one live instance per directory; only compatible directories open.  Only property theorems. *)
From FJ Require Import Bytes Marker MarkerP.

(* for ALL contents of the version marker file: accepted iff it starts with "FJL" followed by 3 *)
Theorem C17_marker : forall b : bytes,
  check_version b = OpenOk <-> exists r, b = 70 :: 74 :: 76 :: 3 :: r.
Proof. exact check_version_ok_iff. Qed.

(* a marker that is unknown or from another major version: InvalidVersion, before any file-system effect *)
Theorem C17_refused_unmodified : forall (d : dirstate) (b : bytes),
  ds_marker d = Some b -> (forall r, b <> 70 :: 74 :: 76 :: 3 :: r) ->
  fst (open_db d) = [] /\ exists v, snd (open_db d) = InvalidVersion v.
Proof. exact open_refuses_unmodified. Qed.

(* a second open while some handle holds the lock fails and has no file-system effect *)
Theorem C17_locked_unmodified : forall (d : dirstate) (b : bytes),
  ds_marker d = Some b -> ds_lock_held d = true ->
  fst (open_db d) = [] /\ snd (open_db d) <> OpenOk.
Proof. exact open_locked_unmodified. Qed.

(* the lock is held exactly while some handle (database clone, keyspace, transactional wrapper) is alive,
   for every order of acquiring, cloning and dropping handles *)
Theorem C17_lock_iff_handle : forall (ops : list lock_op),
  let s := fold_left lock_step ops {| l_refs := 0; l_locked := false |} in
  l_locked s = true <-> (0 < l_refs s)%nat.
Proof.
  intros ops. apply (lock_run_inv ops). unfold lock_inv. cbn. split; [discriminate|]. intros H. inversion H.
Qed.

(* the "absent marker" part of the statement is REFUTED (known finding E18): such a directory is refused, but only after
   create_new has already acted on it *)
Theorem C17_absent_marker_refuted :
  exists d, ds_marker d = None /\ snd (open_db d) = IoError /\ In FsCreateLockFile (fst (open_db d)).
Proof. exact absent_marker_refusal_has_effects. Qed.

Print Assumptions C17_marker.
Print Assumptions C17_refused_unmodified.
Print Assumptions C17_locked_unmodified.
Print Assumptions C17_lock_iff_handle.
Print Assumptions C17_absent_marker_refuted.
