(* C07 — optimistic transactions are serializable.  Only property theorems (partial: see DESIGN.md). *)
From FJ Require Import Bytes Codec Lsm Tracker Db OccP.

(* has_conflict answers exactly: "did the other transaction write a key that lies in one of my recorded
   read footprints (same keyspace)?" — for all nine range-bound combinations, point reads and full scans *)
Theorem C07_has_conflict_iff : forall mine other : cm,
  has_conflict mine other = true <->
  exists id k, In (id, k) (cm_writes other) /\ footprint mine id k = true.
Proof. exact has_conflict_iff. Qed.

(* what each read records covers what it reads: a point read its key, a full scan everything, a range or
   prefix scan exactly the range it iterates (the same [range_of] feeds the scan and the record) *)
Theorem C07_footprints :
  (forall x k, rd_hits (RdSingle x) k = true <-> x = k) /\
  (forall k, rd_hits RdAll k = true) /\
  (forall r k, rd_hits (rd_of_range r) k = in_range (range_of r) k).
Proof. exact (conj rd_hits_single (conj rd_hits_all rd_of_range_hits)). Qed.

(* validation soundness, for any key/value types: if none of the transactions committed between T's
   snapshot and T's commit touches T's footprint, the snapshot state and the state just before T's commit
   agree on the footprint, hence T's reads are those of the serial execution in commit order *)
Theorem C07_validation_sound :
  forall (key value : Type) (key_eqb : key -> key -> bool),
  forall (between : list (ctx key value)) (t : ctx key value) (s_snap : state key value),
  Forall (fun c => disjoint key value key_eqb (fp key value t) (ws key value c)) between ->
  agree_on key value (fp key value t) s_snap (apply_range key value key_eqb between s_snap).
Proof. intros. apply validation_sound. assumption. Qed.

Print Assumptions C07_has_conflict_iff.
Print Assumptions C07_footprints.
Print Assumptions C07_validation_sound.
