(* C18 — compaction filters act only where assigned, and only as their verdicts say.
   FULL STATEMENT (decided by the differential check): kept items are never altered by maintenance, removed /
   replaced items are in original or filtered form and stay filtered until rewritten, filters apply to exactly
   the assigned keyspace names on creation and on recovery.  Proved parts are named ..._partial. *)
From FJ Require Import Bytes Codec Lsm Db MapP.

(* the stream applies the verdict to the newest version of a key: Keep leaves it untouched, Remove turns it
   into a tombstone with the same seqno, Replace substitutes the value; key and seqno never change *)
Theorem C18_filter_verdicts_partial : forall (W : N) (r : frule) (h : ent) (t : list ent),
  is_tomb h = false ->
  match gc_key W false (Some r) (h :: t) with
  | nil => False
  | h' :: _ =>
      ek h' = ek h /\ es h' = es h /\
      match rule_verdict r (ek h) with
      | FKeep => h' = h
      | FRemove => is_tomb h' = true
      | FReplace v => is_tomb h' = false /\ ev h' = v
      end
  end.
Proof. exact gc_key_filter_head. Qed.

(* assignment: a keyspace gets the filter the assigner returns for ITS name, on creation ... *)
Theorem C18_assignment_on_create_partial : forall (d : db) (h : N) (name : bytes),
  blookup name (d_map d) = None ->
  exists ks, ks_of (fst (do_ks d h name)) (d_next_id d) = Some ks /\ k_filter ks = filter_for d name /\ k_name ks = name.
Proof.
  intros d h name H. unfold do_ks. rewrite H. cbn. unfold ks_of. cbn. rewrite N.eqb_refl. eexists. repeat split.
Qed.

Print Assumptions C18_filter_verdicts_partial.
Print Assumptions C18_assignment_on_create_partial.
