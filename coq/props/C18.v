(* C18 — compaction filters act only where assigned, and only as their verdicts say.
   FULL STATEMENT (decided by the differential check): kept items are never altered by maintenance, removed /
   replaced items are in original or filtered form and stay filtered until rewritten, filters apply to exactly
   the assigned keyspace names on creation and on recovery.  Proved parts are named ..._partial. *)
From FJ Require Import Bytes Codec Reader Lsm Tracker Db Prog MapP FilterP DbOrderP RefineP.

(* the stream applies the verdict to the newest version of a key: Keep leaves it untouched, Remove turns it
   into a tombstone with the same seqno, Replace substitutes the value; key and seqno never change *)
Theorem C18_filter_verdicts_partial : forall (W : N) (r : frule) (h : ent) (t : list ent),
  is_tomb h = false ->
  match gc_key W false (Some r) (h :: t) with
  | nil => False
  | h' :: _ =>
      ek h' = ek h /\ es h' = es h /\
      match rule_verdict r (ek h) with
      | FKeep => h' = h
      | FRemove => is_tomb h' = true
      | FReplace v => is_tomb h' = false /\ ev h' = v
      end
  end.
Proof. exact gc_key_filter_head. Qed.

(* assignment: a keyspace gets the filter the assigner returns for ITS name, on creation ... *)
Theorem C18_assignment_on_create_partial : forall (d : db) (h : N) (name : bytes),
  blookup name (d_map d) = None ->
  exists ks, ks_of (fst (do_ks d h name)) (d_next_id d) = Some ks /\ k_filter ks = filter_for d name /\ k_name ks = name.
Proof.
  intros d h name H. unfold do_ks. rewrite H. cbn. unfold ks_of. cbn. rewrite N.eqb_refl. eexists. repeat split.
Qed.

(* the filtered form is a fixed point of the filter (a later compaction does not alter a filtered item), and a filter
   never changes key or seqno *)
Theorem C18_filtered_form_stable_partial : forall (f : option frule) (e : ent),
  (apply_filter f (apply_filter f e) = apply_filter f e) /\
  (ek (apply_filter f e) = ek e /\ es (apply_filter f e) = es e).
Proof. intros f e. split; [apply apply_filter_idem|apply apply_filter_slot]. Qed.

(* "staying filtered once observed so until it is written again" is REFUTED for a Remove verdict across a reopen
   (known finding E17): the item removed by the filter carried the keyspace's highest persisted seqno; the last-level
   compaction evicts its tombstone, the persisted seqno falls below the journal record, and replay brings the
   original back.  The same history runs against the implementation in the C18 check (corpus/C18). *)
Theorem C18_stays_filtered_refuted :
  let out := snd (run as_is (db_init MPlain [(c18_name, c18_rule)]) c18_witness) in
  nth 6 out (Ox ObOk) = Ox (ObOpt None) /\ nth 9 out (Ox ObOk) = Ox (ObOpt (Some [170%N])).
Proof. exact remove_verdict_resurrects. Qed.

(* at the level of the database model, for every reachable state (DInv) and every key of the compacted keyspace: a major
   compaction leaves the latest read as it is when the keyspace has no filter or the verdict for the key is Keep; under Remove
   the read is unchanged or absent; under Replace v it is unchanged or — only if the key was present — v.  Nothing else. *)
Theorem C18_compaction_acts_as_the_verdict_says : forall (I : N) (d : db) (id : N) (ev : bool) (ks : kspace) (k0 : bytes),
  DInv d -> d_seqno d <= I -> ks_of d id = Some ks ->
  let a := absd I d id k0 in
  let a' := absd I (do_compact d id ev) id k0 in
  match k_filter ks with
  | None => a' = a
  | Some r => match rule_verdict r k0 with
              | FKeep => a' = a
              | FRemove => a' = a \/ a' = None
              | FReplace v => a' = a \/ (a <> None /\ a' = Some v)
              end
  end.
Proof. exact do_compact_verdict. Qed.

(* ... and every other keyspace is untouched by it, filtered or not *)
Theorem C18_compaction_touches_only_its_keyspace : forall (I : N) (d : db) (id : N) (ev : bool) (i : N) (k0 : bytes),
  DInv d -> d_seqno d <= I -> i <> id -> absd I (do_compact d id ev) i k0 = absd I d i k0.
Proof. exact do_compact_others. Qed.

(* flush, rotation, worker steps never apply a filter: on every keyspace, filtered or not, they leave every read as it is *)
Theorem C18_other_maintenance_never_filters : forall (I : N) (d : db) (id : N) (i : N) (k : bytes),
  DInv d -> d_seqno (fst (do_step d)) <= I ->
  absd I (fst (do_rotate d id)) i k = absd I d i k /\ absd I (fst (do_step d)) i k = absd I d i k.
Proof. intros I d id i k H L. split; [apply do_rotate_refines, H|apply do_step_refines; assumption]. Qed.

Print Assumptions C18_compaction_acts_as_the_verdict_says.
Print Assumptions C18_compaction_touches_only_its_keyspace.
Print Assumptions C18_other_maintenance_never_filters.
Print Assumptions C18_filter_verdicts_partial.
Print Assumptions C18_assignment_on_create_partial.
Print Assumptions C18_filtered_form_stable_partial.
Print Assumptions C18_stays_filtered_refuted.
