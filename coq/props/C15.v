(* C15 — journal records round-trip bit-exactly.  Only property theorems. *)
From FJ Require Import Bytes Codec Reader CodecP ReaderP DamageP.

Section C15.
  Variable hash : bytes -> N.
  Variable compress : bytes -> bytes.
  Variable decompress : bytes -> N -> option bytes.
  Hypothesis hash_bound : forall b, hash b < 2 ^ 64.

  (* every entry (any key/value bytes within the length limits, any value
     type, either compression tag) decodes to itself, whatever follows it *)
  Theorem C15_entry_roundtrip : forall (e : entry) (rest : bytes),
    wf_entry compress decompress e ->
    dec_entry decompress (enc_entry compress e ++ rest)
      = Some (e, rest, blen (enc_entry compress e)).
  Proof. exact (dec_enc_entry compress decompress). Qed.

  (* a whole journal, with ANY per-item compression choice (the [comp] field
     of each record is arbitrary: the reader never consults the configuration),
     is read back exactly, and the zero padding is cut off *)
  Theorem C15_journal_roundtrip : forall (bs : list wbatch) (z : nat),
    Forall (wf_batch compress decompress) bs ->
    read_journal hash compress decompress (enc_journal hash compress bs ++ zeros z)
      = (map rbatch_of bs, RStop (blen (enc_journal hash compress bs))).
  Proof. exact (read_journal_roundtrip hash compress decompress hash_bound). Qed.

  (* damage: for ANY byte string L (however altered), every batch the reader
     emits consists of the items and clears of some record list whose encoding
     hashes to a checksum that stands in L as an End marker *)
  Theorem C15_accepted_batches_checksummed : forall (L : bytes) (bs : list rbatch) (o : routcome),
    read_journal hash compress decompress L = (bs, o) ->
    Forall (checksummed hash compress decompress L) bs.
  Proof. exact (accepted_batches_checksummed hash compress decompress). Qed.

  (* ... so records different from the written ones can only be accepted against
     the written checksum if xxh3 collides on two different byte strings
     (partial: the Start marker's seqno and item count are outside the checksum) *)
  Theorem C15_damage_needs_collision : forall (recs recs' : list record),
    Forall (wf_record compress decompress) recs -> Forall (wf_record compress decompress) recs' ->
    recs <> recs' ->
    hash (enc_records compress recs') = hash (enc_records compress recs) ->
    exists a b, a <> b /\ hash a = hash b.
  Proof. exact (damage_needs_collision hash compress decompress). Qed.
End C15.

Print Assumptions C15_entry_roundtrip.
Print Assumptions C15_journal_roundtrip.
Print Assumptions C15_accepted_batches_checksummed.
Print Assumptions C15_damage_needs_collision.
