(* C15 — journal records round-trip bit-exactly.  Only property theorems. *)
From FJ Require Import Bytes Codec Reader CodecP ReaderP.

Section C15.
  Variable hash : bytes -> N.
  Variable compress : bytes -> bytes.
  Variable decompress : bytes -> N -> option bytes.
  Hypothesis hash_bound : forall b, hash b < 2 ^ 64.

  (* every entry (any key/value bytes within the length limits, any value
     type, either compression tag) decodes to itself, whatever follows it *)
  Theorem C15_entry_roundtrip : forall (e : entry) (rest : bytes),
    wf_entry compress decompress e ->
    dec_entry decompress (enc_entry compress e ++ rest)
      = Some (e, rest, blen (enc_entry compress e)).
  Proof. exact (dec_enc_entry compress decompress). Qed.

  (* a whole journal, with ANY per-item compression choice (the [comp] field
     of each record is arbitrary: the reader never consults the configuration),
     is read back exactly, and the zero padding is cut off *)
  Theorem C15_journal_roundtrip : forall (bs : list wbatch) (z : nat),
    Forall (wf_batch compress decompress) bs ->
    read_journal hash compress decompress (enc_journal hash compress bs ++ zeros z)
      = (map rbatch_of bs, RStop (blen (enc_journal hash compress bs))).
  Proof. exact (read_journal_roundtrip hash compress decompress hash_bound). Qed.
End C15.

Print Assumptions C15_entry_roundtrip.
Print Assumptions C15_journal_roundtrip.
