(* C06 — a committed batch becomes visible to readers atomically.  Only property theorems. *)
From FJ Require Import Bytes Conc ConcP.

(* For EVERY interleaving of the commit protocol's micro-steps (acquire the journal mutex, draw the seqno,
   apply item by item, publish, release) of any number of successive batches of any size n with
   snapshot-taking readers: what a snapshot (instant = visible seqno) sees of a batch, it sees entirely —
   as long as no step advances the visible seqno outside the mutex. *)
Theorem C06_snapshot_atomic : forall (n : N) (es : list event) (s : cst),
  forallb (fun e => negb (is_bump e)) es = true -> crun n cinit es = Some s ->
  forall q i, In (q, i) (seen s) -> forall j, j < n -> In (q, j) (seen s).
Proof. exact snapshot_atomic. Qed.

(* The code has such a step: every lsm-tree version upgrade (flush registration, compaction) does
   visible_seqno.fetch_max(seqno+1) on the shared counter.  With it the statement is refuted (known finding E4):
   a two-item batch is seen torn. *)
Theorem C06_bump_refuted :
  exists s, crun 2 cinit (EAcq :: EDraw :: EApply :: EBump :: ESnap :: nil) = Some s /\
            In (0, 0) (seen s) /\ ~ In (0, 1) (seen s).
Proof. exact bump_refutes. Qed.

Print Assumptions C06_snapshot_atomic.
Print Assumptions C06_bump_refuted.
