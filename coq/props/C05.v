(* C05 — snapshots, read transactions and iterators are frozen in time.  Only property theorems. *)
From FJ Require Import Bytes Codec Reader Lsm Tracker Db LsmP TrackerP DbP DbOrderP RefineP FrozenP.

(* 1. the snapshot tracker, for EVERY sequence of open / clone / close / publish / gc / pullup
      (each nonce closed once): the open-snapshot table counts the live holders, the GC watermark stays
      below every live instant and below the visible seqno *)
Theorem C05_tracker_invariants : forall (ops : list top) (v : N),
  let st := fold_left tstep ops (tr_init v, nil) in
  (forall i, cnt i (snd st) = trow i (tdata (fst st))) /\
  (forall i, In i (snd st) -> lowest_freed (fst st) <= i - 1) /\
  lowest_freed (fst st) <= visible (fst st) - 1.
Proof.
  intros ops v st.
  pose proof (inv_run ops (tr_init v, nil) (inv_init v)) as I. fold st in I.
  split; [exact (inv_count _ _ I)|]. split; [exact (inv_wm_live _ _ I)|exact (inv_wm_vis _ _ I)].
Qed.

(* 2. reads at instant I (point read and scan, through the version-history selection) are unchanged by
      EVERY sequence of tree operations — memtable appends, rotation, flush, compaction (any filter,
      tombstone eviction or not), clear, ingestion registration, version-history maintenance — whose new
      seqnos are >= I and whose GC watermarks are <= I *)
Theorem C05_reads_frozen : forall (ops : list tree_op) (t : tree) (k : bytes) (I : N),
  ids_ok t -> Forall (op_ok I) ops ->
  reads (fold_left apply_top ops t) k I = reads t k I.
Proof. exact run_frozen. Qed.

(* 3. fjall passes exactly such parameters: for every live view, the next seqno drawn (writes, version
      upgrades) is >= its instant and the watermark given to flush / compaction / maintenance is <= it *)
Theorem C05_fjall_parameters_ok : forall (d : db) (live : list N) (i : N),
  Inv (d_trk d) live -> vis_le_seq d -> In i live ->
  i <= d_seqno d /\ W_of d <= i.
Proof. exact params_ok. Qed.

(* 4. using a live snapshot never fails: its super-version is always found *)
Theorem C05_select_defined : forall (t : tree) (I : N),
  vers t <> nil -> (I = 0 \/ exists v, In v (vers t) /\ v_seq v < I) -> select_version t I <> None.
Proof. exact select_some. Qed.

(* 5. the composition, at the level of the database model: a view whose instant is registered in the snapshot tracker reads the
      same — point reads and scans, through the version selection, in every keyspace that exists — after EVERY operation
      (keyspace creation, writes, batches = transaction commits, clears, ingestion, rotation with its tracker GC and
      version-history maintenance, worker steps, drains, major compaction with any filter) ... *)
Theorem C05_live_view_frozen_by_every_operation : forall (d : db) (o : wop) (live : list N) (i : N),
  DInv d -> UQ d -> VInv d live -> In i live ->
  forall id k, kfind (d_kss d) id <> None -> vreads i (d_kss (wstep d o)) id k = vreads i (d_kss d) id k.
Proof. exact wstep_frozen. Qed.

(*    ... the tracker invariant survives every operation ... *)
Theorem C05_tracker_invariant_kept : forall (d : db) (o : wop) (live : list N), VInv d live -> VInv (wstep d o) live.
Proof. exact wstep_VInv. Qed.

(*    ... hence: a snapshot opened after ANY program, then ANY program: it still reads what it read when it was opened *)
Theorem C05_snapshot_frozen : forall mode filters (p1 p2 : list wop) (id : N) (k : bytes),
  let d1 := fold_left wstep p1 (db_init mode filters) in
  let i := visible (d_trk d1) in
  let d2 := fold_left wstep p2 (open_view d1) in
  kfind (d_kss d1) id <> None -> vreads i (d_kss d2) id k = vreads i (d_kss d1) id k.
Proof. exact snapshot_frozen. Qed.

Print Assumptions C05_live_view_frozen_by_every_operation.
Print Assumptions C05_tracker_invariant_kept.
Print Assumptions C05_snapshot_frozen.
Print Assumptions C05_tracker_invariants.
Print Assumptions C05_reads_frozen.
Print Assumptions C05_fjall_parameters_ok.
Print Assumptions C05_select_defined.
