(* C05 — snapshots, read transactions and iterators are frozen in time.  Only property theorems. *)
From FJ Require Import Bytes Codec Lsm Tracker Db LsmP TrackerP DbP.

(* 1. the snapshot tracker, for EVERY sequence of open / clone / close / publish / gc / pullup
      (each nonce closed once): the open-snapshot table counts the live holders, the GC watermark stays
      below every live instant and below the visible seqno *)
Theorem C05_tracker_invariants : forall (ops : list top) (v : N),
  let st := fold_left tstep ops (tr_init v, nil) in
  (forall i, cnt i (snd st) = trow i (tdata (fst st))) /\
  (forall i, In i (snd st) -> lowest_freed (fst st) <= i - 1) /\
  lowest_freed (fst st) <= visible (fst st) - 1.
Proof.
  intros ops v st.
  pose proof (inv_run ops (tr_init v, nil) (inv_init v)) as I. fold st in I.
  split; [exact (inv_count _ _ I)|]. split; [exact (inv_wm_live _ _ I)|exact (inv_wm_vis _ _ I)].
Qed.

(* 2. reads at instant I (point read and scan, through the version-history selection) are unchanged by
      EVERY sequence of tree operations — memtable appends, rotation, flush, compaction (any filter,
      tombstone eviction or not), clear, ingestion registration, version-history maintenance — whose new
      seqnos are >= I and whose GC watermarks are <= I *)
Theorem C05_reads_frozen : forall (ops : list tree_op) (t : tree) (k : bytes) (I : N),
  ids_ok t -> Forall (op_ok I) ops ->
  reads (fold_left apply_top ops t) k I = reads t k I.
Proof. exact run_frozen. Qed.

(* 3. fjall passes exactly such parameters: for every live view, the next seqno drawn (writes, version
      upgrades) is >= its instant and the watermark given to flush / compaction / maintenance is <= it *)
Theorem C05_fjall_parameters_ok : forall (d : db) (live : list N) (i : N),
  Inv (d_trk d) live -> vis_le_seq d -> In i live ->
  i <= d_seqno d /\ W_of d <= i.
Proof. exact params_ok. Qed.

(* 4. using a live snapshot never fails: its super-version is always found *)
Theorem C05_select_defined : forall (t : tree) (I : N),
  vers t <> nil -> (I = 0 \/ exists v, In v (vers t) /\ v_seq v < I) -> select_version t I <> None.
Proof. exact select_some. Qed.

Print Assumptions C05_tracker_invariants.
Print Assumptions C05_reads_frozen.
Print Assumptions C05_fjall_parameters_ok.
Print Assumptions C05_select_defined.
