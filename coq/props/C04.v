(* C04 — close and reopen reproduces exactly the same logical content.
   FULL STATEMENT decided by the differential check (histories with reopen cycles, ingestion, clear, sealed journals;
   dump before close = dump after reopen; point reads = scans).  Proved parts are named ..._partial: they are the two
   halves of the replay rule that the repairs 3ed2a5b (active journal) and dc3abc4 (sealed journals) put in place. *)
From FJ Require Import Bytes Codec Reader Lsm Tracker Db Prog RecoverP FilterP OrderP DbOrderP RefineP RecoverInvP.

(* a journal batch (items and clears) that every keyspace's tables already cover is not replayed: table data that never
   went through the journal (bulk ingestion, compaction-filter output) is neither shadowed nor wiped *)
Theorem C04_covered_records_not_replayed_partial : forall cfg meta mp sq kss b,
  d_replay_shadow cfg = false -> d_clear_replay cfg = false -> covered (rb_seqno b) kss ->
  replay_batch cfg meta mp (sq, kss) b = (sq, kss).
Proof. exact replay_covered_noop. Qed.

(* a record the tables do not cover is put back into its keyspace's active memtable with its original seqno *)
Theorem C04_uncovered_records_replayed_partial : forall cfg s meta mp k it name,
  alookup (ri_ks it) meta = Some name -> blookup name mp = Some (k_id k) ->
  (forall p, t_highest_persisted (k_tree k) = Some p -> p < s) ->
  replay_items cfg s [k] meta mp [it] =
  [with_tree k (t_append (k_tree k) (mkEnt (ri_key it) s (ri_vt it) (ri_value it)))].
Proof. exact replay_uncovered_appended. Qed.

Theorem C04_covered_example : covered 3 [c04_ks].
Proof. exact covered_example. Qed.

(* the FULL statement is REFUTED (known finding E17): the watermark the replay rule relies on — the keyspace's highest
   persisted seqno — is not monotone.  A key deleted by an ingested tombstone reads as deleted, and after a reopen reads its
   old value again, once a last-level compaction has evicted the tombstone.  Same history on the implementation:
   corpus/C04/e17_ingested_tombstone_resurrected.txt *)
Theorem C04_reopen_identity_refuted :
  let out := snd (run as_is (db_init MPlain []) c04_witness) in
  nth 5 out (Ox ObOk) = Ox (ObOpt None) /\ nth 8 out (Ox ObOk) = Ox (ObOpt (Some [170%N])).
Proof. exact ingested_tombstone_resurrects. Qed.

(* recovery re-establishes the invariant of the write path, for ANY disk image whose trees hold tables only (what a close
   leaves) and whose journal batches carry increasing seqnos, oldest journal first: every recovered keyspace has its sources
   ordered by recency (a journal record is put back only when it is newer than everything the tables hold; sealed journals
   rebuild memtables that are dropped or sealed) and every entry below the restored counter *)
Theorem C04_recovery_restores_the_write_invariant : forall cfg mode filters active sealed meta dirs pn ms,
  d_replay_shadow cfg = false -> d_seqno_journal cfg = false ->
  (forall p, In p dirs -> QQ 0 (snd p)) -> incr 0 (concat sealed ++ active) ->
  DInv (recover cfg mode filters active sealed meta dirs pn ms).
Proof. exact recover_dinv. Qed.

(* hence, after EVERY program of writes, maintenance and reopens, point reads agree with scans on every keyspace — the
   clause of the property that the replay defects (3ed2a5b, dc3abc4) broke *)
Theorem C04_reads_agree_after_reopen : forall mode filters (ops : list rop) ks k I,
  let d := fold_left rstep ops (db_init mode filters) in
  In ks (d_kss d) ->
  v_get_ent (k_tree ks) (latest (k_tree ks)) k I = newest k I (v_all (k_tree ks) (latest (k_tree ks))).
Proof. exact reads_agree_with_reopen. Qed.

(* the journal a reopen finds is the journal the close left, and both invariants survive any number of reopen cycles *)
Theorem C04_reopen_cycles_keep_invariants : forall (ops : list rop) d,
  DInv d -> JS d -> DInv (fold_left rstep ops d) /\ JS (fold_left rstep ops d).
Proof. exact rrun_inv. Qed.

Print Assumptions C04_recovery_restores_the_write_invariant.
Print Assumptions C04_reads_agree_after_reopen.
Print Assumptions C04_reopen_cycles_keep_invariants.
Print Assumptions C04_covered_records_not_replayed_partial.
Print Assumptions C04_uncovered_records_replayed_partial.
Print Assumptions C04_covered_example.
Print Assumptions C04_reopen_identity_refuted.
