(* C02 — acknowledged writes survive a process crash, in commit order.
   The journal part is a theorem; the interplay with tables, flush and eviction is decided by crash enumeration
   on the real code (py/props/c02.py). *)
From FJ Require Import Bytes Codec Reader ReaderP Writer WriterP DurableP Lsm Tracker Db RecoverP.
From FJ Require OrderP DbOrderP RefineP RecoverInvP JournalInvP.

(* with automatic journal persist every write is followed by persist(Buffer) before it is acknowledged:
   the bytes of every acknowledged batch have been handed to the OS *)
Theorem C02_acknowledged_bytes_reach_the_os : forall (ops : list wop) (m : pmode),
  crash_image (w_persist (fold_left w_step ops w_init) m) = written ops.
Proof.
  intros ops m. destruct (persist_flushes (fold_left w_step ops w_init) m) as [_ C].
  - apply inv_run. split; [intros H; contradiction H; reflexivity|cbn; apply le_n].
  - rewrite C, content_run. reflexivity.
Qed.

(* a process crash leaves some prefix of the journal stream that covers the acknowledged batches bs1 (possibly
   with a torn tail of the batch in flight): recovery returns bs1 plus possibly the complete batch(es) in flight,
   in order — a prefix of the commit sequence containing every acknowledged batch *)
Theorem C02_journal_recovers_acknowledged_prefix :
  forall (hash : bytes -> N) (compress : bytes -> bytes) (decompress : bytes -> N -> option bytes),
  (forall b, hash b < 2 ^ 64) ->
  forall (bs1 bs2 : list wbatch) (m z : nat),
  Forall (wf_batch compress decompress) (bs1 ++ bs2) ->
  (length (enc_journal hash compress bs1) <= m)%nat ->
  exists rest,
    read_journal hash compress decompress (firstn m (enc_journal hash compress (bs1 ++ bs2)) ++ zeros z)
      = (map rbatch_of (bs1 ++ rest), RStop (blen (enc_journal hash compress (bs1 ++ rest))))
    /\ exists k, rest = firstn k bs2.
Proof. intros. apply durable_batches_recovered; assumption. Qed.

(* model level (Db.v): an acknowledged insert / remove / clear has appended exactly its own batch, with the seqno it was
   applied with, to the active journal — together with C04_uncovered_records_replayed_partial this is why replay brings
   it back.  PARTIAL: single operations; batches and transaction commits go through the same commit_batch. *)
Theorem C02_acknowledged_write_is_journaled_partial : forall d id k v vt mvt d',
  write_one d id k v vt mvt = (d', ObOk) ->
  d_active d' = d_active d ++ [mk_batch (d_seqno d) [{| ri_ks := id; ri_key := k; ri_value := v; ri_vt := vt |}] []] /\
  d_seqno d' = d_seqno d + 1 /\ d_sealed d' = d_sealed d.
Proof. exact write_one_journaled. Qed.

Theorem C02_acknowledged_clear_is_journaled_partial : forall d id d',
  do_clear d id = (d', ObOk) -> d_active d' = d_active d ++ [mk_batch (d_seqno d) [] [id]].
Proof. exact clear_journaled. Qed.

(* model level, every program (with journal sealing and eviction): whatever has not reached a table is in a journal file that
   still exists — so it is there to be replayed after a crash (C04_uncovered_records_replayed_partial says it is replayed) *)
Theorem C02_unflushed_writes_are_in_a_live_journal : forall mode filters (ops : list DbOrderP.wop) (ks : kspace) (e : ent),
  let d := fold_left DbOrderP.wstep ops (db_init mode filters) in
  In ks (d_kss d) -> In (k_id ks) (map snd (d_map d)) -> k_deleted ks = false ->
  In e (RecoverInvP.memsrc (k_tree ks)) -> exists b, In b (RecoverInvP.J d) /\ rb_seqno b = es e.
Proof. exact JournalInvP.journal_complete. Qed.

Print Assumptions C02_acknowledged_bytes_reach_the_os.
Print Assumptions C02_journal_recovers_acknowledged_prefix.
Print Assumptions C02_acknowledged_write_is_journaled_partial.
Print Assumptions C02_acknowledged_clear_is_journaled_partial.
Print Assumptions C02_unflushed_writes_are_in_a_live_journal.
