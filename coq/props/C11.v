(* C11 — after reopening, new writes supersede everything recovered.  Only property theorems. *)
From FJ Require Import Bytes Codec Reader Lsm Tracker Db Prog TxP MapP RecoverP DbOrderP RefineP RecoverInvP.

(* After recovery of ANY disk image (any journal batches in any sealed/active journals, any tables, any
   registry): the next sequence number is above every entry of every recovered keyspace's current version
   (memtables rebuilt from the journal and tables alike) and above every journal record — including
   records that left no entry behind (clear) — and the visible seqno equals it. *)
Theorem C11_seqno_above_all :
  forall cfg mode filters active sealed meta dirs pn ms,
  d_seqno_journal cfg = false ->
  let d := recover cfg mode filters active sealed meta dirs pn ms in
  (forall ks e, In ks (d_kss d) -> In e (v_all (k_tree ks) (latest (k_tree ks))) -> es e < d_seqno d) /\
  (forall b, In b (concat sealed ++ active) -> rb_seqno b < d_seqno d) /\
  visible (d_trk d) = d_seqno d.
Proof. exact recover_seqno_above. Qed.

(* hence a write drawn afterwards (its seqno is >= that counter, above the whole active memtable) wins the
   point read of its key — value for an insert, absence for a remove — and leaves other keys alone.
   (partial: the scan clause is decided by the differential check) *)
Theorem C11_later_write_wins_partial : forall (e : ent) (a : list ent) (k : bytes) (I : N),
  all_below (es e) a -> es e < I ->
  value_of (newest k I (mem_insert e a)) =
    if list_eqb (ek e) k then (if is_tomb e then None else Some (ev e)) else value_of (newest k I a).
Proof. exact append_point_read. Qed.

(* the full clause, over the database model: in EVERY state reached by a program of keyspace creation, writes, batches,
   clears, ingestion, rotation, worker steps, drains, major compaction and REOPENS — in particular right after a reopen — an
   accepted insert / remove supersedes whatever was recovered: its key reads the written value (absent for a removal), and
   every other key of every keyspace reads as before.  Reads: the point read of the latest version at any instant at or
   above the counter; by C11_reads_agree_after_reopen the scan shows the same. *)
Theorem C11_later_write_wins : forall mode filters (ops : list rop) id k v vt mvt I i k',
  let d := fold_left rstep ops (db_init mode filters) in
  let d' := fst (write_one d id k v vt mvt) in
  snd (write_one d id k v vt mvt) = ObOk -> d_seqno d' <= I ->
  absd I d' i k' = if (i =? id) && list_eqb k k' then val_of mvt v else absd I d i k'.
Proof. exact later_write_wins. Qed.

(* in general: whatever history of writes, maintenance, deletions and reopens came before, EVERY later sequence of operations
   acts on the recovered content exactly as on a reference map (accepted writes set their key, refused ones and all maintenance
   change nothing, clears empty, ingestion overlays) — no recovered entry ever wins over a later write *)
Theorem C11_after_any_history_operations_refine : forall mode (hist : list rop) (ops : list wop) I,
  let d1 := fold_left rstep hist (db_init mode []) in
  d_seqno (fold_left wstep ops d1) <= I ->
  forall id k, absd I (fold_left wstep ops d1) id k = srun d1 ops (absd I d1) id k.
Proof. exact history_then_ops_refine. Qed.

Theorem C11_reads_agree_after_reopen : forall mode filters (ops : list rop) ks k I,
  let d := fold_left rstep ops (db_init mode filters) in
  In ks (d_kss d) ->
  v_get_ent (k_tree ks) (latest (k_tree ks)) k I = newest k I (v_all (k_tree ks) (latest (k_tree ks))).
Proof. exact reads_agree_with_reopen. Qed.

(* the counter clause for the model's own reopen of any reachable state *)
Theorem C11_counter_above_after_reopen : forall mode filters (ops : list rop),
  let d := do_reopen as_is (fold_left rstep ops (db_init mode filters)) in
  (forall ks e, In ks (d_kss d) -> In e (v_all (k_tree ks) (latest (k_tree ks))) -> es e < d_seqno d) /\
  (forall b, In b (J d) -> rb_seqno b < d_seqno d).
Proof. exact reopen_counter_above. Qed.

Theorem C11_example :
  let d := fold_left rstep reopen_example (db_init MPlain []) in
  absd 100 d 1 [107] = Some [7] /\ absd 100 d 1 [108] = Some [2] /\ absd 100 d 1 [109] = Some [3].
Proof. exact reopen_example_reads. Qed.

Print Assumptions C11_later_write_wins.
Print Assumptions C11_after_any_history_operations_refine.
Print Assumptions C11_reads_agree_after_reopen.
Print Assumptions C11_counter_above_after_reopen.
Print Assumptions C11_example.
Print Assumptions C11_seqno_above_all.
Print Assumptions C11_later_write_wins_partial.
