(* C11 — after reopening, new writes supersede everything recovered.  Only property theorems. *)
From FJ Require Import Bytes Codec Reader Lsm Tracker Db Prog TxP MapP RecoverP.

(* After recovery of ANY disk image (any journal batches in any sealed/active journals, any tables, any
   registry): the next sequence number is above every entry of every recovered keyspace's current version
   (memtables rebuilt from the journal and tables alike) and above every journal record — including
   records that left no entry behind (clear) — and the visible seqno equals it. *)
Theorem C11_seqno_above_all :
  forall cfg mode filters active sealed meta dirs pn ms,
  d_seqno_journal cfg = false ->
  let d := recover cfg mode filters active sealed meta dirs pn ms in
  (forall ks e, In ks (d_kss d) -> In e (v_all (k_tree ks) (latest (k_tree ks))) -> es e < d_seqno d) /\
  (forall b, In b (concat sealed ++ active) -> rb_seqno b < d_seqno d) /\
  visible (d_trk d) = d_seqno d.
Proof. exact recover_seqno_above. Qed.

(* hence a write drawn afterwards (its seqno is >= that counter, above the whole active memtable) wins the
   point read of its key — value for an insert, absence for a remove — and leaves other keys alone.
   (partial: the scan clause is decided by the differential check) *)
Theorem C11_later_write_wins_partial : forall (e : ent) (a : list ent) (k : bytes) (I : N),
  all_below (es e) a -> es e < I ->
  value_of (newest k I (mem_insert e a)) =
    if list_eqb (ek e) k then (if is_tomb e then None else Some (ev e)) else value_of (newest k I a).
Proof. exact append_point_read. Qed.

Print Assumptions C11_seqno_above_all.
Print Assumptions C11_later_write_wins_partial.
