(* C01 — ordered-map equivalence under background maintenance.
   FULL STATEMENT (not yet a theorem; decided by the differential check against the extracted model):
     for every program p, every keyspace h, the reads of [run as_is init p] equal those of a sorted map
     updated by the write operations of p, with rotate / flush / compaction steps changing nothing.
   Proved parts below are named ..._partial. *)
From FJ Require Import Bytes Codec Lsm Tracker Db LsmP TxP MapP OrderP DbOrderP.

(* a write (insert / remove / batch item) with a seqno above everything in the active memtable: the point
   read of the written key returns the written value (absence for a tombstone); other keys are untouched *)
Theorem C01_write_point_read_partial : forall (e : ent) (a : list ent) (k : bytes) (I : N),
  all_below (es e) a -> es e < I ->
  value_of (newest k I (mem_insert e a)) =
    if list_eqb (ek e) k then (if is_tomb e then None else Some (ev e)) else value_of (newest k I a).
Proof. exact append_point_read. Qed.

(* the compaction stream's per-key rule never changes what the newest version of a key reads as: the newest
   version is kept as is, or it was a tombstone evicted at the last level together with everything older *)
Theorem C01_gc_keeps_newest_partial : forall (W : N) (evict : bool) (h : ent) (t : list ent),
  value_of (hd_error (gc_key W evict None (h :: t))) = value_of (Some h).
Proof. exact gc_key_value. Qed.

(* rotation, flush registration, version-history maintenance never change reads at an instant above their
   parameters: see C05_reads_frozen (props/C05.v) *)

(* point reads agree with scans: a point read returns the first hit in source order (active memtable, sealed memtables,
   tables), a scan lets the highest seqno win; they coincide for key k at instant I whenever the sources are ordered by
   recency for that key.  Without the premise they differ (what replaying covered journal records used to produce). *)
Theorem C01_point_read_agrees_with_scan_partial : forall (t : tree) (v : version) (k : bytes) (I : N),
  recency_ordered k I (mem_of t (v_active v) :: map (mem_of t) (v_sealed v) ++ [v_tables v]) ->
  v_get_ent t v k I = newest k I (v_all t v).
Proof. exact point_read_agrees_with_scan. Qed.

(* ... and the premise is an invariant: for EVERY sequence of tree operations (memtable appends, rotation, flush,
   compaction with any filter, clear, ingestion registration, version-history maintenance) that respects the write
   discipline — an appended entry is newer than everything sealed or in tables; ingestion registers only after the
   memtables were flushed — the point read of every key at every instant equals the entry the scan shows for it *)
Theorem C01_reads_agree : forall (ops : list tree_op) (k : bytes) (I : N),
  run_disciplined tree_init ops ->
  let t := fold_left apply_top ops tree_init in
  v_get_ent t (latest t) k I = newest k I (v_all t (latest t)).
Proof. exact reads_agree. Qed.

Theorem C01_reads_agree_example : run_disciplined tree_init order_example.
Proof. exact order_example_ok. Qed.

(* ... and the operations of the database model respect that discipline: for EVERY sequence of keyspace creation, single
   writes, committed batches (transaction commits go through the same commit_batch), clear, memtable rotation, worker
   steps (flush, journal sealing, maintenance), drains, major compaction with any filter, and bulk ingestion — on every
   keyspace, for every key and every instant, the point read returns exactly the entry the scan shows.  (Reopen is not
   among these operations: that is where the premise was violated before the repairs, see C04.) *)
Theorem C01_db_reads_agree : forall (mode : dbmode) (filters : list (bytes * frule)) (ops : list wop) (ks : kspace) (k : bytes) (I : N),
  let d := fold_left wstep ops (db_init mode filters) in
  In ks (d_kss d) ->
  v_get_ent (k_tree ks) (latest (k_tree ks)) k I = newest k I (v_all (k_tree ks) (latest (k_tree ks))).
Proof. exact db_reads_agree. Qed.

Theorem C01_db_reads_agree_example :
  exists ks, In ks (d_kss (fold_left wstep db_example (db_init MPlain []))) /\ v_all (k_tree ks) (latest (k_tree ks)) <> [].
Proof. exact db_example_nonempty. Qed.

Theorem C01_shadowing_refuted_without_recency :
  value_of (v_get_ent shadow_tree (latest shadow_tree) [107] 10) = Some [1] /\
  value_of (newest [107] 10 (v_all shadow_tree (latest shadow_tree))) = Some [2].
Proof. exact shadow_disagrees. Qed.

Print Assumptions C01_write_point_read_partial.
Print Assumptions C01_gc_keeps_newest_partial.
Print Assumptions C01_point_read_agrees_with_scan_partial.
Print Assumptions C01_shadowing_refuted_without_recency.
Print Assumptions C01_reads_agree.
Print Assumptions C01_reads_agree_example.
Print Assumptions C01_db_reads_agree.
Print Assumptions C01_db_reads_agree_example.
