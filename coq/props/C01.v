(* C01 — ordered-map equivalence under background maintenance.
   FULL STATEMENT (not yet a theorem; decided by the differential check against the extracted model):
     for every program p, every keyspace h, the reads of [run as_is init p] equal those of a sorted map
     updated by the write operations of p, with rotate / flush / compaction steps changing nothing.
   Proved parts below are named ..._partial. *)
From FJ Require Import Bytes Codec Lsm LsmP TxP MapP.

(* a write (insert / remove / batch item) with a seqno above everything in the active memtable: the point
   read of the written key returns the written value (absence for a tombstone); other keys are untouched *)
Theorem C01_write_point_read_partial : forall (e : ent) (a : list ent) (k : bytes) (I : N),
  all_below (es e) a -> es e < I ->
  value_of (newest k I (mem_insert e a)) =
    if list_eqb (ek e) k then (if is_tomb e then None else Some (ev e)) else value_of (newest k I a).
Proof. exact append_point_read. Qed.

(* the compaction stream's per-key rule never changes what the newest version of a key reads as: the newest
   version is kept as is, or it was a tombstone evicted at the last level together with everything older *)
Theorem C01_gc_keeps_newest_partial : forall (W : N) (evict : bool) (h : ent) (t : list ent),
  value_of (hd_error (gc_key W evict None (h :: t))) = value_of (Some h).
Proof. exact gc_key_value. Qed.

(* rotation, flush registration, version-history maintenance never change reads at an instant above their
   parameters: see C05_reads_frozen (props/C05.v) *)

Print Assumptions C01_write_point_read_partial.
Print Assumptions C01_gc_keeps_newest_partial.
