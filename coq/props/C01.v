(* C01 — ordered-map equivalence under background maintenance.
   FULL STATEMENT, now a theorem over the database model (C01_refines_reference_map, C01_scan_is_the_sorted_map below):
     for every program of keyspace creation, writes, batches (hence transaction commits), clears, bulk ingestion, memtable
     rotation, worker steps (flush, journal sealing, journal eviction), drains and major compaction, the latest point read of
     every key in every keyspace equals a reference map updated by the write operations alone — rotate / flush / compaction /
     maintenance steps change nothing — and a scan is exactly that map in key order.
   Not in the theorem (decided by the differential check): reopen (C04), keyspace deletion (C12), compaction filters (C18),
   the iterator plumbing above scan_ents (ranges, prefix, reverse, two-ended consumption), key-value separation. *)
From FJ Require Import Bytes Codec Reader Lsm Tracker Db Prog LsmP TxP MapP OrderP DbOrderP SortP RefineP RecoverInvP PlainP.
From Coq Require Import Sorted.

(* a write (insert / remove / batch item) with a seqno above everything in the active memtable: the point
   read of the written key returns the written value (absence for a tombstone); other keys are untouched *)
Theorem C01_write_point_read_partial : forall (e : ent) (a : list ent) (k : bytes) (I : N),
  all_below (es e) a -> es e < I ->
  value_of (newest k I (mem_insert e a)) =
    if list_eqb (ek e) k then (if is_tomb e then None else Some (ev e)) else value_of (newest k I a).
Proof. exact append_point_read. Qed.

(* the compaction stream's per-key rule never changes what the newest version of a key reads as: the newest
   version is kept as is, or it was a tombstone evicted at the last level together with everything older *)
Theorem C01_gc_keeps_newest_partial : forall (W : N) (evict : bool) (h : ent) (t : list ent),
  value_of (hd_error (gc_key W evict None (h :: t))) = value_of (Some h).
Proof. exact gc_key_value. Qed.

(* rotation, flush registration, version-history maintenance never change reads at an instant above their
   parameters: see C05_reads_frozen (props/C05.v) *)

(* point reads agree with scans: a point read returns the first hit in source order (active memtable, sealed memtables,
   tables), a scan lets the highest seqno win; they coincide for key k at instant I whenever the sources are ordered by
   recency for that key.  Without the premise they differ (what replaying covered journal records used to produce). *)
Theorem C01_point_read_agrees_with_scan_partial : forall (t : tree) (v : version) (k : bytes) (I : N),
  recency_ordered k I (mem_of t (v_active v) :: map (mem_of t) (v_sealed v) ++ [v_tables v]) ->
  v_get_ent t v k I = newest k I (v_all t v).
Proof. exact point_read_agrees_with_scan. Qed.

(* ... and the premise is an invariant: for EVERY sequence of tree operations (memtable appends, rotation, flush,
   compaction with any filter, clear, ingestion registration, version-history maintenance) that respects the write
   discipline — an appended entry is newer than everything sealed or in tables; ingestion registers only after the
   memtables were flushed — the point read of every key at every instant equals the entry the scan shows for it *)
Theorem C01_reads_agree : forall (ops : list tree_op) (k : bytes) (I : N),
  run_disciplined tree_init ops ->
  let t := fold_left apply_top ops tree_init in
  v_get_ent t (latest t) k I = newest k I (v_all t (latest t)).
Proof. exact reads_agree. Qed.

Theorem C01_reads_agree_example : run_disciplined tree_init order_example.
Proof. exact order_example_ok. Qed.

(* ... and the operations of the database model respect that discipline: for EVERY sequence of keyspace creation, single
   writes, committed batches (transaction commits go through the same commit_batch), clear, memtable rotation, worker
   steps (flush, journal sealing, maintenance), drains, major compaction with any filter, and bulk ingestion — on every
   keyspace, for every key and every instant, the point read returns exactly the entry the scan shows.  (Reopen is not
   among these operations: that is where the premise was violated before the repairs, see C04.) *)
Theorem C01_db_reads_agree : forall (mode : dbmode) (filters : list (bytes * frule)) (ops : list wop) (ks : kspace) (k : bytes) (I : N),
  let d := fold_left wstep ops (db_init mode filters) in
  In ks (d_kss d) ->
  v_get_ent (k_tree ks) (latest (k_tree ks)) k I = newest k I (v_all (k_tree ks) (latest (k_tree ks))).
Proof. exact db_reads_agree. Qed.

Theorem C01_db_reads_agree_example :
  exists ks, In ks (d_kss (fold_left wstep db_example (db_init MPlain []))) /\ v_all (k_tree ks) (latest (k_tree ks)) <> [].
Proof. exact db_example_nonempty. Qed.

Theorem C01_shadowing_refuted_without_recency :
  value_of (v_get_ent shadow_tree (latest shadow_tree) [107] 10) = Some [1] /\
  value_of (newest [107] 10 (v_all shadow_tree (latest shadow_tree))) = Some [2].
Proof. exact shadow_disagrees. Qed.

(* ---- the refinement ---- *)
(* one step of the database model = one step of the reference maps (sstep, RefineP.v: a write sets its key, a refused write
   changes nothing, a batch is its items in order, clear empties, ingestion overlays, everything else is the identity) *)
Theorem C01_step_refines : forall (I : N) (d : db) (o : wop),
  DInv d -> nofilter d -> d_seqno (wstep d o) <= I ->
  forall id k, absd I (wstep d o) id k = sstep d o (absd I d) id k.
Proof. exact wstep_refines. Qed.

(* every program from the empty database, every keyspace id, every key, every read instant not below the seqno counter *)
Theorem C01_refines_reference_map : forall (mode : dbmode) (ops : list wop) (I : N) (id : N) (k : bytes),
  let d := fold_left wstep ops (db_init mode []) in
  d_seqno d <= I -> absd I d id k = srun (db_init mode []) ops sempty id k.
Proof. exact db_refines. Qed.

(* ... stated with the model's own read functions (t_get / t_scan: select the super-version for the instant, then first hit /
   merge): after EVERY program, for every keyspace object that is the registered one for its id, a point read at any instant
   above the seqno counter (Keyspace::get / iter read at SeqNo::MAX) returns the reference map's value, and a scan
   returns the reference map as a strictly ascending list *)
Theorem C01_reads_refine : forall (mode : dbmode) (ops : list wop) (I : N) (ks : kspace) (k : bytes),
  let d := fold_left wstep ops (db_init mode []) in
  In ks (d_kss d) -> d_seqno d < I -> kfind (d_kss d) (k_id ks) = Some ks ->
  t_get (k_tree ks) k I = Some (srun (db_init mode []) ops sempty (k_id ks) k) /\
  exists sc, t_scan (k_tree ks) I = Some sc /\
             StronglySorted (fun a b => bytes_ltb (fst a) (fst b) = true) sc /\
             forall k' v, In (k', v) sc <-> srun (db_init mode []) ops sempty (k_id ks) k' = Some v.
Proof. exact db_reads_refine. Qed.

(* the same for EVERY keyspace object of the reached state: keyspace ids are unique in every reachable state (UQ, RefineP.v) *)
Theorem C01_reads_refine_all : forall (mode : dbmode) (ops : list wop) (I : N) (ks : kspace) (k : bytes),
  let d := fold_left wstep ops (db_init mode []) in
  In ks (d_kss d) -> d_seqno d < I ->
  t_get (k_tree ks) k I = Some (srun (db_init mode []) ops sempty (k_id ks) k) /\
  exists sc, t_scan (k_tree ks) I = Some sc /\
             StronglySorted (fun a b => bytes_ltb (fst a) (fst b) = true) sc /\
             forall k' v, In (k', v) sc <-> srun (db_init mode []) ops sempty (k_id ks) k' = Some v.
Proof. exact db_reads_refine_all. Qed.

(* ---- the program interpreter whose observation lines are compared with the implementation (Prog.v db_step / run) ----
   On a plain database every write / batch / clear / ingestion / rotate / step / drain / major / reopen operation of a program
   is exactly one operation of the database model (or changes nothing, when it is refused), reads change nothing ... *)
Theorem C01_interpreter_steps_are_model_steps : forall (d : db) (o : op),
  d_mode d = MPlain -> plain_op o = true ->
  fst (db_step as_is d o) = match rop_of d o with Some r => rstep d r | None => d end.
Proof. exact plain_step_state. Qed.

(* ... so every state it reaches on a program of such operations is reached by model operations, where the invariants hold *)
Theorem C01_interpreter_states_reachable : forall (prog : list op) (d : db),
  d_mode d = MPlain -> forallb plain_op prog = true -> exists rs, fst (run as_is d prog) = fold_left rstep rs d.
Proof. exact plain_run_reachable. Qed.

(* ... and in every such state (any program of writes, maintenance and reopens) the line printed for `get` is the point read
   of the latest version, the line printed for `scan` (any direction, any range / prefix) is that consumption of the
   restricted sorted map, whose entries are exactly the keys the point read finds — C01_refines_reference_map says which *)
Theorem C01_get_observation : forall filters (rs : list rop) (h : N) (ks : kspace),
  let d := fold_left rstep rs (db_init MPlain filters) in
  handle_ks d h = Some ks -> d_seqno d < MAXSEQ ->
  forall k, db_step as_is d (OGet VwNone h k) = (d, Ox (ObOpt (abs MAXSEQ (k_tree ks) k))).
Proof. exact plain_get_obs. Qed.

Theorem C01_scan_observation : forall filters (rs : list rop) (h : N) (ks : kspace),
  let d := fold_left rstep rs (db_init MPlain filters) in
  handle_ks d h = Some ks -> d_seqno d < MAXSEQ ->
  forall dir r, exists sc,
    db_step as_is d (OScan VwNone h dir r) = (d, Ox (ObList (consume dir (restrict r sc)))) /\
    StronglySorted (fun a b => bytes_ltb (fst a) (fst b) = true) sc /\
    forall k v, In (k, v) sc <-> abs MAXSEQ (k_tree ks) k = Some v.
Proof. exact plain_scan_obs. Qed.

(* the observation LIST of a whole program: the line printed for a `get` placed anywhere in a plain program (any writes,
   maintenance, deletions and reopens before it, anything after it) is the latest-version point read of the state reached there,
   and that state is reached by model operations *)
Theorem C01_program_get_line : forall filters (p1 p2 : list op) (h : N) (k : bytes),
  forallb plain_op p1 = true ->
  let d0 := db_init MPlain filters in
  let d := fst (run as_is d0 p1) in
  forall ks, handle_ks d h = Some ks -> d_seqno d < MAXSEQ ->
  nth (length p1) (snd (run as_is d0 (p1 ++ OGet VwNone h k :: p2))) (Ox ObBadref) = Ox (ObOpt (abs MAXSEQ (k_tree ks) k)) /\
  exists rs, d = fold_left rstep rs d0.
Proof. exact plain_program_get_line. Qed.

(* maintenance is invisible: these five operations are the identity of the reference step, by definition of sstep *)
Theorem C01_maintenance_invisible : forall (d : db) (m : smap) (id : N) (fuel : nat) (ev : bool),
  sstep d (WRotate' id) m = m /\ sstep d WStep m = m /\ sstep d (WDrain fuel) m = m /\ sstep d (WMajor id ev) m = m.
Proof. intros. repeat split. Qed.

(* a scan of the latest version is strictly ascending in the key order and contains (k, v) exactly when the point read of k
   returns v: it is the reference map as a sorted list *)
Theorem C01_scan_is_the_sorted_map : forall (I : N) (d : db) (ks : kspace),
  DInv d -> In ks (d_kss d) ->
  let sc := scan_ents (v_all (k_tree ks) (latest (k_tree ks))) I in
  StronglySorted (fun a b => bytes_ltb (fst a) (fst b) = true) sc /\
  forall k v, In (k, v) sc <-> abs I (k_tree ks) k = Some v.
Proof. intros I d ks H Iks sc. split; [apply scan_sorted|intros k v; apply (scan_matches_reads I d ks k v H Iks)]. Qed.

(* the invariant of the two theorems above holds in every reachable state *)
Theorem C01_invariant_reachable : forall mode ops, DInv (fold_left wstep ops (db_init mode [])) /\ NF (fold_left wstep ops (db_init mode [])).
Proof. intros. split; [apply wrun_dinv, dinv_init|apply run_nf, nf_init]. Qed.

(* what the merged flush / compaction stream leaves of a key, for a reader above every seqno in the input: without a filter
   the same value (the newest version itself, or nothing when that was a tombstone evicted at the last level) *)
Theorem C01_gc_stream_keeps_values : forall (W : N) (ev : bool) (k : bytes) (I : N) (l : list ent),
  all_below I l -> value_of (newest k I (gc_stream W ev None l)) = value_of (newest k I l).
Proof. exact gc_stream_value. Qed.

Theorem C01_refines_example :
  let d := fold_left wstep db_example (db_init MPlain []) in
  d_seqno d <= 100 /\ absd 100 d 1 [105] = Some [9] /\ srun (db_init MPlain []) db_example sempty 1 [105] = Some [9] /\
  srun (db_init MPlain []) db_example sempty 1 [107] = None.
Proof. exact refine_example. Qed.

Print Assumptions C01_step_refines.
Print Assumptions C01_refines_reference_map.
Print Assumptions C01_reads_refine.
Print Assumptions C01_reads_refine_all.
Print Assumptions C01_program_get_line.
Print Assumptions C01_interpreter_steps_are_model_steps.
Print Assumptions C01_interpreter_states_reachable.
Print Assumptions C01_get_observation.
Print Assumptions C01_scan_observation.
Print Assumptions C01_maintenance_invisible.
Print Assumptions C01_scan_is_the_sorted_map.
Print Assumptions C01_invariant_reachable.
Print Assumptions C01_gc_stream_keeps_values.
Print Assumptions C01_refines_example.
Print Assumptions C01_write_point_read_partial.
Print Assumptions C01_gc_keeps_newest_partial.
Print Assumptions C01_point_read_agrees_with_scan_partial.
Print Assumptions C01_shadowing_refuted_without_recency.
Print Assumptions C01_reads_agree.
Print Assumptions C01_reads_agree_example.
Print Assumptions C01_db_reads_agree.
Print Assumptions C01_db_reads_agree_example.
