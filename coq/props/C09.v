(* C09 — persist(SyncData|SyncAll) makes all earlier writes power-loss durable.  Only property theorems. *)
From FJ Require Import Bytes Codec Reader ReaderP Writer WriterP DurableP.

(* For EVERY sequence of journal writes and persists (any entry sizes: buffered, spilled, or bypassing the
   8 KiB buffer), a persist with SyncData or SyncAll leaves the whole byte stream written so far in the part of the
   file that survives power loss ... *)
Theorem C09_persist_sync_durable : forall (ops : list wop) (m : pmode),
  m <> PBuffer ->
  powerloss_image (w_persist (fold_left w_step ops w_init) m) = written ops.
Proof.
  intros ops m NB. rewrite persist_sync_durable; [|apply inv_run; split; [intros H; contradiction H; reflexivity|cbn; apply le_n]|exact NB].
  rewrite content_run. reflexivity.
Qed.

(* ... and persist(Buffer) (what every write does unless journal persist is manual) leaves it in the part that
   survives a process crash *)
Theorem C09_persist_buffer_crash_safe : forall (ops : list wop) (m : pmode),
  crash_image (w_persist (fold_left w_step ops w_init) m) = written ops.
Proof.
  intros ops m. destruct (persist_flushes (fold_left w_step ops w_init) m) as [_ C].
  - apply inv_run. split; [intros H; contradiction H; reflexivity|cbn; apply le_n].
  - rewrite C, content_run. reflexivity.
Qed.

(* at any time what survives power loss is a prefix of the stream written *)
Theorem C09_powerloss_is_prefix : forall (ops : list wop),
  exists tl, written ops = powerloss_image (fold_left w_step ops w_init) ++ tl.
Proof.
  intros ops. destruct (powerloss_prefix ops w_init) as [tl E]; [split; [intros H; contradiction H; reflexivity|cbn; apply le_n]|].
  rewrite content_run in E. exists tl. exact E.
Qed.

(* end to end with the reader (C03): if the surviving image is any prefix of the journal stream that covers the
   batches bs1 written before the last sync, recovery returns bs1 followed by a prefix of the later batches —
   every synced batch is recovered, nothing partial, nothing reordered *)
Theorem C09_synced_batches_recovered :
  forall (hash : bytes -> N) (compress : bytes -> bytes) (decompress : bytes -> N -> option bytes),
  (forall b, hash b < 2 ^ 64) ->
  forall (bs1 bs2 : list wbatch) (m z : nat),
  Forall (wf_batch compress decompress) (bs1 ++ bs2) ->
  (length (enc_journal hash compress bs1) <= m)%nat ->
  exists rest,
    read_journal hash compress decompress (firstn m (enc_journal hash compress (bs1 ++ bs2)) ++ zeros z)
      = (map rbatch_of (bs1 ++ rest), RStop (blen (enc_journal hash compress (bs1 ++ rest))))
    /\ exists k, rest = firstn k bs2.
Proof. intros. apply durable_batches_recovered; assumption. Qed.

Print Assumptions C09_persist_sync_durable.
Print Assumptions C09_persist_buffer_crash_safe.
Print Assumptions C09_powerloss_is_prefix.
Print Assumptions C09_synced_batches_recovered.
