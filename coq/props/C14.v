(* C14 — concurrent single operations are linearizable and no write is lost.
   FULL STATEMENT decided on the implementation by exploration (real threads, call/return timestamps, per-key Wing-Gong
   search, held-writer schedules, content after reopen).  Proved parts, over the interleaving model Conc.v (acquire the
   journal mutex, draw the seqno, apply item by item, publish, release; version-upgrade bumps anywhere), are ..._partial:
   they give the linearization order the search then finds — the order in which the journal mutex was taken. *)
From FJ Require Import Bytes Conc ConcP.
From FJ Require Db DbOrderP RecoverInvP.

(* for EVERY interleaving: the memtable receives writes in seqno order (newest first in the list), and a seqno is drawn
   under the journal mutex, so the order that decides what a read of the newest version returns is the order in which
   the writers took the mutex *)
Theorem C14_apply_order_is_seqno_order_partial : forall (n : N) (es : list event) (s : cst),
  crun n cinit es = Some s -> newest_first (c_mem s).
Proof. exact apply_order_is_seqno_order. Qed.

(* no later step of any thread removes an applied write, and the seqno counter never goes back *)
Theorem C14_nothing_applied_is_lost_partial : forall (n : N) (es : list event) (s s' : cst),
  crun n s es = Some s' -> (forall p, In p (c_mem s) -> In p (c_mem s')) /\ c_seq s <= c_seq s'.
Proof. exact nothing_applied_is_lost. Qed.

(* at the level of the database model (sequential: one operation at a time, as the journal mutex makes them): after EVERY program
   of writes, batches, clears, maintenance, deletions and reopens the journal — sealed files oldest first, then the active file —
   holds its batches in strictly increasing seqno order, all below the counter: journal order = seqno order = commit order *)
Theorem C14_journal_order_is_seqno_order : forall mode filters (ops : list RecoverInvP.rop),
  let d := fold_left RecoverInvP.rstep ops (Db.db_init mode filters) in
  RecoverInvP.incr 0 (RecoverInvP.J d) /\ forall b, In b (RecoverInvP.J d) -> Reader.rb_seqno b < Db.d_seqno d.
Proof.
  intros mode filters ops d.
  exact (proj2 (RecoverInvP.rrun_inv ops (Db.db_init mode filters) (DbOrderP.dinv_init mode filters) (RecoverInvP.JS_init mode filters))).
Qed.

Print Assumptions C14_journal_order_is_seqno_order.
Print Assumptions C14_apply_order_is_seqno_order_partial.
Print Assumptions C14_nothing_applied_is_lost_partial.
