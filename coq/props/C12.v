(* C12 — keyspaces are isolated, and a deleted keyspace never comes back.
   FULL STATEMENT decided by the differential check (create/write/delete/re-create histories with reopen
   anywhere).  Proved parts are named ..._partial. *)
From FJ Require Import Bytes Codec Reader Lsm Tracker Db Prog RecoverP.

(* a single write to one keyspace leaves every other keyspace object (tree included) exactly as it was *)
Theorem C12_frame_partial : forall d id k v vt mvt ks',
  In ks' (d_kss d) -> k_id ks' <> id -> In ks' (d_kss (fst (write_one d id k v vt mvt))).
Proof. exact write_frame. Qed.

(* direct inserts and removes through a handle of a deleted keyspace are refused and change nothing *)
Theorem C12_deleted_refused_partial : forall d id k v vt mvt ks,
  ks_of d id = Some ks -> k_deleted ks = true -> write_one d id k v vt mvt = (d, ObErr E_DELETED).
Proof. exact write_deleted_refused. Qed.

Print Assumptions C12_frame_partial.
Print Assumptions C12_deleted_refused_partial.
