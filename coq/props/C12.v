(* C12 — keyspaces are isolated, and a deleted keyspace never comes back.
   FULL STATEMENT decided by the differential check (create/write/delete/re-create histories with reopen
   anywhere).  Proved parts are named ..._partial. *)
From FJ Require Import Bytes Codec Reader Lsm Tracker Db Prog RecoverP DbOrderP RefineP RecoverInvP.

(* a single write to one keyspace leaves every other keyspace object (tree included) exactly as it was *)
Theorem C12_frame_partial : forall d id k v vt mvt ks',
  In ks' (d_kss d) -> k_id ks' <> id -> In ks' (d_kss (fst (write_one d id k v vt mvt))).
Proof. exact write_frame. Qed.

(* direct inserts and removes through a handle of a deleted keyspace are refused and change nothing *)
Theorem C12_deleted_refused_partial : forall d id k v vt mvt ks,
  ks_of d id = Some ks -> k_deleted ks = true -> write_one d id k v vt mvt = (d, ObErr E_DELETED).
Proof. exact write_deleted_refused. Qed.

(* the id counter after recovery is above every directory id and every keyspace id in any journal record (sealed or
   active, items and clears), for ANY disk image; a keyspace created under a new name takes exactly that value and
   starts with an empty tree: no record of a deleted keyspace can ever be replayed into a later keyspace *)
Theorem C12_recovered_ids_fresh_partial : forall cfg mode filters active sealed meta dirs pn ms,
  d_id_reuse cfg = false ->
  let d := recover cfg mode filters active sealed meta dirs pn ms in
  (forall p, In p dirs -> fst p < d_next_id d) /\
  (forall b it, In b (concat sealed ++ active) -> In it (rb_items b) -> ri_ks it < d_next_id d) /\
  (forall b id, In b (concat sealed ++ active) -> In id (rb_clears b) -> id < d_next_id d).
Proof. exact recover_next_id_above. Qed.

Theorem C12_new_keyspace_takes_next_id_partial : forall d h name,
  blookup name (d_map d) = None ->
  let d' := fst (do_ks d h name) in
  d_next_id d' = d_next_id d + 1 /\
  exists ks, In ks (d_kss d') /\ k_id ks = d_next_id d /\ k_name ks = name /\ k_tree ks = tree_init.
Proof. exact new_keyspace_takes_next_id. Qed.

(* frame, for EVERY operation of the database model other than deletion and reopen (keyspace creation, writes, batches, clear,
   ingestion, rotation, worker steps, drains, major compaction): the latest read of every key of every keyspace the operation
   is not addressed to is unchanged.  op_target: the id a write / clear / ingestion names, the ids of a batch's items, the id a
   new keyspace receives; maintenance operations have no target at all. *)
Theorem C12_frame : forall (I : N) (d : db) (o : wop) (i : N) (k : bytes),
  DInv d -> nofilter d -> d_seqno (wstep d o) <= I -> ~ op_target d o i ->
  absd I (wstep d o) i k = absd I d i k.
Proof. exact wstep_frame. Qed.

(* a new keyspace starts empty whatever was written under other ids before: reference step of WKs *)
Theorem C12_new_keyspace_empty : forall (I : N) (d : db) (h : N) (name : bytes) (k : bytes),
  blookup name (d_map d) = None -> absd I (fst (do_ks d h name)) (d_next_id d) k = None.
Proof.
  intros I d h name k B. rewrite (do_ks_refines I d h name). cbn [sstep]. rewrite B. unfold sclear. rewrite N.eqb_refl. reflexivity.
Qed.

(* deleting a keyspace changes no read of any keyspace object: every other keyspace is untouched, and the deleted one stays
   readable through handles opened before (its tree is dropped with its last handle) *)
Theorem C12_delete_changes_no_read : forall (I : N) (d : db) (h : N) (i : N) (k : bytes),
  absd I (fst (do_delks d h)) i k = absd I d i k.
Proof. intros. apply delks_reads. Qed.

(* after the deletion the name is free, and the keyspace created under it next is a NEW one (the next id) that reads empty:
   nothing written under the deleted incarnation is visible in it *)
Theorem C12_recreated_name_is_a_new_empty_keyspace : forall (I : N) (d : db) (h h2 : N) (ks : kspace) (id : N),
  alookup h (d_handles d) = Some id -> ks_of d id = Some ks -> blookup (k_name ks) (d_map d) <> None ->
  let d1 := fst (do_delks d h) in
  blookup (k_name ks) (d_map d1) = None /\
  forall k, absd I (fst (do_ks d1 h2 (k_name ks))) (d_next_id d1) k = None.
Proof. exact delks_then_create_is_empty. Qed.

(* across a reopen: deleting the keyspace a name currently maps to removes its meta row, and the next recovery produces no
   keyspace object for that id — whatever is left of its directory, and although journal records with its id still exist *)
Theorem C12_deleted_keyspace_gone_after_reopen : forall cfg (d : db) (h id : N) (ks : kspace),
  alookup h (d_handles d) = Some id -> ks_of d id = Some ks -> blookup (k_name ks) (d_map d) = Some id ->
  let d1 := fst (do_delks d h) in
  kfind (d_kss (do_reopen cfg d1)) id = None.
Proof. exact deleted_keyspace_gone_after_reopen. Qed.

(* ... and those journal records (items and clears whose keyspace id has no meta row) are ignored by replay *)
Theorem C12_records_of_deleted_keyspace_ignored : forall cfg meta mp st b,
  (forall it, In it (rb_items b) -> alookup (ri_ks it) meta = None) -> (forall c, In c (rb_clears b) -> alookup c meta = None) ->
  replay_batch cfg meta mp st b = st.
Proof. exact records_of_deleted_ignored. Qed.

(* the recovered keyspaces are exactly the directories that have a meta row *)
Theorem C12_recovered_keyspaces_are_the_registered_directories : forall cfg mode filters active sealed meta dirs pn ms,
  map k_id (d_kss (recover cfg mode filters active sealed meta dirs pn ms))
  = map fst (filter (fun p => match alookup (fst p) meta with Some _ => true | None => false end) dirs).
Proof. exact recover_ids. Qed.

(* programs with deletions and reopens keep the invariants under which all of the above (and C01's refinement steps) hold *)
Theorem C12_invariants_with_deletion_and_reopen : forall (ops : list rop) d,
  DInv d -> JS d -> DInv (fold_left rstep ops d) /\ JS (fold_left rstep ops d).
Proof. exact rrun_inv. Qed.

Print Assumptions C12_delete_changes_no_read.
Print Assumptions C12_deleted_keyspace_gone_after_reopen.
Print Assumptions C12_records_of_deleted_keyspace_ignored.
Print Assumptions C12_recovered_keyspaces_are_the_registered_directories.
Print Assumptions C12_recreated_name_is_a_new_empty_keyspace.
Print Assumptions C12_invariants_with_deletion_and_reopen.
Print Assumptions C12_frame.
Print Assumptions C12_new_keyspace_empty.
Print Assumptions C12_frame_partial.
Print Assumptions C12_deleted_refused_partial.
Print Assumptions C12_recovered_ids_fresh_partial.
Print Assumptions C12_new_keyspace_takes_next_id_partial.
