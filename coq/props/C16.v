(* C16 — keyspace options chosen at creation stay in force.  Only property theorems. *)
From Coq Require Import String.
From FJ Require Import Bytes Codec Options OptionsP Db.
From Coq Require Import List.

(* each of the six per-level policy codecs round-trips every vector of the allowed length (1..255;
   the empty vector is rejected by the constructors), f32 entries as bit patterns (NaN payloads included) *)
Theorem C16_policy_roundtrips :
  (forall l, Forall u32 l -> (length l <= 255)%nat -> dec_u32s (enc_u32s l) = Some l) /\   (* block size, hash ratio *)
  (forall l, Forall u8 l -> (length l <= 255)%nat -> dec_u8s (enc_u8s l) = Some l) /\      (* restart interval *)
  (forall l, (length l <= 255)%nat -> dec_bools (enc_bools l) = Some l) /\                 (* pinning, partitioning *)
  (forall l, (length l <= 255)%nat -> dec_comps (enc_comps l) = Some l) /\                 (* compression *)
  (forall l, Forall wf_fentry l -> (length l <= 255)%nat -> dec_filters (enc_filters l) = Some l).  (* filter *)
Proof.
  exact (conj u32s_roundtrip (conj u8s_roundtrip (conj bools_roundtrip (conj comps_roundtrip filters_roundtrip)))).
Qed.

(* the whole option record (all strategies and parameters, blob options present or absent, manual
   persist, memtable size) is restored from its stored rows; only level_count is forced to 7 *)
Theorem C16_kvs_roundtrip : forall o : opts,
  wf_opts o -> from_kvs (encode_kvs o) = Some (with_levels7 o).
Proof. exact kvs_roundtrip. Qed.

(* the length byte wraps at 256 entries, so the bound in wf_opts is necessary: this is reachable for
   level_ratio_policy, whose setter accepts any Vec<f32> *)
Theorem C16_length_guard_needed : dec_u32s (enc_u32s (repeat 0%N 256)) = Some nil.
Proof. exact len_byte_wraps. Qed.

(* opening an existing name returns the existing keyspace object, whatever options are passed:
   the model's [do_ks] does not even take them, and leaves every keyspace untouched *)
Theorem C16_existing_ignores_options : forall (d : db) (h : N) (name : bytes) (id : N),
  blookup name (d_map d) = Some id ->
  d_kss (fst (do_ks d h name)) = d_kss d /\ d_meta (fst (do_ks d h name)) = d_meta d /\
  alookup h (d_handles (fst (do_ks d h name))) = Some id.
Proof.
  intros d h name id H. unfold do_ks. rewrite H. cbn. rewrite N.eqb_refl. auto.
Qed.

Print Assumptions C16_policy_roundtrips.
Print Assumptions C16_kvs_roundtrip.
Print Assumptions C16_length_guard_needed.
Print Assumptions C16_existing_ignores_options.
