(* C13 — fail-stop after a journal I/O failure.
   FULL STATEMENT decided by fault enumeration on the real code (py/props/c13.py).  The model-level part:
   once the poison flag is set, no write of any kind is acknowledged and the state does not change. *)
From FJ Require Import Bytes Codec Reader Lsm Tracker Db Prog RecoverP.

Theorem C13_poison_sticky_partial : forall cfg d,
  d_poisoned d = true -> d_mode d = MPlain ->
  (forall h k v, refused (db_step cfg d (OPut h k v)) d) /\
  (forall h k, refused (db_step cfg d (ODel h k)) d) /\
  (forall h k, refused (db_step cfg d (ODelW h k)) d) /\
  (forall h, refused (db_step cfg d (OClear h)) d) /\
  refused (db_step cfg d OPersist) d /\
  (forall items, fst (db_step cfg d (OBatch items)) = d).
Proof. exact poisoned_refuses_writes. Qed.

Print Assumptions C13_poison_sticky_partial.
