(* C13 — fail-stop after a journal I/O failure.
   FULL STATEMENT decided by fault enumeration on the real code (py/props/c13.py).  The model-level part:
   once the poison flag is set, no write of any kind is acknowledged and the state does not change. *)
From FJ Require Import Bytes Codec Reader Lsm Tracker Db Prog RecoverP DbOrderP PoisonP.

Theorem C13_poison_sticky_partial : forall cfg d,
  d_poisoned d = true -> d_mode d = MPlain ->
  (forall h k v, refused (db_step cfg d (OPut h k v)) d) /\
  (forall h k, refused (db_step cfg d (ODel h k)) d) /\
  (forall h k, refused (db_step cfg d (ODelW h k)) d) /\
  (forall h, refused (db_step cfg d (OClear h)) d) /\
  refused (db_step cfg d OPersist) d /\
  (forall items, fst (db_step cfg d (OBatch items)) = d).
Proof. exact poisoned_refuses_writes. Qed.

(* over the operations of the database model: no operation of a running database clears the poison flag ... *)
Theorem C13_no_operation_clears_the_flag : forall (d : db) (o : wop), d_poisoned (wstep d o) = d_poisoned d.
Proof. exact poison_sticky. Qed.

(* ... so once it is set, whatever operations follow (writes, batches, maintenance, ingestion, ...), every later insert / remove
   is refused and leaves the whole state — journal included — exactly as it was; the same for clear *)
Theorem C13_poisoned_forever : forall (d : db) (ops : list wop), d_poisoned d = true ->
  let d' := fold_left wstep ops d in
  forall id k v vt mvt, fst (write_one d' id k v vt mvt) = d' /\ snd (write_one d' id k v vt mvt) <> ObOk.
Proof. exact poisoned_forever. Qed.

Theorem C13_poisoned_refuses_writes_and_clears : forall (d : db), d_poisoned d = true ->
  (forall id k v vt mvt, fst (write_one d id k v vt mvt) = d /\ snd (write_one d id k v vt mvt) <> ObOk) /\
  (forall id, fst (do_clear d id) = d /\ snd (do_clear d id) <> ObOk).
Proof. exact poisoned_writes_refused. Qed.

Print Assumptions C13_no_operation_clears_the_flag.
Print Assumptions C13_poisoned_forever.
Print Assumptions C13_poisoned_refuses_writes_and_clears.
Print Assumptions C13_poison_sticky_partial.
