(* C03 — batches and transactions are all-or-nothing across crashes.
   This file contains only the property theorems; proofs are in proofs/. *)
From FJ Require Import Bytes Codec Reader CodecP ReaderP.

Section C03.
  Variable hash : bytes -> N.
  Variable compress : bytes -> bytes.
  Variable decompress : bytes -> N -> option bytes.
  Hypothesis hash_bound : forall b, hash b < 2 ^ 64.

  (* The journal may end at ANY byte offset m of ANY list of well-formed
     batches, followed by ANY amount of zero padding: the reader returns
     exactly the batches that lie completely within the first m bytes, never
     an error, never a partial batch, and cuts the file back to their end. *)
  Theorem C03_cut_any_byte : forall (bs : list wbatch) (m z : nat),
    Forall (wf_batch compress decompress) bs ->
    read_journal hash compress decompress
        (firstn m (enc_journal hash compress bs) ++ zeros z)
    = (map rbatch_of (complete_prefix hash compress bs m),
       RStop (blen (enc_journal hash compress (complete_prefix hash compress bs m)))).
  Proof. exact (read_journal_cut hash compress decompress hash_bound). Qed.

  (* After that repair, batches appended later are recovered again. *)
  Theorem C03_reappend : forall (bs : list wbatch) (m z : nat) (bs' : list wbatch) (z' : nat),
    Forall (wf_batch compress decompress) bs ->
    Forall (wf_batch compress decompress) bs' ->
    let cp := complete_prefix hash compress bs m in
    let repaired := firstn (length (enc_journal hash compress cp))
                      (firstn m (enc_journal hash compress bs) ++ zeros z) in
    repaired = enc_journal hash compress cp /\
    read_journal hash compress decompress (repaired ++ enc_journal hash compress bs' ++ zeros z')
      = (map rbatch_of (cp ++ bs'), RStop (blen (enc_journal hash compress (cp ++ bs')))).
  Proof. exact (read_journal_reappend hash compress decompress hash_bound). Qed.
End C03.

Print Assumptions C03_cut_any_byte.
Print Assumptions C03_reappend.
