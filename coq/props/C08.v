(* C08 — transaction-local semantics.  Only property theorems. *)
From FJ Require Import Bytes Codec Reader Lsm Tracker Db Prog TxP.
From FJ Require DbOrderP RefineP TxRefineP.

(* read-your-writes and last-write-wins: after ANY list of in-transaction inserts/removes (any keys,
   any overlap), a read of the overlay returns the last write to that key, else what it held before *)
Theorem C08_read_your_writes : forall (ws : list twrite) (s0 : N) (acc : list ent) (k : bytes),
  all_below s0 acc -> s0 + N.of_nat (length ws) < TWO64 ->
  read_over (overlay ws s0 acc) k = last_write ws k (read_over acc k).
Proof. exact overlay_reads. Qed.

(* commit submits exactly the final write per key: every key's newest overlay entry is in the batch ... *)
Theorem C08_commit_complete : forall (id : N) (o : list ent) (k : bytes) (e : ent),
  newest k TWO64 o = Some e ->
  In {| ri_ks := id; ri_key := k; ri_value := ev e; ri_vt := et e |} (commit_items_of id o).
Proof. exact commit_items_complete. Qed.

(* ... and every batch item is its key's newest overlay entry (no stale intermediate write is committed) *)
Theorem C08_commit_sound : forall (id : N) (o : list ent) (it : ritem),
  In it (commit_items_of id o) ->
  exists e, newest (ri_key it) TWO64 o = Some e /\ ri_value it = ev e /\ ri_vt it = et e /\ ri_ks it = id.
Proof. exact commit_items_sound. Qed.

(* rollback / drop changes nothing but the snapshot table: keyspaces, journal, seqno, registry untouched *)
Theorem C08_rollback_noop : forall (cfg : defects) (d : db) (t : N) (x : txst),
  alookup t (d_txs d) = Some x ->
  let d' := fst (db_step cfg d (OTxRollback t)) in
  d_kss d' = d_kss d /\ d_active d' = d_active d /\ d_seqno d' = d_seqno d /\ d_map d' = d_map d /\
  d_occ d' = d_occ d /\ visible (d_trk d') = visible (d_trk d).
Proof.
  intros cfg d t x H. cbn [db_step]. rewrite H. cbn [fst].
  unfold close_n, set_trk, del_tx, upd, upd_views. cbn.
  unfold tr_close. destruct (_ =? 0); cbn; repeat split; reflexivity.
Qed.

(* the interpreter's insert/remove inside a transaction is exactly one such overlay step, private to
   the written keyspace, with a private seqno counter *)
Theorem C08_tx_write_is_overlay_step : forall x id k v vt tr,
  over_of (tx_write x id k v vt tr) id = mem_insert (mkEnt k (tx_seq x) vt v) (over_of x id) /\
  tx_seq (tx_write x id k v vt tr) = tx_seq x + 1 /\
  tx_instant (tx_write x id k v vt tr) = tx_instant x /\
  forall j, j <> id -> over_of (tx_write x id k v vt tr) j = over_of x j.
Proof. exact tx_write_step. Qed.

(* the commit at the level of the database model, tied to the ordered-map refinement of C01: a commit of either transactional
   database (and of the single-operation helpers, which are one-operation transactions) that is ACCEPTED acts on the reference
   maps as its commit batch applied item by item — by C08_commit_complete / C08_commit_sound that batch is exactly the final
   write per key — and changes nothing else; a commit that is REFUSED (SSI conflict, poisoned) or a transaction that wrote
   nothing leaves every read of every keyspace as it was *)
Theorem C08_commit_refines_reference_map : forall (I : N) (d : db) (x : txst),
  DbOrderP.DInv d -> d_seqno d < I ->
  forall id k,
  RefineP.absd I (fst (tx_commit as_is d x)) id k =
  (if RefineP.is_ok (snd (tx_commit as_is d x))
   then fold_left (RefineP.sitem (RefineP.has_ks d)) (tx_items x) (RefineP.absd I d)
   else RefineP.absd I d) id k.
Proof. exact TxRefineP.tx_commit_refines. Qed.

Print Assumptions C08_tx_write_is_overlay_step.
Print Assumptions C08_read_your_writes.
Print Assumptions C08_commit_complete.
Print Assumptions C08_commit_sound.
Print Assumptions C08_rollback_noop.
Print Assumptions C08_commit_refines_reference_map.
