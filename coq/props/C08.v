(* C08 — transaction-local semantics.  Only property theorems. *)
From FJ Require Import Bytes Codec Reader Lsm Tracker Db Prog TxP.

(* read-your-writes and last-write-wins: after ANY list of in-transaction inserts/removes (any keys,
   any overlap), a read of the overlay returns the last write to that key, else what it held before *)
Theorem C08_read_your_writes : forall (ws : list twrite) (s0 : N) (acc : list ent) (k : bytes),
  all_below s0 acc -> s0 + N.of_nat (length ws) < TWO64 ->
  read_over (overlay ws s0 acc) k = last_write ws k (read_over acc k).
Proof. exact overlay_reads. Qed.

(* commit submits exactly the final write per key: every key's newest overlay entry is in the batch ... *)
Theorem C08_commit_complete : forall (id : N) (o : list ent) (k : bytes) (e : ent),
  newest k TWO64 o = Some e ->
  In {| ri_ks := id; ri_key := k; ri_value := ev e; ri_vt := et e |} (commit_items_of id o).
Proof. exact commit_items_complete. Qed.

(* ... and every batch item is its key's newest overlay entry (no stale intermediate write is committed) *)
Theorem C08_commit_sound : forall (id : N) (o : list ent) (it : ritem),
  In it (commit_items_of id o) ->
  exists e, newest (ri_key it) TWO64 o = Some e /\ ri_value it = ev e /\ ri_vt it = et e /\ ri_ks it = id.
Proof. exact commit_items_sound. Qed.

(* rollback / drop changes nothing but the snapshot table: keyspaces, journal, seqno, registry untouched *)
Theorem C08_rollback_noop : forall (cfg : defects) (d : db) (t : N) (x : txst),
  alookup t (d_txs d) = Some x ->
  let d' := fst (db_step cfg d (OTxRollback t)) in
  d_kss d' = d_kss d /\ d_active d' = d_active d /\ d_seqno d' = d_seqno d /\ d_map d' = d_map d /\
  d_occ d' = d_occ d /\ visible (d_trk d') = visible (d_trk d).
Proof.
  intros cfg d t x H. cbn [db_step]. rewrite H. cbn [fst].
  unfold close_n, set_trk, del_tx, upd, upd_views. cbn.
  unfold tr_close. destruct (_ =? 0); cbn; repeat split; reflexivity.
Qed.

(* the interpreter's insert/remove inside a transaction is exactly one such overlay step, private to
   the written keyspace, with a private seqno counter *)
Theorem C08_tx_write_is_overlay_step : forall x id k v vt tr,
  over_of (tx_write x id k v vt tr) id = mem_insert (mkEnt k (tx_seq x) vt v) (over_of x id) /\
  tx_seq (tx_write x id k v vt tr) = tx_seq x + 1 /\
  tx_instant (tx_write x id k v vt tr) = tx_instant x /\
  forall j, j <> id -> over_of (tx_write x id k v vt tr) j = over_of x j.
Proof. exact tx_write_step. Qed.

Print Assumptions C08_tx_write_is_overlay_step.
Print Assumptions C08_read_your_writes.
Print Assumptions C08_commit_complete.
Print Assumptions C08_commit_sound.
Print Assumptions C08_rollback_noop.
