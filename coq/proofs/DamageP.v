(* DamageP.v — what an accepted batch guarantees, for ANY input bytes:
   its items and clears are those of a record list whose encoding hashes to a
   checksum that stands in the file as an End marker.  Hence altered data can
   only be accepted together with an xxh3 collision (or an altered checksum). *)
From FJ Require Import Bytes Codec Reader BytesP CodecP ReaderP.
From Coq Require Import ZArith ZifyBool ZifyNat ZifyN.
Ltac Zify.zify_post_hook ::= Z.div_mod_to_equations.

Set Default Proof Using "All".

Section DamageP.
  Variable hash : bytes -> N.
  Variable compress : bytes -> bytes.
  Variable decompress : bytes -> N -> option bytes.

  Notation enc_entry := (enc_entry compress).
  Notation dec_entry := (dec_entry decompress).
  Notation enc_records := (enc_records compress).
  Notation read_loop := (read_loop hash compress decompress).
  Notation read_journal := (read_journal hash compress decompress).

  (* x is decoded as an End marker at byte offset p of L *)
  Definition end_at (L : bytes) (p : nat) (x : N) : Prop :=
    exists r n, dec_entry (skipn p L) = Some (EEnd x, r, n).

  Definition checksummed (L : bytes) (b : rbatch) : Prop :=
    exists recs p x,
      rb_items b = ritems_of recs /\ rb_clears b = rclears_of recs /\
      end_at L p x /\ hash (enc_records recs) = x.

  Definition ghost (st : rstate) : Prop :=
    exists recs, items st = rev (ritems_of recs) /\ clears st = rev (rclears_of recs) /\
                 acc st = rev (map (fun r => enc_entry (entry_of_record r)) recs).

  Lemma ritems_of_app a b : ritems_of (a ++ b) = ritems_of a ++ ritems_of b.
  Proof. unfold ritems_of. apply flat_map_app. Qed.
  Lemma rclears_of_app a b : rclears_of (a ++ b) = rclears_of a ++ rclears_of b.
  Proof. unfold rclears_of. apply flat_map_app. Qed.

  Lemma read_loop_checksummed L f : forall st l out bs o pre,
    L = pre ++ l -> ghost st -> Forall (checksummed L) out ->
    read_loop f st l out = (bs, o) -> Forall (checksummed L) bs.
  Proof.
    induction f as [|f IH]; intros st l out bs o pre HL G Hout H.
    - cbn in H. inversion H; subst. apply Forall_rev. exact Hout.
    - cbn [Reader.read_loop] in H.
      destruct (dec_entry l) as [[[e r] n]|] eqn:D.
      2:{ inversion H; subst. apply Forall_rev. exact Hout. }
      destruct (local_dec_entry compress decompress _ _ _ _ D) as (c & Hl & _ & _).
      assert (HL' : L = (pre ++ c) ++ r) by (rewrite <- app_assoc, <- Hl; exact HL).
      destruct G as (recs & Gi & Gc & Ga).
      destruct e as [cnt s|ks k v vt cp|x|ks].
      + destruct (in_batch st).
        * inversion H; subst. apply Forall_rev. exact Hout.
        * eapply IH; [exact HL'| |exact Hout|exact H].
          exists recs. cbn [items clears acc]. auto.
      + destruct (negb (in_batch st)); [inversion H; subst; apply Forall_rev; exact Hout|].
        destruct (counter st =? 0); [inversion H; subst; apply Forall_rev; exact Hout|].
        eapply IH; [exact HL'| |exact Hout|exact H].
        exists (recs ++ [RItem ks k v vt cp]). cbn [items clears acc].
        rewrite ritems_of_app, rclears_of_app, map_app, !rev_app_distr. cbn.
        rewrite Gi, Gc, Ga. auto.
      + destruct (0 <? counter st); [inversion H; subst; apply Forall_rev; exact Hout|].
        destruct (negb (in_batch st)); [inversion H; subst; apply Forall_rev; exact Hout|].
        destruct (N.eqb_spec (hash (concat (rev (acc st)))) x) as [E|E].
        2:{ inversion H; subst. apply Forall_rev. exact Hout. }
        eapply IH; [exact HL'| | |exact H].
        * exists []. cbn. auto.
        * constructor; [|exact Hout].
          exists recs, (length pre), x. cbn [rb_items rb_clears].
          rewrite Gi, Gc, !rev_involutive. repeat split.
          -- exists r, n. rewrite HL, skipn_app, Nat.sub_diag, skipn_all. cbn. exact D.
          -- rewrite Ga, rev_involutive in E. exact E.
      + destruct (negb (in_batch st)); [inversion H; subst; apply Forall_rev; exact Hout|].
        destruct (counter st =? 0); [inversion H; subst; apply Forall_rev; exact Hout|].
        eapply IH; [exact HL'| |exact Hout|exact H].
        exists (recs ++ [RClear ks]). cbn [items clears acc].
        rewrite ritems_of_app, rclears_of_app, map_app, !rev_app_distr. cbn.
        rewrite Gi, Gc, Ga. auto.
  Qed.

  (* for ANY byte string: every batch the reader emits is checksummed *)
  Theorem accepted_batches_checksummed L bs o :
    read_journal L = (bs, o) -> Forall (checksummed L) bs.
  Proof.
    unfold Reader.read_journal. intros H.
    eapply (read_loop_checksummed L _ rinit L [] bs o []); [reflexivity| |constructor|exact H].
    exists []. cbn. auto.
  Qed.

  (* the encoding of well-formed record lists is injective (unique decoding) *)
  Lemma entry_of_record_inj a b : entry_of_record a = entry_of_record b -> a = b.
  Proof. destruct a, b; cbn; intros H; inversion H; subst; reflexivity. Qed.

  Lemma enc_records_inj a : forall b,
    Forall (wf_record compress decompress) a -> Forall (wf_record compress decompress) b ->
    enc_records a = enc_records b -> a = b.
  Proof.
    induction a as [|r a IH]; intros [|r' b] Wa Wb H.
    - reflexivity.
    - exfalso. cbn in H. destruct (enc_entry_head compress decompress (entry_of_record r')) as [tl E].
      unfold Codec.enc_records in H. cbn [map concat] in H. rewrite E in H. discriminate.
    - exfalso. destruct (enc_entry_head compress decompress (entry_of_record r)) as [tl E].
      unfold Codec.enc_records in H. cbn [map concat] in H. rewrite E in H. discriminate.
    - inversion Wa as [|? ? Wr Wa']; inversion Wb as [|? ? Wr' Wb']; subst.
      unfold Codec.enc_records in H. cbn [map concat] in H.
      pose proof (dec_enc_entry compress decompress _ (concat (map (fun r => enc_entry (entry_of_record r)) a)) Wr) as D1.
      pose proof (dec_enc_entry compress decompress _ (concat (map (fun r => enc_entry (entry_of_record r)) b)) Wr') as D2.
      rewrite H in D1. rewrite D1 in D2. inversion D2 as [[E1 E2 E3]].
      apply entry_of_record_inj in E1. subst r'. f_equal. apply IH; assumption.
  Qed.

  (* if a batch whose records differ from the written ones is accepted against the
     written checksum, two different byte strings have the same xxh3 value *)
  Theorem damage_needs_collision recs recs' :
    Forall (wf_record compress decompress) recs -> Forall (wf_record compress decompress) recs' ->
    recs <> recs' ->
    hash (enc_records recs') = hash (enc_records recs) ->
    exists a b, a <> b /\ hash a = hash b.
  Proof.
    intros W W' NE H. exists (enc_records recs'), (enc_records recs). split; [|exact H].
    intros E. apply NE. symmetry. apply enc_records_inj; assumption.
  Qed.
End DamageP.
