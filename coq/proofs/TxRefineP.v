(* TxRefineP.v — a transaction commit (single-writer or optimistic) at the level of the database model: when it is accepted it
   acts on the reference maps as its commit batch applied item by item — nothing else of the content changes — and when it is
   refused (conflict, poisoned) the content does not change at all (C08 / C07 tie to the C01 refinement).                    *)
From FJ Require Import Bytes Codec Reader Lsm Tracker Db Prog BytesP LsmP TxP MapP FilterP OrderP DbOrderP SortP RefineP.
From Coq Require Import ZArith ZifyBool ZifyNat ZifyN Lia.

Lemma absd_same I d d' : d_kss d' = d_kss d -> meq (absd I d') (absd I d).
Proof. intros E i k. unfold absd. rewrite E. reflexivity. Qed.

Lemma has_ks_same d d' : d_kss d' = d_kss d -> forall id, has_ks d' id = has_ks d id.
Proof. intros E id. unfold has_ks, ks_of. rewrite E. reflexivity. Qed.

Lemma fold_sitem_g g g' mi : (forall id, g id = g' id) -> forall m, meq (fold_left (sitem g) mi m) (fold_left (sitem g') mi m).
Proof.
  intros G. induction mi as [|it r IH]; intros m; cbn [fold_left]; [intros i k; reflexivity|].
  intros i k. rewrite IH. apply fold_sitem_ext. intros i0 k0. unfold sitem. rewrite G. reflexivity.
Qed.

Theorem tx_commit_refines I d x : DInv d -> d_seqno d < I ->
  meq (absd I (fst (tx_commit as_is d x)))
      (if is_ok (snd (tx_commit as_is d x)) then fold_left (sitem (has_ks d)) (tx_items x) (absd I d) else absd I d).
Proof.
  intros DI L. unfold tx_commit. destruct (tx_over x) as [|p0 over] eqn:OV.
  - (* nothing written *)
    cbn [fst snd is_ok]. unfold tx_items. rewrite OV. cbn [flat_map fold_left]. apply absd_same. reflexivity.
  - destruct (d_mode d).
    + (* plain / single-writer path *)
      destruct (d_poisoned d); cbn [fst snd is_ok]; [apply absd_same; reflexivity|].
      intros i k. etransitivity; [apply (absd_same I (commit_batch d (tx_items x) (tx_items x))); reflexivity|].
      apply (commit_batch_refines I d _ _ DI L).
    + destruct (d_poisoned d); cbn [fst snd is_ok]; [apply absd_same; reflexivity|].
      intros i k. etransitivity; [apply (absd_same I (commit_batch d (tx_items x) (tx_items x))); reflexivity|].
      apply (commit_batch_refines I d _ _ DI L).
    + (* optimistic: validation, then the same commit *)
      cbn [d_double_close as_is].
      set (d1 := close_n as_is d (tx_instant x)).
      set (d2 := upd_views d1 (d_handles d1) (d_snaps d1) (d_iters d1) (d_txs d1) (filter (fun p => W_of d1 <? fst p) (d_occ d1))).
      assert (E2 : d_kss d2 = d_kss d) by reflexivity.
      assert (S2 : d_seqno d2 = d_seqno d) by reflexivity.
      destruct (existsb _ (d_occ d)); cbn [fst snd is_ok]; [apply absd_same; exact E2|].
      destruct (d_poisoned d2); cbn [fst snd is_ok]; [apply absd_same; exact E2|].
      intros i k.
      etransitivity; [apply (absd_same I (commit_batch d2 (tx_items x) (tx_items x))); reflexivity|].
      assert (DI2 : DInv d2) by (apply (dinv_ext d); [exact E2|rewrite S2; lia|exact DI]).
      rewrite (commit_batch_refines I d2 _ _ DI2 ltac:(rewrite S2; exact L) i k).
      rewrite (fold_sitem_g (has_ks d2) (has_ks d) _ (has_ks_same d d2 E2) (absd I d2) i k).
      apply fold_sitem_ext. apply absd_same. exact E2.
Qed.
