(* JournalInvP.v — journal completeness (C02 / C10 at the level of the database model): in every state reached by keyspace
   creation, writes, batches, clears, ingestion, rotation, worker steps (flush, journal sealing, journal EVICTION), drains and
   major compaction, every entry that still lives only in a memtable of a registered, undeleted keyspace has its batch in a
   journal file that still exists.  A journal file is unlinked only when nothing in it is still needed.                      *)
From FJ Require Import Bytes Codec Reader Lsm Tracker Db BytesP LsmP TxP MapP FilterP OrderP DbOrderP SortP RefineP RecoverP RecoverInvP.
From Coq Require Import ZArith ZifyBool ZifyNat ZifyN Lia.

Definition live (d : db) (ks : kspace) : Prop :=
  In ks (d_kss d) /\ In (k_id ks) (map snd (d_map d)) /\ k_deleted ks = false.
Definition has_seq (bs : list rbatch) (s : N) : Prop := exists b, In b bs /\ rb_seqno b = s.
Definition M2 (d : db) : Prop := forall ks e, live d ks -> In e (memsrc (k_tree ks)) -> has_seq (J d) (es e).
Definition M3 (d : db) : Prop := forall j ks e, In j (d_sealed d) -> live d ks -> In e (memsrc (k_tree ks)) ->
  has_seq (sj_batches j) (es e) -> exists l, In (k_id ks, l) (sj_wm j) /\ es e <= l.
Definition MJ (d : db) : Prop := M2 d /\ M3 d.

(* ---- what tree operations do to the set of memtable entries ---- *)
Definition msub (t' t : tree) : Prop := forall e, In e (memsrc t') -> In e (memsrc t).
Lemma msub_refl t : msub t t.
Proof. intros e I. exact I. Qed.
Lemma msub_trans a b c : msub a b -> msub b c -> msub a c.
Proof. intros H1 H2 e I. apply H2, H1, I. Qed.

Lemma msub_rotate t : TInv t -> msub (fst (t_rotate t)) t.
Proof.
  intros T. pose proof (ti_ids _ T) as [NE IDS]. destruct (IDS _ (latest_in t NE)) as [La Ls].
  destruct (mem_of t (v_active (latest t))) as [|e0 l0] eqn:ME; [unfold t_rotate; rewrite ME; apply msub_refl|].
  destruct (rotate_shape t e0 l0 NE ME) as [SH [NEW FR]].
  intros y Iy. unfold memsrc in *. rewrite SH in Iy. cbn [v_active v_sealed flat_map] in Iy. rewrite NEW, (FR _ La) in Iy.
  cbn [app] in Iy. apply in_app_or in Iy. apply in_or_app. destruct Iy as [Iy|Iy]; [left; exact Iy|right].
  rewrite in_flat_map in *. destruct Iy as [id [Iid Iy]]. exists id. split; [exact Iid|]. rewrite (FR _ (Ls _ Iid)) in Iy. exact Iy.
Qed.
Lemma memsrc_maint W t : vers t <> [] -> memsrc (vh_maintenance W t) = memsrc t.
Proof. intros NE. unfold memsrc, mem_of. rewrite latest_maint by exact NE. rewrite mems_maint. reflexivity. Qed.
Lemma msub_flush W s t : vers t <> [] -> msub (fst (t_flush W s t)) t.
Proof.
  intros NE. unfold t_flush. destruct (v_sealed (latest t)) eqn:SE; [apply msub_refl|]. destruct (gc_stream _ _ _ _); [apply msub_refl|]. cbn [fst].
  intros y I. rewrite memsrc_maint in I by (cbn; discriminate). unfold memsrc in *.
  match type of I with In _ (mem_of ?X _ ++ _) => change (mem_of X) with (mem_of t) in I; change (latest X) with (hd dummy_version (vers X)) in I end.
  cbn [vers hd v_active v_sealed flat_map] in I. rewrite app_nil_r in I. apply in_or_app. left. exact I.
Qed.
Lemma msub_compact W s ev f t : vers t <> [] -> msub (t_compact W s ev f t) t.
Proof.
  intros NE. unfold t_compact. destruct (v_tables (latest t)); [apply msub_refl|].
  intros y I. rewrite memsrc_maint in I by (cbn; discriminate). exact I.
Qed.
Lemma msub_clear s t t0 : msub (t_clear s t) t0.
Proof.
  intros e I. unfold memsrc, t_clear, latest in I. cbn [vers hd v_active v_sealed flat_map] in I. rewrite app_nil_r in I.
  unfold mem_of in I. cbn [mems find m_id] in I. rewrite N.eqb_refl in I. destruct I.
Qed.
Lemma memsrc_clear s t : memsrc (t_clear s t) = [].
Proof.
  unfold memsrc, t_clear, latest. cbn [vers hd v_active v_sealed flat_map]. rewrite app_nil_r.
  unfold mem_of. cbn [mems find m_id]. rewrite N.eqb_refl. reflexivity.
Qed.
Lemma msub_register g ents t : msub (t_register_ingest g ents t) t.
Proof. intros e I. exact I. Qed.
Lemma msub_ingest_tree t s g ents : TInv t -> msub (ingest_tree t s g ents) t.
Proof.
  intros T. unfold ingest_tree. eapply msub_trans; [apply msub_register|].
  set (t1 := fst (t_rotate t)). assert (T1 : TInv t1) by (apply (tinv_step t TRotate T); exact I).
  destruct (v_sealed (latest t1)); [apply msub_rotate, T|]. eapply msub_trans; [apply msub_flush; exact (proj1 (ti_ids _ T1))|apply msub_rotate, T].
Qed.
Lemma memsrc_append t e y : TInv t -> In y (memsrc (t_append t e)) -> y = e \/ In y (memsrc t).
Proof.
  intros T I. unfold memsrc in *. assert (LT : latest (t_append t e) = latest t) by reflexivity. rewrite LT in I.
  apply in_app_or in I. destruct I as [I|I].
  - rewrite mem_of_append_same in I by exact T. destruct I as [<-|I]; [now left|]. apply filter_In in I as [I _]. right. apply in_or_app. now left.
  - right. apply in_or_app. right. rewrite in_flat_map in *. destruct I as [id [Iid I]]. exists id. split; [exact Iid|].
    rewrite mem_of_append_other in I; [exact I|]. intros ->. exact (ti_distinct _ T Iid).
Qed.

Lemma t_highest_mem_bound t e : In e (memsrc t) -> exists l, t_highest_mem t = Some l /\ es e <= l.
Proof.
  unfold memsrc, t_highest_mem.
  set (A := max_seq (mem_of t (v_active (latest t)))).
  set (S := fold_right (fun id acc => omax (max_seq (mem_of t id)) acc) None (v_sealed (latest t))).
  assert (HS : forall y, In y (flat_map (mem_of t) (v_sealed (latest t))) -> exists l, S = Some l /\ es y <= l).
  { subst S. induction (v_sealed (latest t)) as [|i r IH]; intros y Iy; [destruct Iy|]. cbn [flat_map fold_right] in *.
    apply in_app_or in Iy. destruct Iy as [Iy|Iy].
    - destruct (max_seq_bound _ _ Iy) as [m [-> Lm]]. destruct (fold_right _ None r) as [x|]; cbn [omax]; eexists; split; try reflexivity; lia.
    - destruct (IH y Iy) as [l [-> Ll]]. destruct (max_seq (mem_of t i)) as [x|]; cbn [omax]; eexists; split; try reflexivity; lia. }
  intros I. apply in_app_or in I. destruct I as [I|I].
  - destruct (max_seq_bound _ _ I) as [m [EA Lm]]. unfold A. rewrite EA. destruct S as [x|]; cbn [omax]; eexists; split; try reflexivity; lia.
  - destruct (HS e I) as [l [-> Ll]]. destruct A as [x|]; cbn [omax]; eexists; split; try reflexivity; lia.
Qed.

Lemma max_seq_in l m : max_seq l = Some m -> exists e, In e l /\ es e = m.
Proof.
  unfold max_seq. assert (G : forall l acc m, fold_left (fun acc e => match acc with Some m => Some (N.max m (es e)) | None => Some (es e) end) l acc = Some m ->
                              (acc = Some m \/ exists e, In e l /\ es e = m)).
  { clear. induction l as [|x r IH]; intros acc m H; cbn [fold_left] in H; [now left|].
    destruct (IH _ _ H) as [E|[e [Ie Ee]]]; [|right; exists e; split; [now right|exact Ee]].
    destruct acc as [a|]; injection E as E.
    - destruct (N.max_spec a (es x)) as [[_ M]|[_ M]]; rewrite M in E; [right; exists x; split; [now left|exact E]|left; congruence].
    - right. exists x. split; [now left|exact E]. }
  intros H. destruct (G l None m H) as [E|R]; [discriminate|exact R].
Qed.

(* a memtable entry is newer than everything the tables hold *)
Lemma mem_above_persisted t e p : TInv t -> In e (memsrc t) -> t_highest_persisted t = Some p -> p < es e.
Proof.
  intros T I HP. unfold t_highest_persisted in HP. destruct (max_seq_in _ _ HP) as [y [Iy <-]]. apply (ord_tables_lt t e y T I Iy).
Qed.

(* ---- the generic step ---- *)
Definition krel (s : option N) (d d' : db) : Prop :=
  forall k', In k' (d_kss d') -> memsrc (k_tree k') = [] \/
    exists k, In k (d_kss d) /\ k_id k' = k_id k /\ (k_deleted k' = false -> k_deleted k = false) /\
      forall e, In e (memsrc (k_tree k')) -> In e (memsrc (k_tree k)) \/ (match s with Some x => es e = x | None => False end).

Lemma MJ_step s d d' : krel s d d' ->
  (forall k', In k' (d_kss d') -> In (k_id k') (map snd (d_map d')) -> In (k_id k') (map snd (d_map d)) \/ memsrc (k_tree k') = []) ->
  (forall x, has_seq (J d) x -> has_seq (J d') x) ->
  (match s with Some x => has_seq (J d') x /\ (forall j, In j (d_sealed d) -> ~ has_seq (sj_batches j) x) | None => True end) ->
  d_sealed d' = d_sealed d -> MJ d -> MJ d'.
Proof.
  intros KR MAP JJ NEW SE [A B].
  assert (PRE : forall k' e, live d' k' -> In e (memsrc (k_tree k')) ->
            exists k, live d k /\ k_id k' = k_id k /\ (In e (memsrc (k_tree k)) \/ match s with Some x => es e = x | None => False end)).
  { intros k' e [Ik [Im Dl]] Ie. destruct (KR k' Ik) as [Z|[k [I0 [Eid [Dd Sub]]]]]; [rewrite Z in Ie; destruct Ie|].
    destruct (MAP k' Ik Im) as [Im0|Z]; [|rewrite Z in Ie; destruct Ie].
    exists k. split; [split; [exact I0|split; [rewrite <- Eid; exact Im0|apply Dd, Dl]]|]. split; [exact Eid|apply Sub, Ie]. }
  split.
  - intros k' e L Ie. destruct (PRE k' e L Ie) as [k [L0 [_ [Ie0|En]]]]; [apply JJ, (A k e L0 Ie0)|].
    destruct s as [x|]; [|destruct En]. rewrite En. exact (proj1 NEW).
  - intros j k' e Ij L Ie HS. rewrite SE in Ij. destruct (PRE k' e L Ie) as [k [L0 [Eid [Ie0|En]]]].
    + rewrite Eid. exact (B j k e Ij L0 Ie0 HS).
    + destruct s as [x|]; [|destruct En]. exfalso. apply (proj2 NEW j Ij). rewrite <- En. exact HS.
Qed.

Lemma krel_refl d d' : d_kss d' = d_kss d -> krel None d d'.
Proof. intros E k' I. rewrite E in I. right. exists k'. split; [exact I|]. split; [reflexivity|]. split; [auto|]. intros e Ie. now left. Qed.

Lemma krel_set d ks t' n trk : In ks (d_kss d) -> msub t' (k_tree ks) -> krel None d (upd d n trk (set_ks d (with_tree ks t'))).
Proof.
  intros Iks M k' I. cbn [d_kss upd] in I. unfold set_ks in I. rewrite in_map_iff in I. destruct I as [x [E Ix]]. right.
  destruct (N.eqb_spec (k_id x) (k_id (with_tree ks t'))) as [Q|NQ]; subst k'.
  - exists ks. split; [exact Iks|]. split; [reflexivity|]. split; [intros D; exact D|]. intros e Ie. left. apply M, Ie.
  - exists x. split; [exact Ix|]. split; [reflexivity|]. split; [auto|]. intros e Ie. now left.
Qed.

Lemma map_same d d' : d_map d' = d_map d -> forall k', In k' (d_kss d') -> In (k_id k') (map snd (d_map d')) -> In (k_id k') (map snd (d_map d)) \/ memsrc (k_tree k') = [].
Proof. intros E k' _ I. rewrite E in I. now left. Qed.

Lemma has_seq_app_l a b x : has_seq a x -> has_seq (a ++ b) x.
Proof. intros [y [I E]]. exists y. split; [apply in_or_app; now left|exact E]. Qed.
Lemma has_seq_app_r a b x : has_seq b x -> has_seq (a ++ b) x.
Proof. intros [y [I E]]. exists y. split; [apply in_or_app; now right|exact E]. Qed.

(* ---- sealing: the watermarks cover every memtable entry of every registered keyspace ---- *)
Lemma MJ_seal d : UQ d -> MJ d -> MJ (maybe_seal d).
Proof.
  intros U [A B]. unfold maybe_seal. destruct (_ && _); [|split; assumption]. split.
  - intros ks e L Ie. assert (E : J (upd_sealed d [] (d_sealed d ++ [{| sj_batches := d_active d; sj_wm := build_wm d |}])) = J d).
    { unfold J. cbn [d_sealed d_active upd_sealed]. rewrite map_app, concat_app. cbn [map concat sj_batches]. rewrite !app_nil_r. reflexivity. }
    rewrite E. apply (A ks e); [|exact Ie]. exact L.
  - intros j ks e Ij L Ie HS. cbn [d_sealed upd_sealed] in Ij. apply in_app_or in Ij. destruct Ij as [Ij|[<-|[]]].
    + apply (B j ks e Ij); [exact L|exact Ie|exact HS].
    + cbn [sj_wm]. destruct L as [Ik [Im _]]. cbn [d_kss d_map upd_sealed] in *.
      destruct (t_highest_mem_bound _ _ Ie) as [l [HM Ll]]. exists l. split; [|exact Ll].
      unfold build_wm. rewrite in_flat_map. rewrite in_map_iff in Im. destruct Im as [p [Ep Ip]]. exists p. split; [exact Ip|].
      rewrite Ep. assert (K : ks_of d (k_id ks) = Some ks) by (apply kfind_nodup; [exact (proj1 U)|exact Ik]). rewrite K, HM. now left.
Qed.

(* ---- eviction: a sealed journal goes only when no registered keyspace still has an entry of it in memory ---- *)
Lemma evict_loop_split d l : exists pre, l = pre ++ evict_loop d l /\ forall j, In j pre -> evictable d j = true.
Proof.
  induction l as [|j r IH]; cbn [evict_loop]; [exists []; split; [reflexivity|intros j []]|].
  destruct (evictable d j) eqn:V; [|exists []; split; [reflexivity|intros x []]].
  destruct IH as [pre [E P]]. exists (j :: pre). split; [cbn; f_equal; exact E|]. intros x [<-|Ix]; [exact V|apply P, Ix].
Qed.

Lemma MJ_evict d : UQ d -> DInv d -> MJ d -> MJ (journal_maintenance d).
Proof.
  intros U DI [A B]. destruct (evict_loop_split d (d_sealed d)) as [pre [E EV]].
  split.
  - intros ks e L Ie. destruct (A ks e L Ie) as [b [Ib Eb]]. unfold J in *. cbn [d_sealed d_active journal_maintenance] in *.
    apply in_app_or in Ib. destruct Ib as [Ib|Ib]; [|exists b; split; [apply in_or_app; now right|exact Eb]].
    rewrite E in Ib. rewrite map_app, concat_app in Ib. apply in_app_or in Ib. destruct Ib as [Ib|Ib];
      [|exists b; split; [apply in_or_app; now left|exact Eb]].
    (* b lies in an evicted journal: impossible *)
    exfalso. rewrite <- flat_map_concat_map in Ib. rewrite in_flat_map in Ib. destruct Ib as [j [Ij Ibj]].
    assert (Ijs : In j (d_sealed d)) by (rewrite E; apply in_or_app; now left).
    destruct (B j ks e Ijs L Ie (ex_intro _ b (conj Ibj Eb))) as [l [Iw Ll]].
    pose proof (EV j Ij) as V. unfold evictable in V. rewrite forallb_forall in V. specialize (V _ Iw). cbn [fst snd] in V.
    destruct L as [Ik [_ Dl]]. assert (K : ks_of d (k_id ks) = Some ks) by (apply kfind_nodup; [exact (proj1 U)|exact Ik]).
    rewrite K, Dl in V. destruct (t_highest_persisted (k_tree ks)) as [p|] eqn:HP; [|discriminate].
    pose proof (mem_above_persisted _ _ _ (proj1 (DI ks Ik)) Ie HP). lia.
  - intros j ks e Ij L Ie HS. cbn [d_sealed journal_maintenance] in Ij. apply (B j ks e); [rewrite E; apply in_or_app; now right|exact L|exact Ie|exact HS].
Qed.

(* ---- every operation ---- *)
Lemma JS_below d j x : JS d -> In j (d_sealed d) -> has_seq (sj_batches j) x -> x < d_seqno d.
Proof.
  intros [_ B] Ij [b [Ib <-]]. apply B. unfold J. apply in_or_app. left. rewrite <- flat_map_concat_map. rewrite in_flat_map. exists j. auto.
Qed.

Lemma MJ_commit d ji mi : DInv d -> JS d -> MJ d -> MJ (commit_batch d ji mi).
Proof.
  intros DI JSd H. apply (MJ_step (Some (d_seqno d)) d).
  - (* the memtables gained only entries with the batch's seqno *)
    unfold commit_batch. cbn [d_kss upd upd_journal].
    assert (G : forall mi kss, (forall k, In k kss -> P (d_seqno d) (k_tree k) /\
                  exists k0, In k0 (d_kss d) /\ k_id k = k_id k0 /\ (k_deleted k = false -> k_deleted k0 = false) /\
                    forall e, In e (memsrc (k_tree k)) -> In e (memsrc (k_tree k0)) \/ es e = d_seqno d) ->
                forall k, In k (fold_left (apply_item (d_seqno d)) mi kss) -> exists k0, In k0 (d_kss d) /\ k_id k = k_id k0 /\
                    (k_deleted k = false -> k_deleted k0 = false) /\ forall e, In e (memsrc (k_tree k)) -> In e (memsrc (k_tree k0)) \/ es e = d_seqno d).
    { clear. induction mi as [|it r IH]; intros kss H k I; cbn [fold_left] in I; [apply H, I|]. apply (IH (apply_item (d_seqno d) kss it)); [|exact I].
      intros k1 I1. unfold apply_item in I1. rewrite in_map_iff in I1. destruct I1 as [k2 [<- I2]]. destruct (H k2 I2) as [PP [k0 [I0 [E0 [D0 S0]]]]].
      destruct (k_id k2 =? ri_ks it); [|split; [exact PP|exists k0; auto]]. cbn [with_tree k_tree k_id k_deleted].
      split; [destruct PP as [T [A B]]; apply (tb_append_same (d_seqno d)); auto|]. exists k0. split; [exact I0|]. split; [exact E0|]. split; [exact D0|].
      intros e Ie. destruct (memsrc_append _ _ _ (proj1 PP) Ie) as [->|Io]; [right; reflexivity|apply S0, Io]. }
    intros k' I. right. apply (G mi (d_kss d)); [|exact I]. intros k Ik. split; [apply tb_P, DI, Ik|].
    exists k. split; [exact Ik|]. split; [reflexivity|]. split; [auto|]. intros e Ie. now left.
  - apply map_same. reflexivity.
  - intros x HS. unfold commit_batch, J. cbn [d_sealed d_active upd upd_journal]. rewrite app_assoc. apply has_seq_app_l, HS.
  - split.
    + unfold commit_batch, J. cbn [d_sealed d_active upd upd_journal]. apply has_seq_app_r, has_seq_app_r. eexists. split; [now left|reflexivity].
    + intros j Ij HS. pose proof (JS_below d j _ JSd Ij HS). lia.
  - reflexivity.
  - exact H.
Qed.

Lemma dinv_of_maint X : DInv (journal_maintenance X) -> DInv X.
Proof. apply dinv_ext; [reflexivity|cbn; lia]. Qed.
Lemma UQ_of d d' : d_kss d' = d_kss d -> d_next_id d' = d_next_id d -> UQ d -> UQ d'.
Proof. intros E1 E2 [A B]. split; [rewrite E1; exact A|]. intros k I. rewrite E1 in I. rewrite E2. apply B, I. Qed.

Lemma MJ_do_rotate d id : DInv d -> UQ d -> MJ d -> MJ (fst (do_rotate d id)).
Proof.
  intros DI U H. pose proof (do_rotate_dinv d id DI) as DI'. pose proof (idsame_do_rotate d id) as [IS NX].
  unfold do_rotate in *. destruct (ks_of d id) as [ks|] eqn:K; [|exact H].
  destruct (t_rotate (k_tree ks)) as [t ok] eqn:R. destruct ok; [|exact H]. cbn [fst] in *.
  assert (Et : t = fst (t_rotate (k_tree ks))) by (rewrite R; reflexivity).
  unfold after_rotate in *.
  match goal with |- MJ (journal_maintenance ?X) => set (X0 := X) in * end.
  apply MJ_evict; [apply (UQ_same d); [exact IS|cbn in NX |- *; lia|exact U]|apply dinv_of_maint, DI'|].
  apply (MJ_step None d).
  - intros k' I. unfold X0 in I. cbn [d_kss upd upd_queue] in I. rewrite in_map_iff in I. destruct I as [k1 [E I1]].
    unfold set_ks in I1. cbn [d_kss upd] in I1. rewrite in_map_iff in I1. destruct I1 as [k2 [E2 I2]]. right.
    assert (B : exists k, In k (d_kss d) /\ k_id k1 = k_id k /\ (k_deleted k1 = false -> k_deleted k = false) /\ vers (k_tree k1) <> [] /\
                  forall e, In e (memsrc (k_tree k1)) -> In e (memsrc (k_tree k))).
    { destruct (N.eqb_spec (k_id k2) (k_id (with_tree ks t))); subst k1.
      - exists ks. split; [exact (ks_of_in _ _ _ K)|]. split; [reflexivity|]. split; [auto|]. cbn [with_tree k_tree]. subst t.
        pose proof (proj1 (DI ks (ks_of_in _ _ _ K))) as T. split; [exact (proj1 (ti_ids _ (tinv_step _ TRotate T Logic.I)))|apply msub_rotate, T].
      - exists k2. split; [exact I2|]. split; [reflexivity|]. split; [auto|]. split; [exact (proj1 (ti_ids _ (proj1 (DI k2 I2))))|auto]. }
    destruct B as [k [I0 [E0 [D0 [NE S0]]]]]. exists k. split; [exact I0|].
    destruct (existsb _ _); subst k'; cbn [with_tree k_id k_deleted k_tree]; (split; [exact E0|]); (split; [exact D0|]); intros e Ie; left.
    + rewrite memsrc_maint in Ie by exact NE. apply S0, Ie.
    + apply S0, Ie.
  - apply map_same. reflexivity.
  - intros x HS. exact HS.
  - exact I.
  - reflexivity.
  - exact H.
Qed.

Lemma MJ_set d ks t' n trk : In ks (d_kss d) -> msub t' (k_tree ks) -> MJ d -> MJ (upd d n trk (set_ks d (with_tree ks t'))).
Proof.
  intros Iks M H. apply (MJ_step None d); [apply krel_set; assumption|apply map_same; reflexivity|intros x HS; exact HS|exact I|reflexivity|exact H].
Qed.
Lemma MJ_ext d d' : d_kss d' = d_kss d -> d_map d' = d_map d -> J d' = J d -> d_sealed d' = d_sealed d -> MJ d -> MJ d'.
Proof.
  intros E1 E2 E3 E4 H. apply (MJ_step None d); [apply krel_refl, E1|apply map_same, E2|intros x HS; rewrite E3; exact HS|exact I|exact E4|exact H].
Qed.

Lemma MJ_do_step d : DInv d -> UQ d -> MJ d -> MJ (fst (do_step d)).
Proof.
  intros DI U H. pose proof (do_step_dinv d DI) as DI'. pose proof (idsame_do_step d) as [IS NX].
  unfold do_step in *. destruct (d_queue d) as [|m q]; [exact H|].
  set (d0 := upd_queue d q (d_flushq d)) in *.
  assert (H0 : MJ d0) by (apply (MJ_ext d); [reflexivity|reflexivity|reflexivity|reflexivity|exact H]).
  assert (DI0 : DInv d0) by (apply upd_queue_dinv, DI).
  assert (U0 : UQ d0) by (apply (UQ_of d); [reflexivity|reflexivity|exact U]).
  destruct m as [id mid| |id].
  - destruct (ks_of d0 id) as [ks|]; [|exact H0]. destruct (_ =? _); [|exact H0]. cbn [fst]. apply MJ_do_rotate; assumption.
  - destruct (d_flushq d0) as [|id fq]; [exact H0|].
    set (d1 := maybe_seal (upd_queue d0 (d_queue d0) fq)) in *.
    assert (U1 : UQ d1) by (apply (UQ_of d0); [unfold d1, maybe_seal; destruct (_ && _); reflexivity|unfold d1, maybe_seal; destruct (_ && _); reflexivity|exact U0]).
    assert (H1 : MJ d1).
    { apply MJ_seal; [apply (UQ_of d0); [reflexivity|reflexivity|exact U0]|].
      apply (MJ_ext d0); [reflexivity|reflexivity|reflexivity|reflexivity|exact H0]. }
    assert (DI1 : DInv d1) by (apply maybe_seal_dinv, upd_queue_dinv, DI0).
    destruct (ks_of d1 id) as [ks|] eqn:K; [|exact H1]. cbn [fst] in *.
    match goal with |- MJ (journal_maintenance ?X) => set (X0 := X) in * end.
    apply MJ_evict; [|apply dinv_of_maint, DI'|].
    + apply (UQ_same d); [exact IS|cbn in NX |- *; lia|exact U].
    + unfold X0. destruct (v_sealed (latest (k_tree ks))).
      * apply (MJ_ext d1); [reflexivity|reflexivity|reflexivity|reflexivity|exact H1].
      * unfold draw_version. cbn [fst snd].
        match goal with |- MJ (push_msg ?Y _) => apply (MJ_ext Y); [reflexivity|reflexivity|reflexivity|reflexivity|] end.
        set (d2 := upd d1 (d_seqno d1 + 1) (tr_set_visible (d_trk d1) (d_seqno d1 + 1)) (d_kss d1)).
        apply (MJ_set d2 ks); [exact (ks_of_in _ _ _ K)| |apply (MJ_ext d1); [reflexivity|reflexivity|reflexivity|reflexivity|exact H1]].
        apply msub_flush. exact (proj1 (ti_ids _ (proj1 (DI1 ks (ks_of_in _ _ _ K))))).
  - exact H0.
Qed.

Lemma MJ_do_drain f : forall d n, DInv d -> UQ d -> MJ d -> MJ (fst (do_drain f d n)).
Proof.
  induction f as [|f IH]; intros d n DI U H; cbn [do_drain]; [exact H|]. destruct (d_queue d) eqn:Q; [exact H|].
  apply IH; [apply do_step_dinv, DI| |apply MJ_do_step; assumption].
  destruct (idsame_do_step d) as [A B]. apply (UQ_same d); [exact A|lia|exact U].
Qed.

Theorem wstep_MJ d o : DInv d -> JS d -> UQ d -> MJ d -> MJ (wstep d o).
Proof.
  intros DI JSd U H. destruct o; cbn [wstep].
  - (* keyspace creation *)
    unfold do_ks. destruct (blookup name (d_map d)); cbn [fst]; [apply (MJ_ext d); [reflexivity|reflexivity|reflexivity|reflexivity|exact H]|].
    apply (MJ_step None d).
    + intros k' I. cbn [d_kss upd_views upd_reg draw_version fst snd upd] in I. destruct I as [<-|I]; [left; reflexivity|right].
      apply filter_In in I as [I _]. exists k'. split; [exact I|]. split; [reflexivity|]. split; [auto|]. intros e Ie. now left.
    + intros k' I Im. cbn [d_kss d_map upd_views upd_reg draw_version fst snd upd map] in *. destruct I as [<-|I]; [right; reflexivity|].
      apply filter_In in I as [I _]. destruct Im as [E|Im]; [|now left]. exfalso. pose proof (proj2 U k' I). cbn [snd] in E. lia.
    + intros x HS. exact HS.
    + exact I.
    + reflexivity.
    + exact H.
  - unfold write_one. destruct (ks_of d id) as [ks|]; [|exact H]. destruct (k_deleted ks); [exact H|]. destruct (d_poisoned d); [exact H|].
    cbn [fst]. apply MJ_commit; assumption.
  - apply MJ_commit; assumption.
  - (* clear: a Clear record is appended, the tree starts over *)
    unfold do_clear. destruct (ks_of d id) as [ks|] eqn:K; [|exact H]. destruct (d_poisoned d); [exact H|].
    unfold draw_version. cbn [fst snd]. apply (MJ_step None d).
    + intros k' I. cbn [d_kss upd upd_journal] in I. unfold set_ks in I. cbn [d_kss upd upd_journal] in I. rewrite in_map_iff in I.
      destruct I as [x [E Ix]]. destruct (k_id x =? _); subst k'; [left; cbn [with_tree k_tree]; apply memsrc_clear|right; exists x; split; [exact Ix|split; [reflexivity|split; [auto|intros e Ie; now left]]]].
    + apply map_same. reflexivity.
    + intros x HS. unfold J. cbn [d_sealed d_active upd upd_journal]. rewrite app_assoc. apply has_seq_app_l, HS.
    + exact I.
    + reflexivity.
    + exact H.
  - apply MJ_do_rotate; assumption.
  - apply MJ_do_step; assumption.
  - apply MJ_do_drain; assumption.
  - unfold do_compact. destruct (ks_of d id) as [ks|] eqn:K; [|exact H]. destruct (v_tables _); [exact H|]. unfold draw_version. cbn [fst snd].
    set (d1 := upd d (d_seqno d + 1) (tr_set_visible (d_trk d) (d_seqno d + 1)) (d_kss d)).
    apply (MJ_set d1 ks); [exact (ks_of_in _ _ _ K)| |apply (MJ_ext d); [reflexivity|reflexivity|reflexivity|reflexivity|exact H]].
    apply msub_compact. exact (proj1 (ti_ids _ (proj1 (DI ks (ks_of_in _ _ _ K))))).
  - unfold do_ingest. destruct (ks_of d id) as [ks|] eqn:K; [|exact H].
    destruct items as [|it0 its]; [apply (MJ_ext d); [reflexivity|reflexivity|reflexivity|reflexivity|exact H]|].
    destruct (t_rotate (k_tree ks)) as [t1 b] eqn:R. assert (E1 : t1 = fst (t_rotate (k_tree ks))) by (rewrite R; reflexivity).
    pose proof (proj1 (DI ks (ks_of_in _ _ _ K))) as T.
    destruct (v_sealed (latest t1)) as [|i0 ids] eqn:SE; unfold draw_version; cbn [fst snd];
      match goal with |- MJ (push_msg ?Y _) => apply (MJ_ext Y); [reflexivity|reflexivity|reflexivity|reflexivity|] end.
    + match goal with |- MJ (upd ?D ?N ?T (set_ks ?D (with_tree ks ?T'))) => apply (MJ_set D ks) end;
        [exact (ks_of_in _ _ _ K)| |apply (MJ_ext d); [reflexivity|reflexivity|reflexivity|reflexivity|exact H]].
      eapply msub_trans; [apply msub_register|]. subst t1. apply msub_rotate, T.
    + match goal with |- MJ (upd ?D ?N ?T (set_ks ?D (with_tree ks ?T'))) => apply (MJ_set D ks) end;
        [exact (ks_of_in _ _ _ K)| |apply (MJ_ext d); [reflexivity|reflexivity|reflexivity|reflexivity|exact H]].
      eapply msub_trans; [apply msub_register|]. eapply msub_trans; [apply msub_flush|subst t1; apply msub_rotate, T].
      subst t1. exact (proj1 (ti_ids _ (tinv_step _ TRotate T Logic.I))).
Qed.

Lemma MJ_init mode filters : MJ (db_init mode filters).
Proof. split; [intros ks e [[] _]|intros j ks e []]. Qed.

(* every program: journal completeness holds in every reachable state *)
Theorem run_MJ ops : forall d, DInv d -> JS d -> UQ d -> MJ d -> MJ (fold_left wstep ops d).
Proof.
  induction ops as [|o r IH]; intros d DI JSd U H; cbn [fold_left]; [exact H|].
  apply IH; [apply (wrun_dinv [o]), DI|apply wstep_JS, JSd|apply wstep_UQ, U|apply wstep_MJ; assumption].
Qed.

Theorem journal_complete mode filters ops ks e :
  let d := fold_left wstep ops (db_init mode filters) in
  In ks (d_kss d) -> In (k_id ks) (map snd (d_map d)) -> k_deleted ks = false ->
  In e (memsrc (k_tree ks)) -> exists b, In b (J d) /\ rb_seqno b = es e.
Proof.
  intros d I1 I2 I3 Ie.
  assert (H : MJ d) by (apply run_MJ; [apply dinv_init|apply JS_init|apply UQ_init|apply MJ_init]).
  exact (proj1 H ks e (conj I1 (conj I2 I3)) Ie).
Qed.

(* ---- with keyspace deletion ---- *)
Lemma delks_shape d h :
  (forall k', In k' (d_kss (fst (do_delks d h))) -> exists k, In k (d_kss d) /\ k_id k' = k_id k /\ k_tree k' = k_tree k /\ (k_deleted k' = false -> k_deleted k = false)) /\
  map k_id (d_kss (fst (do_delks d h))) = map k_id (d_kss d) /\ d_next_id (fst (do_delks d h)) = d_next_id d /\
  (forall id, In id (map snd (d_map (fst (do_delks d h)))) -> In id (map snd (d_map d))) /\ d_sealed (fst (do_delks d h)) = d_sealed d.
Proof.
  unfold do_delks. destruct (alookup h (d_handles d)) as [id|]; [|repeat split; auto; intros k' I; exists k'; auto].
  destruct (ks_of d id) as [ks|] eqn:K; [|repeat split; auto; intros k' I; exists k'; auto]. cbn [fst].
  assert (MAPS : forall (l : list (bytes * N)) n i, In i (map snd (bremove n l)) -> In i (map snd l)).
  { intros l n i I. unfold bremove in I. rewrite in_map_iff in *. destruct I as [p [E Ip]]. apply filter_In in Ip as [Ip _]. exists p. auto. }
  destruct (blookup (k_name ks) (d_map d)); unfold draw_version, set_ks; cbn [fst snd d_kss d_next_id d_map d_sealed upd upd_reg k_id];
    (split; [intros k' I; rewrite in_map_iff in I; destruct I as [x [E Ix]]; destruct (k_id x =? k_id ks) eqn:Q; subst k';
              [exists ks; split; [exact (ks_of_in _ _ _ K)|]; cbn; split; [reflexivity|split; [reflexivity|discriminate]]
              |exists x; auto]|]);
    (split; [rewrite map_map; apply map_ext_in; intros x _; destruct (N.eqb_spec (k_id x) (k_id ks)) as [E|NE]; [cbn; congruence|reflexivity]|]);
    (split; [reflexivity|]); (split; [|reflexivity]); intros i I; try exact I; exact (MAPS _ _ _ I).
Qed.

Lemma delks_UQ d h : UQ d -> UQ (fst (do_delks d h)).
Proof.
  intros [A B]. destruct (delks_shape d h) as [S1 [S2 [S3 _]]]. split; [rewrite S2; exact A|].
  intros k' I. destruct (S1 k' I) as [k [I0 [E _]]]. rewrite E, S3. apply B, I0.
Qed.

Lemma MJ_delks d h : MJ d -> MJ (fst (do_delks d h)).
Proof.
  intros H. destruct (delks_shape d h) as [S1 [_ [_ [S4 S5]]]]. apply (MJ_step None d).
  - intros k' I. right. destruct (S1 k' I) as [k [I0 [E [T D]]]]. exists k. split; [exact I0|]. split; [exact E|]. split; [exact D|].
    intros e Ie. left. rewrite <- T. exact Ie.
  - intros k' _ I. left. apply S4, I.
  - intros x HS. rewrite delks_J. exact HS.
  - exact I.
  - exact S5.
  - exact H.
Qed.

Inductive dop := DW (o : wop) | DDel (h : N).
Definition dstep (d : db) (o : dop) : db := match o with DW w => wstep d w | DDel h => fst (do_delks d h) end.

Theorem drun_MJ ops : forall d, DInv d -> JS d -> UQ d -> MJ d -> MJ (fold_left dstep ops d).
Proof.
  induction ops as [|o r IH]; intros d DI JSd U H; cbn [fold_left]; [exact H|]. destruct o as [w|h]; cbn [dstep].
  - apply IH; [apply (wrun_dinv [w]), DI|apply wstep_JS, JSd|apply wstep_UQ, U|apply wstep_MJ; assumption].
  - apply IH; [apply delks_dinv, DI|apply delks_JS, JSd|apply delks_UQ, U|apply MJ_delks, H].
Qed.

(* journal completeness for every program with keyspace deletions: deleting a keyspace releases the journals only of ITS data *)
Theorem journal_complete_with_deletion mode filters ops ks e :
  let d := fold_left dstep ops (db_init mode filters) in
  In ks (d_kss d) -> In (k_id ks) (map snd (d_map d)) -> k_deleted ks = false ->
  In e (memsrc (k_tree ks)) -> exists b, In b (J d) /\ rb_seqno b = es e.
Proof.
  intros d I1 I2 I3 Ie.
  assert (H : MJ d) by (apply drun_MJ; [apply dinv_init|apply JS_init|apply UQ_init|apply MJ_init]).
  exact (proj1 H ks e (conj I1 (conj I2 I3)) Ie).
Qed.
