(* ConcP.v — every snapshot sees each batch entirely or not at all, for every interleaving of the commit
   protocol's micro-steps with snapshot-taking readers — provided nothing advances the visible seqno
   outside the journal mutex.  With lsm-tree's version-upgrade bump the statement is refuted. *)
From FJ Require Import Bytes BytesP Conc.
From Coq Require Import ZArith ZifyBool ZifyNat ZifyN Sorted.

Section ConcP.
  Variable n : N.

  Definition complete (m : list (N * N)) (q : N) : Prop := forall i, i < n -> In (q, i) m.

  Record CInv (s : cst) : Prop := {
    ci_vis : c_vis s <= c_seq s;
    ci_mem : forall q i, In (q, i) (c_mem s) -> q < c_seq s /\ i < n;
    ci_drawn : forall q k, c_inflight s = Some (PDrawn q k) ->
                 c_vis s <= q /\ q < c_seq s /\ k <= n /\ (forall i, In (q, i) (c_mem s) <-> i < k);
    ci_done : forall q i, In (q, i) (c_mem s) ->
                 (exists k, c_inflight s = Some (PDrawn q k)) \/ complete (c_mem s) q
  }.

  Lemma cinv_init : CInv cinit.
  Proof. constructor; cbn; try lia; try (intros; contradiction); intros; discriminate. Qed.

  Lemma cinv_step s e s' : is_bump e = false -> CInv s -> cstep n s e = Some s' -> CInv s'.
  Proof.
    intros NB [V M D F] H. destruct e; try discriminate NB; unfold cstep in H.
    - (* acquire *)
      destruct (c_inflight s) eqn:IF; [discriminate|]. inversion H; subst; clear H.
      constructor; cbn; auto; try discriminate.
      intros q i Hin. destruct (F q i Hin) as [[k E]|C]; [try rewrite IF in E; discriminate|right; exact C].
    - (* draw *)
      destruct (c_inflight s) as [[|q k|q]|] eqn:IF; try discriminate. inversion H; subst; clear H.
      constructor; cbn.
      + lia.
      + intros q i Hin. destruct (M q i Hin). lia.
      + intros q k E. inversion E; subst. split; [lia|]. split; [lia|]. split; [lia|].
        intros i. split; [intros Hin; destruct (M _ _ Hin); lia|lia].
      + intros q i Hin. destruct (F q i Hin) as [[k E]|C]; [try rewrite IF in E; discriminate|right; exact C].
    - (* apply *)
      destruct (c_inflight s) as [[|q k|q]|] eqn:IF; try discriminate.
      destruct (N.ltb_spec k n) as [L|]; [|discriminate]. inversion H; subst; clear H.
      destruct (D q k eq_refl) as (D1 & D2 & D3 & D4).
      constructor; cbn.
      + exact V.
      + intros q' i [E|Hin]; [inversion E; subst; lia|apply M; exact Hin].
      + intros q' k' E. inversion E; subst. split; [lia|]. split; [lia|]. split; [lia|].
        intros i. split.
        * intros [E2|Hin]; [inversion E2; lia|apply D4 in Hin; lia].
        * intros Hi. destruct (N.eq_dec i k) as [->|NE]; [left; reflexivity|right; apply D4; lia].
      + intros q' i [E|Hin].
        * inversion E; subst. left. eauto.
        * destruct (F q' i Hin) as [[k' E']|C].
          -- inversion E'; subst. left. eauto.
          -- right. intros j Hj. right. apply C. exact Hj.
    - (* publish *)
      destruct (c_inflight s) as [[|q k|q]|] eqn:IF; try discriminate.
      destruct (N.eqb_spec k n) as [->|]; [|discriminate]. inversion H; subst; clear H.
      destruct (D q n eq_refl) as (D1 & D2 & D3 & D4).
      constructor; cbn.
      + lia.
      + exact M.
      + intros q' k' E. discriminate.
      + intros q' i Hin. right. destruct (F q' i Hin) as [[k' E']|C]; [|exact C].
        inversion E'; subst. intros j Hj. apply D4. exact Hj.
    - (* release *)
      destruct (c_inflight s) as [[|q k|q]|] eqn:IF; try discriminate. inversion H; subst; clear H.
      constructor; cbn; auto; try discriminate.
      intros q' i Hin. destruct (F q' i Hin) as [[k' E']|C]; [discriminate|right; exact C].
    - (* snapshot: no state change *)
      inversion H; subst. constructor; assumption.
  Qed.

  Lemma cinv_run es : forall s s', forallb (fun e => negb (is_bump e)) es = true -> CInv s -> crun n s es = Some s' -> CInv s'.
  Proof.
    induction es as [|e r IH]; intros s s' NB I H; cbn in H; [inversion H; subst; exact I|].
    cbn in NB. apply andb_true_iff in NB as [NB1 NB2].
    destruct (cstep n s e) as [s1|] eqn:S; [|discriminate].
    eapply IH; [exact NB2| |exact H]. eapply cinv_step; [|exact I|exact S]. destruct (is_bump e); [discriminate|reflexivity].
  Qed.

  (* Atomic visibility and commit order, for EVERY interleaving without the bump: whatever a snapshot taken
     in a reachable state sees of a batch, it sees all of it; and it sees exactly the batches below its instant *)
  Theorem snapshot_atomic es s :
    forallb (fun e => negb (is_bump e)) es = true -> crun n cinit es = Some s ->
    forall q i, In (q, i) (seen s) -> forall j, j < n -> In (q, j) (seen s).
  Proof.
    intros NB R q i Hin j Hj.
    pose proof (cinv_run es cinit s NB cinv_init R) as [V M D F].
    unfold seen in *. apply filter_In in Hin as [Hin Hq]. cbn [fst] in Hq. apply N.ltb_lt in Hq.
    apply filter_In. split; [|cbn [fst]; apply N.ltb_lt; exact Hq].
    destruct (F q i Hin) as [[k E]|C]; [|apply C; exact Hj].
    destruct (D q k E) as (D1 & _). lia.
  Qed.
End ConcP.

(* with the bump (lsm-tree's version upgrade) the statement fails: a two-item batch, torn *)
Example bump_refutes :
  exists s, crun 2 cinit [EAcq; EDraw; EApply; EBump; ESnap] = Some s /\
            In (0, 0) (seen s) /\ ~ In (0, 1) (seen s).
Proof.
  eexists. split; [vm_compute; reflexivity|]. split; [vm_compute; left; reflexivity|].
  vm_compute. intros [H|[]]. discriminate.
Qed.

(* ---- C14 (partial): the order in which writes reach the memtable is the seqno order, which is the order in which the
   journal mutex was taken; nothing applied is ever lost — for EVERY interleaving, version-upgrade bumps included ---- *)
Section Lin.
  Variable n : N.

  Definition newest_first (l : list (N * N)) : Prop := StronglySorted (fun a b => fst b <= fst a) l.

  Record LInv (s : cst) : Prop := {
    li_sorted : newest_first (c_mem s);
    li_fresh : forall p, In p (c_mem s) -> fst p < c_seq s;
    li_drawn : forall q k, c_inflight s = Some (PDrawn q k) -> q < c_seq s /\ forall p, In p (c_mem s) -> fst p <= q
  }.

  Lemma linv_init : LInv cinit.
  Proof. constructor; cbn; [constructor|intros p []|intros; discriminate]. Qed.

  Lemma linv_step s e s' : LInv s -> cstep n s e = Some s' -> LInv s'.
  Proof.
    intros [S F D] H. destruct e; unfold cstep in H.
    - destruct (c_inflight s) eqn:IF; [discriminate|]. inversion H; subst; clear H.
      constructor; cbn; auto; intros; discriminate.
    - destruct (c_inflight s) as [[|q k|q]|] eqn:IF; try discriminate. inversion H; subst; clear H.
      constructor; cbn; [exact S|intros p I; specialize (F p I); lia|].
      intros q k E. inversion E; subst. split; [lia|]. intros p I. specialize (F p I). lia.
    - destruct (c_inflight s) as [[|q k|q]|] eqn:IF; try discriminate.
      destruct (k <? n); [|discriminate]. inversion H; subst; clear H.
      destruct (D q k eq_refl) as [D1 D2].
      constructor; cbn.
      + constructor; [exact S|]. rewrite Forall_forall. intros p I. cbn. apply D2, I.
      + intros p [<-|I]; [cbn; lia|apply F, I].
      + intros q' k' E. inversion E; subst. split; [lia|]. intros p [<-|I]; [cbn; lia|apply D2, I].
    - destruct (c_inflight s) as [[|q k|q]|] eqn:IF; try discriminate.
      destruct (k =? n); [|discriminate]. inversion H; subst; clear H.
      constructor; cbn; auto; intros; discriminate.
    - destruct (c_inflight s) as [[|q k|q]|] eqn:IF; try discriminate. inversion H; subst; clear H.
      constructor; cbn; auto; intros; discriminate.
    - inversion H; subst. constructor; assumption.
    - inversion H; subst; clear H. constructor; cbn; [exact S|intros p I; specialize (F p I); lia|].
      intros q k E. destruct (D q k E) as [D1 D2]. split; [lia|exact D2].
  Qed.

  Lemma linv_run es : forall s s', LInv s -> crun n s es = Some s' -> LInv s'.
  Proof.
    induction es as [|e r IH]; intros s s' I H; cbn in H; [inversion H; subst; exact I|].
    destruct (cstep n s e) as [s1|] eqn:S; [|discriminate]. eapply IH; [|exact H]. eapply linv_step; eauto.
  Qed.

  Theorem apply_order_is_seqno_order es s : crun n cinit es = Some s -> newest_first (c_mem s).
  Proof. intros H. exact (li_sorted _ (linv_run es cinit s linv_init H)). Qed.

  Lemma mem_grows_step s e s' : cstep n s e = Some s' -> exists l, c_mem s' = l ++ c_mem s /\ c_seq s <= c_seq s'.
  Proof.
    intros H. destruct e; unfold cstep in H.
    - destruct (c_inflight s); [discriminate|]. inversion H; subst. exists []. split; [reflexivity|cbn; lia].
    - destruct (c_inflight s) as [[|q k|q]|]; try discriminate. inversion H; subst. exists []. split; [reflexivity|cbn; lia].
    - destruct (c_inflight s) as [[|q k|q]|]; try discriminate. destruct (k <? n); [|discriminate].
      inversion H; subst. exists [(q, k)]. split; [reflexivity|cbn; lia].
    - destruct (c_inflight s) as [[|q k|q]|]; try discriminate. destruct (k =? n); [|discriminate].
      inversion H; subst. exists []. split; [reflexivity|cbn; lia].
    - destruct (c_inflight s) as [[|q k|q]|]; try discriminate. inversion H; subst. exists []. split; [reflexivity|cbn; lia].
    - inversion H; subst. exists []. split; [reflexivity|lia].
    - inversion H; subst. exists []. split; [reflexivity|cbn; lia].
  Qed.

  Theorem nothing_applied_is_lost es : forall s s', crun n s es = Some s' ->
    (forall p, In p (c_mem s) -> In p (c_mem s')) /\ c_seq s <= c_seq s'.
  Proof.
    induction es as [|e r IH]; intros s s' H; cbn in H; [inversion H; subst; split; [auto|lia]|].
    destruct (cstep n s e) as [s1|] eqn:S; [|discriminate].
    destruct (mem_grows_step _ _ _ S) as [l [E L]]. destruct (IH _ _ H) as [A B]. split; [|lia].
    intros p I. apply A. rewrite E. apply in_or_app. now right.
  Qed.
End Lin.
