(* RefineP.v — the ordered-map refinement (C01): what every operation of the tree model (Lsm.v) and of the database model
   (Db.v) does to the value a latest read returns for every key.  Writes update exactly their key, maintenance (rotation,
   flush, compaction without a filter, version-history maintenance, journal sealing and eviction) changes nothing, clear
   empties, ingestion overlays; a compaction filter changes a key only to the filtered form of its newest version (C18);
   operations on one keyspace leave every other keyspace as it is (C12).                                                     *)
From FJ Require Import Bytes Codec Reader Lsm Tracker Db BytesP LsmP TxP MapP FilterP OrderP DbOrderP SortP.
From Coq Require Import ZArith ZifyBool ZifyNat ZifyN Lia.

(* ---- the newest version over a concatenation ---- *)
Definition comb (a b : option ent) : option ent :=
  match a, b with
  | Some x, Some y => if es x <? es y then Some y else Some x
  | Some x, None => Some x
  | None, y => y
  end.

Lemma best_comb k I l : forall acc, best k I l acc = comb acc (best k I l None).
Proof.
  induction l as [|x r IH]; intros acc; cbn [best]; [destruct acc; reflexivity|].
  destruct (list_eqb (ek x) k && (es x <? I)); [|apply IH].
  destruct acc as [a|]; [|destruct (best k I r (Some x)); reflexivity].
  rewrite (IH (Some x)), (IH (Some a)).
  destruct (best k I r None) as [n|]; cbn [comb].
  - destruct (N.ltb_spec (es a) (es x)), (N.ltb_spec (es x) (es n)); cbn [comb];
      destruct (N.ltb_spec (es a) (es n)); try lia; try reflexivity;
      destruct (N.ltb_spec (es a) (es x)); try lia; reflexivity.
  - destruct (N.ltb_spec (es a) (es x)); reflexivity.
Qed.

Lemma newest_app k I a b : newest k I (a ++ b) = comb (newest k I a) (newest k I b).
Proof. unfold newest. rewrite best_app. apply best_comb. Qed.

Lemma newest_in k I l e : newest k I l = Some e -> In e l /\ ek e = k /\ es e < I.
Proof. intros H. destruct (best_none_in _ _ _ _ H) as [A [B C]]. apply list_eqb_eq in B. auto. Qed.

(* all entries carry the same seqno (an ingested table): the first one with the key wins *)
Lemma newest_same_seq k I g l : (forall x, In x l -> es x = g) -> g < I ->
  newest k I l = find (fun x => list_eqb (ek x) k) l.
Proof.
  intros H L. induction l as [|x r IH]; [reflexivity|]. unfold newest. cbn [best find].
  destruct (list_eqb (ek x) k) eqn:K; cbn [andb].
  - assert (es x = g) by (apply H; now left). destruct (N.ltb_spec (es x) I); [|lia].
    apply best_le_acc. intros y Iy _. rewrite (H y) by now right. lia.
  - apply IH. intros y Iy. apply H. now right.
Qed.

(* the write path's memtable insert, with several items of one batch sharing the seqno *)
Lemma newest_insert_le e l k I : (forall y, In y l -> es y <= es e) -> es e < I ->
  newest k I (mem_insert e l) = if list_eqb (ek e) k then Some e else newest k I l.
Proof.
  intros AB LT. unfold newest, mem_insert. cbn [best].
  destruct (list_eqb (ek e) k) eqn:K; cbn [andb].
  - destruct (N.ltb_spec (es e) I); [|lia]. apply best_le_acc.
    intros x Hx _. apply filter_In in Hx as [Hx _]. apply AB. exact Hx.
  - apply best_skip_other_key. exact K.
Qed.

(* ---- what a latest read returns ---- *)
Definition rd (I : N) (t : tree) (k : bytes) : option ent := v_get_ent t (latest t) k I.
Definition abs (I : N) (t : tree) (k : bytes) : option bytes := value_of (rd I t k).

Lemma rd_newest I t k : TInv t -> rd I t k = newest k I (v_all t (latest t)).
Proof. intros T. apply point_read_agrees_with_scan. apply ordered_recency. exact (ti_ord _ T). Qed.

Lemma v_all_srcs t : v_all t (latest t) = concat (srcs t).
Proof.
  unfold v_all, srcs. cbn [concat]. f_equal. rewrite concat_app. cbn [concat]. rewrite app_nil_r, flat_map_concat_map. reflexivity.
Qed.

Lemma below_all n t : below n t -> all_below n (v_all t (latest t)).
Proof. intros B e Ie. apply B. rewrite <- v_all_srcs. exact Ie. Qed.

Lemma all_below_mono n m l : n <= m -> all_below n l -> all_below m l.
Proof. intros L H e Ie. specialize (H e Ie). lia. Qed.

(* entries of the memtables are newer than entries of the tables *)
Lemma ord_tables_lt t a h : TInv t ->
  In a (mem_of t (v_active (latest t)) ++ flat_map (mem_of t) (v_sealed (latest t))) -> In h (v_tables (latest t)) -> es h < es a.
Proof.
  intros T Ia Ih. pose proof (ti_ord _ T) as O. unfold srcs in O. destruct O as [O1 O2].
  apply in_app_or in Ia. destruct Ia as [Ia|Ia].
  - apply O1; [exact Ia|]. rewrite concat_app. apply in_or_app. right. cbn. rewrite app_nil_r. exact Ih.
  - rewrite in_flat_map in Ia. destruct Ia as [id [Iid Ia]]. clear O1.
    induction (v_sealed (latest t)) as [|i r IH]; [destruct Iid|]. cbn [map app] in O2. destruct O2 as [P1 P2].
    destruct Iid as [->|Iid]; [|apply IH; assumption].
    apply P1; [exact Ia|]. rewrite concat_app. apply in_or_app. right. cbn. rewrite app_nil_r. exact Ih.
Qed.

(* ---- tree operations ---- *)
Lemma mem_of_append_same t e : TInv t ->
  mem_of (t_append t e) (v_active (latest t)) = mem_insert e (mem_of t (v_active (latest t))).
Proof.
  intros T. rewrite mem_of_mo. unfold t_append. cbn [mems]. unfold set_mem. rewrite mo_set_same.
  destruct (ti_act _ T) as [m ->]. reflexivity.
Qed.
Lemma mem_of_append_other t e id : id <> v_active (latest t) -> mem_of (t_append t e) id = mem_of t id.
Proof. intros NE. rewrite !mem_of_mo. unfold t_append. cbn [mems]. unfold set_mem. apply mo_set_other. exact NE. Qed.

Theorem rd_append I t e k : TInv t ->
  (forall y, In y (mem_of t (v_active (latest t))) -> es y <= es e) -> es e < I ->
  rd I (t_append t e) k = if list_eqb (ek e) k then Some e else rd I t k.
Proof.
  intros T LE LT. unfold rd, v_get_ent. assert (L : latest (t_append t e) = latest t) by reflexivity. rewrite L.
  rewrite mem_of_append_same by exact T. rewrite newest_insert_le by assumption.
  replace (map (fun id => newest k I (mem_of (t_append t e) id)) (v_sealed (latest t)))
    with (map (fun id => newest k I (mem_of t id)) (v_sealed (latest t))).
  2:{ apply map_ext_in. intros id Iid. rewrite mem_of_append_other; [reflexivity|]. intros ->. exact (ti_distinct _ T Iid). }
  destruct (list_eqb (ek e) k); reflexivity.
Qed.

Theorem rd_rotate I t k : TInv t -> rd I (fst (t_rotate t)) k = rd I t k.
Proof.
  intros T. pose proof (ti_ids _ T) as [NE IDS]. destruct (IDS _ (latest_in t NE)) as [La Ls].
  destruct (mem_of t (v_active (latest t))) as [|e0 l0] eqn:ME; [unfold t_rotate; rewrite ME; reflexivity|].
  destruct (rotate_shape t e0 l0 NE ME) as [SH [NEW FR]].
  unfold rd, v_get_ent. rewrite SH. cbn [v_active v_sealed v_tables map]. rewrite NEW, (FR _ La).
  replace (map (fun id => newest k I (mem_of (fst (t_rotate t)) id)) (v_sealed (latest t)))
    with (map (fun id => newest k I (mem_of t id)) (v_sealed (latest t)))
    by (apply map_ext_in; intros id Iid; rewrite (FR _ (Ls _ Iid)); reflexivity).
  reflexivity.
Qed.

Theorem rd_maint I W t k : vers t <> [] -> rd I (vh_maintenance W t) k = rd I t k.
Proof. intros NE. unfold rd, v_get_ent, mem_of. rewrite latest_maint by exact NE. rewrite mems_maint. reflexivity. Qed.

Lemma v_all_maint W t : vers t <> [] -> v_all (vh_maintenance W t) (latest (vh_maintenance W t)) = v_all t (latest t).
Proof. intros NE. unfold v_all, mem_of. rewrite latest_maint by exact NE. rewrite mems_maint. reflexivity. Qed.

Theorem rd_flush I n W s t k : TB n t -> n <= I -> rd I (fst (t_flush W s t)) k = rd I t k.
Proof.
  intros TBt L. pose proof (tb_flush n W s t TBt) as [T' _]. destruct TBt as [T B].
  rewrite (rd_newest I _ k T'), (rd_newest I t k T).
  pose proof (proj1 (ti_ids _ T)) as NE.
  unfold t_flush. destruct (v_sealed (latest t)) as [|i0 ids] eqn:SE; [reflexivity|].
  destruct (gc_stream W false None (flat_map (mem_of t) (i0 :: ids))) as [|o1 out] eqn:G; [reflexivity|]. cbn [fst].
  rewrite v_all_maint by (cbn; discriminate).
  match goal with |- newest k I (v_all ?X (latest ?X)) = _ => set (t' := X) end.
  unfold v_all. change (latest t') with (hd dummy_version (vers t')). change (mem_of t') with (mem_of t).
  subst t'. cbn [vers hd v_active v_sealed v_tables flat_map app]. rewrite SE.
  change (o1 :: out ++ v_tables (latest t)) with ((o1 :: out) ++ v_tables (latest t)).
  rewrite !newest_app. f_equal. f_equal. rewrite <- G. apply gc_stream_newest_flush.
  apply (all_below_mono n I); [exact L|]. intros e Ie. apply B. unfold srcs. rewrite SE. cbn [concat]. apply in_or_app. right.
  rewrite concat_app. apply in_or_app. left. rewrite <- flat_map_concat_map. exact Ie.
Qed.

(* compaction of the tables with filter f: either the read is untouched, or it came from the tables and is now the filtered
   form of that version (nothing at all when the filtered form is a tombstone evicted at the last level) *)
Theorem rd_compact I n W s ev f t k : TB n t -> n <= I ->
  rd I (t_compact W s ev f t) k = rd I t k \/
  exists h, rd I t k = Some h /\ In h (v_tables (latest t)) /\
            (rd I (t_compact W s ev f t) k = Some (apply_filter f h) \/
             (rd I (t_compact W s ev f t) k = None /\ is_tomb (apply_filter f h) = true /\ ev = true)).
Proof.
  intros TBt L. pose proof (tb_compact n W s ev f t TBt) as [T' _]. destruct TBt as [T B].
  rewrite (rd_newest I _ k T'), (rd_newest I t k T).
  pose proof (proj1 (ti_ids _ T)) as NE.
  unfold t_compact. destruct (v_tables (latest t)) as [|t0 tb] eqn:TBL; [left; reflexivity|].
  rewrite v_all_maint by (cbn; discriminate).
  match goal with |- newest k I (v_all ?X (latest ?X)) = _ \/ _ => set (t' := X) end.
  unfold v_all. change (latest t') with (hd dummy_version (vers t')). change (mem_of t') with (mem_of t).
  subst t'. cbn [vers hd v_active v_sealed v_tables]. rewrite TBL.
  set (A := mem_of t (v_active (latest t))). set (S := flat_map (mem_of t) (v_sealed (latest t))).
  rewrite !(app_assoc A S). rewrite !(newest_app k I (A ++ S)).
  assert (ABT : all_below I (t0 :: tb)).
  { apply (all_below_mono n I); [exact L|]. intros e Ie. apply B. unfold srcs. rewrite TBL. cbn [concat]. apply in_or_app. right.
    rewrite concat_app. apply in_or_app. right. cbn. rewrite app_nil_r. exact Ie. }
  pose proof (gc_stream_newest W ev f k I (t0 :: tb) ABT) as GS.
  destruct (newest k I (t0 :: tb)) as [h|] eqn:NT; [|rewrite GS; left; reflexivity].
  destruct (newest_in _ _ _ _ NT) as [Ih _]. rewrite <- TBL in Ih.
  destruct (newest k I (A ++ S)) as [a|] eqn:NA.
  - (* a memtable version exists: it is newer than anything in the tables *)
    left. destruct (newest_in _ _ _ _ NA) as [Ia _].
    pose proof (ord_tables_lt t a h T Ia Ih) as LT. destruct (apply_filter_slot f h) as [_ FS].
    destruct GS as [->|[-> _]]; cbn [comb]; [rewrite FS|]; destruct (N.ltb_spec (es a) (es h)); try lia; reflexivity.
  - right. exists h. cbn [comb]. split; [reflexivity|]. split; [rewrite <- TBL; exact Ih|]. destruct GS as [->|[-> R]]; [left; reflexivity|right; tauto].
Qed.

Corollary abs_compact_nofilter I n W s ev t k : TB n t -> n <= I -> abs I (t_compact W s ev None t) k = abs I t k.
Proof.
  intros TBt L. unfold abs. destruct (rd_compact I n W s ev None t k TBt L) as [->|[h [R [_ H]]]]; [reflexivity|].
  rewrite apply_filter_none in H. rewrite R. destruct H as [->|[-> [Tm _]]]; [reflexivity|]. cbn. rewrite Tm. reflexivity.
Qed.

(* with a filter: the value is untouched, or it is the filtered form of the version that was read before *)
Corollary abs_compact_filter I n W s ev f t k : TB n t -> n <= I ->
  abs I (t_compact W s ev f t) k = abs I t k \/
  exists h, rd I t k = Some h /\ abs I (t_compact W s ev f t) k = value_of (Some (apply_filter f h)).
Proof.
  intros TBt L. unfold abs. destruct (rd_compact I n W s ev f t k TBt L) as [->|[h [R [_ H]]]]; [left; reflexivity|].
  right. exists h. split; [exact R|]. destruct H as [->|[-> [Tm _]]]; [reflexivity|]. cbn. rewrite Tm. reflexivity.
Qed.

Theorem rd_clear I s t k : rd I (t_clear s t) k = None.
Proof.
  unfold rd, v_get_ent, t_clear, latest. cbn [vers hd v_active v_sealed v_tables map app].
  unfold mem_of. cbn [mems find m_id]. rewrite N.eqb_refl. reflexivity.
Qed.

Theorem rd_register I n g ents t k : TB n t -> n <= g -> g < I -> (forall e, In e ents -> es e = g) ->
  mem_of t (v_active (latest t)) = [] -> Forall (fun id => mem_of t id = []) (v_sealed (latest t)) ->
  rd I (t_register_ingest g ents t) k =
    match find (fun x => list_eqb (ek x) k) ents with Some x => Some x | None => rd I t k end.
Proof.
  intros TBt L LI EG A S. pose proof (tb_register n g ents t TBt L EG A S) as [T' _]. destruct TBt as [T B].
  rewrite (rd_newest I _ k T'), (rd_newest I t k T).
  unfold t_register_ingest.
  match goal with |- newest k I (v_all ?X (latest ?X)) = _ => set (t' := X) end.
  unfold v_all. change (latest t') with (hd dummy_version (vers t')). change (mem_of t') with (mem_of t).
  subst t'. cbn [vers hd v_active v_sealed v_tables]. rewrite A.
  assert (FM : flat_map (mem_of t) (v_sealed (latest t)) = []).
  { clear -S. induction S as [|id r E _ IH]; [reflexivity|]. cbn [flat_map]. rewrite E, IH. reflexivity. }
  rewrite FM. cbn [app]. rewrite newest_app. rewrite (newest_same_seq k I g ents EG LI).
  destruct (find (fun x => list_eqb (ek x) k) ents) as [x|] eqn:F; [|reflexivity].
  apply find_some in F. destruct F as [Ix _].
  destruct (newest k I (v_tables (latest t))) as [h|] eqn:NT; [|reflexivity]. cbn [comb].
  destruct (newest_in _ _ _ _ NT) as [Ih _].
  assert (es h < n). { apply B. unfold srcs. cbn [concat]. apply in_or_app. right. rewrite concat_app. apply in_or_app. right. cbn. rewrite app_nil_r. exact Ih. }
  rewrite (EG x Ix). destruct (N.ltb_spec g (es h)); [lia|reflexivity].
Qed.

(* the tree part of bulk ingestion: rotate, flush what is in memory, register the ingested table *)
Theorem rd_ingest_tree I n t s g ents k : TB n t -> n <= g -> g < I -> (forall e, In e ents -> es e = g) ->
  rd I (ingest_tree t s g ents) k =
    match find (fun x => list_eqb (ek x) k) ents with Some x => Some x | None => rd I t k end.
Proof.
  intros T L LI EG. unfold ingest_tree.
  set (t1 := fst (t_rotate t)).
  assert (T1 : TB n t1) by (apply tb_rotate, T).
  assert (A1 : mem_of t1 (v_active (latest t1)) = []) by (apply rotate_active_empty, T).
  assert (R1 : rd I t1 k = rd I t k) by (apply rd_rotate, T).
  assert (NI : n <= I) by lia.
  destruct (v_sealed (latest t1)) as [|i0 ids] eqn:SE.
  - rewrite (rd_register I n); auto; [rewrite R1; reflexivity|rewrite SE; constructor].
  - destruct (flat_map (mem_of t1) (i0 :: ids)) as [|x xs] eqn:FM.
    + assert (E : fst (t_flush 0 s t1) = t1).
      { unfold t_flush. rewrite SE, FM. assert (G : gc_stream 0 false None [] = []) by reflexivity. rewrite G. reflexivity. }
      rewrite E. rewrite (rd_register I n); auto; [rewrite R1; reflexivity|rewrite SE; apply flat_map_nil; exact FM].
    + destruct (flush_shape s t1 i0 ids (proj1 (ti_ids _ (proj1 T1))) SE) as [S0 [A0 M0]]; [rewrite FM; discriminate|].
      rewrite (rd_register I n); auto.
      * rewrite (rd_flush I n 0 s t1 k T1 NI), R1. reflexivity.
      * apply tb_flush, T1.
      * rewrite M0, A0. exact A1.
      * rewrite S0. constructor.
Qed.

(* ======================= the database model ======================= *)
Definition kfind (kss : list kspace) (id : N) : option kspace := find (fun k => k_id k =? id) kss.
Definition absk (I : N) (kss : list kspace) (id : N) (k : bytes) : option bytes :=
  match kfind kss id with Some ks => abs I (k_tree ks) k | None => None end.
Definition absd (I : N) (d : db) : N -> bytes -> option bytes := absk I (d_kss d).

Lemma kfind_some kss id ks : kfind kss id = Some ks -> In ks kss /\ k_id ks = id.
Proof. unfold kfind. intros H. apply find_some in H. destruct H as [A B]. split; [exact A|lia]. Qed.

Lemma kfind_map f kss id : (forall x, k_id (f x) = k_id x) -> kfind (map f kss) id = option_map f (kfind kss id).
Proof.
  intros H. unfold kfind. induction kss as [|a r IH]; cbn [map find]; [reflexivity|].
  rewrite H. destruct (k_id a =? id); [reflexivity|exact IH].
Qed.

Lemma kfind_set kss ks t' id : kfind kss (k_id ks) = Some ks ->
  kfind (map (fun x => if k_id x =? k_id (with_tree ks t') then with_tree ks t' else x) kss) id
  = if id =? k_id ks then Some (with_tree ks t') else kfind kss id.
Proof.
  unfold kfind. cbn [with_tree k_id]. induction kss as [|a r IH]; cbn [map find]; [discriminate|].
  destruct (N.eqb_spec (k_id a) (k_id ks)) as [E|NE].
  - intros _. cbn [with_tree k_id]. rewrite E. destruct (N.eqb_spec (k_id ks) id) as [E2|NE2].
    + subst id. rewrite N.eqb_refl. reflexivity.
    + destruct (N.eqb_spec id (k_id ks)); [lia|]. clear IH.
      induction r as [|b r IHr]; cbn [map find]; [reflexivity|].
      destruct (N.eqb_spec (k_id b) (k_id ks)) as [E3|NE3].
      * cbn [with_tree k_id]. destruct (N.eqb_spec (k_id ks) id); [lia|]. destruct (N.eqb_spec (k_id b) id); [lia|]. exact IHr.
      * destruct (k_id b =? id); [reflexivity|exact IHr].
  - intros H. destruct (N.eqb_spec (k_id a) id) as [E2|NE2].
    + destruct (N.eqb_spec id (k_id ks)); [lia|reflexivity].
    + apply IH, H.
Qed.

Lemma kfind_filter_ne kss n id : id <> n -> kfind (filter (fun k => negb (k_id k =? n)) kss) id = kfind kss id.
Proof.
  intros NE. unfold kfind. induction kss as [|a r IH]; cbn [filter find]; [reflexivity|].
  destruct (N.eqb_spec (k_id a) n) as [E|NE2]; cbn [negb].
  - destruct (N.eqb_spec (k_id a) id); [lia|exact IH].
  - cbn [find]. destruct (k_id a =? id); [reflexivity|exact IH].
Qed.

(* ---- the reference: one finite map per keyspace id ---- *)
Definition smap := N -> bytes -> option bytes.
Definition supd (m : smap) (id : N) (k : bytes) (v : option bytes) : smap :=
  fun id' k' => if (id' =? id) && list_eqb k k' then v else m id' k'.
Definition sclear (m : smap) (id : N) : smap := fun id' k' => if id' =? id then None else m id' k'.
Definition val_of (vt : vtype) (v : bytes) : option bytes := match vt with VTomb | VWeak => None | _ => Some v end.
Definition has_ks (d : db) (id : N) : bool := match ks_of d id with Some _ => true | None => false end.
Definition is_ok (o : obs) : bool := match o with ObOk => true | _ => false end.
Definition sitem (g : N -> bool) (m : smap) (it : ritem) : smap :=
  if g (ri_ks it) then supd m (ri_ks it) (ri_key it) (val_of (ri_vt it) (ri_value it)) else m.
Definition iitem_key (it : iitem) : bytes := match it with IPut k _ => k | ITomb k => k end.
Definition iitem_val (it : iitem) : option bytes := match it with IPut _ v => Some v | ITomb _ => None end.
Definition singest (m : smap) (id : N) (items : list iitem) : smap :=
  fun id' k' => if id' =? id then match find (fun it => list_eqb (iitem_key it) k') items with
                                  | Some it => iitem_val it | None => m id' k' end
                else m id' k'.

(* the reference step.  The database state is consulted only for what the caller observes or chooses: whether the call was
   accepted (its result), whether a keyspace id exists, and which id a new keyspace receives. *)
Definition sstep (d : db) (o : wop) (m : smap) : smap :=
  match o with
  | WKs h name => match blookup name (d_map d) with Some _ => m | None => sclear m (d_next_id d) end
  | WWrite id k v vt mvt => if is_ok (snd (write_one d id k v vt mvt)) then supd m id k (val_of mvt v) else m
  | WBatch ji mi => fold_left (sitem (has_ks d)) mi m
  | WClear id => if is_ok (snd (do_clear d id)) then sclear m id else m
  | WIngest id items => if has_ks d id then match items with [] => m | _ => singest m id items end else m
  | WRotate' _ | WStep | WDrain _ | WMajor _ _ => m
  end.

Definition meq (m1 m2 : smap) : Prop := forall id k, m1 id k = m2 id k.

Lemma sitem_ext g m1 m2 it : meq m1 m2 -> meq (sitem g m1 it) (sitem g m2 it).
Proof. intros H id k. unfold sitem, supd. destruct (g (ri_ks it)); [destruct (_ && _); [reflexivity|apply H]|apply H]. Qed.
Lemma fold_sitem_ext g mi : forall m1 m2, meq m1 m2 -> meq (fold_left (sitem g) mi m1) (fold_left (sitem g) mi m2).
Proof. induction mi as [|it r IH]; intros m1 m2 H; cbn [fold_left]; [exact H|]. apply IH, sitem_ext, H. Qed.
Lemma sstep_ext d o m1 m2 : meq m1 m2 -> meq (sstep d o m1) (sstep d o m2).
Proof.
  intros H. destruct o; cbn [sstep]; try exact H.
  - destruct (blookup name (d_map d)); [exact H|]. intros ? ?. unfold sclear. destruct (_ =? _); [reflexivity|apply H].
  - destruct (is_ok _); [|exact H]. intros ? ?. unfold supd. destruct (_ && _); [reflexivity|apply H].
  - apply fold_sitem_ext, H.
  - destruct (is_ok _); [|exact H]. intros ? ?. unfold sclear. destruct (_ =? _); [reflexivity|apply H].
  - destruct (has_ks d id); [|exact H]. destruct items; [exact H|]. intros ? ?. unfold singest.
    destruct (_ =? _); [destruct (find _ _); [reflexivity|apply H]|apply H].
Qed.

(* ---- one committed batch ---- *)
Lemma val_of_ent k s vt v : value_of (Some (mkEnt k s vt v)) = val_of vt v.
Proof. destruct vt; reflexivity. Qed.

Lemma apply_item_abs I s g kss it : s < I -> (forall ks, In ks kss -> P s (k_tree ks)) ->
  (forall id, g id = match kfind kss id with Some _ => true | None => false end) ->
  meq (absk I (apply_item s kss it)) (sitem g (absk I kss) it).
Proof.
  intros L HP G id k. unfold absk, apply_item. rewrite kfind_map by (intros x; destruct (k_id x =? ri_ks it); reflexivity).
  unfold sitem, supd. rewrite G.
  destruct (kfind kss id) as [ks|] eqn:K; cbn [option_map].
  - destruct (kfind_some _ _ _ K) as [Iks Eid]. rewrite Eid.
    destruct (N.eqb_spec id (ri_ks it)) as [E|NE].
    + rewrite <- E, K. cbn beta. rewrite N.eqb_refl. cbn [andb with_tree k_tree]. unfold abs.
      destruct (HP ks Iks) as [T [_ HD]]. rewrite rd_append; [|exact T|intros y Iy; apply HD; unfold srcs; exact Iy|exact L].
      cbn [ek es]. destruct (list_eqb (ri_key it) k); [apply val_of_ent|rewrite K; reflexivity].
    + destruct (kfind kss (ri_ks it)); [|rewrite K; reflexivity]. cbn beta. destruct (N.eqb_spec id (ri_ks it)); [lia|]. rewrite K. reflexivity.
  - destruct (N.eqb_spec id (ri_ks it)) as [E|NE]; [rewrite <- E, K; rewrite K; reflexivity|].
    destruct (kfind kss (ri_ks it)); [|rewrite K; reflexivity]. cbn beta. destruct (N.eqb_spec id (ri_ks it)); [lia|]. rewrite K. reflexivity.
Qed.

Lemma fold_apply_abs I s g : s < I -> forall mi kss, (forall ks, In ks kss -> P s (k_tree ks)) ->
  (forall id, g id = match kfind kss id with Some _ => true | None => false end) ->
  meq (absk I (fold_left (apply_item s) mi kss)) (fold_left (sitem g) mi (absk I kss)).
Proof.
  intros L. induction mi as [|it r IH]; intros kss HP G; cbn [fold_left]; [intros id k; reflexivity|].
  intros id k. rewrite IH.
  - apply fold_sitem_ext. apply apply_item_abs; assumption.
  - apply apply_item_P, HP.
  - intros i. rewrite G. unfold apply_item. rewrite kfind_map by (intros x; destruct (k_id x =? ri_ks it); reflexivity).
    destruct (kfind kss i); reflexivity.
Qed.

Theorem commit_batch_refines I d ji mi : DInv d -> d_seqno d < I ->
  meq (absd I (commit_batch d ji mi)) (fold_left (sitem (has_ks d)) mi (absd I d)).
Proof.
  intros H L. unfold absd, commit_batch. cbn [d_kss upd upd_journal].
  apply fold_apply_abs; [exact L|intros ks Iks; apply tb_P, H, Iks|intros id; reflexivity].
Qed.

Theorem write_one_refines I d id k v vt mvt : DInv d -> d_seqno (fst (write_one d id k v vt mvt)) <= I ->
  meq (absd I (fst (write_one d id k v vt mvt))) (sstep d (WWrite id k v vt mvt) (absd I d)).
Proof.
  intros H. cbn [sstep]. unfold write_one. destruct (ks_of d id) as [ks|] eqn:K; [|intros i k0; reflexivity].
  destruct (k_deleted ks); [intros _ i k0; reflexivity|]. destruct (d_poisoned d); [intros _ i k0; reflexivity|]. cbn [fst snd is_ok].
  intros L0. assert (L : d_seqno d < I) by (cbn in L0; lia).
  intros i k0. rewrite (commit_batch_refines I d _ _ H L). cbn [fold_left]. unfold sitem. cbn [ri_ks ri_key ri_vt ri_value].
  unfold has_ks. rewrite K. reflexivity.
Qed.

(* ---- clear ---- *)
Theorem do_clear_refines I d id : meq (absd I (fst (do_clear d id))) (sstep d (WClear id) (absd I d)).
Proof.
  cbn [sstep]. unfold do_clear. destruct (ks_of d id) as [ks|] eqn:K; [|intros i k0; reflexivity].
  destruct (d_poisoned d); [intros i k0; reflexivity|]. cbn [fst snd is_ok].
  unfold draw_version. cbn [fst snd is_ok].
  intros i k0. unfold absd, absk, set_ks. cbn [d_kss upd upd_journal].
  destruct (kfind_some _ _ _ K) as [_ Eid].
  rewrite kfind_set by (rewrite Eid; exact K). unfold sclear. rewrite Eid.
  destruct (i =? id); [|reflexivity]. cbn [with_tree k_tree]. unfold abs. rewrite rd_clear. reflexivity.
Qed.

(* ---- keyspace creation ---- *)
Lemma abs_init I k : abs I tree_init k = None.
Proof. reflexivity. Qed.

Theorem do_ks_refines I d h name : meq (absd I (fst (do_ks d h name))) (sstep d (WKs h name) (absd I d)).
Proof.
  cbn [sstep]. unfold do_ks. destruct (blookup name (d_map d)); [intros i k0; reflexivity|].
  intros i k0. unfold absd, absk. cbn [fst d_kss upd_views upd_reg draw_version upd]. unfold sclear, kfind. cbn [find k_id].
  destruct (N.eqb_spec (d_next_id d) i) as [E|NE].
  - subst i. rewrite N.eqb_refl. reflexivity.
  - destruct (N.eqb_spec i (d_next_id d)); [lia|]. fold (kfind (filter (fun k => negb (k_id k =? d_next_id d)) (d_kss d)) i).
    rewrite kfind_filter_ne by lia. reflexivity.
Qed.

(* ---- rotation (with the version-history and journal maintenance that follow it) ---- *)
Theorem do_rotate_refines I d id : DInv d -> meq (absd I (fst (do_rotate d id))) (absd I d).
Proof.
  intros H. unfold do_rotate. destruct (ks_of d id) as [ks|] eqn:K; [|intros i k0; reflexivity].
  destruct (t_rotate (k_tree ks)) as [t ok] eqn:R. destruct ok; [|intros i k0; reflexivity]. cbn [fst].
  assert (Et : t = fst (t_rotate (k_tree ks))) by (rewrite R; reflexivity).
  pose proof (H ks (ks_of_in _ _ _ K)) as [T _].
  intros i k0. unfold absd, absk, after_rotate, journal_maintenance. cbn [d_kss upd upd_queue].
  rewrite kfind_map by (intros x; destruct (existsb _ _); reflexivity).
  unfold set_ks. cbn [d_kss upd]. destruct (kfind_some _ _ _ K) as [_ Eid].
  rewrite kfind_set by (rewrite Eid; exact K). rewrite Eid.
  assert (MA : forall W x, TInv (k_tree x) -> abs I (k_tree (if existsb (fun p => snd p =? k_id x) (d_map d)
                 then with_tree x (vh_maintenance W (k_tree x)) else x)) k0 = abs I (k_tree x) k0).
  { intros W x Tx. destruct (existsb _ _); [|reflexivity]. cbn [with_tree k_tree]. unfold abs. rewrite rd_maint; [reflexivity|].
    exact (proj1 (ti_ids _ Tx)). }
  destruct (N.eqb_spec i id) as [E|NE]; cbn [option_map].
  - subst i. assert (K' : kfind (d_kss d) id = Some ks) by exact K. rewrite K'. cbn [d_map upd_queue upd].
    rewrite MA by (cbn [with_tree k_tree]; subst t; apply (tinv_step _ TRotate T); exact Logic.I).
    cbn [with_tree k_tree]. subst t. unfold abs. rewrite rd_rotate by exact T. reflexivity.
  - destruct (kfind (d_kss d) i) as [x|] eqn:Kx; cbn [option_map]; [|reflexivity]. cbn [d_map upd_queue upd].
    apply MA. destruct (kfind_some _ _ _ Kx) as [Ix _]. exact (proj1 (H x Ix)).
Qed.

(* ---- major compaction ---- *)
Definition nofilter (d : db) : Prop := forall ks, In ks (d_kss d) -> k_filter ks = None.

Theorem do_compact_refines I d id ev : DInv d -> nofilter d -> d_seqno d <= I ->
  meq (absd I (do_compact d id ev)) (absd I d).
Proof.
  intros H NF L. unfold do_compact. destruct (ks_of d id) as [ks|] eqn:K; [|intros i k0; reflexivity].
  destruct (v_tables (latest (k_tree ks))); [intros i k0; reflexivity|]. unfold draw_version. cbn [fst snd].
  intros i k0. unfold absd, absk, set_ks. cbn [d_kss upd]. destruct (kfind_some _ _ _ K) as [Iks Eid].
  rewrite kfind_set by (rewrite Eid; exact K). rewrite Eid.
  destruct (N.eqb_spec i id) as [E|NE]; [|reflexivity]. subst i. assert (K' : kfind (d_kss d) id = Some ks) by exact K. rewrite K'. cbn [with_tree k_tree].
  rewrite (NF ks Iks). apply (abs_compact_nofilter I (d_seqno d)); [apply H, Iks|exact L].
Qed.

(* with a compaction filter: every other keyspace is untouched; in the compacted keyspace a key keeps its value or takes the
   filtered form of the version that was read before *)
Theorem do_compact_filtered I d id ev i k0 : DInv d -> d_seqno d <= I ->
  absd I (do_compact d id ev) i k0 = absd I d i k0 \/
  exists ks h, i = id /\ ks_of d id = Some ks /\ rd I (k_tree ks) k0 = Some h /\
               absd I (do_compact d id ev) i k0 = value_of (Some (apply_filter (k_filter ks) h)).
Proof.
  intros H L. unfold do_compact. destruct (ks_of d id) as [ks|] eqn:K; [|left; reflexivity].
  destruct (v_tables (latest (k_tree ks))) eqn:TBL; [left; reflexivity|]. unfold draw_version. cbn [fst snd].
  unfold absd, absk, set_ks. cbn [d_kss upd]. destruct (kfind_some _ _ _ K) as [Iks Eid].
  rewrite kfind_set by (rewrite Eid; exact K). rewrite Eid.
  destruct (N.eqb_spec i id) as [E|NE]; [|left; reflexivity]. subst i. assert (K' : kfind (d_kss d) id = Some ks) by exact K; rewrite K'. cbn [with_tree k_tree].
  destruct (abs_compact_filter I (d_seqno d) (W_of d) (d_seqno d) ev (k_filter ks) (k_tree ks) k0 (H ks Iks) L) as [E|[h [R E]]];
    [left; exact E|right]. exists ks, h. auto.
Qed.

(* ---- worker steps ---- *)
Lemma absd_ext I d d' : d_kss d' = d_kss d -> meq (absd I d') (absd I d).
Proof. intros E i k0. unfold absd. rewrite E. reflexivity. Qed.

Lemma dseq_do_rotate d id : d_seqno (fst (do_rotate d id)) = d_seqno d.
Proof.
  unfold do_rotate. destruct (ks_of d id); [|reflexivity]. destruct (t_rotate _) as [t ok]. destruct ok; reflexivity.
Qed.

Theorem do_step_refines I d : DInv d -> d_seqno (fst (do_step d)) <= I -> meq (absd I (fst (do_step d))) (absd I d).
Proof.
  intros H. unfold do_step. destruct (d_queue d) as [|m q]; [intros _ i k0; reflexivity|].
  set (d0 := upd_queue d q (d_flushq d)). assert (H0 : DInv d0) by (apply upd_queue_dinv, H).
  destruct m as [id mid| |id].
  - destruct (ks_of d0 id) as [ks|]; [|intros _; apply absd_ext; reflexivity].
    destruct (_ =? _); [|intros _; apply absd_ext; reflexivity]. cbn [fst]. intros _ i k0.
    rewrite (do_rotate_refines I d0 id H0). reflexivity.
  - destruct (d_flushq d0) as [|id fq]; [intros _; apply absd_ext; reflexivity|].
    set (d1 := maybe_seal (upd_queue d0 (d_queue d0) fq)).
    assert (H1 : DInv d1) by (apply maybe_seal_dinv, upd_queue_dinv, H0).
    assert (E1 : d_kss d1 = d_kss d) by (unfold d1, maybe_seal; destruct (_ && _); reflexivity).
    assert (S1 : d_seqno d1 = d_seqno d) by (unfold d1, maybe_seal; destruct (_ && _); reflexivity).
    destruct (ks_of d1 id) as [ks|] eqn:K; [|intros _; apply absd_ext; exact E1]. cbn [fst].
    destruct (v_sealed (latest (k_tree ks))) eqn:SE.
    + intros _. apply absd_ext. cbn [d_kss journal_maintenance push_msg upd_queue]. exact E1.
    + unfold draw_version. cbn [fst snd]. cbn [d_seqno journal_maintenance push_msg upd_queue upd]. intros L i k0.
      unfold absd, absk, set_ks. cbn [d_kss journal_maintenance push_msg upd_queue upd].
      destruct (kfind_some _ _ _ K) as [Iks Eid]. rewrite kfind_set by (rewrite Eid; exact K). rewrite Eid, E1.
      destruct (N.eqb_spec i id) as [E|NE]; [|reflexivity]. subst i. unfold ks_of in K. rewrite E1 in K. fold (kfind (d_kss d) id) in K.
      rewrite K. cbn [with_tree k_tree]. unfold abs. rewrite (rd_flush I (d_seqno d1)); [reflexivity|apply H1, Iks|lia].
  - intros _. apply absd_ext. reflexivity.
Qed.

Lemma dseq_do_step d : d_seqno d <= d_seqno (fst (do_step d)).
Proof.
  unfold do_step. destruct (d_queue d) as [|m q]; [cbn [fst]; lia|]. destruct m as [id mid| |id]; cbn [fst].
  - destruct (ks_of _ id) as [ks|]; [|cbn; lia]. destruct (_ =? _); [|cbn; lia]. cbn [fst]. rewrite dseq_do_rotate. cbn. lia.
  - destruct (d_flushq _) as [|id fq]; [cbn; lia|].
    match goal with |- context [maybe_seal ?X] => set (dd := X) end.
    assert (S1 : d_seqno (maybe_seal dd) = d_seqno d) by (unfold maybe_seal; destruct (_ && _); reflexivity).
    destruct (ks_of (maybe_seal dd) id) as [ks|]; [|cbn [fst]; lia]. cbn [fst].
    destruct (v_sealed (latest (k_tree ks))); cbn [d_seqno journal_maintenance push_msg upd_queue upd draw_version fst snd]; lia.
  - cbn. lia.
Qed.

Theorem do_drain_refines I fuel : forall d n, DInv d -> d_seqno (fst (do_drain fuel d n)) <= I ->
  meq (absd I (fst (do_drain fuel d n))) (absd I d).
Proof.
  induction fuel as [|f IH]; intros d n H L; cbn [do_drain] in *; [intros i k0; reflexivity|].
  destruct (d_queue d) eqn:Q; [intros i k0; reflexivity|].
  assert (M : forall f' d' n', d_seqno d' <= d_seqno (fst (do_drain f' d' n'))).
  { clear. induction f' as [|f' IHf]; intros d' n'; cbn [do_drain]; [cbn; lia|]. destruct (d_queue d'); [cbn; lia|].
    etransitivity; [apply dseq_do_step|apply IHf]. }
  intros i k0. rewrite (IH _ _ (do_step_dinv d H) L).
  apply do_step_refines; [exact H|]. etransitivity; [apply M|exact L].
Qed.

(* ---- bulk ingestion ---- *)
Definition ient (g : N) (it : iitem) : ent := match it with IPut k v => mkEnt k g VValue v | ITomb k => mkEnt k g VTomb [] end.

Lemma find_ient g k items :
  match find (fun x => list_eqb (ek x) k) (map (ient g) items) with Some x => value_of (Some x) | None => None end
  = match find (fun it => list_eqb (iitem_key it) k) items with Some it => iitem_val it | None => None end /\
  (find (fun x => list_eqb (ek x) k) (map (ient g) items) = None <-> find (fun it => list_eqb (iitem_key it) k) items = None).
Proof.
  induction items as [|it r IH]; cbn [map find]; [split; [reflexivity|tauto]|].
  assert (E : ek (ient g it) = iitem_key it) by (destruct it; reflexivity). rewrite E.
  destruct (list_eqb (iitem_key it) k); [|exact IH]. split; [destruct it; reflexivity|split; discriminate].
Qed.

Theorem do_ingest_refines I d id items : DInv d -> d_seqno (fst (do_ingest d id items)) <= I ->
  meq (absd I (fst (do_ingest d id items))) (sstep d (WIngest id items) (absd I d)).
Proof.
  intros H. cbn [sstep]. unfold do_ingest, has_ks. destruct (ks_of d id) as [ks|] eqn:K; [|intros _ i k0; reflexivity].
  destruct items as [|it0 its]; [intros _; apply absd_ext; reflexivity|].
  destruct (t_rotate (k_tree ks)) as [t1 b] eqn:R.
  assert (E1 : t1 = fst (t_rotate (k_tree ks))) by (rewrite R; reflexivity).
  pose proof (H ks (ks_of_in _ _ _ K)) as TK. destruct (kfind_some _ _ _ K) as [Iks Eid].
  assert (EG : forall g e, In e (map (ient g) (it0 :: its)) -> es e = g).
  { intros g e Ie. rewrite in_map_iff in Ie. destruct Ie as [it [<- _]]. destruct it; reflexivity. }
  assert (FIN : forall g (t' : tree) i k0,
            (forall k, rd I t' k = match find (fun x => list_eqb (ek x) k) (map (ient g) (it0 :: its)) with Some x => Some x | None => rd I (k_tree ks) k end) ->
            match (if i =? id then Some (with_tree ks t') else kfind (d_kss d) i) with Some ks0 => abs I (k_tree ks0) k0 | None => None end
            = singest (absd I d) id (it0 :: its) i k0).
  { intros g t' i k0 RD. unfold singest. destruct (N.eqb_spec i id) as [E|NE]; [|reflexivity]. subst i. cbn [with_tree k_tree].
    unfold abs. rewrite RD. destruct (find_ient g k0 (it0 :: its)) as [F1 F2].
    destruct (find (fun x => list_eqb (ek x) k0) (map (ient g) (it0 :: its))) as [x|] eqn:F.
    - rewrite F1. destruct (find (fun it => list_eqb (iitem_key it) k0) (it0 :: its)); [reflexivity|]. exfalso.
      assert (Some x = None) by (apply F2; reflexivity). discriminate.
    - rewrite (proj1 F2 eq_refl). unfold absd, absk. assert (K' : kfind (d_kss d) id = Some ks) by exact K; rewrite K'. reflexivity. }
  destruct (v_sealed (latest t1)) as [|i0 ids] eqn:SE.
  - unfold draw_version. cbn [fst snd]. cbn [d_seqno push_msg upd_queue upd]. intros L i k0.
    unfold absd at 1. unfold absk, set_ks. cbn [d_kss push_msg upd_queue upd].
    rewrite kfind_set by (rewrite Eid; exact K). rewrite Eid.
    change (map _ (it0 :: its)) with (map (ient (d_seqno d)) (it0 :: its)).
    apply (FIN (d_seqno d)). intros k.
    assert (IT : t_register_ingest (d_seqno d) (map (ient (d_seqno d)) (it0 :: its)) t1
                 = ingest_tree (k_tree ks) 0 (d_seqno d) (map (ient (d_seqno d)) (it0 :: its)))
      by (unfold ingest_tree; rewrite <- E1, SE; reflexivity).
    rewrite IT. apply (rd_ingest_tree I (d_seqno d)); [exact TK|lia|lia|apply EG].
  - unfold draw_version. cbn [fst snd]. cbn [d_seqno push_msg upd_queue upd]. intros L i k0.
    unfold absd at 1. unfold absk, set_ks. cbn [d_kss push_msg upd_queue upd].
    rewrite kfind_set by (rewrite Eid; exact K). rewrite Eid.
    change (map _ (it0 :: its)) with (map (ient (d_seqno d + 1)) (it0 :: its)).
    apply (FIN (d_seqno d + 1)). intros k.
    assert (IT : t_register_ingest (d_seqno d + 1) (map (ient (d_seqno d + 1)) (it0 :: its)) (fst (t_flush 0 (d_seqno d) t1))
                 = ingest_tree (k_tree ks) (d_seqno d) (d_seqno d + 1) (map (ient (d_seqno d + 1)) (it0 :: its)))
      by (unfold ingest_tree; rewrite <- E1, SE; reflexivity).
    rewrite IT. apply (rd_ingest_tree I (d_seqno d)); [exact TK|lia|lia|apply EG].
Qed.

(* ---- the seqno counter never goes back ---- *)
Lemma dseq_do_drain f : forall d n, d_seqno d <= d_seqno (fst (do_drain f d n)).
Proof.
  induction f as [|f IH]; intros d n; cbn [do_drain]; [cbn; lia|]. destruct (d_queue d); [cbn; lia|].
  etransitivity; [apply dseq_do_step|apply IH].
Qed.

Lemma wstep_seq_mono d o : d_seqno d <= d_seqno (wstep d o).
Proof.
  destruct o; cbn [wstep].
  - unfold do_ks. destruct (blookup name (d_map d)); cbn; lia.
  - unfold write_one. destruct (ks_of d id) as [ks|]; [|cbn; lia]. destruct (k_deleted ks); [cbn; lia|].
    destruct (d_poisoned d); cbn; lia.
  - cbn. lia.
  - unfold do_clear. destruct (ks_of d id) as [ks|]; [|cbn; lia]. destruct (d_poisoned d); [cbn; lia|].
    unfold draw_version. cbn. lia.
  - rewrite dseq_do_rotate. lia.
  - apply dseq_do_step.
  - apply dseq_do_drain.
  - unfold do_compact. destruct (ks_of d id) as [ks|]; [|lia]. destruct (v_tables _); [lia|]. unfold draw_version. cbn. lia.
  - unfold do_ingest. destruct (ks_of d id) as [ks|]; [|cbn; lia]. destruct items; [cbn; lia|].
    destruct (t_rotate (k_tree ks)) as [t1 b]. destruct (v_sealed (latest t1)); unfold draw_version; cbn; lia.
Qed.

(* ---- no operation assigns or changes a compaction filter; without a filter table no keyspace ever has one ---- *)
Definition kpres (kss kss' : list kspace) : Prop := forall k', In k' kss' -> exists k, In k kss /\ k_filter k' = k_filter k.
Lemma kpres_refl kss : kpres kss kss.
Proof. intros k I. exists k. auto. Qed.
Lemma kpres_trans a b c : kpres a b -> kpres b c -> kpres a c.
Proof. intros H1 H2 k I. destruct (H2 k I) as [k1 [I1 E1]]. destruct (H1 k1 I1) as [k0 [I0 E0]]. exists k0. split; [exact I0|congruence]. Qed.
Lemma kpres_map f kss : (forall x, k_filter (f x) = k_filter x) -> kpres kss (map f kss).
Proof. intros H k I. rewrite in_map_iff in I. destruct I as [x [<- Ix]]. exists x. auto. Qed.
Lemma kpres_set d ks t' : In ks (d_kss d) -> kpres (d_kss d) (set_ks d (with_tree ks t')).
Proof.
  intros Iks k I. unfold set_ks in I. rewrite in_map_iff in I. destruct I as [x [E Ix]].
  destruct (k_id x =? _); subst k; [exists ks|exists x]; auto.
Qed.
Lemma kpres_apply_item s kss it : kpres kss (apply_item s kss it).
Proof. apply kpres_map. intros x. destruct (k_id x =? ri_ks it); reflexivity. Qed.
Lemma kpres_fold s mi : forall kss, kpres kss (fold_left (apply_item s) mi kss).
Proof. induction mi as [|it r IH]; intros kss; cbn [fold_left]; [apply kpres_refl|]. eapply kpres_trans; [apply kpres_apply_item|apply IH]. Qed.

Lemma kpres_do_rotate d id : kpres (d_kss d) (d_kss (fst (do_rotate d id))).
Proof.
  unfold do_rotate. destruct (ks_of d id) as [ks|] eqn:K; [|apply kpres_refl]. destruct (t_rotate (k_tree ks)) as [t ok].
  destruct ok; [|apply kpres_refl]. cbn [fst]. unfold after_rotate, journal_maintenance. cbn [d_kss upd upd_queue].
  eapply kpres_trans; [apply (kpres_set d ks t), (ks_of_in _ _ _ K)|]. apply kpres_map. intros x. destruct (existsb _ _); reflexivity.
Qed.

Lemma kpres_do_step d : kpres (d_kss d) (d_kss (fst (do_step d))).
Proof.
  unfold do_step. destruct (d_queue d) as [|m q]; [apply kpres_refl|]. destruct m as [id mid| |id]; cbn [fst].
  - destruct (ks_of _ id) as [ks|]; [|apply kpres_refl]. destruct (_ =? _); [|apply kpres_refl]. apply (kpres_do_rotate (upd_queue d q (d_flushq d))).
  - destruct (d_flushq _) as [|id fq]; [apply kpres_refl|].
    match goal with |- context [maybe_seal ?X] => set (dd := X) end.
    assert (E1 : d_kss (maybe_seal dd) = d_kss d) by (unfold maybe_seal; destruct (_ && _); reflexivity).
    destruct (ks_of (maybe_seal dd) id) as [ks|] eqn:K; [|cbn [fst]; rewrite E1; apply kpres_refl]. cbn [fst].
    destruct (v_sealed (latest (k_tree ks))); cbn [d_kss journal_maintenance push_msg upd_queue upd draw_version fst snd].
    + rewrite E1. apply kpres_refl.
    + rewrite <- E1. apply (kpres_set (upd (maybe_seal dd) _ _ (d_kss (maybe_seal dd))) ks). exact (ks_of_in _ _ _ K).
  - apply kpres_refl.
Qed.

Lemma kpres_do_drain f : forall d n, kpres (d_kss d) (d_kss (fst (do_drain f d n))).
Proof.
  induction f as [|f IH]; intros d n; cbn [do_drain]; [apply kpres_refl|]. destruct (d_queue d); [apply kpres_refl|].
  eapply kpres_trans; [apply kpres_do_step|apply IH].
Qed.

Definition NF (d : db) : Prop := d_filters d = [] /\ nofilter d.

Lemma nofilter_kpres d d' : nofilter d -> kpres (d_kss d) (d_kss d') -> nofilter d'.
Proof. intros H P k I. destruct (P k I) as [k0 [I0 E]]. rewrite E. apply H, I0. Qed.

Lemma filters_do_rotate d id : d_filters (fst (do_rotate d id)) = d_filters d.
Proof. unfold do_rotate. destruct (ks_of d id); [|reflexivity]. destruct (t_rotate _) as [t ok]. destruct ok; reflexivity. Qed.
Lemma filters_do_step d : d_filters (fst (do_step d)) = d_filters d.
Proof.
  unfold do_step. destruct (d_queue d) as [|m q]; [reflexivity|]. destruct m as [id mid| |id].
  - destruct (ks_of _ id) as [ks|]; [|reflexivity]. destruct (_ =? _); [|reflexivity]. cbn [fst]. rewrite filters_do_rotate. reflexivity.
  - destruct (d_flushq _) as [|id fq]; [reflexivity|].
    match goal with |- context [maybe_seal ?X] => set (dd := X) end.
    assert (E1 : d_filters (maybe_seal dd) = d_filters d) by (unfold maybe_seal; destruct (_ && _); reflexivity).
    destruct (ks_of (maybe_seal dd) id) as [ks|]; [|exact E1]. cbn [fst]. destruct (v_sealed (latest (k_tree ks))); exact E1.
  - reflexivity.
Qed.
Lemma filters_do_drain f : forall d n, d_filters (fst (do_drain f d n)) = d_filters d.
Proof.
  induction f as [|f IH]; intros d n; cbn [do_drain]; [reflexivity|]. destruct (d_queue d); [reflexivity|].
  rewrite IH. apply filters_do_step.
Qed.

Theorem wstep_nf d o : NF d -> NF (wstep d o).
Proof.
  intros [F H]. destruct o; cbn [wstep].
  - unfold do_ks. destruct (blookup name (d_map d)); cbn [fst]; [split; [exact F|exact H]|]. split; [exact F|].
    intros k I. cbn in I. destruct I as [<-|I]; [cbn [k_filter]; unfold filter_for; rewrite F; reflexivity|].
    apply filter_In in I. apply H, I.
  - unfold write_one. destruct (ks_of d id) as [ks|]; [|split; assumption]. destruct (k_deleted ks); [split; assumption|].
    destruct (d_poisoned d); [split; assumption|]. cbn [fst]. split; [exact F|]. eapply nofilter_kpres; [exact H|]. apply kpres_fold.
  - split; [exact F|]. eapply nofilter_kpres; [exact H|]. apply kpres_fold.
  - unfold do_clear. destruct (ks_of d id) as [ks|] eqn:K; [|split; assumption]. destruct (d_poisoned d); [split; assumption|].
    unfold draw_version. cbn [fst snd]. split; [exact F|]. eapply nofilter_kpres; [exact H|].
    cbn [d_kss upd]. apply (kpres_set (upd _ _ _ (d_kss d)) ks). exact (ks_of_in _ _ _ K).
  - split; [rewrite filters_do_rotate; exact F|]. eapply nofilter_kpres; [exact H|apply kpres_do_rotate].
  - split; [rewrite filters_do_step; exact F|]. eapply nofilter_kpres; [exact H|apply kpres_do_step].
  - split; [rewrite filters_do_drain; exact F|]. eapply nofilter_kpres; [exact H|apply kpres_do_drain].
  - unfold do_compact. destruct (ks_of d id) as [ks|] eqn:K; [|split; assumption]. destruct (v_tables _); [split; assumption|].
    unfold draw_version. cbn [fst snd]. split; [exact F|]. eapply nofilter_kpres; [exact H|].
    cbn [d_kss upd]. apply (kpres_set (upd _ _ _ (d_kss d)) ks). exact (ks_of_in _ _ _ K).
  - unfold do_ingest. destruct (ks_of d id) as [ks|] eqn:K; [|split; assumption]. destruct items; [split; [exact F|exact H]|].
    destruct (t_rotate (k_tree ks)) as [t1 b]. destruct (v_sealed (latest t1)); unfold draw_version; cbn [fst snd];
      (split; [exact F|]); (eapply nofilter_kpres; [exact H|]); cbn [d_kss push_msg upd_queue upd];
      apply (kpres_set (upd _ _ _ (d_kss d)) ks); exact (ks_of_in _ _ _ K).
Qed.

Lemma nf_init mode : NF (db_init mode []).
Proof. split; [reflexivity|intros k []]. Qed.

(* ======================= the refinement ======================= *)
(* one step: the values a latest read returns afterwards are those of the reference map after the reference step *)
Theorem wstep_refines I d o : DInv d -> nofilter d -> d_seqno (wstep d o) <= I ->
  meq (absd I (wstep d o)) (sstep d o (absd I d)).
Proof.
  intros H NFd L. pose proof (wstep_seq_mono d o) as M. destruct o; cbn [wstep] in *.
  - apply do_ks_refines.
  - apply write_one_refines; assumption.
  - apply commit_batch_refines; [exact H|cbn in L; lia].
  - apply do_clear_refines.
  - apply do_rotate_refines, H.
  - apply do_step_refines; assumption.
  - apply do_drain_refines; assumption.
  - apply do_compact_refines; [exact H|exact NFd|lia].
  - apply do_ingest_refines; assumption.
Qed.

Fixpoint srun (d : db) (ops : list wop) (m : smap) : smap :=
  match ops with
  | [] => m
  | o :: r => srun (wstep d o) r (sstep d o m)
  end.

Lemma srun_ext ops : forall d m1 m2, meq m1 m2 -> meq (srun d ops m1) (srun d ops m2).
Proof. induction ops as [|o r IH]; intros d m1 m2 H; cbn [srun]; [exact H|]. apply IH, sstep_ext, H. Qed.

Lemma run_seq_mono ops : forall d, d_seqno d <= d_seqno (fold_left wstep ops d).
Proof.
  induction ops as [|o r IH]; intros d; cbn [fold_left]; [lia|]. etransitivity; [apply wstep_seq_mono|apply IH].
Qed.

Lemma run_nf ops : forall d, NF d -> NF (fold_left wstep ops d).
Proof. induction ops as [|o r IH]; intros d H; cbn [fold_left]; [exact H|]. apply IH, wstep_nf, H. Qed.

(* every program: reads at any instant above the final seqno counter see exactly the reference maps *)
Theorem run_refines I ops : forall d, DInv d -> NF d -> d_seqno (fold_left wstep ops d) <= I ->
  meq (absd I (fold_left wstep ops d)) (srun d ops (absd I d)).
Proof.
  induction ops as [|o r IH]; intros d H N L; cbn [fold_left srun] in *; [intros i k; reflexivity|].
  intros i k. rewrite (IH (wstep d o)); [|apply (wrun_dinv [o]), H|apply wstep_nf, N|exact L].
  apply srun_ext. apply wstep_refines; [exact H|exact (proj2 N)|].
  etransitivity; [apply run_seq_mono|exact L].
Qed.

Definition sempty : smap := fun _ _ => None.

Theorem db_refines mode ops I id k :
  let d := fold_left wstep ops (db_init mode []) in
  d_seqno d <= I -> absd I d id k = srun (db_init mode []) ops sempty id k.
Proof.
  intros d L. unfold d. rewrite (run_refines I ops (db_init mode [])); [|apply dinv_init|apply nf_init|exact L].
  apply srun_ext. intros i k0. reflexivity.
Qed.

(* scans of the latest version show exactly the keys the reference map holds, in key order *)
Theorem scan_matches_reads I d ks k v : DInv d -> In ks (d_kss d) ->
  (In (k, v) (scan_ents (v_all (k_tree ks) (latest (k_tree ks))) I) <-> abs I (k_tree ks) k = Some v).
Proof.
  intros H Iks. rewrite scan_spec. unfold abs. rewrite rd_newest by (apply H, Iks). reflexivity.
Qed.

(* frame (C12): an operation addressed to one keyspace leaves the reads of every other keyspace as they are *)
Definition op_target (d : db) (o : wop) (i : N) : Prop :=
  match o with
  | WKs _ name => blookup name (d_map d) = None /\ i = d_next_id d
  | WWrite id _ _ _ _ | WClear id | WIngest id _ => i = id
  | WBatch _ mi => exists it, In it mi /\ ri_ks it = i
  | _ => False
  end.

Lemma fold_sitem_frame g mi i k : (forall it, In it mi -> ri_ks it <> i) -> forall m, fold_left (sitem g) mi m i k = m i k.
Proof.
  induction mi as [|it r IH]; intros NT m; cbn [fold_left]; [reflexivity|].
  rewrite IH by (intros it' I'; apply NT; now right). unfold sitem, supd. destruct (g (ri_ks it)); [|reflexivity].
  destruct (N.eqb_spec i (ri_ks it)) as [E|NE]; [exfalso; apply (NT it); [now left|congruence]|reflexivity].
Qed.

Theorem wstep_frame I d o i k : DInv d -> nofilter d -> d_seqno (wstep d o) <= I -> ~ op_target d o i ->
  absd I (wstep d o) i k = absd I d i k.
Proof.
  intros H NFd L NT. rewrite (wstep_refines I d o H NFd L). destruct o; cbn [sstep op_target] in *; try reflexivity.
  - destruct (blookup name (d_map d)) eqn:B; [reflexivity|]. unfold sclear. destruct (N.eqb_spec i (d_next_id d)); [exfalso; apply NT; auto|reflexivity].
  - destruct (is_ok _); [|reflexivity]. unfold supd. destruct (N.eqb_spec i id); [contradiction|reflexivity].
  - apply fold_sitem_frame. intros it Iit E. apply NT. exists it. auto.
  - destruct (is_ok _); [|reflexivity]. unfold sclear. destruct (N.eqb_spec i id); [contradiction|reflexivity].
  - destruct (has_ks d id); [|reflexivity]. destruct items; [reflexivity|]. unfold singest. destruct (N.eqb_spec i id); [contradiction|reflexivity].
Qed.

(* non-vacuity: the example program of DbOrderP.v, reads of keyspace 1 after it *)
Lemma refine_example :
  let d := fold_left wstep db_example (db_init MPlain []) in
  d_seqno d <= 100 /\ absd 100 d 1 [105] = Some [9] /\ srun (db_init MPlain []) db_example sempty 1 [105] = Some [9] /\
  srun (db_init MPlain []) db_example sempty 1 [107] = None.
Proof. vm_compute. repeat split; discriminate. Qed.

(* ---- compaction filters (C18): only the compacted keyspace, only as the verdict for the key says ---- *)
Theorem do_compact_verdict I d id ev ks k0 : DInv d -> d_seqno d <= I -> ks_of d id = Some ks ->
  let a := absd I d id k0 in
  let a' := absd I (do_compact d id ev) id k0 in
  match k_filter ks with
  | None => a' = a
  | Some r => match rule_verdict r k0 with
              | FKeep => a' = a
              | FRemove => a' = a \/ a' = None
              | FReplace v => a' = a \/ (a <> None /\ a' = Some v)
              end
  end.
Proof.
  intros H L K a a'. subst a a'.
  destruct (do_compact_filtered I d id ev id k0 H L) as [E|[ks' [h [_ [K' [R E]]]]]].
  - rewrite E. destruct (k_filter ks) as [r|]; [destruct (rule_verdict r k0)|]; auto.
  - rewrite K in K'. injection K' as <-. rewrite E.
    assert (A : absd I d id k0 = value_of (Some h)).
    { unfold absd, absk. assert (K2 : kfind (d_kss d) id = Some ks) by exact K. rewrite K2. unfold abs. rewrite R. reflexivity. }
    assert (EK : ek h = k0).
    { rewrite rd_newest in R by (apply H; exact (ks_of_in _ _ _ K)). apply newest_in in R. tauto. }
    rewrite A. unfold apply_filter. destruct (is_tomb h) eqn:Tm.
    + destruct (k_filter ks) as [r|]; [destruct (rule_verdict r k0)|]; auto.
    + destruct (k_filter ks) as [r|]; [|reflexivity]. rewrite EK. destruct (rule_verdict r k0) as [| |v]; [reflexivity| |].
      * right. reflexivity.
      * right. split; [cbn; rewrite Tm; discriminate|reflexivity].
Qed.

Theorem do_compact_others I d id ev i k0 : DInv d -> d_seqno d <= I -> i <> id ->
  absd I (do_compact d id ev) i k0 = absd I d i k0.
Proof.
  intros H L NE. destruct (do_compact_filtered I d id ev i k0 H L) as [E|[ks' [h [E _]]]]; [exact E|contradiction].
Qed.

(* ======================= the read path: version selection picks the latest version ======================= *)
(* t_get / t_scan (what Keyspace::get / iter do at an instant) first select a super-version: the newest one whose seqno is
   below the instant.  Version seqnos are drawn from the shared counter, so for an instant at or above the counter that is
   the latest version, and the reads are the ones the refinement is stated for. *)
Definition vb (n : N) (t : tree) : Prop := vers t <> [] /\ v_seq (latest t) <= n.
Definition VB (d : db) : Prop := forall ks, In ks (d_kss d) -> vb (d_seqno d) (k_tree ks).

Theorem reads_select_latest n I t k : vb n t -> n < I ->
  t_get t k I = Some (abs I t k) /\ t_scan t I = Some (scan_ents (v_all t (latest t)) I).
Proof.
  intros [NE L0] LI. assert (L : v_seq (latest t) < I) by lia. clear L0 LI. unfold t_get, t_scan, select_version, abs, rd.
  destruct (N.eqb_spec I 0) as [E|_]; [lia|].
  unfold latest in *. destruct (vers t) as [|v0 r]; [congruence|]. cbn [hd find] in *.
  destruct (N.ltb_spec (v_seq v0) I); [|lia]. split; reflexivity.
Qed.

Lemma vb_mono n m t : n <= m -> vb n t -> vb m t.
Proof. intros L [A B]. split; [exact A|lia]. Qed.
Lemma vb_init n : 0 < n -> vb n tree_init.
Proof. intros L. split; [discriminate|cbn; lia]. Qed.
Lemma vb_append n t e : vb n t -> vb n (t_append t e).
Proof. intros H. exact H. Qed.
Lemma vb_maint n W t : vb n t -> vb n (vh_maintenance W t).
Proof.
  intros [A B]. split; [|rewrite latest_maint by exact A; exact B].
  unfold vh_maintenance. destruct (W =? 0); [exact A|]. destruct (vers t) as [|v [|w r]] eqn:V; [congruence|rewrite V; discriminate|].
  destruct (existsb _ _); [|rewrite V; discriminate]. cbn [vers]. apply keep_from_first_nonempty. discriminate.
Qed.
Lemma vb_rotate n t : vb n t -> vb n (fst (t_rotate t)).
Proof.
  intros [A B]. unfold t_rotate. destruct (mem_of t (v_active (latest t))); [split; assumption|]. cbn [fst].
  unfold latest, with_latest in *. cbn [vers]. destruct (vers t) as [|v0 r]; [congruence|]. split; [discriminate|exact B].
Qed.
Lemma vb_flush n W s t : vb n t -> s < n -> vb n (fst (t_flush W s t)).
Proof.
  intros H L. unfold t_flush. destruct (v_sealed (latest t)); [exact H|]. destruct (gc_stream _ _ _ _); [exact H|]. cbn [fst].
  apply vb_maint. split; [discriminate|cbn; lia].
Qed.
Lemma vb_compact n W s ev f t : vb n t -> s < n -> vb n (t_compact W s ev f t).
Proof.
  intros H L. unfold t_compact. destruct (v_tables (latest t)); [exact H|]. apply vb_maint. split; [discriminate|cbn; lia].
Qed.
Lemma vb_clear n s t : s < n -> vb n (t_clear s t).
Proof. intros L. split; [discriminate|cbn; lia]. Qed.
Lemma vb_register n g ents t : g < n -> vb n (t_register_ingest g ents t).
Proof. intros L. split; [discriminate|cbn; lia]. Qed.

Lemma VB_set_ks d ks t' n' trk : In ks (d_kss d) -> vb n' t' -> d_seqno d <= n' -> VB d -> VB (upd d n' trk (set_ks d (with_tree ks t'))).
Proof.
  intros K T L H k0 I. cbn [d_kss d_seqno upd] in *. unfold set_ks in I. rewrite in_map_iff in I. destruct I as [k1 [E I1]].
  destruct (k_id k1 =? k_id (with_tree ks t')); subst k0; [exact T|]. eapply vb_mono; [exact L|apply H, I1].
Qed.
Lemma VB_ext d d' : d_kss d' = d_kss d -> d_seqno d <= d_seqno d' -> VB d -> VB d'.
Proof. intros E L H ks I. rewrite E in I. eapply vb_mono; [exact L|apply H, I]. Qed.

Lemma VB_apply_item s n kss it : (forall ks, In ks kss -> vb n (k_tree ks)) -> forall ks, In ks (apply_item s kss it) -> vb n (k_tree ks).
Proof.
  intros H ks I. unfold apply_item in I. rewrite in_map_iff in I. destruct I as [k0 [<- I0]].
  destruct (k_id k0 =? ri_ks it); [cbn [with_tree k_tree]; apply vb_append|]; apply H, I0.
Qed.
Lemma VB_fold s n mi : forall kss, (forall ks, In ks kss -> vb n (k_tree ks)) -> forall ks, In ks (fold_left (apply_item s) mi kss) -> vb n (k_tree ks).
Proof. induction mi as [|it r IH]; intros kss H; cbn [fold_left]; [exact H|]. apply IH, VB_apply_item, H. Qed.

Lemma VB_commit d ji mi : VB d -> VB (commit_batch d ji mi).
Proof.
  intros H ks I. unfold commit_batch in *. cbn [d_kss d_seqno upd upd_journal] in *.
  eapply VB_fold; [|exact I]. intros k0 I0. eapply vb_mono; [|apply H, I0]. lia.
Qed.

Lemma VB_do_rotate d id : VB d -> VB (fst (do_rotate d id)).
Proof.
  intros H. unfold do_rotate. destruct (ks_of d id) as [ks|] eqn:K; [|exact H].
  destruct (t_rotate (k_tree ks)) as [t ok] eqn:R. destruct ok; [|exact H]. cbn [fst].
  assert (Et : t = fst (t_rotate (k_tree ks))) by (rewrite R; reflexivity).
  unfold after_rotate, journal_maintenance. intros k0 I. cbn [d_kss d_seqno upd upd_queue] in *.
  rewrite in_map_iff in I. destruct I as [k1 [E I1]].
  assert (T1 : vb (d_seqno d) (k_tree k1)).
  { unfold set_ks in I1. rewrite in_map_iff in I1. destruct I1 as [k2 [E2 I2]].
    destruct (k_id k2 =? _); subst k1; [cbn [with_tree k_tree]; subst t; apply vb_rotate, H, (ks_of_in _ _ _ K)|apply H, I2]. }
  destruct (existsb _ _); subst k0; [cbn [with_tree k_tree]; apply vb_maint, T1|exact T1].
Qed.

Lemma VB_do_step d : VB d -> VB (fst (do_step d)).
Proof.
  intros H. unfold do_step. destruct (d_queue d) as [|m q]; [exact H|].
  set (d0 := upd_queue d q (d_flushq d)). assert (H0 : VB d0) by (apply (VB_ext d); [reflexivity|cbn; lia|exact H]).
  destruct m as [id mid| |id].
  - destruct (ks_of d0 id) as [ks|]; [|exact H0]. destruct (_ =? _); [|exact H0]. cbn [fst]. apply VB_do_rotate, H0.
  - destruct (d_flushq d0) as [|id fq]; [exact H0|].
    set (d1 := maybe_seal (upd_queue d0 (d_queue d0) fq)).
    assert (H1 : VB d1) by (apply (VB_ext d0); [unfold d1, maybe_seal; destruct (_ && _); reflexivity|unfold d1, maybe_seal; destruct (_ && _); cbn; lia|exact H0]).
    destruct (ks_of d1 id) as [ks|] eqn:K; [|exact H1]. cbn [fst].
    apply (VB_ext (if match v_sealed (latest (k_tree ks)) with [] => false | _ => true end
                   then let (d2, s) := draw_version d1 in upd d2 (d_seqno d2) (d_trk d2) (set_ks d2 (with_tree ks (fst (t_flush (W_of d1) s (k_tree ks)))))
                   else d1)); [reflexivity|cbn; lia|].
    destruct (v_sealed (latest (k_tree ks))); [exact H1|]. unfold draw_version. cbn [fst snd].
    set (d2 := upd d1 (d_seqno d1 + 1) (tr_set_visible (d_trk d1) (d_seqno d1 + 1)) (d_kss d1)).
    apply (VB_set_ks d2 ks); [exact (ks_of_in _ _ _ K)| |cbn; lia|apply (VB_ext d1); [reflexivity|cbn; lia|exact H1]].
    cbn [d_seqno upd d2]. apply vb_flush; [eapply vb_mono; [|apply H1, (ks_of_in _ _ _ K)]; lia|lia].
  - exact H0.
Qed.

Lemma VB_do_drain f : forall d n, VB d -> VB (fst (do_drain f d n)).
Proof. induction f as [|f IH]; intros d n H; cbn [do_drain]; [exact H|]. destruct (d_queue d); [exact H|]. apply IH, VB_do_step, H. Qed.

Theorem wstep_VB d o : VB d -> VB (wstep d o).
Proof.
  intros H. destruct o; cbn [wstep].
  - unfold do_ks. destruct (blookup name (d_map d)); cbn [fst]; [intros ks I; cbn in I; apply H, I|].
    intros ks I. cbn in I. destruct I as [<-|I]; [apply vb_init; cbn; lia|]. apply filter_In in I as [I _].
    eapply vb_mono; [|apply H, I]. cbn. lia.
  - unfold write_one. destruct (ks_of d id) as [ks|]; [|exact H]. destruct (k_deleted ks); [exact H|]. destruct (d_poisoned d); [exact H|].
    apply VB_commit, H.
  - apply VB_commit, H.
  - unfold do_clear. destruct (ks_of d id) as [ks|] eqn:K; [|exact H]. destruct (d_poisoned d); [exact H|].
    unfold draw_version. cbn [fst snd].
    match goal with |- VB (upd ?D ?N ?T (set_ks ?D (with_tree ks ?T'))) => apply (VB_set_ks D ks) end;
      [exact (ks_of_in _ _ _ K)|apply vb_clear; cbn; lia|cbn; lia|apply (VB_ext d); [reflexivity|cbn; lia|exact H]].
  - apply VB_do_rotate, H.
  - apply VB_do_step, H.
  - apply VB_do_drain, H.
  - unfold do_compact. destruct (ks_of d id) as [ks|] eqn:K; [|exact H]. destruct (v_tables _); [exact H|]. unfold draw_version. cbn [fst snd].
    match goal with |- VB (upd ?D ?N ?T (set_ks ?D (with_tree ks ?T'))) => apply (VB_set_ks D ks) end;
      [exact (ks_of_in _ _ _ K)| |cbn; lia|apply (VB_ext d); [reflexivity|cbn; lia|exact H]].
    cbn [d_seqno upd]. apply vb_compact; [eapply vb_mono; [|apply H, (ks_of_in _ _ _ K)]; lia|lia].
  - unfold do_ingest. destruct (ks_of d id) as [ks|] eqn:K; [|exact H].
    destruct items as [|it0 its]; [apply (VB_ext d); [reflexivity|cbn; lia|exact H]|].
    destruct (t_rotate (k_tree ks)) as [t1 b]. destruct (v_sealed (latest t1)); unfold draw_version; cbn [fst snd];
      (match goal with |- VB (push_msg ?X _) => apply (VB_ext X); [reflexivity|cbn; lia|] end);
      match goal with |- VB (upd ?D ?N ?T (set_ks ?D (with_tree ks ?T'))) => apply (VB_set_ks D ks) end;
      try exact (ks_of_in _ _ _ K); try (apply vb_register; cbn; lia); try (cbn; lia);
      (apply (VB_ext d); [reflexivity|cbn; lia|exact H]).
Qed.

Lemma run_VB ops : forall d, VB d -> VB (fold_left wstep ops d).
Proof. induction ops as [|o r IH]; intros d H; cbn [fold_left]; [exact H|]. apply IH, wstep_VB, H. Qed.
Lemma VB_init mode filters : VB (db_init mode filters).
Proof. intros ks []. Qed.

(* C01 in terms of the model's read functions: after every program, a point read and a scan of any keyspace at any instant
   at or above the seqno counter (Keyspace::get / iter use SeqNo::MAX) return the reference map's value / the sorted map *)
Theorem db_reads_refine mode ops I ks k :
  let d := fold_left wstep ops (db_init mode []) in
  In ks (d_kss d) -> d_seqno d < I -> kfind (d_kss d) (k_id ks) = Some ks ->
  t_get (k_tree ks) k I = Some (srun (db_init mode []) ops sempty (k_id ks) k) /\
  exists sc, t_scan (k_tree ks) I = Some sc /\
             Sorted.StronglySorted (fun a b => bytes_ltb (fst a) (fst b) = true) sc /\
             forall k' v, In (k', v) sc <-> srun (db_init mode []) ops sempty (k_id ks) k' = Some v.
Proof.
  intros d Iks L0 KF. assert (L : d_seqno d <= I) by lia.
  assert (V : vb (d_seqno d) (k_tree ks)) by (apply (run_VB ops _ (VB_init mode [])), Iks).
  assert (DI : DInv d) by (apply wrun_dinv, dinv_init).
  assert (AB : forall k', abs I (k_tree ks) k' = srun (db_init mode []) ops sempty (k_id ks) k').
  { intros k'. rewrite <- (db_refines mode ops I (k_id ks) k' L). unfold absd, absk. fold d. rewrite KF. reflexivity. }
  destruct (reads_select_latest (d_seqno d) I (k_tree ks) k V L0) as [G S]. split; [rewrite G, AB; reflexivity|].
  eexists. split; [exact S|]. split; [apply scan_sorted|]. intros k' v. rewrite <- AB. apply (scan_matches_reads I d ks k' v DI Iks).
Qed.

(* ======================= keyspace ids are unique ======================= *)
Definition UQ (d : db) : Prop := NoDup (map k_id (d_kss d)) /\ forall ks, In ks (d_kss d) -> k_id ks < d_next_id d.

Lemma kfind_nodup kss ks : NoDup (map k_id kss) -> In ks kss -> kfind kss (k_id ks) = Some ks.
Proof.
  unfold kfind. induction kss as [|a r IH]; intros ND I; [destruct I|]. cbn [map] in ND. inversion ND as [|? ? NI ND']; subst.
  cbn [find]. destruct I as [->|I]; [rewrite N.eqb_refl; reflexivity|].
  destruct (N.eqb_spec (k_id a) (k_id ks)) as [E|NE]; [exfalso; apply NI; rewrite E; apply in_map, I|apply IH; assumption].
Qed.

Definition idsame (kss kss' : list kspace) : Prop := map k_id kss' = map k_id kss.
Lemma idsame_refl kss : idsame kss kss.
Proof. reflexivity. Qed.
Lemma idsame_trans a b c : idsame a b -> idsame b c -> idsame a c.
Proof. unfold idsame. congruence. Qed.
Lemma idsame_map f kss : (forall x, k_id (f x) = k_id x) -> idsame kss (map f kss).
Proof. intros H. unfold idsame. rewrite map_map. apply map_ext. exact H. Qed.
Lemma idsame_set d ks t' : idsame (d_kss d) (set_ks d (with_tree ks t')).
Proof.
  unfold idsame, set_ks. rewrite map_map. apply map_ext_in. intros x _. cbn [with_tree k_id].
  destruct (N.eqb_spec (k_id x) (k_id ks)) as [E|NE]; [cbn; congruence|reflexivity].
Qed.
Lemma idsame_fold s mi : forall kss, idsame kss (fold_left (apply_item s) mi kss).
Proof.
  induction mi as [|it r IH]; intros kss; cbn [fold_left]; [apply idsame_refl|]. eapply idsame_trans; [|apply IH].
  apply idsame_map. intros x. destruct (k_id x =? ri_ks it); reflexivity.
Qed.

Lemma UQ_same d d' : idsame (d_kss d) (d_kss d') -> d_next_id d <= d_next_id d' -> UQ d -> UQ d'.
Proof.
  intros E L [A B]. split; [rewrite E; exact A|]. intros ks I.
  assert (In (k_id ks) (map k_id (d_kss d))) by (rewrite <- E; apply in_map, I).
  rewrite in_map_iff in H. destruct H as [k0 [E0 I0]]. rewrite <- E0. specialize (B k0 I0). lia.
Qed.

Lemma idsame_do_rotate d id : idsame (d_kss d) (d_kss (fst (do_rotate d id))) /\ d_next_id (fst (do_rotate d id)) = d_next_id d.
Proof.
  unfold do_rotate. destruct (ks_of d id) as [ks|]; [|split; reflexivity]. destruct (t_rotate (k_tree ks)) as [t ok].
  destruct ok; [|split; reflexivity]. cbn [fst]. split; [|reflexivity]. unfold after_rotate, journal_maintenance. cbn [d_kss upd upd_queue].
  eapply idsame_trans; [apply (idsame_set d ks t)|]. apply idsame_map. intros x. destruct (existsb _ _); reflexivity.
Qed.

Lemma idsame_do_step d : idsame (d_kss d) (d_kss (fst (do_step d))) /\ d_next_id (fst (do_step d)) = d_next_id d.
Proof.
  unfold do_step. destruct (d_queue d) as [|m q]; [split; reflexivity|]. destruct m as [id mid| |id].
  - destruct (ks_of _ id) as [ks|]; [|split; reflexivity]. destruct (_ =? _); [|split; reflexivity]. cbn [fst].
    apply (idsame_do_rotate (upd_queue d q (d_flushq d)) id).
  - destruct (d_flushq _) as [|id fq]; [split; reflexivity|].
    match goal with |- context [maybe_seal ?X] => set (dd := X) end.
    assert (E1 : d_kss (maybe_seal dd) = d_kss d) by (unfold maybe_seal; destruct (_ && _); reflexivity).
    assert (E2 : d_next_id (maybe_seal dd) = d_next_id d) by (unfold maybe_seal; destruct (_ && _); reflexivity).
    destruct (ks_of (maybe_seal dd) id) as [ks|]; [|cbn [fst]; unfold idsame; rewrite E1; split; [reflexivity|exact E2]]. cbn [fst].
    destruct (v_sealed (latest (k_tree ks))); cbn [d_kss d_next_id journal_maintenance push_msg upd_queue upd draw_version fst snd].
    + unfold idsame. rewrite E1. split; [reflexivity|exact E2].
    + split; [|exact E2]. rewrite <- E1. apply (idsame_set (upd (maybe_seal dd) _ _ (d_kss (maybe_seal dd))) ks).
  - split; reflexivity.
Qed.

Lemma idsame_do_drain f : forall d n, idsame (d_kss d) (d_kss (fst (do_drain f d n))) /\ d_next_id (fst (do_drain f d n)) = d_next_id d.
Proof.
  induction f as [|f IH]; intros d n; cbn [do_drain]; [split; reflexivity|]. destruct (d_queue d); [split; reflexivity|].
  destruct (idsame_do_step d) as [A B]. destruct (IH (fst (do_step d)) (n + 1)) as [A' B']. split; [eapply idsame_trans; eassumption|congruence].
Qed.

Theorem wstep_UQ d o : UQ d -> UQ (wstep d o).
Proof.
  intros H. destruct o; cbn [wstep].
  - unfold do_ks. destruct (blookup name (d_map d)); cbn [fst]; [apply (UQ_same d); [reflexivity|cbn; lia|exact H]|].
    destruct H as [A B]. unfold UQ. cbn [d_kss d_next_id upd_views upd_reg draw_version fst snd upd].
    assert (F : filter (fun k => negb (k_id k =? d_next_id d)) (d_kss d) = d_kss d).
    { clear A. induction (d_kss d) as [|a r IH]; [reflexivity|]. cbn [filter].
      assert (k_id a < d_next_id d) by (apply B; now left). destruct (N.eqb_spec (k_id a) (d_next_id d)); [lia|]. cbn [negb].
      f_equal. apply IH. intros ks I. apply B. now right. }
    rewrite F. split.
    + cbn [map k_id]. constructor; [|exact A]. intros I. rewrite in_map_iff in I. destruct I as [k0 [E I0]]. specialize (B k0 I0). lia.
    + intros ks [<-|I]; [cbn; lia|]. specialize (B ks I). lia.
  - unfold write_one. destruct (ks_of d id) as [ks|]; [|exact H]. destruct (k_deleted ks); [exact H|]. destruct (d_poisoned d); [exact H|].
    cbn [fst]. apply (UQ_same d); [apply idsame_fold|cbn; lia|exact H].
  - apply (UQ_same d); [apply idsame_fold|cbn; lia|exact H].
  - unfold do_clear. destruct (ks_of d id) as [ks|]; [|exact H]. destruct (d_poisoned d); [exact H|].
    unfold draw_version. cbn [fst snd]. apply (UQ_same d); [|cbn; lia|exact H]. cbn [d_kss upd]. apply (idsame_set (upd _ _ _ (d_kss d)) ks).
  - destruct (idsame_do_rotate d id) as [A B]. apply (UQ_same d); [exact A|lia|exact H].
  - destruct (idsame_do_step d) as [A B]. apply (UQ_same d); [exact A|lia|exact H].
  - destruct (idsame_do_drain fuel d 0) as [A B]. apply (UQ_same d); [exact A|lia|exact H].
  - unfold do_compact. destruct (ks_of d id) as [ks|]; [|exact H]. destruct (v_tables _); [exact H|]. unfold draw_version. cbn [fst snd].
    apply (UQ_same d); [|cbn; lia|exact H]. cbn [d_kss upd]. apply (idsame_set (upd _ _ _ (d_kss d)) ks).
  - unfold do_ingest. destruct (ks_of d id) as [ks|]; [|exact H]. destruct items; [apply (UQ_same d); [reflexivity|cbn; lia|exact H]|].
    destruct (t_rotate (k_tree ks)) as [t1 b]. destruct (v_sealed (latest t1)); unfold draw_version; cbn [fst snd];
      (apply (UQ_same d); [|cbn; lia|exact H]); cbn [d_kss push_msg upd_queue upd]; apply (idsame_set (upd _ _ _ (d_kss d)) ks).
Qed.

Lemma run_UQ ops : forall d, UQ d -> UQ (fold_left wstep ops d).
Proof. induction ops as [|o r IH]; intros d H; cbn [fold_left]; [exact H|]. apply IH, wstep_UQ, H. Qed.
Lemma UQ_init mode filters : UQ (db_init mode filters).
Proof. split; [constructor|intros ks []]. Qed.

(* the headline theorem without the side condition: every keyspace object of a reachable state is the registered one for its id *)
Theorem db_reads_refine_all mode ops I ks k :
  let d := fold_left wstep ops (db_init mode []) in
  In ks (d_kss d) -> d_seqno d < I ->
  t_get (k_tree ks) k I = Some (srun (db_init mode []) ops sempty (k_id ks) k) /\
  exists sc, t_scan (k_tree ks) I = Some sc /\
             Sorted.StronglySorted (fun a b => bytes_ltb (fst a) (fst b) = true) sc /\
             forall k' v, In (k', v) sc <-> srun (db_init mode []) ops sempty (k_id ks) k' = Some v.
Proof.
  intros d Iks L. apply db_reads_refine; [exact Iks|exact L|].
  apply kfind_nodup; [|exact Iks]. exact (proj1 (run_UQ ops _ (UQ_init mode []))).
Qed.
