(* RefineP.v — the ordered-map refinement (C01): what every operation of the tree model (Lsm.v) and of the database model
   (Db.v) does to the value a latest read returns for every key.  Writes update exactly their key, maintenance (rotation,
   flush, compaction without a filter, version-history maintenance, journal sealing and eviction) changes nothing, clear
   empties, ingestion overlays; a compaction filter changes a key only to the filtered form of its newest version (C18);
   operations on one keyspace leave every other keyspace as it is (C12).                                                     *)
From FJ Require Import Bytes Codec Reader Lsm Tracker Db BytesP LsmP TxP MapP FilterP OrderP DbOrderP SortP.
From Coq Require Import ZArith ZifyBool ZifyNat ZifyN Lia.

(* ---- the newest version over a concatenation ---- *)
Definition comb (a b : option ent) : option ent :=
  match a, b with
  | Some x, Some y => if es x <? es y then Some y else Some x
  | Some x, None => Some x
  | None, y => y
  end.

Lemma best_comb k I l : forall acc, best k I l acc = comb acc (best k I l None).
Proof.
  induction l as [|x r IH]; intros acc; cbn [best]; [destruct acc; reflexivity|].
  destruct (list_eqb (ek x) k && (es x <? I)); [|apply IH].
  destruct acc as [a|]; [|destruct (best k I r (Some x)); reflexivity].
  rewrite (IH (Some x)), (IH (Some a)).
  destruct (best k I r None) as [n|]; cbn [comb].
  - destruct (N.ltb_spec (es a) (es x)), (N.ltb_spec (es x) (es n)); cbn [comb];
      destruct (N.ltb_spec (es a) (es n)); try lia; try reflexivity;
      destruct (N.ltb_spec (es a) (es x)); try lia; reflexivity.
  - destruct (N.ltb_spec (es a) (es x)); reflexivity.
Qed.

Lemma newest_app k I a b : newest k I (a ++ b) = comb (newest k I a) (newest k I b).
Proof. unfold newest. rewrite best_app. apply best_comb. Qed.

Lemma newest_in k I l e : newest k I l = Some e -> In e l /\ ek e = k /\ es e < I.
Proof. intros H. destruct (best_none_in _ _ _ _ H) as [A [B C]]. apply list_eqb_eq in B. auto. Qed.

(* all entries carry the same seqno (an ingested table): the first one with the key wins *)
Lemma newest_same_seq k I g l : (forall x, In x l -> es x = g) -> g < I ->
  newest k I l = find (fun x => list_eqb (ek x) k) l.
Proof.
  intros H L. induction l as [|x r IH]; [reflexivity|]. unfold newest. cbn [best find].
  destruct (list_eqb (ek x) k) eqn:K; cbn [andb].
  - assert (es x = g) by (apply H; now left). destruct (N.ltb_spec (es x) I); [|lia].
    apply best_le_acc. intros y Iy _. rewrite (H y) by now right. lia.
  - apply IH. intros y Iy. apply H. now right.
Qed.

(* the write path's memtable insert, with several items of one batch sharing the seqno *)
Lemma newest_insert_le e l k I : (forall y, In y l -> es y <= es e) -> es e < I ->
  newest k I (mem_insert e l) = if list_eqb (ek e) k then Some e else newest k I l.
Proof.
  intros AB LT. unfold newest, mem_insert. cbn [best].
  destruct (list_eqb (ek e) k) eqn:K; cbn [andb].
  - destruct (N.ltb_spec (es e) I); [|lia]. apply best_le_acc.
    intros x Hx _. apply filter_In in Hx as [Hx _]. apply AB. exact Hx.
  - apply best_skip_other_key. exact K.
Qed.

(* ---- what a latest read returns ---- *)
Definition rd (I : N) (t : tree) (k : bytes) : option ent := v_get_ent t (latest t) k I.
Definition abs (I : N) (t : tree) (k : bytes) : option bytes := value_of (rd I t k).

Lemma rd_newest I t k : TInv t -> rd I t k = newest k I (v_all t (latest t)).
Proof. intros T. apply point_read_agrees_with_scan. apply ordered_recency. exact (ti_ord _ T). Qed.

Lemma v_all_srcs t : v_all t (latest t) = concat (srcs t).
Proof.
  unfold v_all, srcs. cbn [concat]. f_equal. rewrite concat_app. cbn [concat]. rewrite app_nil_r, flat_map_concat_map. reflexivity.
Qed.

Lemma below_all n t : below n t -> all_below n (v_all t (latest t)).
Proof. intros B e Ie. apply B. rewrite <- v_all_srcs. exact Ie. Qed.

Lemma all_below_mono n m l : n <= m -> all_below n l -> all_below m l.
Proof. intros L H e Ie. specialize (H e Ie). lia. Qed.

(* entries of the memtables are newer than entries of the tables *)
Lemma ord_tables_lt t a h : TInv t ->
  In a (mem_of t (v_active (latest t)) ++ flat_map (mem_of t) (v_sealed (latest t))) -> In h (v_tables (latest t)) -> es h < es a.
Proof.
  intros T Ia Ih. pose proof (ti_ord _ T) as O. unfold srcs in O. destruct O as [O1 O2].
  apply in_app_or in Ia. destruct Ia as [Ia|Ia].
  - apply O1; [exact Ia|]. rewrite concat_app. apply in_or_app. right. cbn. rewrite app_nil_r. exact Ih.
  - rewrite in_flat_map in Ia. destruct Ia as [id [Iid Ia]]. clear O1.
    induction (v_sealed (latest t)) as [|i r IH]; [destruct Iid|]. cbn [map app] in O2. destruct O2 as [P1 P2].
    destruct Iid as [->|Iid]; [|apply IH; assumption].
    apply P1; [exact Ia|]. rewrite concat_app. apply in_or_app. right. cbn. rewrite app_nil_r. exact Ih.
Qed.

(* ---- tree operations ---- *)
Lemma mem_of_append_same t e : TInv t ->
  mem_of (t_append t e) (v_active (latest t)) = mem_insert e (mem_of t (v_active (latest t))).
Proof.
  intros T. rewrite mem_of_mo. unfold t_append. cbn [mems]. unfold set_mem. rewrite mo_set_same.
  destruct (ti_act _ T) as [m ->]. reflexivity.
Qed.
Lemma mem_of_append_other t e id : id <> v_active (latest t) -> mem_of (t_append t e) id = mem_of t id.
Proof. intros NE. rewrite !mem_of_mo. unfold t_append. cbn [mems]. unfold set_mem. apply mo_set_other. exact NE. Qed.

Theorem rd_append I t e k : TInv t ->
  (forall y, In y (mem_of t (v_active (latest t))) -> es y <= es e) -> es e < I ->
  rd I (t_append t e) k = if list_eqb (ek e) k then Some e else rd I t k.
Proof.
  intros T LE LT. unfold rd, v_get_ent. assert (L : latest (t_append t e) = latest t) by reflexivity. rewrite L.
  rewrite mem_of_append_same by exact T. rewrite newest_insert_le by assumption.
  replace (map (fun id => newest k I (mem_of (t_append t e) id)) (v_sealed (latest t)))
    with (map (fun id => newest k I (mem_of t id)) (v_sealed (latest t))).
  2:{ apply map_ext_in. intros id Iid. rewrite mem_of_append_other; [reflexivity|]. intros ->. exact (ti_distinct _ T Iid). }
  destruct (list_eqb (ek e) k); reflexivity.
Qed.

Theorem rd_rotate I t k : TInv t -> rd I (fst (t_rotate t)) k = rd I t k.
Proof.
  intros T. pose proof (ti_ids _ T) as [NE IDS]. destruct (IDS _ (latest_in t NE)) as [La Ls].
  destruct (mem_of t (v_active (latest t))) as [|e0 l0] eqn:ME; [unfold t_rotate; rewrite ME; reflexivity|].
  destruct (rotate_shape t e0 l0 NE ME) as [SH [NEW FR]].
  unfold rd, v_get_ent. rewrite SH. cbn [v_active v_sealed v_tables map]. rewrite NEW, (FR _ La).
  replace (map (fun id => newest k I (mem_of (fst (t_rotate t)) id)) (v_sealed (latest t)))
    with (map (fun id => newest k I (mem_of t id)) (v_sealed (latest t)))
    by (apply map_ext_in; intros id Iid; rewrite (FR _ (Ls _ Iid)); reflexivity).
  reflexivity.
Qed.

Theorem rd_maint I W t k : vers t <> [] -> rd I (vh_maintenance W t) k = rd I t k.
Proof. intros NE. unfold rd, v_get_ent, mem_of. rewrite latest_maint by exact NE. rewrite mems_maint. reflexivity. Qed.

Lemma v_all_maint W t : vers t <> [] -> v_all (vh_maintenance W t) (latest (vh_maintenance W t)) = v_all t (latest t).
Proof. intros NE. unfold v_all, mem_of. rewrite latest_maint by exact NE. rewrite mems_maint. reflexivity. Qed.

Theorem rd_flush I n W s t k : TB n t -> n <= I -> rd I (fst (t_flush W s t)) k = rd I t k.
Proof.
  intros TBt L. pose proof (tb_flush n W s t TBt) as [T' _]. destruct TBt as [T B].
  rewrite (rd_newest I _ k T'), (rd_newest I t k T).
  pose proof (proj1 (ti_ids _ T)) as NE.
  unfold t_flush. destruct (v_sealed (latest t)) as [|i0 ids] eqn:SE; [reflexivity|].
  destruct (gc_stream W false None (flat_map (mem_of t) (i0 :: ids))) as [|o1 out] eqn:G; [reflexivity|]. cbn [fst].
  rewrite v_all_maint by (cbn; discriminate).
  match goal with |- newest k I (v_all ?X (latest ?X)) = _ => set (t' := X) end.
  unfold v_all. change (latest t') with (hd dummy_version (vers t')). change (mem_of t') with (mem_of t).
  subst t'. cbn [vers hd v_active v_sealed v_tables flat_map app]. rewrite SE.
  change (o1 :: out ++ v_tables (latest t)) with ((o1 :: out) ++ v_tables (latest t)).
  rewrite !newest_app. f_equal. f_equal. rewrite <- G. apply gc_stream_newest_flush.
  apply (all_below_mono n I); [exact L|]. intros e Ie. apply B. unfold srcs. rewrite SE. cbn [concat]. apply in_or_app. right.
  rewrite concat_app. apply in_or_app. left. rewrite <- flat_map_concat_map. exact Ie.
Qed.

(* compaction of the tables with filter f: either the read is untouched, or it came from the tables and is now the filtered
   form of that version (nothing at all when the filtered form is a tombstone evicted at the last level) *)
Theorem rd_compact I n W s ev f t k : TB n t -> n <= I ->
  rd I (t_compact W s ev f t) k = rd I t k \/
  exists h, rd I t k = Some h /\ In h (v_tables (latest t)) /\
            (rd I (t_compact W s ev f t) k = Some (apply_filter f h) \/
             (rd I (t_compact W s ev f t) k = None /\ is_tomb (apply_filter f h) = true /\ ev = true)).
Proof.
  intros TBt L. pose proof (tb_compact n W s ev f t TBt) as [T' _]. destruct TBt as [T B].
  rewrite (rd_newest I _ k T'), (rd_newest I t k T).
  pose proof (proj1 (ti_ids _ T)) as NE.
  unfold t_compact. destruct (v_tables (latest t)) as [|t0 tb] eqn:TBL; [left; reflexivity|].
  rewrite v_all_maint by (cbn; discriminate).
  match goal with |- newest k I (v_all ?X (latest ?X)) = _ \/ _ => set (t' := X) end.
  unfold v_all. change (latest t') with (hd dummy_version (vers t')). change (mem_of t') with (mem_of t).
  subst t'. cbn [vers hd v_active v_sealed v_tables]. rewrite TBL.
  set (A := mem_of t (v_active (latest t))). set (S := flat_map (mem_of t) (v_sealed (latest t))).
  rewrite !(app_assoc A S). rewrite !(newest_app k I (A ++ S)).
  assert (ABT : all_below I (t0 :: tb)).
  { apply (all_below_mono n I); [exact L|]. intros e Ie. apply B. unfold srcs. rewrite TBL. cbn [concat]. apply in_or_app. right.
    rewrite concat_app. apply in_or_app. right. cbn. rewrite app_nil_r. exact Ie. }
  pose proof (gc_stream_newest W ev f k I (t0 :: tb) ABT) as GS.
  destruct (newest k I (t0 :: tb)) as [h|] eqn:NT; [|rewrite GS; left; reflexivity].
  destruct (newest_in _ _ _ _ NT) as [Ih _]. rewrite <- TBL in Ih.
  destruct (newest k I (A ++ S)) as [a|] eqn:NA.
  - (* a memtable version exists: it is newer than anything in the tables *)
    left. destruct (newest_in _ _ _ _ NA) as [Ia _].
    pose proof (ord_tables_lt t a h T Ia Ih) as LT. destruct (apply_filter_slot f h) as [_ FS].
    destruct GS as [->|[-> _]]; cbn [comb]; [rewrite FS|]; destruct (N.ltb_spec (es a) (es h)); try lia; reflexivity.
  - right. exists h. cbn [comb]. split; [reflexivity|]. split; [rewrite <- TBL; exact Ih|]. destruct GS as [->|[-> R]]; [left; reflexivity|right; tauto].
Qed.

Corollary abs_compact_nofilter I n W s ev t k : TB n t -> n <= I -> abs I (t_compact W s ev None t) k = abs I t k.
Proof.
  intros TBt L. unfold abs. destruct (rd_compact I n W s ev None t k TBt L) as [->|[h [R [_ H]]]]; [reflexivity|].
  rewrite apply_filter_none in H. rewrite R. destruct H as [->|[-> [Tm _]]]; [reflexivity|]. cbn. rewrite Tm. reflexivity.
Qed.

(* with a filter: the value is untouched, or it is the filtered form of the version that was read before *)
Corollary abs_compact_filter I n W s ev f t k : TB n t -> n <= I ->
  abs I (t_compact W s ev f t) k = abs I t k \/
  exists h, rd I t k = Some h /\ abs I (t_compact W s ev f t) k = value_of (Some (apply_filter f h)).
Proof.
  intros TBt L. unfold abs. destruct (rd_compact I n W s ev f t k TBt L) as [->|[h [R [_ H]]]]; [left; reflexivity|].
  right. exists h. split; [exact R|]. destruct H as [->|[-> [Tm _]]]; [reflexivity|]. cbn. rewrite Tm. reflexivity.
Qed.

Theorem rd_clear I s t k : rd I (t_clear s t) k = None.
Proof.
  unfold rd, v_get_ent, t_clear, latest. cbn [vers hd v_active v_sealed v_tables map app].
  unfold mem_of. cbn [mems find m_id]. rewrite N.eqb_refl. reflexivity.
Qed.

Theorem rd_register I n g ents t k : TB n t -> n <= g -> g < I -> (forall e, In e ents -> es e = g) ->
  mem_of t (v_active (latest t)) = [] -> Forall (fun id => mem_of t id = []) (v_sealed (latest t)) ->
  rd I (t_register_ingest g ents t) k =
    match find (fun x => list_eqb (ek x) k) ents with Some x => Some x | None => rd I t k end.
Proof.
  intros TBt L LI EG A S. pose proof (tb_register n g ents t TBt L EG A S) as [T' _]. destruct TBt as [T B].
  rewrite (rd_newest I _ k T'), (rd_newest I t k T).
  unfold t_register_ingest.
  match goal with |- newest k I (v_all ?X (latest ?X)) = _ => set (t' := X) end.
  unfold v_all. change (latest t') with (hd dummy_version (vers t')). change (mem_of t') with (mem_of t).
  subst t'. cbn [vers hd v_active v_sealed v_tables]. rewrite A.
  assert (FM : flat_map (mem_of t) (v_sealed (latest t)) = []).
  { clear -S. induction S as [|id r E _ IH]; [reflexivity|]. cbn [flat_map]. rewrite E, IH. reflexivity. }
  rewrite FM. cbn [app]. rewrite newest_app. rewrite (newest_same_seq k I g ents EG LI).
  destruct (find (fun x => list_eqb (ek x) k) ents) as [x|] eqn:F; [|reflexivity].
  apply find_some in F. destruct F as [Ix _].
  destruct (newest k I (v_tables (latest t))) as [h|] eqn:NT; [|reflexivity]. cbn [comb].
  destruct (newest_in _ _ _ _ NT) as [Ih _].
  assert (es h < n). { apply B. unfold srcs. cbn [concat]. apply in_or_app. right. rewrite concat_app. apply in_or_app. right. cbn. rewrite app_nil_r. exact Ih. }
  rewrite (EG x Ix). destruct (N.ltb_spec g (es h)); [lia|reflexivity].
Qed.

(* the tree part of bulk ingestion: rotate, flush what is in memory, register the ingested table *)
Theorem rd_ingest_tree I n t s g ents k : TB n t -> n <= g -> g < I -> (forall e, In e ents -> es e = g) ->
  rd I (ingest_tree t s g ents) k =
    match find (fun x => list_eqb (ek x) k) ents with Some x => Some x | None => rd I t k end.
Proof.
  intros T L LI EG. unfold ingest_tree.
  set (t1 := fst (t_rotate t)).
  assert (T1 : TB n t1) by (apply tb_rotate, T).
  assert (A1 : mem_of t1 (v_active (latest t1)) = []) by (apply rotate_active_empty, T).
  assert (R1 : rd I t1 k = rd I t k) by (apply rd_rotate, T).
  assert (NI : n <= I) by lia.
  destruct (v_sealed (latest t1)) as [|i0 ids] eqn:SE.
  - rewrite (rd_register I n); auto; [rewrite R1; reflexivity|rewrite SE; constructor].
  - destruct (flat_map (mem_of t1) (i0 :: ids)) as [|x xs] eqn:FM.
    + assert (E : fst (t_flush 0 s t1) = t1).
      { unfold t_flush. rewrite SE, FM. assert (G : gc_stream 0 false None [] = []) by reflexivity. rewrite G. reflexivity. }
      rewrite E. rewrite (rd_register I n); auto; [rewrite R1; reflexivity|rewrite SE; apply flat_map_nil; exact FM].
    + destruct (flush_shape s t1 i0 ids (proj1 (ti_ids _ (proj1 T1))) SE) as [S0 [A0 M0]]; [rewrite FM; discriminate|].
      rewrite (rd_register I n); auto.
      * rewrite (rd_flush I n 0 s t1 k T1 NI), R1. reflexivity.
      * apply tb_flush, T1.
      * rewrite M0, A0. exact A1.
      * rewrite S0. constructor.
Qed.
