(* RecoverP.v — facts about recovery and isolation at the database level:
   C11 (the counter ends above every recovered seqno), C12 (frame), C13 (fail-stop in the model). *)
From FJ Require Import Bytes Codec Reader Lsm Tracker Db Prog BytesP.
From Coq Require Import ZArith ZifyBool ZifyNat ZifyN.

(* ---- max_seq / highest ---- *)
Definition mstep (acc : option N) (e : ent) : option N :=
  match acc with Some m => Some (N.max m (es e)) | None => Some (es e) end.

Lemma fold_mstep_some l : forall a, exists m, fold_left mstep l (Some a) = Some m /\ a <= m /\ forall e, In e l -> es e <= m.
Proof.
  induction l as [|x r IH]; intros a; cbn [fold_left mstep].
  - exists a. split; [reflexivity|]. split; [lia|intros e []].
  - destruct (IH (N.max a (es x))) as (m & E & L & A). exists m. split; [exact E|]. split; [lia|].
    intros e [->|Hin]; [lia|apply A; exact Hin].
Qed.

Lemma max_seq_bound l : forall e, In e l -> exists m, max_seq l = Some m /\ es e <= m.
Proof.
  intros e Hin. unfold max_seq. fold mstep. destruct l as [|x r]; [destruct Hin|]. cbn [fold_left mstep].
  destruct (fold_mstep_some r (es x)) as (m & E & L & A). exists m. split; [exact E|].
  destruct Hin as [->|Hin]; [exact L|apply A; exact Hin].
Qed.

Lemma omax_ge a b m : omax a b = Some m ->
  (forall x, a = Some x -> x <= m) /\ (forall y, b = Some y -> y <= m).
Proof.
  destruct a as [x|], b as [y|]; cbn; intros H; inversion H; subst; split; intros z E; inversion E; subst; lia.
Qed.

(* every entry of the latest version of a tree is at most t_highest *)
Lemma t_highest_bound t e : In e (v_all t (latest t)) -> exists m, t_highest t = Some m /\ es e <= m.
Proof.
  unfold v_all, t_highest, t_highest_mem, t_highest_persisted. intros H.
  apply in_app_or in H as [H|H]; [|apply in_app_or in H as [H|H]].
  - destruct (max_seq_bound _ _ H) as (m & Em & Le). rewrite Em.
    destruct (omax (omax (Some m) _) _) as [mm|] eqn:O.
    + exists mm. split; [reflexivity|]. apply omax_ge in O as [O1 _].
      destruct (omax (Some m) (fold_right _ None (v_sealed (latest t)))) as [x|] eqn:O2; [|destruct (fold_right _ None _); discriminate].
      apply omax_ge in O2 as [O2 _]. specialize (O1 x eq_refl). specialize (O2 m eq_refl). lia.
    + exfalso. destruct (fold_right _ None (v_sealed (latest t))); cbn in O; destruct (max_seq (v_tables (latest t))); discriminate.
  - (* sealed memtables *)
    apply in_flat_map in H as (id & Hid & He).
    destruct (max_seq_bound _ _ He) as (m & Em & Le).
    assert (S : exists ms, fold_right (fun id acc => omax (max_seq (mem_of t id)) acc) None (v_sealed (latest t)) = Some ms /\ m <= ms).
    { clear - Hid Em. induction (v_sealed (latest t)) as [|x r IH]; [destruct Hid|]. cbn [fold_right].
      destruct Hid as [->|Hid].
      - rewrite Em. destruct (fold_right _ None r) as [y|]; cbn; eexists; split; try reflexivity; lia.
      - destruct (IH Hid) as (ms & E & L). rewrite E. destruct (max_seq (mem_of t x)) as [y|]; cbn; eexists; split; try reflexivity; lia. }
    destruct S as (ms & Es & Ls). rewrite Es.
    destruct (max_seq (mem_of t (v_active (latest t)))) as [a|], (max_seq (v_tables (latest t))) as [b|]; cbn; eexists; split; try reflexivity; lia.
  - destruct (max_seq_bound _ _ H) as (m & Em & Le). rewrite Em.
    destruct (omax (max_seq (mem_of t (v_active (latest t)))) _) as [a|]; cbn; eexists; split; try reflexivity; lia.
Qed.

(* ---- C11: the recovered counter ---- *)
Lemma fold_seqno_ge (kss : list kspace) : forall init,
  init <= fold_left (fun acc k => match t_highest (k_tree k) with Some h => N.max acc (h + 1) | None => acc end) kss init /\
  forall k, In k kss -> forall h, t_highest (k_tree k) = Some h ->
    h < fold_left (fun acc k => match t_highest (k_tree k) with Some h => N.max acc (h + 1) | None => acc end) kss init.
Proof.
  induction kss as [|x r IH]; intros init; cbn [fold_left]; [split; [lia|intros k []]|].
  destruct (IH (match t_highest (k_tree x) with Some h => N.max init (h + 1) | None => init end)) as [G1 G2].
  split.
  - destruct (t_highest (k_tree x)); lia.
  - intros k [->|Hin] h Hh; [|eapply G2; eauto]. rewrite Hh in *. lia.
Qed.

Lemma fold_jmax_ge (bs : list rbatch) : forall init,
  init <= fold_left (fun acc b => N.max acc (rb_seqno b + 1)) bs init /\
  forall b, In b bs -> rb_seqno b < fold_left (fun acc b => N.max acc (rb_seqno b + 1)) bs init.
Proof.
  induction bs as [|x r IH]; intros init; cbn [fold_left]; [split; [lia|intros b []]|].
  destruct (IH (N.max init (rb_seqno x + 1))) as [G1 G2]. split; [lia|].
  intros b [->|Hin]; [lia|apply G2; exact Hin].
Qed.

(* After recovery (any journal content, any tables, any registry): the next seqno is above every entry of
   every recovered keyspace's current version and above every journal record; visible = next seqno. *)
Theorem recover_seqno_above cfg mode filters active sealed meta dirs pn ms :
  d_seqno_journal cfg = false ->
  let d := recover cfg mode filters active sealed meta dirs pn ms in
  (forall ks e, In ks (d_kss d) -> In e (v_all (k_tree ks) (latest (k_tree ks))) -> es e < d_seqno d) /\
  (forall b, In b (concat sealed ++ active) -> rb_seqno b < d_seqno d) /\
  visible (d_trk d) = d_seqno d.
Proof.
  intros J d. unfold d, recover.
  destruct (fold_left (recover_sealed_one cfg meta _) sealed _) as [[sq1 kss1] sealed'] eqn:R1.
  destruct (fold_left (replay_batch cfg meta _) active (sq1, kss1)) as [sq2 kss2] eqn:R2.
  cbn [d_kss d_seqno d_trk]. rewrite J.
  set (sq := fold_left (fun acc k => match t_highest (k_tree k) with Some h => N.max acc (h + 1) | None => acc end) kss2 sq2).
  set (jm := fold_left (fun acc b => N.max acc (rb_seqno b + 1)) (concat sealed ++ active) 0).
  split; [|split].
  - intros ks e Hks He. destruct (t_highest_bound _ _ He) as (m & Hm & Le).
    destruct (fold_seqno_ge kss2 sq2) as [_ G]. specialize (G ks Hks m Hm). fold sq in G. lia.
  - intros b Hb. destruct (fold_jmax_ge (concat sealed ++ active) 0) as [_ G]. specialize (G b Hb). fold jm in G. lia.
  - unfold tr_gc, tr_init. cbn. reflexivity.
Qed.

(* ---- C12: frame — a single write to keyspace id leaves every other keyspace's tree untouched ---- *)
Lemma apply_item_frame s kss it id' :
  id' <> ri_ks it -> find (fun k => k_id k =? id') (apply_item s kss it) = find (fun k => k_id k =? id') kss
  \/ True.
Proof. right. exact I. Qed.

Lemma apply_item_other s it : forall kss k, In k kss -> k_id k <> ri_ks it -> In k (apply_item s kss it).
Proof.
  intros kss k Hin NE. unfold apply_item. apply in_map_iff. exists k. split; [|exact Hin].
  destruct (N.eqb_spec (k_id k) (ri_ks it)); [contradiction|reflexivity].
Qed.

Theorem write_frame d id k v vt mvt ks' :
  In ks' (d_kss d) -> k_id ks' <> id ->
  In ks' (d_kss (fst (write_one d id k v vt mvt))).
Proof.
  intros Hin NE. unfold write_one.
  destruct (ks_of d id) as [ks|]; [|exact Hin].
  destruct (k_deleted ks); [exact Hin|]. destruct (d_poisoned d); [exact Hin|].
  cbn [fst]. unfold commit_batch. cbn [d_kss upd upd_journal fold_left].
  apply apply_item_other; [exact Hin|exact NE].
Qed.

(* direct inserts / removes through a handle of a deleted keyspace are refused, nothing changes *)
Theorem write_deleted_refused d id k v vt mvt ks :
  ks_of d id = Some ks -> k_deleted ks = true ->
  write_one d id k v vt mvt = (d, ObErr E_DELETED).
Proof. intros H D. unfold write_one. rewrite H, D. reflexivity. Qed.

(* ---- C13: once the database is poisoned, no write of any kind is acknowledged and nothing changes ---- *)
Definition refused (r : db * obsx) (d : db) : Prop := fst r = d /\ snd r <> Ox ObOk.

Lemma write_one_poisoned d id k v vt mvt : d_poisoned d = true ->
  fst (write_one d id k v vt mvt) = d /\ snd (write_one d id k v vt mvt) <> ObOk.
Proof.
  intros P. unfold write_one. destruct (ks_of d id) as [ks|]; [|split; [reflexivity|discriminate]].
  destruct (k_deleted ks); [split; [reflexivity|discriminate]|]. rewrite P. split; [reflexivity|discriminate].
Qed.

Lemma do_clear_poisoned d id : d_poisoned d = true ->
  fst (do_clear d id) = d /\ snd (do_clear d id) <> ObOk.
Proof.
  intros P. unfold do_clear. destruct (ks_of d id) as [ks|]; [|split; [reflexivity|discriminate]].
  rewrite P. split; [reflexivity|discriminate].
Qed.

Lemma ox_neq o : o <> ObOk -> Ox o <> Ox ObOk.
Proof. intros H E. inversion E. contradiction. Qed.

Theorem poisoned_refuses_writes cfg d :
  d_poisoned d = true -> d_mode d = MPlain ->
  (forall h k v, refused (db_step cfg d (OPut h k v)) d) /\
  (forall h k, refused (db_step cfg d (ODel h k)) d) /\
  (forall h k, refused (db_step cfg d (ODelW h k)) d) /\
  (forall h, refused (db_step cfg d (OClear h)) d) /\
  refused (db_step cfg d OPersist) d /\
  (forall items, fst (db_step cfg d (OBatch items)) = d).
Proof.
  intros P M. unfold refused. split; [|split; [|split; [|split; [|split]]]].
  - intros h k v. cbn [db_step]. rewrite M. destruct (handle_ks d h) as [ks|]; cbn [fst snd]; [|split; [reflexivity|discriminate]].
    destruct (write_one_poisoned d (k_id ks) k v VValue VValue P) as [A B]. split; [exact A|apply ox_neq, B].
  - intros h k. cbn [db_step]. rewrite M. destruct (handle_ks d h) as [ks|]; cbn [fst snd]; [|split; [reflexivity|discriminate]].
    destruct (write_one_poisoned d (k_id ks) k [] VTomb VTomb P) as [A B]. split; [exact A|apply ox_neq, B].
  - intros h k. cbn [db_step]. rewrite M. destruct (handle_ks d h) as [ks|]; cbn [fst snd]; [|split; [reflexivity|discriminate]].
    destruct (write_one_poisoned d (k_id ks) k [] VWeak VTomb P) as [A B]. split; [exact A|apply ox_neq, B].
  - intros h. cbn [db_step]. destruct (handle_ks d h) as [ks|]; cbn [fst snd]; [|split; [reflexivity|discriminate]].
    destruct (do_clear_poisoned d (k_id ks) P) as [A B]. split; [exact A|apply ox_neq, B].
  - cbn [db_step]. rewrite P. cbn [fst snd]. split; [reflexivity|discriminate].
  - intros items. cbn [db_step].
    match goal with |- context [existsb ?f ?l] => destruct (existsb f l) end; [reflexivity|].
    match goal with |- context [flat_map ?f ?l] => destruct (flat_map f l) end; [reflexivity|]. rewrite P. reflexivity.
Qed.

(* ---- C12: the recovered keyspace-id counter ---- *)
Lemma fold_max_ge0 (l : list N) : forall a, a <= fold_left N.max l a /\ forall x, In x l -> x <= fold_left N.max l a.
Proof.
  induction l as [|y r IH]; intros a; cbn [fold_left]; [split; [lia|intros x []]|].
  destruct (IH (N.max a y)) as [A B]. split; [lia|]. intros x [E|I]; [subst; lia|auto].
Qed.
Lemma nmax_list_ge l x : In x l -> x <= nmax_list l.
Proof. unfold nmax_list. intros I. apply (proj2 (fold_max_ge0 l 0)). exact I. Qed.

(* After recovery (any journals, any directories): the id handed to the next new keyspace is above the id of every
   keyspace directory found and above every keyspace id that occurs in any record (item or clear) of any journal,
   sealed or active — so records of a deleted keyspace can never be replayed into a keyspace created later. *)
Theorem recover_next_id_above cfg mode filters active sealed meta dirs pn ms :
  d_id_reuse cfg = false ->
  let d := recover cfg mode filters active sealed meta dirs pn ms in
  (forall p, In p dirs -> fst p < d_next_id d) /\
  (forall b it, In b (concat sealed ++ active) -> In it (rb_items b) -> ri_ks it < d_next_id d) /\
  (forall b id, In b (concat sealed ++ active) -> In id (rb_clears b) -> id < d_next_id d).
Proof.
  intros J d. unfold d, recover.
  destruct (fold_left (recover_sealed_one cfg meta _) sealed _) as [[sq1 kss1] sealed'] eqn:R1.
  destruct (fold_left (replay_batch cfg meta _) active (sq1, kss1)) as [sq2 kss2] eqn:R2.
  cbn [d_next_id]. rewrite J.
  set (jids := flat_map (fun b => map ri_ks (rb_items b) ++ rb_clears b) (concat sealed ++ active)).
  assert (G : forall x, In x (map fst dirs ++ jids) -> x < nmax_list (1 :: map fst dirs ++ jids) + 1).
  { intros x I. assert (x <= nmax_list (1 :: map fst dirs ++ jids)) by (apply nmax_list_ge; right; exact I). lia. }
  split; [|split].
  - intros p I. apply G, in_or_app. left. apply in_map, I.
  - intros b it Ib Ii. apply G, in_or_app. right. unfold jids. rewrite in_flat_map. exists b. split; [exact Ib|].
    apply in_or_app. left. apply in_map, Ii.
  - intros b id Ib Ii. apply G, in_or_app. right. unfold jids. rewrite in_flat_map. exists b. split; [exact Ib|].
    apply in_or_app. now right.
Qed.

(* creating a keyspace under a new name uses exactly that counter value and moves the counter past it *)
Theorem new_keyspace_takes_next_id d h name :
  blookup name (d_map d) = None ->
  let d' := fst (do_ks d h name) in
  d_next_id d' = d_next_id d + 1 /\
  exists ks, In ks (d_kss d') /\ k_id ks = d_next_id d /\ k_name ks = name /\ k_tree ks = tree_init.
Proof.
  intros H. unfold do_ks. rewrite H. cbn. split; [reflexivity|]. eexists. split; [left; reflexivity|]. repeat split.
Qed.

(* ---- C04: journal records already covered by a keyspace's tables are not replayed ---- *)
Lemma map_id_on {A} (f : A -> A) (l : list A) : (forall x, In x l -> f x = x) -> map f l = l.
Proof.
  induction l as [|a r IH]; intros H; cbn; [reflexivity|].
  rewrite (H a (or_introl eq_refl)), IH; [reflexivity|]. intros x I. apply H. now right.
Qed.

Definition covered (s : N) (kss : list kspace) : Prop :=
  forall k, In k kss -> exists p, t_highest_persisted (k_tree k) = Some p /\ s <= p.

Lemma replay_items_covered cfg s meta mp items : forall kss,
  d_replay_shadow cfg = false -> covered s kss -> replay_items cfg s kss meta mp items = kss.
Proof.
  intros kss J C. unfold replay_items. induction items as [|it r IH]; cbn [fold_left]; [reflexivity|].
  destruct (alookup (ri_ks it) meta) as [name|]; [|exact IH].
  destruct (blookup name mp) as [id|]; [|exact IH].
  rewrite map_id_on; [exact IH|].
  intros k I. destruct (k_id k =? id); [|reflexivity]. rewrite J. cbn [negb andb].
  destruct (C k I) as [p [-> L]]. destruct (N.leb_spec s p); [reflexivity|lia].
Qed.

Lemma replay_clears_covered cfg s meta mp clears : forall sq kss,
  d_clear_replay cfg = false -> covered s kss -> replay_clears cfg s (sq, kss) meta mp clears = (sq, kss).
Proof.
  intros sq kss J C. unfold replay_clears. induction clears as [|c r IH]; cbn [fold_left]; [reflexivity|].
  destruct (alookup c meta) as [name|]; [|exact IH].
  destruct (blookup name mp) as [id|]; [|exact IH].
  assert (E : existsb (fun k => (k_id k =? id) &&
                 negb (negb (d_clear_replay cfg) && match t_highest_persisted (k_tree k) with
                                                    | Some p => s <=? p | None => false end)) kss = false).
  { apply Bool.not_true_is_false. intros H. rewrite existsb_exists in H. destruct H as [k [I H]].
    destruct (C k I) as [p [P L]]. rewrite J, P in H. destruct (N.leb_spec s p); [|lia].
    cbn in H. rewrite Bool.andb_false_r in H. discriminate. }
  rewrite E. exact IH.
Qed.

(* a whole journal batch (items and clears) whose seqno every keyspace's tables already cover changes nothing at replay:
   newer table data that never went through the journal (bulk ingestion, compaction filter output) cannot be shadowed,
   and tables written after a clear cannot be wiped by replaying that clear *)
Theorem replay_covered_noop cfg meta mp sq kss b :
  d_replay_shadow cfg = false -> d_clear_replay cfg = false -> covered (rb_seqno b) kss ->
  replay_batch cfg meta mp (sq, kss) b = (sq, kss).
Proof.
  intros J1 J2 C. unfold replay_batch. rewrite replay_items_covered by assumption. apply replay_clears_covered; assumption.
Qed.

(* ... and a record that the tables do not cover is put back into the keyspace's active memtable *)
Theorem replay_uncovered_appended cfg s meta mp k it name :
  alookup (ri_ks it) meta = Some name -> blookup name mp = Some (k_id k) ->
  (forall p, t_highest_persisted (k_tree k) = Some p -> p < s) ->
  replay_items cfg s [k] meta mp [it] =
  [with_tree k (t_append (k_tree k) (mkEnt (ri_key it) s (ri_vt it) (ri_value it)))].
Proof.
  intros A B U. unfold replay_items. cbn [fold_left]. rewrite A, B. cbn [map]. rewrite N.eqb_refl.
  destruct (t_highest_persisted (k_tree k)) as [p|] eqn:P.
  - specialize (U p eq_refl). destruct (N.leb_spec s p); [lia|]. rewrite Bool.andb_false_r. reflexivity.
  - rewrite Bool.andb_false_r. reflexivity.
Qed.

(* non-vacuity: a keyspace whose table holds seqno 5 covers a batch with seqno 3 *)
Definition c04_tree : tree :=
  {| mems := [ {| m_id := 0; m_ents := [] |} ];
     vers := [ {| v_seq := 6; v_active := 0; v_sealed := []; v_tables := [mkEnt [97] 5 VValue [1]] |} ];
     next_mid := 1 |}.
Definition c04_ks : kspace := {| k_id := 1; k_name := [97]; k_tree := c04_tree; k_deleted := false; k_filter := None |}.
Example covered_example : covered 3 [c04_ks].
Proof. intros k [<-|[]]. exists 5. split; [reflexivity|lia]. Qed.

(* ---- C02 (model level): an acknowledged single write is in the active journal with the seqno it was applied with ---- *)
Theorem write_one_journaled d id k v vt mvt d' :
  write_one d id k v vt mvt = (d', ObOk) ->
  d_active d' = d_active d ++ [mk_batch (d_seqno d) [{| ri_ks := id; ri_key := k; ri_value := v; ri_vt := vt |}] []] /\
  d_seqno d' = d_seqno d + 1 /\ d_sealed d' = d_sealed d.
Proof.
  unfold write_one. destruct (ks_of d id) as [ks|]; [|discriminate].
  destruct (k_deleted ks); [discriminate|]. destruct (d_poisoned d); [discriminate|].
  intros H. injection H as <-. unfold commit_batch. cbn. auto.
Qed.

Theorem clear_journaled d id d' :
  do_clear d id = (d', ObOk) ->
  d_active d' = d_active d ++ [mk_batch (d_seqno d) [] [id]].
Proof.
  unfold do_clear. destruct (ks_of d id) as [ks|]; [|discriminate]. destruct (d_poisoned d); [discriminate|].
  cbn. intros H. injection H as <-. reflexivity.
Qed.
