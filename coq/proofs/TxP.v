(* TxP.v — transaction-local semantics of the ephemeral overlay (tx/write_tx.rs):
   read-your-writes, last write wins, commit keeps exactly the final write per key. *)
From FJ Require Import Bytes Codec Lsm Tracker Db Prog BytesP LsmP.
From Coq Require Import ZArith ZifyBool ZifyNat ZifyN.

(* a transaction-local write: key, and Some value (insert) or None (remove) *)
Definition twrite := (bytes * option bytes)%type.

Definition ent_of_write (w : twrite) (s : N) : ent :=
  match snd w with
  | Some v => mkEnt (fst w) s VValue v
  | None => mkEnt (fst w) s VTomb []
  end.

(* the overlay after a list of writes, starting at private seqno s0 (BaseTransaction::insert/remove) *)
Fixpoint overlay (ws : list twrite) (s0 : N) (acc : list ent) : list ent :=
  match ws with
  | [] => acc
  | w :: r => overlay r (s0 + 1) (mem_insert (ent_of_write w s0) acc)
  end.

(* reference semantics: the last write to k, if any *)
Fixpoint last_write (ws : list twrite) (k : bytes) (acc : option (option bytes)) : option (option bytes) :=
  match ws with
  | [] => acc
  | w :: r => last_write r k (if list_eqb (fst w) k then Some (snd w) else acc)
  end.

Definition read_over (o : list ent) (k : bytes) : option (option bytes) :=
  match newest k TWO64 o with
  | Some e => Some (if is_tomb e then None else Some (ev e))
  | None => None
  end.

Lemma list_eqb_sym a b : list_eqb a b = list_eqb b a.
Proof.
  revert b; induction a as [|x a IH]; intros [|y b]; cbn; try reflexivity.
  rewrite IH, N.eqb_sym. reflexivity.
Qed.

Lemma list_eqb_true_iff a b : list_eqb a b = true <-> a = b.
Proof. split; [apply list_eqb_eq|intros ->; apply list_eqb_refl]. Qed.

(* best keeps an accumulator that beats everything that follows *)
Lemma best_acc_wins k I l a : (forall e, In e l -> es e < es a) -> best k I l (Some a) = Some a.
Proof.
  induction l as [|e r IH]; intros H; cbn [best]; [reflexivity|].
  destruct (list_eqb (ek e) k && (es e <? I)).
  - destruct (N.ltb_spec (es a) (es e)) as [L|G].
    + specialize (H e (or_introl eq_refl)). lia.
    + apply IH. intros; apply H; right; assumption.
  - apply IH. intros; apply H; right; assumption.
Qed.

Lemma best_skip_other_key k I l : forall acc e0,
  list_eqb (ek e0) k = false ->
  best k I (filter (fun x => negb (same_slot e0 x)) l) acc = best k I l acc.
Proof.
  induction l as [|e r IH]; intros acc e0 NE; cbn [filter best]; [reflexivity|].
  destruct (same_slot e0 e) eqn:S; cbn [negb].
  - unfold same_slot in S. apply andb_true_iff in S as [S _]. apply list_eqb_eq in S.
    rewrite <- S, NE. cbn [andb]. apply IH. exact NE.
  - cbn [best]. destruct (list_eqb (ek e) k && (es e <? I)); [destruct acc as [a|]; [destruct (es a <? es e)|]|]; apply IH; exact NE.
Qed.

Definition all_below (s : N) (l : list ent) : Prop := forall e, In e l -> es e < s.

Lemma all_below_insert s e l : all_below s l -> es e = s -> all_below (s + 1) (mem_insert e l).
Proof.
  intros H E x [<-|Hx]; [lia|]. apply filter_In in Hx as [Hx _]. specialize (H x Hx). lia.
Qed.

Lemma read_over_insert e l k s :
  all_below s l -> es e = s -> s < TWO64 ->
  read_over (mem_insert e l) k =
    if list_eqb (ek e) k then Some (if is_tomb e then None else Some (ev e)) else read_over l k.
Proof.
  intros AB E LT. unfold read_over, newest, mem_insert. cbn [best].
  destruct (list_eqb (ek e) k) eqn:K; cbn [andb].
  - destruct (N.ltb_spec (es e) TWO64); [|lia]. rewrite best_acc_wins; [reflexivity|].
    intros x Hx. apply filter_In in Hx as [Hx _]. specialize (AB x Hx). lia.
  - rewrite best_skip_other_key by exact K. reflexivity.
Qed.

(* read-your-writes / last write wins, for ANY list of in-transaction writes *)
Theorem overlay_reads ws : forall s0 acc k,
  all_below s0 acc -> s0 + N.of_nat (length ws) < TWO64 ->
  read_over (overlay ws s0 acc) k = last_write ws k (read_over acc k).
Proof.
  induction ws as [|w r IH]; intros s0 acc k AB LT; cbn [overlay last_write]; [reflexivity|].
  cbn [length] in LT.
  rewrite IH; [|apply all_below_insert; [exact AB|destruct w as [kk [v|]]; reflexivity]|lia].
  f_equal. rewrite (read_over_insert _ _ _ s0 AB); [|destruct w as [kk [v|]]; reflexivity|lia].
  destruct w as [kk [v|]]; cbn [ent_of_write fst snd ek is_tomb et ev]; reflexivity.
Qed.

(* a transaction's point read: own writes first, then the snapshot *)
Definition tx_view (ws : list twrite) (snap : bytes -> option bytes) (k : bytes) : option bytes :=
  match last_write ws k None with
  | Some r => r
  | None => snap k
  end.

Corollary tx_get_spec ws k snapv :
  TXBASE + N.of_nat (length ws) < TWO64 ->
  (match read_over (overlay ws TXBASE []) k with Some r => r | None => snapv end)
  = tx_view ws (fun _ => snapv) k.
Proof.
  intros LT. unfold tx_view. rewrite overlay_reads; [reflexivity| |exact LT]. intros e [].
Qed.

(* commit submits, per key, exactly the final write (value or tombstone), nothing else *)
Lemma ins_key_in a l : In a (ins_key a l).
Proof.
  induction l as [|z l IHl]; cbn; [left; reflexivity|].
  destruct (bytes_ltb a z); [left; reflexivity|].
  destruct (list_eqb a z) eqn:E; [apply list_eqb_eq in E; subst; left; reflexivity|right; exact IHl].
Qed.
Lemma ins_key_keep a b l : In b l -> In b (ins_key a l).
Proof.
  induction l as [|z l IHl]; cbn; [intros []|].
  destruct (bytes_ltb a z); [intros H; right; exact H|]. destruct (list_eqb a z); [auto|].
  intros [->|H]; [left; reflexivity|right; auto].
Qed.
Lemma keys_of_in o x : In x o -> In (ek x) (keys_of o).
Proof.
  induction o as [|y r IH]; [intros []|]. cbn [keys_of fold_right]. fold (keys_of r).
  intros [->|H]; [apply ins_key_in|apply ins_key_keep, IH, H].
Qed.
Lemma best_some_key k I l : forall acc e, best k I l acc = Some e ->
  acc = Some e \/ exists x, In x l /\ ek x = k.
Proof.
  induction l as [|x r IH]; intros acc e H; cbn [best] in H; [left; exact H|].
  destruct (list_eqb (ek x) k && (es x <? I)) eqn:C.
  - apply andb_true_iff in C as [C _]. apply list_eqb_eq in C. right. exists x. split; [left; reflexivity|exact C].
  - destruct (IH _ _ H) as [->|(y & Hy & Ky)]; [left; reflexivity|right; exists y; split; [right; exact Hy|exact Ky]].
Qed.

Theorem commit_items_complete id o k e : newest k TWO64 o = Some e ->
  In {| ri_ks := id; ri_key := k; ri_value := ev e; ri_vt := et e |} (commit_items_of id o).
Proof.
  intros N. unfold commit_items_of. apply in_flat_map. exists k. split.
  - destruct (best_some_key _ _ _ _ _ N) as [D|(x & Hx & Kx)]; [discriminate|]. subst k. apply keys_of_in, Hx.
  - rewrite N. left. reflexivity.
Qed.

Theorem commit_items_sound id o it : In it (commit_items_of id o) ->
  exists e, newest (ri_key it) TWO64 o = Some e /\ ri_value it = ev e /\ ri_vt it = et e /\ ri_ks it = id.
Proof.
  intros H. unfold commit_items_of in H. apply in_flat_map in H as (k & _ & H).
  destruct (newest k TWO64 o) as [e|] eqn:N; [|destruct H]. destruct H as [<-|[]]. cbn. eauto.
Qed.

(* the interpreter's transaction write is one overlay step *)
Lemma alookup_aset_same {A} k (a : A) l : alookup k (aset k a l) = Some a.
Proof. unfold aset. cbn. now rewrite N.eqb_refl. Qed.
Lemma alookup_aremove_other {A} k j (l : list (N * A)) : j <> k -> alookup j (aremove k l) = alookup j l.
Proof.
  intros NE. induction l as [|[x a] r IH]; cbn; [reflexivity|].
  destruct (N.eqb_spec x k) as [->|NK].
  - destruct (N.eqb_spec k j); [congruence|]. exact IH.
  - cbn. destruct (x =? j); [reflexivity|exact IH].
Qed.

Theorem tx_write_step x id k v vt tr :
  over_of (tx_write x id k v vt tr) id = mem_insert (mkEnt k (tx_seq x) vt v) (over_of x id) /\
  tx_seq (tx_write x id k v vt tr) = tx_seq x + 1 /\
  tx_instant (tx_write x id k v vt tr) = tx_instant x /\
  forall j, j <> id -> over_of (tx_write x id k v vt tr) j = over_of x j.
Proof.
  unfold tx_write, over_of. cbn [tx_over tx_seq tx_instant]. rewrite alookup_aset_same.
  repeat split. intros j NE. unfold aset. cbn [alookup]. destruct (N.eqb_spec id j); [congruence|].
  rewrite alookup_aremove_other by exact NE. reflexivity.
Qed.
