(* OptionsP.v — round trips of the option codecs and of the stored option form *)
From Coq Require Import String.
From FJ Require Import Bytes Codec BytesP CodecP Options.
From Coq Require Import List ZArith ZifyBool ZifyNat ZifyN.
Ltac Zify.zify_post_hook ::= Z.div_mod_to_equations.

(* ---- generic list codec ---- *)
Section ListCodec.
  Context {A : Type} (item : parser A) (enc : A -> bytes) (ok : A -> Prop).
  Hypothesis item_enc : forall x r, ok x -> exists n, item (enc x ++ r) = Some (x, r, n).

  Lemma pmany_enc l r : Forall ok l ->
    exists n, pmany item (length l) (flat_map enc l ++ r) = Some (l, r, n).
  Proof.
    induction l as [|x l IH]; intros F.
    - cbn. unfold pret. eexists. reflexivity.
    - inversion F as [|? ? Hx Hl]; subst. cbn [length pmany flat_map]. rewrite <- app_assoc.
      destruct (item_enc x (flat_map enc l ++ r) Hx) as [n1 E1].
      destruct (IH Hl) as [n2 E2].
      unfold pbind at 1. rewrite E1. unfold pbind at 1. rewrite E2. unfold pret. eauto.
  Qed.

  Lemma plist_enc l : Forall ok l -> (length l <= 255)%nat ->
    run_all (plist item) (len_byte l :: flat_map enc l) = Some l.
  Proof.
    intros F L. unfold run_all, plist. unfold pbind at 1.
    assert (LB : len_byte l = N.of_nat (length l)).
    { unfold len_byte. apply N.mod_small. lia. }
    rewrite LB.
    rewrite (pnum1 (N.of_nat (length l)) (flat_map enc l)) by lia.
    rewrite Nat2N.id.
    destruct (pmany_enc l [] F) as [n E]. rewrite app_nil_r in E. rewrite E. reflexivity.
  Qed.
End ListCodec.

Definition u32 (x : N) : Prop := x < 2 ^ 32.
Definition u8 (x : N) : Prop := x < 256.

Lemma u32s_roundtrip l : Forall u32 l -> (length l <= 255)%nat -> dec_u32s (enc_u32s l) = Some l.
Proof.
  intros F L. unfold dec_u32s, enc_u32s.
  apply (plist_enc (pnum 4) (le_enc 4) u32); try assumption.
  intros x r Hx. exists 4. apply pnum4. exact Hx.
Qed.

Lemma flat_map_single {A} (f : A -> N) l : flat_map (fun x => [f x]) l = map f l.
Proof. induction l; cbn; congruence. Qed.

Lemma u8s_roundtrip l : Forall u8 l -> (length l <= 255)%nat -> dec_u8s (enc_u8s l) = Some l.
Proof.
  intros F L. unfold dec_u8s, enc_u8s.
  replace (map (fun x => x mod 256) l) with (flat_map (fun x => [x]) l).
  - apply (plist_enc (pnum 1) (fun x => [x]) u8); try assumption.
    intros x r Hx. exists 1. cbn [app]. apply pnum1. exact Hx.
  - rewrite (flat_map_single (fun x => x)). rewrite map_id. clear L.
    induction F as [|x l Hx Hl IH]; cbn [map]; [reflexivity|].
    rewrite <- IH. f_equal. unfold u8 in Hx. symmetry. apply N.mod_small. exact Hx.
Qed.

Lemma bools_roundtrip l : (length l <= 255)%nat -> dec_bools (enc_bools l) = Some l.
Proof.
  intros L. unfold dec_bools, enc_bools.
  rewrite <- (flat_map_single (fun b : bool => if b then 1 else 0)).
  apply (plist_enc _ (fun b : bool => [if b then 1 else 0]) (fun _ => True)); [|apply Forall_forall; auto|exact L].
  intros x r _. exists (1 + 0). cbn [app]. unfold pbind. rewrite pnum1 by (destruct x; reflexivity).
  unfold pret. destruct x; reflexivity.
Qed.

Lemma comps_roundtrip l : (length l <= 255)%nat -> dec_comps (enc_comps l) = Some l.
Proof.
  intros L. unfold dec_comps, enc_comps.
  rewrite <- (flat_map_single comp_code).
  apply (plist_enc _ (fun c => [comp_code c]) (fun _ => True)); [|apply Forall_forall; auto|exact L].
  intros x r _. exists (1 + 0). cbn [app]. unfold pbind. rewrite pnum1 by (destruct x; reflexivity).
  rewrite comp_code_roundtrip. reflexivity.
Qed.

Definition wf_fentry (e : fentry) : Prop :=
  match e with FNoFilter => True | FBits b => u32 b | FFpr b => u32 b end.

Lemma filters_roundtrip l : Forall wf_fentry l -> (length l <= 255)%nat -> dec_filters (enc_filters l) = Some l.
Proof.
  intros F L. unfold dec_filters, enc_filters.
  apply (plist_enc p_fentry enc_fentry wf_fentry); try assumption.
  intros x r Hx. destruct x as [|b|b]; cbn [enc_fentry app wf_fentry] in *.
  - exists (1 + 0). unfold p_fentry, pbind. rewrite pnum1 by reflexivity. reflexivity.
  - exists (1 + (1 + (4 + 0))). unfold p_fentry. unfold pbind at 1. rewrite pnum1 by reflexivity.
    change (1 =? 0) with false. change (1 =? 1) with true. cbv iota.
    unfold pbind at 1. rewrite pnum1 by reflexivity. change (0 =? 0) with true. cbv iota.
    unfold pbind. rewrite pnum4 by exact Hx. reflexivity.
  - exists (1 + (1 + (4 + 0))). unfold p_fentry. unfold pbind at 1. rewrite pnum1 by reflexivity.
    change (1 =? 0) with false. change (1 =? 1) with true. cbv iota.
    unfold pbind at 1. rewrite pnum1 by reflexivity. change (1 =? 0) with false. change (1 =? 1) with true. cbv iota.
    unfold pbind. rewrite pnum4 by exact Hx. reflexivity.
Qed.

(* the length byte wraps at 256: the guard is necessary (cf. level_ratio_policy, which no setter bounds) *)
Example len_byte_wraps : dec_u32s (enc_u32s (repeat 0 256)) = Some [].
Proof. vm_compute. reflexivity. Qed.

(* ---- the whole option record ---- *)
Definition wf_strategy (s : strategy) : Prop :=
  match s with
  | SLeveled l0 target ratios => u8 l0 /\ target < 2 ^ 64 /\ Forall u32 ratios /\ (length ratios <= 255)%nat
  | SFifo limit ttl => limit < 2 ^ 64 /\ match ttl with Some t => t < 2 ^ 64 | None => True end
  end.
Definition wf_blob (b : option blobopts) : Prop :=
  match b with
  | None => True
  | Some o => u32 (b_thr o) /\ b_target o < 2 ^ 64 /\ u32 (b_stale o) /\ u32 (b_age o)
  end.
Definition wf_opts (o : opts) : Prop :=
  o_mt o < 2 ^ 64 /\
  Forall u32 (o_dbs o) /\ (length (o_dbs o) <= 255)%nat /\
  Forall u8 (o_dbri o) /\ (length (o_dbri o) <= 255)%nat /\
  Forall u8 (o_ibri o) /\ (length (o_ibri o) <= 255)%nat /\
  Forall u32 (o_dbhr o) /\ (length (o_dbhr o) <= 255)%nat /\
  (length (o_ibpin o) <= 255)%nat /\ (length (o_fbpin o) <= 255)%nat /\
  (length (o_ibpart o) <= 255)%nat /\ (length (o_fbpart o) <= 255)%nat /\
  (length (o_dbc o) <= 255)%nat /\ (length (o_ibc o) <= 255)%nat /\
  Forall wf_fentry (o_fp o) /\ (length (o_fp o) <= 255)%nat /\
  wf_strategy (o_strategy o) /\ wf_blob (o_blob o).

Definition with_levels7 (o : opts) : opts :=
  {| o_mt := o_mt o; o_manual := o_manual o; o_eprh := o_eprh o;
     o_dbs := o_dbs o; o_dbri := o_dbri o; o_ibri := o_ibri o; o_dbhr := o_dbhr o;
     o_ibpin := o_ibpin o; o_fbpin := o_fbpin o; o_ibpart := o_ibpart o; o_fbpart := o_fbpart o;
     o_dbc := o_dbc o; o_ibc := o_ibc o; o_fp := o_fp o; o_levels := 7;
     o_strategy := o_strategy o; o_blob := o_blob o |}.

Lemma run_pnum8 x : x < 2 ^ 64 -> run_all (pnum 8) (le_enc 8 x) = Some x.
Proof. intros H. unfold run_all. rewrite <- (app_nil_r (le_enc 8 x)). now rewrite pnum8. Qed.
Lemma run_pnum4 x : x < 2 ^ 32 -> run_all (pnum 4) (le_enc 4 x) = Some x.
Proof. intros H. unfold run_all. rewrite <- (app_nil_r (le_enc 4 x)). now rewrite pnum4. Qed.
Lemma run_pnum1 x : x < 256 -> run_all (pnum 1) [x mod 256] = Some x.
Proof. intros H. unfold run_all. rewrite N.mod_small by exact H. now rewrite pnum1. Qed.

Lemma dec_strategy_rows pre s b :
  (forall n, In n (map fst pre) ->
     list_eqb n (str "compaction_strategy"%string) = false /\ list_eqb n (str "leveled_l0_threshold"%string) = false /\
     list_eqb n (str "leveled_target_size"%string) = false /\ list_eqb n (str "leveled_level_ratio_policy"%string) = false /\
     list_eqb n (str "fifo_limit"%string) = false /\ list_eqb n (str "fifo_ttl"%string) = false /\
     list_eqb n (str "fifo_ttl_seconds"%string) = false) ->
  wf_strategy s ->
  dec_strategy (pre ++ strategy_rows s ++ b) = Some s.
Proof.
  intros Hpre W.
  assert (G : forall name, (forall n, In n (map fst pre) -> list_eqb n name = false) ->
              rget name (pre ++ strategy_rows s ++ b) = rget name (strategy_rows s ++ b)).
  { intros name Hn. induction pre as [|[k v] pre IH]; [reflexivity|].
    cbn [app rget]. rewrite (Hn k) by (left; reflexivity). apply IH.
    - intros n Hin. apply Hpre. right. exact Hin.
    - intros n Hin. apply Hn. right. exact Hin. }
  unfold dec_strategy.
  rewrite !G by (intros n Hin; apply Hpre in Hin; tauto).
  destruct s as [l0 tg ratios|lim ttl]; cbn [wf_strategy] in W.
  - destruct W as (W1 & W2 & W3 & W4).
    cbn [strategy_rows app]. 
    change (rget (str "compaction_strategy"%string) _) with (Some (str "LeveledCompaction"%string)). cbn [obind].
    change (list_eqb (str "LeveledCompaction"%string) (str "LeveledCompaction"%string)) with true. cbv iota.
    change (rget (str "leveled_l0_threshold"%string) _) with (Some [l0 mod 256]).
    change (rget (str "leveled_target_size"%string) _) with (Some (le_enc 8 tg)).
    change (rget (str "leveled_level_ratio_policy"%string) _) with (Some (enc_u32s ratios)).
    cbn [obind]. rewrite run_pnum1, run_pnum8, u32s_roundtrip by assumption. reflexivity.
  - destruct W as (W1 & W2).
    cbn [strategy_rows app].
    change (rget (str "compaction_strategy"%string) _) with (Some (str "FifoCompaction"%string)). cbn [obind].
    change (list_eqb (str "FifoCompaction"%string) (str "LeveledCompaction"%string)) with false.
    change (list_eqb (str "FifoCompaction"%string) (str "FifoCompaction"%string)) with true. cbv iota.
    change (rget (str "fifo_limit"%string) _) with (Some (le_enc 8 lim)).
    cbn [obind]. 
    destruct ttl as [t|].
    + change (rget (str "fifo_ttl"%string) _) with (Some [1]). cbn [obind]. rewrite run_pnum8 by assumption. cbn [obind].
      change (list_eqb [1] [1]) with true. cbv iota.
      change (rget (str "fifo_ttl_seconds"%string) _) with (Some (le_enc 8 t)). cbn [obind].
      rewrite run_pnum8 by assumption. reflexivity.
    + change (rget (str "fifo_ttl"%string) _) with (Some [0]). cbn [obind]. rewrite run_pnum8 by assumption. cbn [obind].
      change (list_eqb [0] [1]) with false. reflexivity.
Qed.

Open Scope string_scope.
Open Scope list_scope.
Open Scope N_scope.

Ltac rg name val :=
  match goal with
  | |- context [rget (str name) ?rows] => change (rget (str name) rows) with (Some val)
  end.

Lemma fixed_names_not_strategy o n :
  In n (map fst (firstn 16 (encode_kvs o))) ->
     list_eqb n (str "compaction_strategy") = false /\ list_eqb n (str "leveled_l0_threshold") = false /\
     list_eqb n (str "leveled_target_size") = false /\ list_eqb n (str "leveled_level_ratio_policy") = false /\
     list_eqb n (str "fifo_limit") = false /\ list_eqb n (str "fifo_ttl") = false /\
     list_eqb n (str "fifo_ttl_seconds") = false.
Proof.
  unfold encode_kvs. cbn [firstn app map fst]. intros H.
  repeat (destruct H as [<-|H]; [repeat split; reflexivity|]). destruct H.
Qed.

Lemma encode_kvs_split o :
  encode_kvs o = firstn 16 (encode_kvs o) ++ strategy_rows (o_strategy o) ++ blob_rows (o_blob o).
Proof. reflexivity. Qed.

Lemma dec_blob_rows o : wf_blob (o_blob o) -> dec_blob (encode_kvs o) = Some (o_blob o).
Proof.
  intros W. unfold dec_blob, encode_kvs.
  destruct (o_strategy o) as [l0 tg ratios|lim ttl]; destruct (o_blob o) as [b|]; cbn [strategy_rows blob_rows app].
  - destruct W as (W1 & W2 & W3 & W4).
    rg "blob" [1]. cbv iota.
    rg "blob_age_cutoff" (le_enc 4 (b_age b)). rg "blob_compression" [comp_code (b_comp b)].
    rg "blob_file_target_size" (le_enc 8 (b_target b)). rg "blob_separation_threshold" (le_enc 4 (b_thr b)).
    rg "blob_staleness_threshold" (le_enc 4 (b_stale b)). cbn [obind].
    rewrite !run_pnum4, run_pnum8 by assumption. cbn [obind].
    replace (run_all (c <- pnum 1;; popt (comp_of_code c)) [comp_code (b_comp b)]) with (Some (b_comp b)).
    2:{ unfold run_all, pbind. rewrite pnum1 by (destruct (b_comp b); reflexivity). rewrite comp_code_roundtrip. reflexivity. }
    cbn [obind]. destruct b; reflexivity.
  - reflexivity.
  - destruct W as (W1 & W2 & W3 & W4).
    rg "blob" [1]. cbv iota.
    rg "blob_age_cutoff" (le_enc 4 (b_age b)). rg "blob_compression" [comp_code (b_comp b)].
    rg "blob_file_target_size" (le_enc 8 (b_target b)). rg "blob_separation_threshold" (le_enc 4 (b_thr b)).
    rg "blob_staleness_threshold" (le_enc 4 (b_stale b)). cbn [obind].
    rewrite !run_pnum4, run_pnum8 by assumption. cbn [obind].
    replace (run_all (c <- pnum 1;; popt (comp_of_code c)) [comp_code (b_comp b)]) with (Some (b_comp b)).
    2:{ unfold run_all, pbind. rewrite pnum1 by (destruct (b_comp b); reflexivity). rewrite comp_code_roundtrip. reflexivity. }
    cbn [obind]. destruct b; reflexivity.
  - reflexivity.
Qed.

(* every option value that can be set round-trips through the stored form
   (level_count is deliberately restored as 7 by the code) *)
Theorem kvs_roundtrip o : wf_opts o -> from_kvs (encode_kvs o) = Some (with_levels7 o).
Proof.
  intros (Wmt & Wdbs & Ldbs & Wdbri & Ldbri & Wibri & Libri & Wdbhr & Ldbhr & Libpin & Lfbpin & Libpart & Lfbpart &
          Ldbc & Libc & Wfp & Lfp & Wst & Wbl).
  unfold from_kvs.
  rewrite (dec_blob_rows o Wbl).
  assert (DS : dec_strategy (encode_kvs o) = Some (o_strategy o)).
  { rewrite (encode_kvs_split o). apply dec_strategy_rows; [apply fixed_names_not_strategy|exact Wst]. }
  rewrite DS. clear DS.
  unfold encode_kvs.
  rg "data_block_compression_policy" (enc_comps (o_dbc o)).
  rg "index_block_compression_policy" (enc_comps (o_ibc o)).
  rg "data_block_size_policy" (enc_u32s (o_dbs o)).
  rg "filter_block_partitioning_policy" (enc_bools (o_fbpart o)).
  rg "index_block_partitioning_policy" (enc_bools (o_ibpart o)).
  rg "filter_block_pinning_policy" (enc_bools (o_fbpin o)).
  rg "index_block_pinning_policy" (enc_bools (o_ibpin o)).
  rg "data_block_restart_interval_policy" (enc_u8s (o_dbri o)).
  rg "index_block_restart_interval_policy" (enc_u8s (o_ibri o)).
  rg "data_block_hash_ratio_policy" (enc_u32s (o_dbhr o)).
  rg "expect_point_read_hits" [if o_eprh o then 1 else 0].
  rg "filter_policy" (enc_filters (o_fp o)).
  rg "manual_journal_persist" [if o_manual o then 1 else 0].
  rg "max_memtable_size" (le_enc 8 (o_mt o)).
  cbn [obind].
  rewrite !comps_roundtrip, !u32s_roundtrip, !bools_roundtrip, !u8s_roundtrip, filters_roundtrip, run_pnum8 by assumption.
  cbn [obind]. unfold with_levels7. f_equal. f_equal.
  - destruct (o_manual o); reflexivity.
  - destruct (o_eprh o); reflexivity.
Qed.
