(* OccP.v — backward validation of optimistic transactions (tx/optimistic/conflict_manager.rs, oracle.rs):
   what has_conflict decides, and why accepted transactions are equivalent to a serial execution
   in commit order.                                                                                *)
From FJ Require Import Bytes Codec Lsm Tracker Db BytesP.
From Coq Require Import ZArith ZifyBool ZifyNat ZifyN.

(* ---- has_conflict is exactly "some written key lies in some recorded read footprint" ---- *)
Definition footprint (c : cm) (id : N) (k : bytes) : bool :=
  existsb (fun rr => (fst rr =? id) && rd_hits (snd rr) k) (cm_reads c).

Theorem has_conflict_iff mine other :
  has_conflict mine other = true <->
  exists id k, In (id, k) (cm_writes other) /\ footprint mine id k = true.
Proof.
  unfold has_conflict, footprint. split.
  - intros H. apply existsb_exists in H as ([id r] & Hr & H). apply existsb_exists in H as ([id' k] & Hw & H).
    cbn [fst snd] in H. apply andb_true_iff in H as [E Hit]. apply N.eqb_eq in E. subst id'.
    exists id, k. split; [exact Hw|]. apply existsb_exists. exists (id, r). split; [exact Hr|]. cbn. now rewrite N.eqb_refl.
  - intros (id & k & Hw & H). apply existsb_exists in H as ([id' r] & Hr & H). cbn [fst snd] in H.
    apply andb_true_iff in H as [E Hit]. apply N.eqb_eq in E. subst id'.
    apply existsb_exists. exists (id, r). split; [exact Hr|]. apply existsb_exists. exists (id, k). split; [exact Hw|].
    cbn. now rewrite N.eqb_refl.
Qed.

(* the footprint of each kind of recorded read *)
Lemma rd_hits_single x k : rd_hits (RdSingle x) k = true <-> x = k.
Proof. cbn. split; [apply list_eqb_eq|intros ->; apply list_eqb_refl]. Qed.
Lemma rd_hits_all k : rd_hits RdAll k = true.
Proof. reflexivity. Qed.
Lemma rd_hits_range lo hi k : rd_hits (RdRange lo hi) k = in_range (lo, hi) k.
Proof. reflexivity. Qed.
(* a range/prefix scan records the very range it iterates: range_of feeds both *)
Lemma rd_of_range_hits r k : rd_hits (rd_of_range r) k = in_range (range_of r) k.
Proof.
  unfold rd_of_range. destruct (range_of r) as [lo hi] eqn:R.
  destruct lo, hi; cbn; try reflexivity.
Qed.

(* ---- abstract serializability argument ---- *)
Section Serial.
  Variable key value : Type.
  Variable key_eqb : key -> key -> bool.
  Hypothesis key_eqb_spec : forall a b, key_eqb a b = true <-> a = b.

  Definition state := key -> option value.
  Definition wset := list (key * option value).

  Fixpoint apply_ws (ws : wset) (s : state) : state :=
    match ws with
    | [] => s
    | (k, v) :: r => apply_ws r (fun x => if key_eqb k x then v else s x)
    end.

  Definition touches (ws : wset) (k : key) : bool := existsb (fun w => key_eqb (fst w) k) ws.
  Definition agree_on (P : key -> bool) (s1 s2 : state) : Prop := forall k, P k = true -> s1 k = s2 k.

  Lemma apply_ws_frame ws : forall s k, touches ws k = false -> apply_ws ws s k = s k.
  Proof.
    induction ws as [|[k0 v] r IH]; intros s k H; cbn [apply_ws]; [reflexivity|].
    cbn [touches existsb fst] in H. apply orb_false_iff in H as [H1 H2].
    rewrite IH by exact H2. cbn. now rewrite H1.
  Qed.

  (* a committed transaction: the index of the state it read from, its read footprint, its writes *)
  Record ctx := { snap_idx : nat; fp : key -> bool; ws : wset }.

  (* states after each prefix of the commit sequence *)
  Fixpoint states (h : list ctx) (s : state) : list state :=
    match h with
    | [] => [s]
    | c :: r => s :: states r (apply_ws (ws c) s)
    end.

  Definition disjoint (f : key -> bool) (w : wset) : Prop := forall k, f k = true -> touches w k = false.

  (* commits i .. j-1 of h, applied to s *)
  Fixpoint apply_range (h : list ctx) (s : state) : state :=
    match h with [] => s | c :: r => apply_range r (apply_ws (ws c) s) end.

  Lemma apply_range_agree h : forall f s,
    Forall (fun c => disjoint f (ws c)) h -> agree_on f s (apply_range h s).
  Proof.
    induction h as [|c r IH]; intros f s F k Hk; cbn [apply_range]; [reflexivity|].
    inversion F as [|? ? Hc Hr]; subst.
    rewrite <- (IH f (apply_ws (ws c) s) Hr k Hk).
    symmetry. apply apply_ws_frame. apply Hc. exact Hk.
  Qed.

  (* Validation soundness: if no transaction committed between T's snapshot and T's commit wrote a key
     inside T's footprint, then the state T read from and the state just before T's commit agree on
     that footprint — so every read of T returns the same in the serial execution in commit order. *)
  Theorem validation_sound (between : list ctx) (t : ctx) (s_snap : state) :
    Forall (fun c => disjoint (fp t) (ws c)) between ->
    agree_on (fp t) s_snap (apply_range between s_snap).
  Proof. intros F. apply apply_range_agree. exact F. Qed.

  (* a refused or rolled-back transaction applies no write set: the state sequence is that of the others *)
  Lemma refused_no_effect (h1 h2 : list ctx) s : apply_range (h1 ++ h2) s = apply_range h2 (apply_range h1 s).
  Proof. revert s; induction h1 as [|c r IH]; intros s; cbn; [reflexivity|apply IH]. Qed.
End Serial.
