(* DbP.v — database-level glue: the parameters fjall hands to the trees satisfy what
   the frozen-read theorem needs, for every live snapshot instant.                      *)
From FJ Require Import Bytes Codec Lsm Tracker Db BytesP LsmP TrackerP.
From Coq Require Import ZArith ZifyBool ZifyNat ZifyN.

Definition vis_le_seq (d : db) : Prop := visible (d_trk d) <= d_seqno d.

Lemma draw_version_ok d : vis_le_seq d ->
  snd (draw_version d) = d_seqno d /\ vis_le_seq (fst (draw_version d)) /\
  d_seqno (fst (draw_version d)) = d_seqno d + 1 /\
  lowest_freed (d_trk (fst (draw_version d))) = lowest_freed (d_trk d) /\
  tdata (d_trk (fst (draw_version d))) = tdata (d_trk d).
Proof.
  unfold vis_le_seq, draw_version. cbn. intros H. repeat split; lia.
Qed.

Lemma commit_batch_ok d ji mi : vis_le_seq d -> vis_le_seq (commit_batch d ji mi).
Proof. unfold vis_le_seq, commit_batch. cbn. lia. Qed.

(* for every live view (instant i): the seqno the next write / version upgrade draws is >= i,
   and the GC watermark handed to flush, compaction and version-history maintenance is <= i *)
Theorem params_ok d live i :
  Inv (d_trk d) live -> vis_le_seq d -> In i live ->
  i <= d_seqno d /\ W_of d <= i.
Proof.
  intros I V Hi. unfold W_of, vis_le_seq in *.
  pose proof (inv_wm_live _ _ I i Hi) as W.
  assert (Hv : i <= visible (d_trk d)).
  { pose proof (cnt_pos i live Hi) as P. rewrite (inv_count _ _ I) in P.
    apply trow_pos_in in P. eapply (inv_rows_vis _ _ I). exact P. }
  lia.
Qed.

Corollary tree_ops_ok d live i e f evict items :
  Inv (d_trk d) live -> vis_le_seq d -> In i live -> d_seqno d <= es e ->
  op_ok i (TAppend e) /\ op_ok i (TFlush (W_of d) (d_seqno d)) /\
  op_ok i (TCompact (W_of d) (d_seqno d) evict f) /\ op_ok i (TClear (d_seqno d)) /\
  op_ok i (TIngest (d_seqno d) items) /\ op_ok i (TMaint (W_of d)) /\ op_ok i TRotate.
Proof.
  intros I V Hi He. destruct (params_ok d live i I V Hi) as [A B]. cbn [op_ok]. repeat split; lia.
Qed.
