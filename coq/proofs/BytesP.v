(* BytesP.v — lemmas about little-endian coding, takeN and the parser monad *)
From FJ Require Import Bytes.
From Coq Require Import ZArith ZifyBool ZifyNat ZifyN.
Ltac Zify.zify_post_hook ::= Z.div_mod_to_equations.
Arguments N.add : simpl never.
Arguments N.mul : simpl never.
Arguments N.sub : simpl never.
Arguments N.div : simpl never.
Arguments N.modulo : simpl never.
Arguments N.pow : simpl never.
Arguments N.eqb : simpl never.
Arguments N.ltb : simpl never.
Arguments N.leb : simpl never.
Arguments N.pred : simpl never.
Arguments N.of_nat : simpl never.

Lemma le_enc_length w x : length (le_enc w x) = w.
Proof. revert x; induction w as [|w IH]; intros x; simpl; [reflexivity|now rewrite IH]. Qed.

Lemma pow256_S w : 256 ^ N.of_nat (S w) = 256 * 256 ^ N.of_nat w.
Proof. rewrite Nat2N.inj_succ, N.pow_succ_r'; reflexivity. Qed.

Lemma le_val_enc w x : x < 256 ^ N.of_nat w -> le_val (le_enc w x) = x.
Proof.
  revert x; induction w as [|w IH]; intros x Hx.
  - cbn in *. change (256 ^ N.of_nat 0) with 1 in Hx. lia.
  - cbn [le_enc le_val]. rewrite pow256_S in Hx.
    rewrite IH.
    + pose proof (N.div_mod x 256 ltac:(lia)). lia.
    + apply N.div_lt_upper_bound; lia.
Qed.

(* general form: truncation *)
Lemma le_val_enc_mod w x : le_val (le_enc w x) = x mod 256 ^ N.of_nat w.
Proof.
  revert x; induction w as [|w IH]; intros x.
  - cbn. change (256 ^ N.of_nat 0) with 1. now rewrite N.mod_1_r.
  - cbn [le_enc le_val]. rewrite IH, pow256_S.
    rewrite N.mod_mul_r by lia. lia.
Qed.

Lemma blen_app a b : blen (a ++ b) = blen a + blen b.
Proof. unfold blen. rewrite app_length. lia. Qed.
Lemma blen_cons x a : blen (x :: a) = 1 + blen a.
Proof. unfold blen. cbn [length]. lia. Qed.
Lemma blen_le_enc w x : blen (le_enc w x) = N.of_nat w.
Proof. unfold blen. now rewrite le_enc_length. Qed.

(* ---- takeN ---- *)

Lemma takeN_app c r : takeN (c ++ r) (blen c) = Some (c, r).
Proof.
  induction c as [|x c IH].
  - cbn. destruct r; reflexivity.
  - rewrite blen_cons. cbn [app takeN].
    destruct (N.eqb_spec (1 + blen c) 0) as [E|_]; [lia|].
    replace (N.pred (1 + blen c)) with (blen c) by lia.
    now rewrite IH.
Qed.

Lemma takeN_inv l k c r : takeN l k = Some (c, r) -> l = c ++ r /\ blen c = k.
Proof.
  revert k c r; induction l as [|x l IH]; intros k c r H.
  - cbn in H. destruct (N.eqb_spec k 0); inversion H; subst. split; [reflexivity|]. unfold blen; cbn; lia.
  - cbn [takeN] in H. destruct (N.eqb_spec k 0) as [E|E].
    + inversion H; subst. split; [reflexivity|unfold blen; cbn; lia].
    + destruct (takeN l (N.pred k)) as [[c' r']|] eqn:T; [|discriminate].
      inversion H; subst. apply IH in T as [-> Hl]. split; [reflexivity|].
      rewrite blen_cons. lia.
Qed.

(* ---- parser locality ---- *)

Definition local {A} (p : parser A) : Prop :=
  forall l a r n, p l = Some (a, r, n) ->
    exists c, l = c ++ r /\ n = blen c /\ forall r2, p (c ++ r2) = Some (a, r2, n).

Lemma local_pret {A} (a : A) : local (pret a).
Proof.
  intros l a' r n H. unfold pret in H. inversion H; subst.
  exists []. repeat split. Qed.

Lemma local_pfail {A} : local (@pfail A).
Proof. intros l a r n H. discriminate. Qed.

Lemma local_ptake k : local (ptake k).
Proof.
  intros l a r n H. unfold ptake in *.
  destruct (takeN l k) as [[c r']|] eqn:T; [|discriminate].
  inversion H; subst. apply takeN_inv in T as [-> Hk].
  exists a. repeat split; [now symmetry|].
  intros r2. rewrite <- Hk, takeN_app. reflexivity.
Qed.

Lemma local_pbind {A B} (p : parser A) (f : A -> parser B) :
  local p -> (forall a, local (f a)) -> local (pbind p f).
Proof.
  intros Hp Hf l b r n H. unfold pbind in *.
  destruct (p l) as [[[a r1] n1]|] eqn:P; [|discriminate].
  destruct (f a r1) as [[[b' r2] n2]|] eqn:F; [|discriminate].
  inversion H; subst.
  destruct (Hp _ _ _ _ P) as (c1 & -> & -> & L1).
  destruct (Hf a _ _ _ _ F) as (c2 & -> & -> & L2).
  exists (c1 ++ c2). rewrite app_assoc. split; [reflexivity|]. split; [now rewrite blen_app|].
  intros r3. rewrite <- app_assoc, L1, L2. reflexivity.
Qed.

Lemma local_pnum w : local (pnum w).
Proof. unfold pnum. apply local_pbind; [apply local_ptake|intros; apply local_pret]. Qed.
Lemma local_pguard b : local (pguard b).
Proof. destruct b; [apply local_pret|apply local_pfail]. Qed.
Lemma local_popt {A} (o : option A) : local (popt o).
Proof. destruct o; [apply local_pret|apply local_pfail]. Qed.

(* running primitive parsers on an input that starts with what they expect *)
Lemma ptake_app c r : ptake (blen c) (c ++ r) = Some (c, r, blen c).
Proof. unfold ptake. now rewrite takeN_app. Qed.

Lemma pnum_app w x r : x < 256 ^ N.of_nat w ->
  pnum (N.of_nat w) (le_enc w x ++ r) = Some (x, r, N.of_nat w).
Proof.
  intros Hx. unfold pnum, pbind.
  rewrite <- (blen_le_enc w x) at 1. rewrite ptake_app. unfold pret.
  rewrite le_val_enc by assumption. rewrite blen_le_enc. f_equal. f_equal. lia.
Qed.

Lemma list_eqb_refl a : list_eqb a a = true.
Proof. induction a as [|x a IH]; cbn; [reflexivity|]. now rewrite N.eqb_refl, IH. Qed.
Lemma list_eqb_eq a b : list_eqb a b = true -> a = b.
Proof.
  revert b; induction a as [|x a IH]; intros [|y b] H; cbn in H; try discriminate; [reflexivity|].
  apply andb_true_iff in H as [H1 H2]. apply N.eqb_eq in H1. f_equal; auto.
Qed.

(* zeros *)
Lemma zeros_all z x : In x (zeros z) -> x = 0.
Proof. unfold zeros. apply repeat_spec. Qed.
