(* JournalMgrP.v — a journal file is unlinked only when nothing in it is still needed; oldest first; back to one *)
From FJ Require Import Bytes JournalMgr.
From Coq Require Import ZArith ZifyBool ZifyNat ZifyN Lia.

(* ---- max_list ---- *)
Lemma fold_max_ge (l : list N) : forall a, a <= fold_left N.max l a /\ (forall x, In x l -> x <= fold_left N.max l a).
Proof.
  induction l as [|y r IH]; intros a; cbn [fold_left]; [split; [lia|intros x []]|].
  destruct (IH (N.max a y)) as [A B]. split; [lia|]. intros x [E|I]; [subst; lia|auto].
Qed.
Lemma fold_max_in (l : list N) : forall a, fold_left N.max l a = a \/ In (fold_left N.max l a) l.
Proof.
  induction l as [|y r IH]; intros a; cbn [fold_left]; [now left|].
  destruct (IH (N.max a y)) as [E|I]; [|right; now right].
  rewrite E. destruct (N.max_spec a y) as [[_ M]|[_ M]]; rewrite M; [right; now left|now left].
Qed.
Lemma max_list_ge l m : max_list l = Some m -> forall x, In x l -> x <= m.
Proof.
  destruct l as [|a r]; [discriminate|]. cbn. intros E x I. injection E as <-.
  destruct (fold_max_ge r a) as [A B]. destruct I as [<-|I]; auto.
Qed.
Lemma max_list_in l m : max_list l = Some m -> In m l.
Proof.
  destruct l as [|a r]; [discriminate|]. cbn. intros E. injection E as <-.
  destruct (fold_max_in r a) as [-> |I]; [now left|now right].
Qed.
Lemma max_list_some l x : In x l -> exists m, max_list l = Some m.
Proof. destruct l; [intros []|eexists; reflexivity]. Qed.

Lemma upd_same {A} (f : N -> A) k v : upd f k v k = v.
Proof. unfold upd. now rewrite N.eqb_refl. Qed.
Lemma upd_other {A} (f : N -> A) k v x : x <> k -> upd f k v x = f x.
Proof. unfold upd. intros H. destruct (N.eqb_spec x k); [contradiction|reflexivity]. Qed.

(* ---- invariant ---- *)
Definition applied (s : jm) (k x : N) : Prop := In x (m_act s k) \/ In x (m_sld s k) \/ In x (m_flushed s k).

Record Inv (s : jm) : Prop := {
  i_fresh : forall k x, applied s k x -> x < m_next s;
  i_order : forall k a b, In a (m_flushed s k) -> In b (m_sld s k) \/ In b (m_act s k) -> a < b;
  i_order2 : forall k a b, In a (m_sld s k) -> In b (m_act s k) -> a < b;
  i_tab : forall k x, In x (m_tab s k) -> In x (m_flushed s k);
  i_active : forall k x, In (k, x) (m_active s) -> applied s k x;
  i_sealed : forall it, In it (m_sealed s) -> forall k x, In (k, x) (j_recs it) ->
               applied s k x /\ (In x (m_flushed s k) \/ exists l, In (k, l) (j_wms it) /\ x <= l);
  i_wm : forall it, In it (m_sealed s) -> forall k l, In (k, l) (j_wms it) -> applied s k l;
  i_evicted : forall k x, In (k, x) (m_evicted s) -> In x (m_flushed s k) \/ m_del s k = true
}.

Lemma inv_init : Inv jinit.
Proof. split; cbn; try (intros; contradiction); unfold applied; cbn; intros; tauto. Qed.

(* build_seqno_map: a watermark per keyspace with unflushed memtable data, equal to its highest memtable seqno *)
Lemma seqno_map_in s k l : In (k, l) (build_seqno_map s) -> mem_high s k = Some l.
Proof.
  unfold build_seqno_map. rewrite in_flat_map. intros [k' [_ I]].
  destruct (mem_high s k') eqn:E; [|contradiction]. destruct I as [I|[]]. injection I as -> ->. exact E.
Qed.
Lemma seqno_map_covers s k x : In k (m_kss s) -> In x (m_sld s k ++ m_act s k) ->
  exists l, In (k, l) (build_seqno_map s) /\ x <= l.
Proof.
  intros K I. destruct (max_list_some _ _ I) as [m E]. exists m. split.
  - unfold build_seqno_map. rewrite in_flat_map. exists k. split; [exact K|]. unfold mem_high. rewrite E. now left.
  - eapply max_list_ge; eauto.
Qed.

(* the write step, one keyspace at a time *)
Definition bump (q : N) (f : N -> list N) (k : N) : N -> list N := upd f k (f k ++ [q]).
Lemma fold_bump (ks : list N) (q : N) : forall (f : N -> list N) k,
  (In k ks -> exists pre, fold_left (bump q) ks f k = f k ++ pre /\ In q pre) /\
  (~ In k ks -> fold_left (bump q) ks f k = f k) /\
  (forall x, In x (fold_left (bump q) ks f k) -> In x (f k) \/ x = q).
Proof.
  induction ks as [|a r IH]; intros f k; cbn [fold_left].
  - split; [intros []|]. split; [reflexivity|]. intros x I. now left.
  - destruct (IH (bump q f a) k) as [A [B C]]. destruct (N.eqb_spec k a) as [-> |NE].
    + assert (U : bump q f a a = f a ++ [q]) by apply upd_same.
      split; [|split].
      * intros _. destruct (in_dec N.eq_dec a r) as [I|NI].
        -- destruct (A I) as [pre [E Q]]. rewrite E, U, <- app_assoc. eexists. split; [reflexivity|]. apply in_or_app. now right.
        -- rewrite (B NI), U. exists [q]. split; [reflexivity|now left].
      * intros H. exfalso. apply H. now left.
      * intros x I. destruct (C x I) as [I2|E]; [|now right]. rewrite U in I2. apply in_app_or in I2.
        destruct I2 as [I2|[<-|[]]]; [now left|now right].
    + assert (U : bump q f a k = f k) by (apply upd_other; exact NE).
      split; [|split].
      * intros [E|I]; [congruence|]. destruct (A I) as [pre [E Q]]. rewrite U in E. eauto.
      * intros H. rewrite B, U; [reflexivity|]. intros I. apply H. now right.
      * intros x I. destruct (C x I) as [I2|E]; [|now right]. rewrite U in I2. now left.
Qed.

Lemma jstep_write_eq s ks :
  jstep s (JWrite ks) =
  let ks' := filter (fun k => existsb (N.eqb k) (m_kss s) && negb (m_del s k)) ks in
  {| m_next := m_next s + 1; m_kss := m_kss s; m_act := fold_left (bump (m_next s)) ks' (m_act s);
     m_sld := m_sld s; m_flushed := m_flushed s; m_tab := m_tab s; m_del := m_del s;
     m_active := m_active s ++ map (fun k => (k, m_next s)) ks'; m_sealed := m_sealed s; m_evicted := m_evicted s |}.
Proof. reflexivity. Qed.

Lemma inv_write s ks : Inv s -> Inv (jstep s (JWrite ks)).
Proof.
  intros [F HO HO2 T A HS W E]. rewrite jstep_write_eq.
  set (ks' := filter (fun k => existsb (N.eqb k) (m_kss s) && negb (m_del s k)) ks). cbv zeta.
  set (q := m_next s).
  assert (ACT : forall k x, In x (fold_left (bump q) ks' (m_act s) k) -> In x (m_act s k) \/ x = q)
    by (intros k x; apply (fold_bump ks' q (m_act s) k)).
  assert (KEEP : forall k x, In x (m_act s k) -> In x (fold_left (bump q) ks' (m_act s) k)).
  { intros k x I. destruct (in_dec N.eq_dec k ks') as [K|NK].
    - destruct (proj1 (fold_bump ks' q (m_act s) k) K) as [pre [-> _]]. apply in_or_app. now left.
    - rewrite (proj1 (proj2 (fold_bump ks' q (m_act s) k)) NK). exact I. }
  split; cbn [m_next m_kss m_act m_sld m_flushed m_tab m_del m_active m_sealed m_evicted]; unfold applied;
    cbn [m_next m_kss m_act m_sld m_flushed m_tab m_del m_active m_sealed m_evicted].
  - intros k x [I|[I|I]].
    + destruct (ACT k x I) as [I2| ->]; [|lia]. assert (x < m_next s) by (apply (F k); left; exact I2). lia.
    + assert (x < m_next s) by (apply (F k); right; left; exact I). lia.
    + assert (x < m_next s) by (apply (F k); right; right; exact I). lia.
  - intros k a b Ia [Ib|Ib]; [apply (HO k); auto|].
    destruct (ACT k b Ib) as [I2| ->]; [apply (HO k); auto|].
    apply (F k). right. right. exact Ia.
  - intros k a b Ia Ib. destruct (ACT k b Ib) as [I2| ->]; [apply (HO2 k); auto|].
    apply (F k). right. left. exact Ia.
  - exact T.
  - intros k x I. apply in_app_or in I. destruct I as [I|I].
    + destruct (A k x I) as [P|[P|P]]; auto.
    + rewrite in_map_iff in I. destruct I as [k' [EQ K]]. injection EQ as E1 E2. subst k' x.
      left. destruct (proj1 (fold_bump ks' q (m_act s) k) K) as [pre [-> Q]]. apply in_or_app. now right.
  - intros it I k x R. destruct (HS it I k x R) as [P D]. split; [|exact D]. destruct P as [P|[P|P]]; auto.
  - intros it I k l R. destruct (W it I k l R) as [P|[P|P]]; auto.
  - exact E.
Qed.

Lemma inv_rotate s k : Inv s -> Inv (jstep s (JRotate k)).
Proof.
  intros [F HO HO2 T A HS W E]. cbn [jstep].
  assert (AP : forall k' x, applied s k' x <-> applied (set_mem s (upd (m_act s) k []) (upd (m_sld s) k (m_sld s k ++ m_act s k))
                                                          (m_flushed s) (m_tab s)) k' x).
  { intros k' x. unfold applied. cbn. destruct (N.eqb_spec k' k) as [-> |NE].
    - rewrite !upd_same, in_app_iff. cbn. tauto.
    - rewrite !upd_other by exact NE. tauto. }
  split; cbn.
  - intros k' x P. apply (F k'), AP, P.
  - intros k' a b Ia Ib. apply (HO k' a b Ia). destruct (N.eqb_spec k' k) as [-> |NE].
    + rewrite !upd_same in Ib. destruct Ib as [Ib|[]]. apply in_app_or in Ib. tauto.
    + rewrite !upd_other in Ib by exact NE. exact Ib.
  - intros k' a b Ia Ib. destruct (N.eqb_spec k' k) as [-> |NE].
    + rewrite upd_same in Ib. destruct Ib.
    + rewrite !upd_other in * by exact NE. apply (HO2 k'); auto.
  - exact T.
  - intros k' x I. apply AP, A, I.
  - intros it I k' x R. destruct (HS it I k' x R) as [P D]. split; [apply AP, P|exact D].
  - intros it I k' l R. apply AP, (W it I k' l R).
  - exact E.
Qed.

Lemma inv_flush s k : Inv s -> Inv (jstep s (JFlush k)).
Proof.
  intros [F HO HO2 T A HS W E]. cbn [jstep].
  assert (AP : forall k' x, applied s k' x <-> applied (set_mem s (m_act s) (upd (m_sld s) k []) (upd (m_flushed s) k (m_flushed s k ++ m_sld s k))
                                                          (upd (m_tab s) k (m_tab s k ++ m_sld s k))) k' x).
  { intros k' x. unfold applied. cbn. destruct (N.eqb_spec k' k) as [-> |NE].
    - rewrite !upd_same, in_app_iff. cbn. tauto.
    - rewrite !upd_other by exact NE. tauto. }
  assert (FL : forall k' x, In x (m_flushed s k') -> In x (upd (m_flushed s) k (m_flushed s k ++ m_sld s k) k')).
  { intros k' x I. destruct (N.eqb_spec k' k) as [-> |NE]; [rewrite upd_same; apply in_or_app; now left|now rewrite upd_other]. }
  split; cbn.
  - intros k' x P. apply (F k'), AP, P.
  - intros k' a b Ia Ib. destruct (N.eqb_spec k' k) as [-> |NE].
    + rewrite !upd_same in *. destruct Ib as [[]|Ib]. apply in_app_or in Ia.
      destruct Ia as [Ia|Ia]; [apply (HO k); auto|apply (HO2 k); auto].
    + rewrite !upd_other in * by exact NE. apply (HO k'); auto.
  - intros k' a b Ia Ib. destruct (N.eqb_spec k' k) as [-> |NE].
    + rewrite upd_same in Ia. destruct Ia.
    + rewrite !upd_other in * by exact NE. apply (HO2 k'); auto.
  - intros k' x I. destruct (N.eqb_spec k' k) as [-> |NE].
    + rewrite !upd_same in *. apply in_app_or in I. apply in_or_app. destruct I as [I|I]; [left; apply T, I|now right].
    + rewrite !upd_other in * by exact NE. apply T, I.
  - intros k' x I. apply AP, A, I.
  - intros it I k' x R. destruct (HS it I k' x R) as [P D]. split; [apply AP, P|].
    destruct D as [D|D]; [left; apply FL, D|now right].
  - intros it I k' l R. apply AP, (W it I k' l R).
  - intros k' x I. destruct (E k' x I) as [D|D]; [left; apply FL, D|now right].
Qed.

(* records are only ever written for keyspaces the supervisor knows *)
Definition Known (s : jm) : Prop :=
  (forall k x, In (k, x) (m_active s) -> In k (m_kss s)) /\
  (forall k x, In x (m_act s k) \/ In x (m_sld s k) -> In k (m_kss s)).

Lemma inv_seal s : Known s -> Inv s -> Inv (jstep s JSeal).
Proof.
  intros [KA KM] [F HO HO2 T A HS W E]. cbn [jstep]. split; cbn; auto.
  - intros k x [].
  - intros it I k x R. apply in_app_or in I. destruct I as [I|[<-|[]]]; [apply (HS it I k x R)|].
    cbn in R |- *. split; [apply A, R|]. destruct (A k x R) as [P|[P|P]]; [| |now left]; right.
    + apply seqno_map_covers; [apply (KM k x); now left|apply in_or_app; now right].
    + apply seqno_map_covers; [apply (KM k x); now right|apply in_or_app; now left].
  - intros it I k l R. apply in_app_or in I. destruct I as [I|[<-|[]]]; [apply (W it I k l R)|].
    cbn in R. apply seqno_map_in in R. unfold mem_high in R. apply max_list_in in R. apply in_app_or in R.
    unfold applied. tauto.
Qed.

(* what maintenance removes *)
Lemma evict_loop_spec s items : forall rest ev, evict_loop s items = (rest, ev) ->
  exists pre, items = pre ++ rest /\ Forall (fun it => can_evict s it = true) pre /\ ev = flat_map j_recs pre /\
              match rest with [] => True | it :: _ => can_evict s it = false end.
Proof.
  induction items as [|it r IH]; intros rest ev H; cbn in H.
  - injection H as <- <-. exists []. repeat split; constructor.
  - destruct (can_evict s it) eqn:C.
    + destruct (evict_loop s r) as [r' ev'] eqn:L. injection H as <- <-.
      destruct (IH r' ev' eq_refl) as [pre [E1 [E2 [E3 E4]]]]. exists (it :: pre). subst. repeat split; auto.
    + injection H as <- <-. exists []. repeat split; [constructor|exact C].
Qed.

Lemma inv_maint s : Inv s -> Inv (jstep s JMaint).
Proof.
  intros [F HO HO2 T A HS W E]. cbn [jstep]. destruct (evict_loop s (m_sealed s)) as [rest ev] eqn:L.
  destruct (evict_loop_spec s _ _ _ L) as [pre [E1 [E2 [E3 _]]]].
  assert (SUB : forall it, In it rest -> In it (m_sealed s)) by (intros it I; rewrite E1; apply in_or_app; now right).
  split; cbn; auto.
  { intros it I k x R. apply (HS it (SUB it I) k x R). }
  { intros it I k l R. apply (W it (SUB it I) k l R). }
  intros k x I. apply in_app_or in I. destruct I as [I|I]; [apply E, I|].
  subst ev. rewrite in_flat_map in I. destruct I as [it [Ip R]].
  assert (Is : In it (m_sealed s)) by (rewrite E1; apply in_or_app; now left).
  destruct (HS it Is k x R) as [P [D|[l [Wl Le]]]]; [now left|].
  rewrite Forall_forall in E2. specialize (E2 it Ip). unfold can_evict in E2. rewrite forallb_forall in E2.
  specialize (E2 (k, l) Wl). unfold wm_ok in E2. cbn [fst snd] in E2.
  destruct (m_del s k) eqn:D; [now right|]. cbn in E2. left.
  destruct (persisted s k) as [p|] eqn:Pk; [|discriminate]. unfold persisted in Pk.
  assert (Pin : In p (m_flushed s k)) by (apply T; apply max_list_in; exact Pk).
  destruct P as [P|[P|P]]; [| |exact P]; exfalso.
  - assert (p < x) by (apply (HO k); auto). lia.
  - assert (p < x) by (apply (HO k); auto). lia.
Qed.

Lemma inv_step s o : Known s -> Inv s -> Inv (jstep s o).
Proof.
  intros K I. destruct o as [k|ks|k|k|  |  |k|k x0].
  - destruct I as [F HO HO2 T A HS W E]. cbn [jstep]. destruct (existsb (N.eqb k) (m_kss s)); split; cbn; auto.
  - apply inv_write, I.
  - apply inv_rotate, I.
  - apply inv_flush, I.
  - apply inv_seal; assumption.
  - apply inv_maint, I.
  - destruct I as [F HO HO2 T A HS W E]. cbn [jstep]. split; cbn; auto.
    intros k' x I. destruct (E k' x I) as [D|D]; [now left|right]. unfold upd. destruct (k' =? k); [reflexivity|exact D].
  - destruct I as [F HO HO2 T A HS W E]. cbn [jstep]. split; cbn; auto.
    intros k' x I. apply T. unfold upd in I. destruct (k' =? k) eqn:Q; [|exact I].
    apply filter_In in I. apply N.eqb_eq in Q. subst. tauto.
Qed.

Lemma known_step s o : Known s -> Known (jstep s o).
Proof.
  intros [KA KM]. destruct o as [k|ks|k|k|  |  |k|k x0]; [cbn [jstep]| |cbn [jstep]..].
  - destruct (existsb (N.eqb k) (m_kss s)); split; cbn; auto.
    + intros k' x I. right. eapply KA, I.
    + intros k' x I. right. eapply KM, I.
  - rewrite jstep_write_eq. set (ks' := filter _ ks). cbv zeta. split; cbn.
    + intros k x I. apply in_app_or in I. destruct I as [I|I]; [eapply KA, I|].
      rewrite in_map_iff in I. destruct I as [k' [EQ K]]. injection EQ as E1 E2. subst k'.
      apply filter_In in K. destruct K as [_ K]. apply andb_prop in K. destruct K as [K _].
      rewrite existsb_exists in K. destruct K as [y [Iy Ey]]. apply N.eqb_eq in Ey. now subst.
    + intros k x [I|I]; [|apply (KM k x); now right].
      destruct (in_dec N.eq_dec k ks') as [K|NK].
      * apply filter_In in K. destruct K as [_ K]. apply andb_prop in K. destruct K as [K _].
        rewrite existsb_exists in K. destruct K as [y [Iy Ey]]. apply N.eqb_eq in Ey. now subst.
      * rewrite (proj1 (proj2 (fold_bump ks' (m_next s) (m_act s) k)) NK) in I. apply (KM k x). now left.
  - split; cbn; auto. intros k' x. destruct (N.eqb_spec k' k) as [-> |NE].
    + rewrite !upd_same, in_app_iff. intros [[]|[I|I]]; [apply (KM k x); now right|apply (KM k x); now left].
    + rewrite !upd_other by exact NE. apply KM.
  - split; cbn; auto. intros k' x. destruct (N.eqb_spec k' k) as [-> |NE].
    + rewrite !upd_same. intros [I|[]]. apply (KM k x). now left.
    + rewrite !upd_other by exact NE. apply KM.
  - split; cbn; auto. intros k x [].
  - destruct (evict_loop s (m_sealed s)). split; cbn; auto.
  - split; cbn; auto.
  - split; cbn; auto.
Qed.

Lemma known_init : Known jinit.
Proof. split; cbn; intros; tauto. Qed.

Lemma run_inv ops : forall s, Known s -> Inv s -> Known (fold_left jstep ops s) /\ Inv (fold_left jstep ops s).
Proof.
  induction ops as [|o r IH]; intros s K I; cbn [fold_left]; [split; assumption|].
  apply IH; [apply known_step, K|apply inv_step; assumption].
Qed.

(* ---- the theorems ---- *)
(* every record of every journal file that was ever unlinked had reached a table of its keyspace (or the keyspace was
   deleted), for every interleaving of writes, memtable rotations, flushes, journal sealing, maintenance, deletes and
   compactions *)
Theorem evicted_only_when_durable ops k x :
  In (k, x) (m_evicted (jrun ops)) -> In x (m_flushed (jrun ops) k) \/ m_del (jrun ops) k = true.
Proof. destruct (run_inv ops jinit known_init inv_init) as [_ I]. apply (i_evicted _ I). Qed.

(* maintenance reclaims a prefix of the sealed journals: oldest first, never out of order *)
Theorem maintenance_oldest_first s :
  exists pre, m_sealed s = pre ++ m_sealed (jstep s JMaint) /\
              m_evicted (jstep s JMaint) = m_evicted s ++ flat_map j_recs pre.
Proof.
  cbn [jstep]. destruct (evict_loop s (m_sealed s)) as [rest ev] eqn:L.
  destruct (evict_loop_spec s _ _ _ L) as [pre [E1 [_ [E3 _]]]]. exists pre. cbn. subst ev. auto.
Qed.

(* once every keyspace is flushed (no unflushed memtable data) and no compaction has dropped the newest flushed item,
   maintenance brings the number of journal files back to one *)
Definition all_flushed (s : jm) : Prop := forall k, m_act s k = [] /\ m_sld s k = [].
Definition newest_kept (s : jm) : Prop := forall k m, max_list (m_flushed s k) = Some m -> In m (m_tab s k).

Theorem back_to_one ops :
  all_flushed (jrun ops) -> newest_kept (jrun ops) -> journal_count (jstep (jrun ops) JMaint) = 1.
Proof.
  intros AF NK. destruct (run_inv ops jinit known_init inv_init) as [_ I]. set (s := jrun ops) in *.
  assert (ALL : forall items, (forall it, In it items -> In it (m_sealed s)) -> fst (evict_loop s items) = []).
  { induction items as [|it r IH]; intros SUB; cbn; [reflexivity|].
    assert (C : can_evict s it = true).
    { unfold can_evict. rewrite forallb_forall. intros [k l] Wl. unfold wm_ok. cbn [fst snd].
      destruct (m_del s k); [reflexivity|]. cbn.
      assert (P : applied s k l) by (apply (i_wm _ I it); [apply SUB; now left|exact Wl]).
      destruct (AF k) as [A1 A2]. unfold applied in P. rewrite A1, A2 in P. destruct P as [[]|[[]|P]].
      destruct (max_list_some _ _ P) as [m M]. pose proof (NK k m M) as Tm.
      destruct (max_list_some _ _ Tm) as [p Pp]. unfold persisted. rewrite Pp.
      pose proof (max_list_ge _ _ M l P). pose proof (max_list_ge _ _ Pp m Tm). lia. }
    rewrite C. destruct (evict_loop s r) as [r' ev'] eqn:L. cbn.
    exact (IH (fun it' H => SUB it' (or_intror H))). }
  unfold journal_count. cbn [jstep]. destruct (evict_loop s (m_sealed s)) as [rest ev] eqn:L. cbn.
  specialize (ALL (m_sealed s) (fun it H => H)). rewrite L in ALL. cbn in ALL. subst rest. reflexivity.
Qed.

(* non-vacuity: a run in which a lagging keyspace keeps the sealed journal alive, and a later flush lets it go *)
Definition c10_example : list jop :=
  [JCreate 1; JCreate 2; JWrite [1]; JWrite [2]; JWrite [1; 2]; JSeal; JRotate 1; JFlush 1; JMaint].
Lemma c10_example_runs :
  journal_count (jrun c10_example) = 2 /\ m_evicted (jrun c10_example) = [] /\
  journal_count (jrun (c10_example ++ [JRotate 2; JFlush 2; JMaint])) = 1 /\
  m_evicted (jrun (c10_example ++ [JRotate 2; JFlush 2; JMaint])) = [(1, 0); (2, 1); (1, 2); (2, 2)].
Proof. vm_compute. repeat split. Qed.
