From FJ Require Import Bytes BytesP Marker.
From Coq Require Import ZArith ZifyBool ZifyNat ZifyN.

Lemma check_version_ok_iff b :
  check_version b = OpenOk <-> exists r, b = 70 :: 74 :: 76 :: 3 :: r.
Proof.
  split.
  - unfold check_version, parse_file_header.
    destruct b as [|m0 [|m1 [|m2 [|v r]]]]; try discriminate.
    destruct (list_eqb [m0; m1; m2] MARKER_MAGIC) eqn:E; [|discriminate].
    apply list_eqb_eq in E. inversion E; subst.
    destruct (N.eqb_spec v 1); destruct (N.eqb_spec v 2); destruct (N.eqb_spec v 3); cbn; subst; try discriminate;
      intros _; eauto.
  - intros [r ->]. reflexivity.
Qed.

Lemma open_refuses_unmodified d b :
  ds_marker d = Some b -> (forall r, b <> 70 :: 74 :: 76 :: 3 :: r) ->
  fst (open_db d) = [] /\ exists v, snd (open_db d) = InvalidVersion v.
Proof.
  intros Hm Hb. unfold open_db. rewrite Hm.
  destruct (check_version b) eqn:E.
  - apply check_version_ok_iff in E as [r ->]. exfalso. eapply Hb; reflexivity.
  - cbn. eauto.
  - unfold check_version in E. destruct (parse_file_header b) as [v|]; [destruct (v =? 3)|]; discriminate.
  - unfold check_version in E. destruct (parse_file_header b) as [v|]; [destruct (v =? 3)|]; discriminate.
Qed.

Lemma open_locked_unmodified d b :
  ds_marker d = Some b -> ds_lock_held d = true ->
  fst (open_db d) = [] /\ snd (open_db d) <> OpenOk.
Proof.
  intros Hm Hl. unfold open_db. rewrite Hm, Hl. destruct (check_version b); cbn; split; auto; discriminate.
Qed.

Definition lock_inv (s : lockst) : Prop := l_locked s = true <-> (0 < l_refs s)%nat.

Lemma lock_step_inv s o : lock_inv s -> lock_inv (lock_step s o).
Proof.
  unfold lock_inv. intros [H1 H2]. destruct o; cbn.
  - destruct (l_locked s) eqn:E; cbn; [split; auto|split; [lia|reflexivity]].
  - destruct (l_locked s) eqn:E; cbn; [split; [lia|reflexivity]|rewrite E; split; auto].
  - destruct (l_refs s) as [|[|n]] eqn:E; cbn.
    + rewrite E. split; auto.
    + split; [discriminate|lia].
    + split; [lia|reflexivity].
Qed.

Lemma lock_run_inv ops : forall s, lock_inv s -> lock_inv (fold_left lock_step ops s).
Proof. induction ops as [|o ops IH]; intros s H; cbn; [exact H|]. apply IH, lock_step_inv, H. Qed.

(* "a directory whose version marker is absent ... is refused without being modified" does not hold of create_or_recover:
   an absent marker sends the open down the create_new path, which has file-system effects before it fails on the
   existing journal (known finding E18: the visible one is a fresh `lock` file when none existed) *)
Lemma absent_marker_refusal_has_effects :
  exists d, ds_marker d = None /\ snd (open_db d) = IoError /\ In FsCreateLockFile (fst (open_db d)).
Proof.
  exists {| ds_marker := None; ds_lock_held := false; ds_has_journal0 := true |}.
  cbn. repeat split. right. left. reflexivity.
Qed.
