(* PlainP.v — the program interpreter (Prog.v db_step / run: the function whose observation lines are compared with the
   implementation on every check run) on a plain database: every write / maintenance / reopen operation is one step of the
   database model the refinement theorems are about, and every latest-state read observation is the value the point read /
   scan of the latest version returns — which those theorems tie to the reference map.                                    *)
From FJ Require Import Bytes Codec Reader Lsm Tracker Db Prog BytesP LsmP TxP MapP FilterP OrderP DbOrderP SortP RefineP RecoverP RecoverInvP.
From Coq Require Import ZArith ZifyBool ZifyNat ZifyN Lia Sorted.

Definition bitem_ritem (d : db) (it : bitem) : option ritem :=
  match it with
  | BPut h k v => omap (fun ks => {| ri_ks := k_id ks; ri_key := k; ri_value := v; ri_vt := VValue |}) (handle_ks d h)
  | BDel h k => omap (fun ks => {| ri_ks := k_id ks; ri_key := k; ri_value := []; ri_vt := VTomb |}) (handle_ks d h)
  | BDelW h k => omap (fun ks => {| ri_ks := k_id ks; ri_key := k; ri_value := []; ri_vt := VWeak |}) (handle_ks d h)
  end.

(* the database-model operation a program operation is, in the state it is issued in (None: it changes nothing) *)
Definition rop_of (d : db) (o : op) : option rop :=
  match o with
  | OReopen => Some RReopen
  | OKs h name => Some (RW (WKs h name))
  | ODelKs h => Some (RDelKs h)
  | OPut h k v => omap (fun ks => RW (WWrite (k_id ks) k v VValue VValue)) (handle_ks d h)
  | ODel h k => omap (fun ks => RW (WWrite (k_id ks) k [] VTomb VTomb)) (handle_ks d h)
  | ODelW h k => omap (fun ks => RW (WWrite (k_id ks) k [] VWeak VTomb)) (handle_ks d h)
  | OClear h => omap (fun ks => RW (WClear (k_id ks))) (handle_ks d h)
  | OIngest h items => omap (fun ks => RW (WIngest (k_id ks) items)) (handle_ks d h)
  | ORotate h => omap (fun ks => RW (WRotate' (k_id ks))) (handle_ks d h)
  | OStep => Some (RW WStep)
  | ODrain => Some (RW (WDrain 200))
  | OMajor h => omap (fun ks => RW (WMajor (k_id ks) true)) (handle_ks d h)
  | OBatch items =>
      let resolved := map (bitem_ritem d) items in
      if existsb (fun x => match x with None => true | Some _ => false end) resolved then None
      else match flat_map (fun x => match x with Some i => [i] | None => [] end) resolved with
           | [] => None
           | its => if d_poisoned d then None else Some (RW (WBatch its its))
           end
  | _ => None
  end.

Definition plain_op (o : op) : bool :=
  match o with
  | OReopen | OKs _ _ | ODelKs _ | OPut _ _ _ | ODel _ _ | ODelW _ _ | OClear _ | OBatch _ | OIngest _ _ | OPersist
  | ORotate _ | OStep | ODrain | OMajor _ | OExists _ | ONames
  | OGet VwNone _ _ | OHas VwNone _ _ | OSize VwNone _ _ | OFirst VwNone _ | OLast VwNone _ | OLen VwNone _ | OEmpty VwNone _
  | OScan VwNone _ _ _ | ODump => true
  | _ => false
  end.

Lemma read_op_plain d h track f : d_mode d = MPlain ->
  fst (read_op d VwNone h track f) = d.
Proof.
  intros M. unfold read_op. destruct (handle_ks d h) as [ks|]; [|reflexivity]. cbn [resolve_view].
  destruct (f RvLatest (k_id ks) (k_tree ks)); [|reflexivity]. cbn [fst]. unfold mark. rewrite M. reflexivity.
Qed.

(* the state part: one interpreter step is one model step (or none) *)
Theorem plain_step_state d o : d_mode d = MPlain -> plain_op o = true ->
  fst (db_step as_is d o) = match rop_of d o with Some r => rstep d r | None => d end.
Proof.
  intros M P. destruct o; cbn [plain_op] in P; try discriminate; unfold db_step; rewrite ?M; cbn [rop_of rstep wstep fst snd];
    try reflexivity;
    try (destruct (handle_ks d h) as [ks|]; cbn [omap rstep wstep fst]; reflexivity);
    try (destruct v; try discriminate; apply read_op_plain, M).
  - (* batch *)
    fold (bitem_ritem d).
    replace (map (fun it => match it with
                            | BPut h k v => omap (fun ks => {| ri_ks := k_id ks; ri_key := k; ri_value := v; ri_vt := VValue |}) (handle_ks d h)
                            | BDel h k => omap (fun ks => {| ri_ks := k_id ks; ri_key := k; ri_value := []; ri_vt := VTomb |}) (handle_ks d h)
                            | BDelW h k => omap (fun ks => {| ri_ks := k_id ks; ri_key := k; ri_value := []; ri_vt := VWeak |}) (handle_ks d h)
                            end) items) with (map (bitem_ritem d) items) by reflexivity.
    destruct (existsb _ (map (bitem_ritem d) items)); [reflexivity|].
    destruct (flat_map _ (map (bitem_ritem d) items)); [reflexivity|]. destruct (d_poisoned d); reflexivity.
  - (* rotate *) destruct (handle_ks d h) as [ks|]; cbn [omap rstep wstep fst]; [|reflexivity]. destruct (do_rotate d (k_id ks)); reflexivity.
  - (* step *) destruct (do_step d); reflexivity.
  - (* drain *) destruct (do_drain 200 d 0); reflexivity.
Qed.

(* the mode never changes *)
Lemma mode_do_rotate d id : d_mode (fst (do_rotate d id)) = d_mode d.
Proof. unfold do_rotate. destruct (ks_of d id); [|reflexivity]. destruct (t_rotate _) as [t ok]. destruct ok; reflexivity. Qed.
Lemma mode_do_step d : d_mode (fst (do_step d)) = d_mode d.
Proof.
  unfold do_step. destruct (d_queue d) as [|m q]; [reflexivity|]. destruct m as [id mid| |id].
  - destruct (ks_of _ id) as [ks|]; [|reflexivity]. destruct (_ =? _); [|reflexivity]. cbn [fst]. rewrite mode_do_rotate. reflexivity.
  - destruct (d_flushq _) as [|id fq]; [reflexivity|].
    match goal with |- context [maybe_seal ?X] => set (dd := X) end.
    assert (E1 : d_mode (maybe_seal dd) = d_mode d) by (unfold maybe_seal; destruct (_ && _); reflexivity).
    destruct (ks_of (maybe_seal dd) id) as [ks|]; [|exact E1]. cbn [fst]. destruct (v_sealed (latest (k_tree ks))); exact E1.
  - reflexivity.
Qed.
Lemma mode_do_drain f : forall d n, d_mode (fst (do_drain f d n)) = d_mode d.
Proof. induction f as [|f IH]; intros d n; cbn [do_drain]; [reflexivity|]. destruct (d_queue d); [reflexivity|]. rewrite IH. apply mode_do_step. Qed.

Lemma rstep_mode d r : d_mode (rstep d r) = d_mode d.
Proof.
  destruct r as [o| |h]; cbn [rstep]; [|unfold do_reopen, recover;
    repeat match goal with |- context [fold_left ?F ?L ?A] => destruct (fold_left F L A) as [[? ?] ?] || destruct (fold_left F L A) as [? ?] end; reflexivity|
    unfold do_delks; destruct (alookup h (d_handles d)) as [id|]; [|reflexivity]; destruct (ks_of d id) as [ks|]; [|reflexivity];
    cbn [fst]; destruct (blookup (k_name ks) (d_map d)); reflexivity].
  destruct o; cbn [wstep].
  - unfold do_ks. destruct (blookup name (d_map d)); reflexivity.
  - unfold write_one. destruct (ks_of d id) as [ks|]; [|reflexivity]. destruct (k_deleted ks); [reflexivity|]. destruct (d_poisoned d); reflexivity.
  - reflexivity.
  - unfold do_clear. destruct (ks_of d id) as [ks|]; [|reflexivity]. destruct (d_poisoned d); reflexivity.
  - apply mode_do_rotate.
  - apply mode_do_step.
  - apply mode_do_drain.
  - unfold do_compact. destruct (ks_of d id) as [ks|]; [|reflexivity]. destruct (v_tables _); reflexivity.
  - unfold do_ingest. destruct (ks_of d id) as [ks|]; [|reflexivity]. destruct items; [reflexivity|].
    destruct (t_rotate (k_tree ks)) as [t1 b]. destruct (v_sealed (latest t1)); reflexivity.
Qed.

(* every state the interpreter reaches on a plain program is a state the database model reaches by its own operations *)
Theorem plain_run_reachable prog : forall d, d_mode d = MPlain -> forallb plain_op prog = true ->
  exists rs, fst (run as_is d prog) = fold_left rstep rs d.
Proof.
  induction prog as [|o r IH]; intros d M P; cbn [run]; [exists []; reflexivity|].
  cbn [forallb] in P. apply andb_true_iff in P as [P1 P2].
  pose proof (plain_step_state d o M P1) as E.
  destruct (db_step as_is d o) as [d1 x] eqn:S. cbn [fst] in E.
  assert (M1 : d_mode d1 = MPlain) by (rewrite E; destruct (rop_of d o); [rewrite rstep_mode|]; exact M).
  destruct (IH d1 M1 P2) as [rs R]. destruct (run as_is d1 r) as [d2 xs]. cbn [fst] in *.
  rewrite R, E. destruct (rop_of d o) as [ro|]; [exists (ro :: rs)|exists rs]; reflexivity.
Qed.

(* the observation part: what a latest-state read of a reachable state prints *)
Section Reads.
  Variable filters : list (bytes * frule).
  Variable rs : list rop.
  Let d := fold_left rstep rs (db_init MPlain filters).
  Variable h : N.
  Variable ks : kspace.
  Hypothesis HK : handle_ks d h = Some ks.
  Hypothesis BOUND : d_seqno d < MAXSEQ.        (* the seqno counter has not reached SeqNo::MAX (the code asserts < 2^63) *)

  Lemma mode_d : d_mode d = MPlain.
  Proof.
    unfold d. clear HK BOUND. generalize (db_init MPlain filters), (eq_refl : d_mode (db_init MPlain filters) = MPlain).
    induction rs as [|r l IH]; intros d0 M; cbn [fold_left]; [exact M|]. apply IH. rewrite rstep_mode. exact M.
  Qed.

  Lemma ks_in : In ks (d_kss d).
  Proof. unfold handle_ks in HK. destruct (alookup h (d_handles d)); [|discriminate]. exact (ks_of_in _ _ _ HK). Qed.

  Theorem plain_get_obs k :
    db_step as_is d (OGet VwNone h k) = (d, Ox (ObOpt (abs MAXSEQ (k_tree ks) k))).
  Proof.
    destruct (reads_after_reopen MPlain filters rs ks k MAXSEQ ks_in BOUND) as [G _]. fold d in G.
    unfold db_step, read_op. rewrite HK. cbn [resolve_view view_get]. rewrite G. cbn [omap]. unfold mark. rewrite mode_d. reflexivity.
  Qed.

  Theorem plain_scan_obs dir r :
    exists sc, db_step as_is d (OScan VwNone h dir r) = (d, Ox (ObList (consume dir (restrict r sc)))) /\
               StronglySorted (fun a b => bytes_ltb (fst a) (fst b) = true) sc /\
               forall k v, In (k, v) sc <-> abs MAXSEQ (k_tree ks) k = Some v.
  Proof.
    destruct (reads_after_reopen MPlain filters rs ks [] MAXSEQ ks_in BOUND) as [_ [sc [S [SO ME]]]]. fold d in S.
    exists sc. split; [|split; assumption].
    unfold db_step, read_op. rewrite HK. cbn [resolve_view view_scan]. rewrite S. cbn [omap]. unfold mark. rewrite mode_d. reflexivity.
  Qed.

  Theorem plain_len_obs :
    exists sc, db_step as_is d (OLen VwNone h) = (d, Ox (ObNum (N.of_nat (length sc)))) /\
               db_step as_is d (OFirst VwNone h) = (d, Ox (ObKv (kv_hd sc))) /\
               db_step as_is d (OLast VwNone h) = (d, Ox (ObKv (kv_last sc))) /\
               db_step as_is d (OEmpty VwNone h) = (d, Ox (ObBool (match sc with [] => true | _ => false end))) /\
               StronglySorted (fun a b => bytes_ltb (fst a) (fst b) = true) sc /\
               forall k v, In (k, v) sc <-> abs MAXSEQ (k_tree ks) k = Some v.
  Proof.
    destruct (reads_after_reopen MPlain filters rs ks [] MAXSEQ ks_in BOUND) as [_ [sc [S [SO ME]]]]. fold d in S.
    exists sc. repeat split; try assumption; try apply ME;
      unfold db_step, read_op; rewrite HK; cbn [resolve_view view_scan]; rewrite S; cbn [omap]; unfold mark; rewrite mode_d; reflexivity.
  Qed.
End Reads.

(* ---- the observation list of a whole program ---- *)
Lemma run_app cfg p1 : forall d p2,
  run cfg d (p1 ++ p2) = (fst (run cfg (fst (run cfg d p1)) p2), snd (run cfg d p1) ++ snd (run cfg (fst (run cfg d p1)) p2)).
Proof.
  induction p1 as [|o r IH]; intros d p2; cbn [app run].
  - cbn [fst snd app]. destruct (run cfg d p2); reflexivity.
  - destruct (db_step cfg d o) as [d1 x]. rewrite IH. destruct (run cfg d1 r) as [d2 xs]. cbn [fst snd app]. reflexivity.
Qed.

Lemma run_length cfg p : forall d, length (snd (run cfg d p)) = length p.
Proof.
  induction p as [|o r IH]; intros d; cbn [run]; [reflexivity|]. destruct (db_step cfg d o) as [d1 x]. specialize (IH d1).
  destruct (run cfg d1 r) as [d2 xs]. cbn [snd length] in *. rewrite IH. reflexivity.
Qed.

(* the line the interpreter prints for a `get` anywhere in a plain program (any writes, maintenance, deletions and reopens before
   it) is the latest-version point read of the state the model reaches there *)
Theorem plain_program_get_line filters p1 p2 h k :
  forallb plain_op p1 = true ->
  let d0 := db_init MPlain filters in
  let d := fst (run as_is d0 p1) in
  forall ks, handle_ks d h = Some ks -> d_seqno d < MAXSEQ ->
  nth (length p1) (snd (run as_is d0 (p1 ++ OGet VwNone h k :: p2))) (Ox ObBadref) = Ox (ObOpt (abs MAXSEQ (k_tree ks) k)) /\
  exists rs, d = fold_left rstep rs d0.
Proof.
  intros P d0 d ks HK B.
  destruct (plain_run_reachable p1 d0 eq_refl P) as [rs R]. fold d in R.
  split; [|exists rs; exact R].
  rewrite run_app. cbn [snd]. rewrite app_nth2 by (rewrite run_length; lia). rewrite run_length, Nat.sub_diag.
  fold d. cbn [run]. assert (E : db_step as_is d (OGet VwNone h k) = (d, Ox (ObOpt (abs MAXSEQ (k_tree ks) k)))).
  { revert HK B. rewrite R. intros HK B. unfold d0. exact (plain_get_obs filters rs h ks HK B k). }
  rewrite E. destruct (run as_is d p2). reflexivity.
Qed.
