(* OrderP.v — the sources of a tree's latest version stay ordered by recency under every sequence of tree operations
   that respects the write discipline; hence point reads agree with scans (C01, C04).                              *)
From FJ Require Import Bytes Codec Lsm BytesP LsmP TxP MapP FilterP.
From Coq Require Import ZArith ZifyBool ZifyNat ZifyN Lia.

Definition srcs (t : tree) : list (list ent) :=
  mem_of t (v_active (latest t)) :: map (mem_of t) (v_sealed (latest t)) ++ [v_tables (latest t)].

Fixpoint Ordered (s : list (list ent)) : Prop :=
  match s with
  | [] => True
  | a :: r => (forall x y, In x a -> In y (concat r) -> es y < es x) /\ Ordered r
  end.

Lemma ordered_recency k I s : Ordered s -> recency_ordered k I s.
Proof.
  induction s as [|a r IH]; cbn; [auto|]. intros [H1 H2]. split; [|apply IH, H2].
  intros x y Ix Iy _ _ _ _. specialize (H1 x y Ix Iy). lia.
Qed.

(* ---- the compaction / flush stream only emits (key, seqno) slots it was given ---- *)
Definition slot_in (e : ent) (l : list ent) : Prop := exists x, In x l /\ ek x = ek e /\ es x = es e.

Lemma slot_in_incl e l l' : (forall x, In x l -> In x l') -> slot_in e l -> slot_in e l'.
Proof. intros H [x [I E]]. exists x. split; [apply H, I|exact E]. Qed.

Lemma gc_key_slots W ev f : forall l e, In e (gc_key W ev f l) -> slot_in e l.
Proof.
  induction l as [|h t IH]; intros e H; cbn [gc_key] in H; [destruct H|].
  assert (HS : slot_in (apply_filter f h) (h :: t)).
  { exists h. split; [now left|]. destruct (apply_filter_slot f h) as [A B]. split; congruence. }
  assert (HD : forall e, In e (if is_tomb (apply_filter f h) && ev then [] else [apply_filter f h]) -> slot_in e (h :: t)).
  { intros e0 H0. destruct (is_tomb (apply_filter f h) && ev); [destruct H0|]. destruct H0 as [<-|[]]. exact HS. }
  destruct t as [|p t'].
  - apply HD, H.
  - destruct (es p <? W).
    + apply HD, H.
    + destruct H as [<-|H]; [exact HS|]. apply (slot_in_incl e (p :: t')); [intros x I; now right|]. apply IH, H.
Qed.

Lemma take_key_app k : forall l g r, take_key k l = (g, r) -> l = g ++ r.
Proof.
  induction l as [|e t IH]; intros g r H; cbn [take_key] in H; [injection H as <- <-; reflexivity|].
  destruct (list_eqb (ek e) k).
  - destruct (take_key k t) as [g' r'] eqn:T. injection H as <- <-. cbn. f_equal. apply IH. reflexivity.
  - injection H as <- <-. reflexivity.
Qed.

Lemma gc_groups_slots W ev f : forall n l e, In e (gc_groups n W ev f l) -> slot_in e l.
Proof.
  induction n as [|n IH]; intros l e H; cbn [gc_groups] in H.
  - exists e. auto.
  - destruct l as [|e0 t]; [destruct H|].
    destruct (take_key (ek e0) (e0 :: t)) as [g r] eqn:T. pose proof (take_key_app _ _ _ _ T) as E.
    apply in_app_or in H. destruct H as [H|H].
    + apply (slot_in_incl e g); [intros x I; rewrite E; apply in_or_app; now left|]. apply gc_key_slots in H. exact H.
    + apply (slot_in_incl e r); [intros x I; rewrite E; apply in_or_app; now right|]. apply IH, H.
Qed.

Lemma ins_ent_in e : forall l x, In x (ins_ent e l) -> x = e \/ In x l.
Proof.
  induction l as [|y r IH]; intros x H; cbn [ins_ent] in H.
  - destruct H as [<-|[]]. now left.
  - destruct (ent_before y e || same_slot y e).
    + destruct H as [<-|H]; [right; now left|]. destruct (IH _ H); [now left|right; now right].
    + destruct H as [<-|H]; [now left|now right].
Qed.

Lemma sort_ents_in l x : In x (sort_ents l) -> In x l.
Proof.
  unfold sort_ents. intros H. apply in_rev. revert x H. induction (rev l) as [|e r IH]; intros x H; cbn in H; [destruct H|].
  apply ins_ent_in in H. destruct H as [->|H]; [now left|right; apply IH, H].
Qed.

Lemma gc_stream_slots W ev f l e : In e (gc_stream W ev f l) -> slot_in e l.
Proof.
  unfold gc_stream. intros H. apply gc_groups_slots in H.
  eapply slot_in_incl; [|exact H]. intros x. apply sort_ents_in.
Qed.

(* ---- the invariant ---- *)
Definition has_mem (t : tree) (id : N) : Prop := exists m, find (fun m => m_id m =? id) (mems t) = Some m.
Definition act_ok (t : tree) : Prop := has_mem t (v_active (latest t)).

Lemma has_mem_set t a l id : has_mem t id -> exists m, find (fun m => m_id m =? id) (set_mem t a l) = Some m.
Proof.
  unfold has_mem, set_mem. induction (mems t) as [|x r IH]; intros [m H]; cbn [find map] in *; [discriminate|].
  destruct (N.eqb_spec (m_id x) a) as [E|NE].
  - cbn [m_id]. destruct (N.eqb_spec a id) as [E2|NE2].
    + eauto.
    + destruct (N.eqb_spec (m_id x) id); [lia|]. apply IH. eauto.
  - destruct (m_id x =? id); [eauto|apply IH; eauto].
Qed.

Record TInv (t : tree) : Prop := {
  ti_ids : ids_ok t;
  ti_distinct : ~ In (v_active (latest t)) (v_sealed (latest t));
  ti_ord : Ordered (srcs t);
  ti_act : act_ok t             (* the active memtable of the latest version exists in the memtable heap *)
}.

(* the write discipline: what fjall guarantees about the parameters it passes *)
Definition disciplined (t : tree) (o : tree_op) : Prop :=
  match o with
  | TAppend e => forall y, In y (concat (tl (srcs t))) -> es y < es e     (* newer than everything sealed or in tables *)
  | TIngest g items => mem_of t (v_active (latest t)) = [] /\
                       Forall (fun id => mem_of t id = []) (v_sealed (latest t))       (* memtables flushed first *)
  | _ => True
  end.

Lemma latest_maint W t : vers t <> [] -> latest (vh_maintenance W t) = latest t.
Proof.
  intros NE. unfold vh_maintenance. destruct (W =? 0); [reflexivity|].
  destruct (vers t) as [|v [|w r]] eqn:V; [congruence|unfold latest; now rewrite V|].
  destruct (existsb _ _); [|unfold latest; now rewrite V].
  unfold latest. rewrite V. cbn [vers keep_from_first]. destruct (v_seq v <? W); reflexivity.
Qed.
Lemma mems_maint W t : mems (vh_maintenance W t) = mems t.
Proof.
  unfold vh_maintenance. destruct (W =? 0); [reflexivity|]. destruct (vers t) as [|v [|w r]]; try reflexivity.
  destruct (existsb _ _); reflexivity.
Qed.
Lemma srcs_maint W t : vers t <> [] -> srcs (vh_maintenance W t) = srcs t.
Proof.
  intros NE. unfold srcs. rewrite (latest_maint W t NE). unfold mem_of. rewrite mems_maint. reflexivity.
Qed.

Lemma ordered_tl a r : Ordered (a :: r) -> Ordered r.
Proof. intros [_ H]. exact H. Qed.

Lemma ordered_replace_last (P : ent -> Prop) : forall (s : list (list ent)) (tb tb' : list ent),
  (forall y, In y tb' -> slot_in y tb) -> Ordered (s ++ [tb]) -> Ordered (s ++ [tb']).
Proof.
  induction s as [|a r IH]; intros tb tb' SUB H; cbn [app] in *.
  - cbn. split; [intros x y _ []|exact I].
  - destruct H as [H1 H2]. split; [|apply (IH tb tb' SUB H2)].
    intros x y Ix Iy. rewrite concat_app in Iy. cbn [concat] in Iy. rewrite app_nil_r in Iy.
    apply in_app_or in Iy. destruct Iy as [Iy|Iy].
    + apply H1; [exact Ix|]. rewrite concat_app. apply in_or_app. now left.
    + destruct (SUB y Iy) as [z [Iz [_ Es]]]. rewrite <- Es. apply H1; [exact Ix|].
      rewrite concat_app. apply in_or_app. right. cbn. rewrite app_nil_r. exact Iz.
Qed.

Lemma rotate_shape t e0 l0 : vers t <> [] -> mem_of t (v_active (latest t)) = e0 :: l0 ->
  let t' := fst (t_rotate t) in
  latest t' = {| v_seq := v_seq (latest t); v_active := next_mid t;
                 v_sealed := v_active (latest t) :: v_sealed (latest t); v_tables := v_tables (latest t) |} /\
  mem_of t' (next_mid t) = [] /\ (forall id, id < next_mid t -> mem_of t' id = mem_of t id).
Proof.
  intros NE ME. unfold t_rotate. rewrite ME. cbn [fst]. repeat split.
  - unfold latest, with_latest. cbn [vers]. destruct (vers t) as [|v0 r]; [congruence|]. reflexivity.
  - unfold mem_of. cbn [mems find m_id]. rewrite N.eqb_refl. reflexivity.
  - intros id LT. unfold mem_of. cbn [mems find m_id]. destruct (N.eqb_spec (next_mid t) id); [lia|reflexivity].
Qed.

Theorem tinv_step t o : TInv t -> disciplined t o -> TInv (apply_top t o).
Proof.
  intros [OK DI OR AC] D. pose proof OK as [NE IDS]. destruct (IDS _ (latest_in t NE)) as [La Ls].
  split; [apply ids_ok_apply, OK| | |].
  - (* active id not among the sealed ids *)
    destruct o as [e| |W s|W s ev f|s|g items|W]; cbn [apply_top].
    + exact DI.
    + destruct (mem_of t (v_active (latest t))) as [|e0 l0] eqn:ME; [unfold t_rotate; rewrite ME; exact DI|].
      destruct (rotate_shape t e0 l0 NE ME) as [SH _]. rewrite SH. cbn [v_active v_sealed].
      intros [E|I]; [lia|]. specialize (Ls _ I). lia.
    + unfold t_flush. destruct (v_sealed (latest t)) eqn:SE; [cbn [fst]; rewrite SE; exact DI|].
      destruct (gc_stream _ _ _ _); [cbn [fst]; rewrite SE; exact DI|]. cbn [fst].
      rewrite latest_maint by (cbn; discriminate). unfold latest. cbn. intros [].
    + unfold t_compact. destruct (v_tables (latest t)); [exact DI|].
      rewrite latest_maint by (cbn; discriminate). unfold latest at 1 2. cbn. exact DI.
    + unfold t_clear, latest. cbn. intros [].
    + unfold t_register_ingest, latest at 1 2. cbn. exact DI.
    + rewrite latest_maint by exact NE. exact DI.
  - (* ordered sources *)
    destruct o as [e| |W s|W s ev f|s|g items|W]; cbn [apply_top disciplined] in *.
    + (* append *)
      assert (L : latest (t_append t e) = latest t) by reflexivity.
      unfold srcs in *. rewrite L. set (a := v_active (latest t)) in *.
      assert (MA : mem_of (t_append t e) a
                   = match find (fun m => m_id m =? a) (mems t) with Some _ => mem_insert e (mem_of t a) | None => [] end)
        by (rewrite mem_of_mo; unfold t_append; cbn [mems]; unfold set_mem; apply mo_set_same).
      assert (MO : forall id, id <> a -> mem_of (t_append t e) id = mem_of t id)
        by (intros id NEQ; rewrite !mem_of_mo; unfold t_append; cbn [mems]; unfold set_mem; apply mo_set_other; exact NEQ).
      assert (MS : map (mem_of (t_append t e)) (v_sealed (latest t)) = map (mem_of t) (v_sealed (latest t))).
      { apply map_ext_in. intros id I. apply MO. intros ->. exact (DI I). }
      rewrite MS. destruct OR as [O1 O2]. split; [|exact O2].
      intros x y Ix Iy. rewrite MA in Ix. destruct (find _ (mems t)); [|destruct Ix].
      destruct Ix as [<-|Ix]; [apply D; cbn [tl]; exact Iy|].
      apply filter_In in Ix as [Ix _]. apply O1; assumption.
    + (* rotate *)
      destruct (mem_of t (v_active (latest t))) as [|e0 l0] eqn:ME; [unfold t_rotate; rewrite ME; exact OR|].
      destruct (rotate_shape t e0 l0 NE ME) as [SH [NEW FR]].
      unfold srcs in *. rewrite SH. cbn [v_active v_sealed v_tables map]. rewrite NEW, (FR _ La).
      replace (map (mem_of (fst (t_rotate t))) (v_sealed (latest t))) with (map (mem_of t) (v_sealed (latest t)))
        by (symmetry; apply map_ext_in; intros id I; apply FR, Ls, I).
      rewrite ME in OR. split; [intros x y []|]. rewrite ME. exact OR.
    + (* flush *)
      unfold t_flush. destruct (v_sealed (latest t)) as [|i0 ids] eqn:SE; [exact OR|].
      destruct (gc_stream W false None (flat_map (mem_of t) (i0 :: ids))) as [|o1 out] eqn:G; [cbn [fst]; exact OR|]. cbn [fst].
      rewrite srcs_maint by (cbn; discriminate).
      match goal with |- Ordered (srcs ?T) => set (t' := T) end.
      unfold srcs in *. change (latest t') with (hd dummy_version (vers t')). change (mem_of t') with (mem_of t).
      subst t'. cbn [vers hd v_active v_sealed v_tables map app].
      rewrite SE in OR. destruct OR as [O1 O2]. split; [|split; [intros x y _ []|exact I]].
      intros x y Ix Iy. cbn [concat] in Iy. rewrite app_nil_r in Iy.
      change (o1 :: out ++ v_tables (latest t)) with ((o1 :: out) ++ v_tables (latest t)) in Iy.
      apply in_app_or in Iy. destruct Iy as [Iy|Iy].
      * assert (SL : slot_in y (flat_map (mem_of t) (i0 :: ids))) by (apply (gc_stream_slots W false None); rewrite G; exact Iy).
        destruct SL as [z [Iz [_ Es]]]. rewrite <- Es. apply O1; [exact Ix|].
        rewrite concat_app. apply in_or_app. left. rewrite <- flat_map_concat_map. exact Iz.
      * apply O1; [exact Ix|]. rewrite concat_app. apply in_or_app. right. cbn. rewrite app_nil_r. exact Iy.
    + (* compaction *)
      unfold t_compact. destruct (v_tables (latest t)) as [|t0 tb] eqn:TB; [exact OR|].
      rewrite srcs_maint by (cbn; discriminate).
      match goal with |- Ordered (srcs ?T) => set (t' := T) end.
      unfold srcs in *. change (latest t') with (hd dummy_version (vers t')). change (mem_of t') with (mem_of t).
      subst t'. cbn [vers hd v_active v_sealed v_tables].
      rewrite TB in OR.
      change (mem_of t (v_active (latest t)) :: map (mem_of t) (v_sealed (latest t)) ++ [gc_stream W ev f (t0 :: tb)])
        with ((mem_of t (v_active (latest t)) :: map (mem_of t) (v_sealed (latest t))) ++ [gc_stream W ev f (t0 :: tb)]).
      apply (ordered_replace_last (fun _ => True) _ (t0 :: tb)); [intros y Iy; apply (gc_stream_slots W ev f), Iy|exact OR].
    + (* clear *)
      unfold t_clear.
      match goal with |- Ordered (srcs ?T) => set (t' := T) end.
      assert (E : mem_of t' (next_mid t) = []) by (unfold mem_of; subst t'; cbn [mems find m_id]; rewrite N.eqb_refl; reflexivity).
      unfold srcs. change (latest t') with (hd dummy_version (vers t')). subst t'. cbn [vers hd v_active v_sealed v_tables map app].
      rewrite E. cbn. split; [intros x y []|split; [intros x y []|exact I]].
    + (* ingestion: the memtables were flushed first *)
      destruct D as [D1 D2]. unfold t_register_ingest.
      match goal with |- Ordered (srcs ?T) => set (t' := T) end.
      unfold srcs. change (latest t') with (hd dummy_version (vers t')). change (mem_of t') with (mem_of t).
      subst t'. cbn [vers hd v_active v_sealed v_tables].
      rewrite D1. split; [intros x y []|].
      clear -D2. induction (v_sealed (latest t)) as [|id r IH]; cbn [map app].
      * cbn. split; [intros x y _ []|exact I].
      * inversion D2 as [|? ? E1 E2]; subst. rewrite E1. split; [intros x y []|apply IH, E2].
    + rewrite srcs_maint by exact NE. exact OR.
  - (* the active memtable exists *)
    unfold act_ok in *.
    destruct o as [e| |W s|W s ev f|s|g items|W]; cbn [apply_top].
    + assert (L : latest (t_append t e) = latest t) by reflexivity. rewrite L. unfold has_mem, t_append. cbn [mems].
      apply has_mem_set. exact AC.
    + destruct (mem_of t (v_active (latest t))) as [|e0 l0] eqn:ME; [unfold t_rotate; rewrite ME; exact AC|].
      destruct (rotate_shape t e0 l0 NE ME) as [SH _]. rewrite SH. cbn [v_active]. unfold t_rotate. rewrite ME. cbn [fst].
      unfold has_mem. cbn [mems find m_id]. rewrite N.eqb_refl. eauto.
    + unfold t_flush. destruct (v_sealed (latest t)) eqn:SE; [exact AC|].
      destruct (gc_stream _ _ _ _); [exact AC|]. cbn [fst].
      rewrite latest_maint by (cbn; discriminate). unfold has_mem. rewrite mems_maint. exact AC.
    + unfold t_compact. destruct (v_tables (latest t)); [exact AC|].
      rewrite latest_maint by (cbn; discriminate). unfold has_mem. rewrite mems_maint. exact AC.
    + unfold t_clear, latest, has_mem. cbn [vers hd v_active mems find m_id]. rewrite N.eqb_refl. eauto.
    + exact AC.
    + rewrite latest_maint by exact NE. unfold has_mem. rewrite mems_maint. exact AC.
Qed.

Fixpoint run_disciplined (t : tree) (ops : list tree_op) : Prop :=
  match ops with
  | [] => True
  | o :: r => disciplined t o /\ run_disciplined (apply_top t o) r
  end.

Theorem tinv_run ops : forall t, TInv t -> run_disciplined t ops -> TInv (fold_left apply_top ops t).
Proof.
  induction ops as [|o r IH]; intros t I D; cbn [fold_left]; [exact I|]. destruct D as [D1 D2].
  apply IH; [apply tinv_step; assumption|exact D2].
Qed.

Lemma tinv_init : TInv tree_init.
Proof.
  split; [apply ids_ok_init|cbn; tauto| |].
  - unfold srcs, latest. cbn. repeat split; intros x y []; contradiction.
  - unfold act_ok, has_mem. cbn. rewrite N.eqb_refl. eauto.
Qed.

(* for every tree reached from the empty tree by disciplined operations, the point read of every key at every instant
   returns exactly the entry the scan would show for it *)
Theorem reads_agree ops k I :
  run_disciplined tree_init ops ->
  let t := fold_left apply_top ops tree_init in
  v_get_ent t (latest t) k I = newest k I (v_all t (latest t)).
Proof.
  intros D t. apply point_read_agrees_with_scan. apply ordered_recency.
  exact (ti_ord _ (tinv_run ops tree_init tinv_init D)).
Qed.

(* non-vacuity: a run with appends, a rotation, a flush, an overwrite and a compaction respects the discipline *)
Definition order_example : list tree_op :=
  [TAppend (mkEnt [107] 1 VValue [1]); TAppend (mkEnt [106] 2 VValue [2]); TRotate; TAppend (mkEnt [107] 3 VValue [3]);
   TFlush 0 4; TAppend (mkEnt [107] 5 VTomb []); TRotate; TFlush 0 6; TCompact 0 7 true None].
Lemma order_example_ok : run_disciplined tree_init order_example.
Proof.
  cbn. repeat split; intros y Hy; vm_compute in Hy; repeat (destruct Hy as [<-|Hy]); try contradiction; vm_compute; reflexivity.
Qed.
