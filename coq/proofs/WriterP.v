(* WriterP.v — what persist guarantees, for every sequence of journal writes and persists *)
From FJ Require Import Bytes BytesP Writer.
From Coq Require Import ZArith ZifyBool ZifyNat ZifyN.

Definition WInv (s : wst) : Prop :=
  (w_buf s <> [] -> w_dirty s = true) /\ (w_synced s <= length (w_os s))%nat.

Lemma content_flush s : w_content (flush_buf s) = w_content s.
Proof. unfold flush_buf, w_content. destruct (w_buf s) eqn:B; cbn; [now rewrite B|]. now rewrite app_nil_r. Qed.

Lemma flush_buf_eq s : w_buf (flush_buf s) = [] /\ w_os (flush_buf s) = w_os s ++ w_buf s.
Proof. unfold flush_buf. destruct (w_buf s) eqn:E; cbn; rewrite ?E, ?app_nil_r; auto. Qed.
Lemma flush_buf_rest s : w_synced (flush_buf s) = w_synced s /\ w_dirty (flush_buf s) = w_dirty s.
Proof. unfold flush_buf. destruct (w_buf s); cbn; auto. Qed.

Lemma content_write_all s d : w_content (w_write_all s d) = w_content s ++ d.
Proof.
  unfold w_write_all, w_content.
  destruct (Nat.ltb_spec CAP (length (w_buf s) + length d)) as [L|G].
  - destruct (flush_buf_eq s) as [BE OE].
    destruct (Nat.leb CAP (length d)); cbn [w_os w_buf]; rewrite BE, OE; rewrite ?app_nil_r, <- ?app_assoc; reflexivity.
  - destruct (Nat.leb_spec CAP (length d)) as [BIG|SMALL]; cbn [w_os w_buf].
    + assert (BE : w_buf s = []) by (destruct (w_buf s); [reflexivity|cbn [length] in G; lia]).
      rewrite BE, !app_nil_r. reflexivity.
    + rewrite app_assoc. reflexivity.
Qed.

Lemma content_write_batch s es : w_content (w_write_batch s es) = w_content s ++ concat es.
Proof.
  unfold w_write_batch.
  set (s0 := {| w_buf := w_buf s; w_os := w_os s; w_synced := w_synced s; w_dirty := true; w_log := w_log s |}).
  change (w_content s) with (w_content s0). clearbody s0. revert s0.
  induction es as [|e r IH]; intros s0; cbn [fold_left concat]; [now rewrite app_nil_r|].
  rewrite IH, content_write_all, app_assoc. reflexivity.
Qed.

Lemma content_persist s m : w_content (w_persist s m) = w_content s.
Proof.
  unfold w_persist. destruct (w_dirty s); destruct m; unfold w_content; cbn [w_os w_buf]; try reflexivity;
    fold (w_content (flush_buf s)); apply content_flush.
Qed.

(* invariant *)
Lemma inv_flush s : WInv s -> WInv (flush_buf s).
Proof.
  intros [A B]. destruct (flush_buf_eq s) as [BE OE]. destruct (flush_buf_rest s) as [SE DE].
  split; [rewrite BE; congruence|]. rewrite SE, OE, app_length. lia.
Qed.

Lemma inv_write_all s d : w_dirty s = true -> WInv s -> WInv (w_write_all s d) /\ w_dirty (w_write_all s d) = true.
Proof.
  intros D I. unfold w_write_all.
  set (s1 := if Nat.ltb CAP (length (w_buf s) + length d) then flush_buf s else s).
  assert (I1 : WInv s1 /\ w_dirty s1 = true).
  { unfold s1. destruct (Nat.ltb _ _); [split; [apply inv_flush; exact I|]|split; assumption].
    destruct (flush_buf_rest s) as [_ DE]. rewrite DE. exact D. }
  destruct I1 as [[A B] D1]. destruct (Nat.leb CAP (length d)); cbn; (split; [split|exact D1]); cbn; auto.
  rewrite app_length. lia.
Qed.

Lemma inv_write_batch s es : WInv s -> WInv (w_write_batch s es).
Proof.
  intros [A B]. unfold w_write_batch.
  set (s0 := {| w_buf := w_buf s; w_os := w_os s; w_synced := w_synced s; w_dirty := true; w_log := w_log s |}).
  assert (I0 : WInv s0 /\ w_dirty s0 = true) by (split; [split; cbn; auto|reflexivity]).
  clearbody s0. revert s0 I0. induction es as [|e r IH]; intros s0 [I0 D0]; cbn [fold_left]; [exact I0|].
  apply IH. apply inv_write_all; assumption.
Qed.

Lemma inv_persist s m : WInv s -> WInv (w_persist s m).
Proof.
  intros I. unfold w_persist.
  destruct (w_dirty s) eqn:D.
  - pose proof (inv_flush s I) as [A B]. destruct (flush_buf_eq s) as [BE OE].
    destruct m; split; cbn [w_buf w_os w_synced w_dirty]; rewrite ?BE; try congruence; try lia; auto.
  - destruct I as [A B]. destruct m; split; cbn [w_buf w_os w_synced w_dirty]; auto; try lia.
Qed.

Lemma inv_step s o : WInv s -> WInv (w_step s o).
Proof. destruct o; [apply inv_write_batch|apply inv_persist]. Qed.

Lemma inv_run ops : forall s, WInv s -> WInv (fold_left w_step ops s).
Proof. induction ops as [|o r IH]; intros s I; cbn; [exact I|]. apply IH, inv_step, I. Qed.

(* ---- what persist gives ---- *)
(* persist with any mode empties the user-space buffer: everything written so far is handed to the OS *)
Theorem persist_flushes s m : WInv s -> w_buf (w_persist s m) = [] /\ crash_image (w_persist s m) = w_content s.
Proof.
  intros [A B]. unfold w_persist, crash_image, w_content.
  destruct (w_dirty s) eqn:D.
  - destruct (flush_buf_eq s) as [BE OE]. destruct m; cbn [w_buf w_os]; rewrite ?BE, ?OE; auto.
  - assert (BE : w_buf s = []).
    { destruct (w_buf s) as [|x l] eqn:E; [reflexivity|]. exfalso. assert (T : false = true) by (apply A; discriminate). discriminate. }
    destruct m; cbn [w_buf w_os]; rewrite BE, ?app_nil_r; auto.
Qed.

(* persist(SyncData|SyncAll): everything written so far survives power loss *)
Theorem persist_sync_durable s m : WInv s -> m <> PBuffer ->
  powerloss_image (w_persist s m) = w_content s.
Proof.
  intros I NB. destruct (persist_flushes s m I) as [BE CE]. unfold powerloss_image.
  assert (SY : w_synced (w_persist s m) = length (w_os (w_persist s m))).
  { unfold w_persist. destruct (w_dirty s); destruct m; try contradiction; reflexivity. }
  rewrite SY, firstn_all. exact CE.
Qed.

(* the durable prefix only ever grows, and is a prefix of the logical stream *)
Theorem powerloss_prefix ops s : WInv s -> exists tl, w_content (fold_left w_step ops s) = powerloss_image (fold_left w_step ops s) ++ tl.
Proof.
  intros I. pose proof (inv_run ops s I) as [_ B]. set (s' := fold_left w_step ops s) in *.
  unfold powerloss_image, w_content. exists (skipn (w_synced s') (w_os s') ++ w_buf s').
  rewrite app_assoc, firstn_skipn. reflexivity.
Qed.

(* the logical stream is append-only over any sequence of operations: it is the concatenation of the entries written *)
Fixpoint written (ops : list wop) : bytes :=
  match ops with
  | [] => []
  | WBatch es :: r => concat es ++ written r
  | WPersist _ :: r => written r
  end.

Theorem content_run ops : forall s, w_content (fold_left w_step ops s) = w_content s ++ written ops.
Proof.
  induction ops as [|o r IH]; intros s; cbn [fold_left written]; [now rewrite app_nil_r|].
  rewrite IH. destruct o; cbn [w_step].
  - rewrite content_write_batch, app_assoc. reflexivity.
  - rewrite content_persist. reflexivity.
Qed.
