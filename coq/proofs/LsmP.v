(* LsmP.v — snapshot reads at an instant I are frozen under every tree operation
   whose new sequence numbers are >= I and whose GC watermark is <= I.           *)
From FJ Require Import Bytes Codec BytesP Lsm.
From Coq Require Import ZArith ZifyBool ZifyNat ZifyN.

(* ---- reads only depend on the entries visible at I ---- *)
Lemma best_vis k I l : forall acc, best k I l acc = best k I (vis I l) acc.
Proof.
  unfold vis. induction l as [|e r IH]; intros acc; cbn [best filter]; [reflexivity|].
  destruct (N.ltb_spec (es e) I) as [L|G].
  - cbn [best]. destruct (list_eqb (ek e) k); cbn [andb].
    + destruct (N.ltb_spec (es e) I); [|lia]. destruct acc as [a|]; [destruct (es a <? es e)|]; apply IH.
    + apply IH.
  - rewrite andb_false_r. apply IH.
Qed.
Lemma newest_vis k I l : newest k I l = newest k I (vis I l).
Proof. apply best_vis. Qed.

Lemma vis_idem I l : vis I (vis I l) = vis I l.
Proof.
  unfold vis. induction l as [|e r IH]; cbn; [reflexivity|].
  destruct (es e <? I) eqn:E; cbn; [rewrite E; f_equal|]; exact IH.
Qed.
Lemma vis_app I a b : vis I (a ++ b) = vis I a ++ vis I b.
Proof. unfold vis. apply filter_app. Qed.

Lemma scan_vis l1 l2 I : vis I l1 = vis I l2 -> scan_ents l1 I = scan_ents l2 I.
Proof. intros H. unfold scan_ents. now rewrite H. Qed.
Lemma newest_vis_eq k I l1 l2 : vis I l1 = vis I l2 -> newest k I l1 = newest k I l2.
Proof. intros H. rewrite (newest_vis k I l1), (newest_vis k I l2). now rewrite H. Qed.

Lemma vis_mem_insert I e l : I <= es e -> vis I (mem_insert e l) = vis I l.
Proof.
  intros H. unfold vis, mem_insert. cbn [filter].
  destruct (N.ltb_spec (es e) I); [lia|].
  induction l as [|x r IH]; cbn [filter]; [reflexivity|].
  destruct (same_slot e x) eqn:S; cbn [negb].
  - unfold same_slot in S. apply andb_true_iff in S as [_ S]. apply N.eqb_eq in S.
    destruct (N.ltb_spec (es x) I); [lia|]. exact IH.
  - cbn [filter]. destruct (es x <? I); [f_equal|]; exact IH.
Qed.

Lemma vis_zero l : vis 0 l = [].
Proof. unfold vis. induction l as [|e r IH]; cbn; [reflexivity|]. destruct (N.ltb_spec (es e) 0); [lia|exact IH]. Qed.

(* ---- well-formed trees ---- *)
Definition wf_tree (t : tree) : Prop :=
  vers t <> [] /\ (forall m, In m (mems t) -> m_id m < next_mid t).

Lemma mem_of_cons_fresh t l id : wf_tree t -> id < next_mid t ->
  mem_of {| mems := {| m_id := next_mid t; m_ents := l |} :: mems t; vers := vers t; next_mid := next_mid t + 1 |} id
  = mem_of t id.
Proof.
  intros _ H. unfold mem_of. cbn [mems find m_id]. destruct (N.eqb_spec (next_mid t) id); [lia|reflexivity].
Qed.

(* reading a version: depends on the memtable contents only through [mem_of] *)
Definition ver_reads (mo : N -> list ent) (v : version) (k : bytes) (I : N) : option ent * list (bytes * bytes) :=
  (first_some (newest k I (mo (v_active v)) :: map (fun id => newest k I (mo id)) (v_sealed v) ++ [newest k I (v_tables v)]),
   scan_ents (mo (v_active v) ++ flat_map mo (v_sealed v) ++ v_tables v) I).

Lemma v_reads_eq t v k I : (v_get_ent t v k I, scan_ents (v_all t v) I) = ver_reads (mem_of t) v k I.
Proof. reflexivity. Qed.

Lemma ver_reads_ext mo1 mo2 v k I :
  (forall id, vis I (mo1 id) = vis I (mo2 id)) -> ver_reads mo1 v k I = ver_reads mo2 v k I.
Proof.
  intros H. unfold ver_reads. f_equal.
  - f_equal. f_equal; [apply newest_vis_eq, H|]. f_equal. apply map_ext. intros id. apply newest_vis_eq, H.
  - apply scan_vis. rewrite !vis_app. f_equal; [apply H|]. f_equal.
    induction (v_sealed v) as [|x r IH]; cbn [flat_map]; [reflexivity|]. rewrite !vis_app, IH, H. reflexivity.
Qed.

(* the pair of observations through the tree API *)
Definition reads (t : tree) (k : bytes) (I : N) := (t_get t k I, t_scan t I).

Lemma reads_via t k I :
  reads t k I = match select_version t I with
                | None => (None, None)
                | Some v => let r := ver_reads (mem_of t) v k I in
                            (Some (match fst r with Some e => if is_tomb e then None else Some (ev e) | None => None end),
                             Some (snd r))
                end.
Proof. unfold reads, t_get, t_scan. destruct (select_version t I); reflexivity. Qed.

(* (A) appending an entry that is not visible at I *)
Definition mo_list (ms : list memt) (id : N) : list ent :=
  match find (fun m => m_id m =? id) ms with Some m => m_ents m | None => [] end.

Lemma mo_set_other ms a l id : id <> a ->
  mo_list (map (fun m => if m_id m =? a then {| m_id := a; m_ents := l |} else m) ms) id = mo_list ms id.
Proof.
  intros NE. unfold mo_list. induction ms as [|m r IH]; cbn [map find]; [reflexivity|].
  destruct (N.eqb_spec (m_id m) a) as [E|NE2]; cbn [m_id].
  - destruct (N.eqb_spec a id); [congruence|]. destruct (N.eqb_spec (m_id m) id); [congruence|]. exact IH.
  - destruct (N.eqb_spec (m_id m) id); [reflexivity|exact IH].
Qed.

Lemma mo_set_same ms a l :
  mo_list (map (fun m => if m_id m =? a then {| m_id := a; m_ents := l |} else m) ms) a
  = match find (fun m => m_id m =? a) ms with Some _ => l | None => [] end.
Proof.
  unfold mo_list. induction ms as [|m r IH]; cbn [map find]; [reflexivity|].
  destruct (N.eqb_spec (m_id m) a) as [E|NE]; cbn [m_id].
  - rewrite N.eqb_refl. reflexivity.
  - destruct (N.eqb_spec (m_id m) a); [congruence|]. exact IH.
Qed.

Lemma mem_of_mo t id : mem_of t id = mo_list (mems t) id.
Proof. reflexivity. Qed.

Lemma append_vis t e I id : I <= es e ->
  vis I (mem_of (t_append t e) id) = vis I (mem_of t id).
Proof.
  intros H. unfold t_append. rewrite !mem_of_mo. cbn [mems]. unfold set_mem.
  set (a := v_active (latest t)).
  destruct (N.eq_dec id a) as [->|NE].
  - rewrite mo_set_same. rewrite <- mem_of_mo. unfold mem_of at 2.
    destruct (find (fun m => m_id m =? a) (mems t)) as [m|] eqn:F; [|reflexivity].
    rewrite vis_mem_insert by exact H. unfold mem_of. rewrite F. reflexivity.
  - rewrite mo_set_other by exact NE. reflexivity.
Qed.

Theorem append_frozen t e k I : I <= es e -> reads (t_append t e) k I = reads t k I.
Proof.
  intros H. rewrite !reads_via.
  replace (select_version (t_append t e) I) with (select_version t I) by reflexivity.
  destruct (select_version t I) as [v|]; [|reflexivity].
  rewrite (ver_reads_ext (mem_of (t_append t e)) (mem_of t) v k I); [reflexivity|].
  intros id. apply append_vis. exact H.
Qed.

(* ---- version selection ---- *)
Definition ids_ok (t : tree) : Prop :=
  vers t <> [] /\
  forall v, In v (vers t) -> v_active v < next_mid t /\ forall id, In id (v_sealed v) -> id < next_mid t.

Lemma last_cons_nonempty {A} (x : A) l d : l <> [] -> last (x :: l) d = last l d.
Proof. destruct l; [congruence|reflexivity]. Qed.

(* (C) a new super-version whose seqno is not below I is never selected by a reader at I *)
Lemma select_push ms nm v' t I : vers t <> [] -> I <= v_seq v' ->
  select_version {| mems := ms; vers := v' :: vers t; next_mid := nm |} I = select_version t I.
Proof.
  intros NE H. unfold select_version. cbn [vers].
  destruct (N.eqb_spec I 0) as [->|NZ].
  - now rewrite last_cons_nonempty.
  - cbn [find]. destruct (N.ltb_spec (v_seq v') I); [lia|reflexivity].
Qed.

(* (D) SuperVersions::maintenance with a watermark W <= I keeps the version a reader at I selects *)
Lemma find_keep_from_first W I l : W <= I ->
  find (fun v => v_seq v <? I) (keep_from_first (fun v => v_seq v <? W) l) = find (fun v => v_seq v <? I) l.
Proof.
  intros H. induction l as [|v r IH]; cbn [keep_from_first find]; [reflexivity|].
  destruct (N.ltb_spec (v_seq v) W) as [P|NP]; cbn [find].
  - destruct (N.ltb_spec (v_seq v) I); [reflexivity|lia].
  - destruct (v_seq v <? I); [reflexivity|exact IH].
Qed.

Lemma keep_from_first_nonempty p (l : list version) : l <> [] -> keep_from_first p l <> [].
Proof. destruct l as [|v r]; [congruence|]. cbn. destruct (p v); discriminate. Qed.

Lemma reads_zero t k : vers t <> [] -> reads t k 0 = (Some None, Some []).
Proof.
  intros NE. rewrite reads_via. unfold select_version. cbn [N.eqb]. change (0 =? 0) with true. cbv iota.
  unfold ver_reads. cbn [fst snd].
  assert (Z : forall l, newest k 0 l = None).
  { intros l. rewrite newest_vis, vis_zero. reflexivity. }
  f_equal.
  - f_equal. rewrite Z. cbn [first_some fold_right].
    replace (fold_right _ None _) with (@None ent); [reflexivity|].
    induction (v_sealed (last (vers t) dummy_version)) as [|x r IH]; cbn; [now rewrite Z|]. rewrite Z. exact IH.
  - f_equal. unfold scan_ents. rewrite vis_zero. reflexivity.
Qed.

Theorem maintenance_frozen W t k I : vers t <> [] -> W <= I ->
  reads (vh_maintenance W t) k I = reads t k I.
Proof.
  intros NE H. unfold vh_maintenance.
  destruct (W =? 0); [reflexivity|].
  destruct (vers t) as [|v0 [|v1 r]] eqn:V; try reflexivity.
  destruct (existsb (fun v => v_seq v <? W) (v0 :: v1 :: r)) eqn:EX; [|reflexivity].
  destruct (N.eqb_spec I 0) as [->|NZ].
  - rewrite !reads_zero; [reflexivity| |].
    + rewrite V. discriminate.
    + cbn [vers]. apply keep_from_first_nonempty. discriminate.
  - rewrite !reads_via. unfold select_version. cbn [vers].
    destruct (N.eqb_spec I 0); [contradiction|].
    rewrite find_keep_from_first by exact H. rewrite V. reflexivity.
Qed.

(* pushing a version on top (flush registration, compaction, clear, ingestion) *)
Theorem push_frozen t v' k I : vers t <> [] -> I <= v_seq v' ->
  reads {| mems := mems t; vers := v' :: vers t; next_mid := next_mid t |} k I = reads t k I.
Proof.
  intros NE H. rewrite !reads_via. rewrite select_push by assumption. reflexivity.
Qed.

Theorem flush_frozen W s t k I : vers t <> [] -> W <= I -> I <= s ->
  reads (fst (t_flush W s t)) k I = reads t k I.
Proof.
  intros NE HW HS. unfold t_flush.
  destruct (v_sealed (latest t)) as [|i ids]; [reflexivity|].
  destruct (gc_stream W false None _) as [|e out]; [reflexivity|]. cbn [fst].
  rewrite maintenance_frozen; [|cbn; discriminate|exact HW].
  apply push_frozen; assumption.
Qed.

Theorem compact_frozen W s ev f t k I : vers t <> [] -> W <= I -> I <= s ->
  reads (t_compact W s ev f t) k I = reads t k I.
Proof.
  intros NE HW HS. unfold t_compact.
  destruct (v_tables (latest t)) as [|e tb]; [reflexivity|].
  rewrite maintenance_frozen; [|cbn; discriminate|exact HW].
  apply push_frozen; assumption.
Qed.

Theorem ingest_register_frozen g items t k I : vers t <> [] -> I <= g ->
  reads (t_register_ingest g items t) k I = reads t k I.
Proof. intros NE H. unfold t_register_ingest. apply push_frozen; assumption. Qed.

Lemma ver_reads_ext_ids mo1 mo2 v k I :
  (forall id, id = v_active v \/ In id (v_sealed v) -> vis I (mo1 id) = vis I (mo2 id)) ->
  ver_reads mo1 v k I = ver_reads mo2 v k I.
Proof.
  intros H. unfold ver_reads. f_equal.
  - f_equal. f_equal; [apply newest_vis_eq, H; left; reflexivity|]. f_equal.
    apply map_ext_in. intros id Hin. apply newest_vis_eq, H. right. exact Hin.
  - apply scan_vis. rewrite !vis_app. f_equal; [apply H; left; reflexivity|]. f_equal.
    assert (G : forall id, In id (v_sealed v) -> vis I (mo1 id) = vis I (mo2 id)) by (intros; apply H; right; assumption).
    clear H. induction (v_sealed v) as [|x r IH]; cbn [flat_map]; [reflexivity|].
    rewrite !vis_app. rewrite G by (left; reflexivity). f_equal. apply IH. intros; apply G; right; assumption.
Qed.

Lemma select_in t I v : vers t <> [] -> select_version t I = Some v -> In v (vers t).
Proof.
  intros NE SV. unfold select_version in SV. destruct (I =? 0).
  - inversion SV; subst. destruct (vers t) as [|x l] eqn:V; [congruence|].
    destruct (@exists_last _ (x :: l) NE) as (l' & a & E). rewrite E, last_last. apply in_or_app. right. left. reflexivity.
  - apply find_some in SV. tauto.
Qed.

(* a heap extended by a fresh memtable agrees with the old heap on every id in use *)
Lemma mem_of_fresh t l vs nm id : id < next_mid t ->
  mem_of {| mems := {| m_id := next_mid t; m_ents := l |} :: mems t; vers := vs; next_mid := nm |} id = mem_of t id.
Proof. intros H. unfold mem_of. cbn [mems find m_id]. destruct (N.eqb_spec (next_mid t) id); [lia|reflexivity]. Qed.

(* clear: the new version has a fresh empty memtable; older versions are untouched *)
Theorem clear_frozen s t k I : ids_ok t -> I <= s ->
  reads (t_clear s t) k I = reads t k I.
Proof.
  intros [NE IDS] H. unfold t_clear. rewrite !reads_via. rewrite select_push by assumption.
  destruct (select_version t I) as [v|] eqn:SV; [|reflexivity].
  destruct (IDS v (select_in t I v NE SV)) as [Ha Hs].
  rewrite (ver_reads_ext_ids _ (mem_of t) v k I); [reflexivity|].
  intros id [->|Hin]; f_equal; apply mem_of_fresh; auto.
Qed.

Lemma flat_map_ext_in {A B} (f g : A -> list B) l : (forall x, In x l -> f x = g x) -> flat_map f l = flat_map g l.
Proof.
  induction l as [|x r IH]; intros H; cbn; [reflexivity|]. rewrite H by (left; reflexivity). f_equal. apply IH. intros; apply H; right; assumption.
Qed.

(* (B) rotation replaces the latest version in place: active becomes the newest sealed memtable *)
Theorem rotate_frozen t k I : ids_ok t -> reads (fst (t_rotate t)) k I = reads t k I.
Proof.
  intros [NE IDS]. unfold t_rotate.
  destruct (mem_of t (v_active (latest t))) as [|e0 l0] eqn:A; [reflexivity|]. cbn [fst].
  destruct (vers t) as [|v r] eqn:V; [congruence|].
  assert (L : latest t = v) by (unfold latest; rewrite V; reflexivity). rewrite L in *.
  set (v2 := {| v_seq := v_seq v; v_active := next_mid t; v_sealed := v_active v :: v_sealed v; v_tables := v_tables v |}).
  unfold with_latest. rewrite V.
  set (t2 := {| mems := {| m_id := next_mid t; m_ents := [] |} :: mems t; vers := v2 :: r; next_mid := next_mid t + 1 |}).
  assert (MO : forall id, id < next_mid t -> mem_of t2 id = mem_of t id) by (intros; apply mem_of_fresh; assumption).
  assert (MN : mem_of t2 (next_mid t) = []).
  { unfold mem_of, t2. cbn [mems find m_id]. rewrite N.eqb_refl. reflexivity. }
  assert (IDv : v_active v < next_mid t /\ forall id, In id (v_sealed v) -> id < next_mid t).
  { apply IDS. left. reflexivity. }
  (* reading the rotated head version gives the same as reading the old head *)
  assert (HEAD : ver_reads (mem_of t2) v2 k I = ver_reads (mem_of t) v k I).
  { unfold ver_reads, v2. cbn [v_active v_sealed v_tables map flat_map]. rewrite MN.
    rewrite (MO (v_active v)) by tauto. f_equal.
    - unfold newest at 1. cbn [best first_some fold_right].
      replace (map (fun id => newest k I (mem_of t2 id)) (v_sealed v)) with (map (fun id => newest k I (mem_of t id)) (v_sealed v)).
      2:{ apply map_ext_in. intros id Hin. now rewrite MO by (apply IDv; exact Hin). }
      reflexivity.
    - cbn [app]. f_equal. rewrite <- app_assoc. f_equal. f_equal.
      apply flat_map_ext_in. intros id Hin. apply MO. apply IDv. exact Hin. }
  assert (TAIL : forall w, In w r -> ver_reads (mem_of t2) w k I = ver_reads (mem_of t) w k I).
  { intros w Hw. apply ver_reads_ext_ids. intros id Hid.
    destruct (IDS w) as [Hwa Hws]; [right; exact Hw|].
    f_equal. apply MO. destruct Hid as [->|Hid]; auto. }
  rewrite !reads_via. unfold select_version. cbn [vers t2]. rewrite V.
  destruct (N.eqb_spec I 0) as [->|NZ].
  - destruct r as [|w r'].
    + cbn [last]. rewrite HEAD. reflexivity.
    + assert (E : last (v2 :: w :: r') dummy_version = last (v :: w :: r') dummy_version) by reflexivity.
      rewrite E. rewrite TAIL; [reflexivity|].
      destruct (@exists_last _ (w :: r') ltac:(discriminate)) as (l' & a & E2).
      change (last (v :: w :: r') dummy_version) with (last (w :: r') dummy_version). rewrite E2, last_last.
      apply in_or_app. right. left. reflexivity.
  - cbn [find]. change (v_seq v2) with (v_seq v).
    destruct (v_seq v <? I).
    + rewrite HEAD. reflexivity.
    + destruct (find (fun x => v_seq x <? I) r) as [w|] eqn:F; [|reflexivity].
      rewrite TAIL; [reflexivity|]. apply find_some in F. tauto.
Qed.

(* ================= every sequence of tree operations ================= *)
Inductive tree_op :=
| TAppend (e : ent) | TRotate | TFlush (W s : N) | TCompact (W s : N) (evict : bool) (f : option frule)
| TClear (s : N) | TIngest (g : N) (items : list ent) | TMaint (W : N).

Definition apply_top (t : tree) (o : tree_op) : tree :=
  match o with
  | TAppend e => t_append t e
  | TRotate => fst (t_rotate t)
  | TFlush W s => fst (t_flush W s t)
  | TCompact W s ev f => t_compact W s ev f t
  | TClear s => t_clear s t
  | TIngest g items => t_register_ingest g items t
  | TMaint W => vh_maintenance W t
  end.

(* what fjall must guarantee about the parameters it passes, for a reader at instant I *)
Definition op_ok (I : N) (o : tree_op) : Prop :=
  match o with
  | TAppend e => I <= es e
  | TRotate => True
  | TFlush W s => W <= I /\ I <= s
  | TCompact W s _ _ => W <= I /\ I <= s
  | TClear s => I <= s
  | TIngest g _ => I <= g
  | TMaint W => W <= I
  end.

Lemma ids_ok_weaken vs nm t :
  vs <> [] -> next_mid t <= nm ->
  (forall v, In v vs -> v_active v < nm /\ forall id, In id (v_sealed v) -> id < nm) ->
  forall ms, ids_ok {| mems := ms; vers := vs; next_mid := nm |}.
Proof. intros NE _ H ms. split; [exact NE|exact H]. Qed.

Lemma keep_from_first_incl p (l : list version) v : In v (keep_from_first p l) -> In v l.
Proof.
  induction l as [|x r IH]; cbn; [auto|]. destruct (p x); cbn; [intros [->|[]]; auto|intros [->|H]; auto].
Qed.

Lemma ids_ok_maint W t : ids_ok t -> ids_ok (vh_maintenance W t).
Proof.
  intros [NE IDS]. unfold vh_maintenance. destruct (W =? 0); [split; assumption|].
  destruct (vers t) as [|v0 [|v1 r]] eqn:V.
  - split; [rewrite V; exact NE|rewrite V; exact IDS].
  - split; [rewrite V; discriminate|rewrite V; exact IDS].
  - destruct (existsb (fun v => v_seq v <? W) (v0 :: v1 :: r)).
    + split; cbn [vers next_mid].
      * apply keep_from_first_nonempty. discriminate.
      * intros v Hv. apply IDS. apply keep_from_first_incl in Hv. exact Hv.
    + split; [rewrite V; discriminate|rewrite V; exact IDS].
Qed.

Lemma ids_ok_push t v' : ids_ok t ->
  v_active v' < next_mid t -> (forall id, In id (v_sealed v') -> id < next_mid t) ->
  ids_ok {| mems := mems t; vers := v' :: vers t; next_mid := next_mid t |}.
Proof.
  intros [NE IDS] Ha Hs. split; cbn [vers next_mid]; [discriminate|].
  intros v [<-|Hv]; [split; assumption|apply IDS; exact Hv].
Qed.

Lemma latest_in t : vers t <> [] -> In (latest t) (vers t).
Proof. unfold latest. destruct (vers t); [congruence|left; reflexivity]. Qed.

Lemma ids_ok_apply t o : ids_ok t -> ids_ok (apply_top t o).
Proof.
  intros OK. pose proof OK as [NE IDS].
  destruct (IDS _ (latest_in t NE)) as [La Ls].
  destruct o as [e| |W s|W s ev f|s|g items|W]; cbn [apply_top].
  - split; assumption.
  - unfold t_rotate. destruct (mem_of t (v_active (latest t))); [exact OK|]. cbn [fst].
    split; cbn [vers next_mid].
    + unfold with_latest. destruct (vers t); discriminate.
    + intros v Hv. unfold with_latest in Hv. destruct (vers t) as [|v0 r] eqn:V; [congruence|].
      destruct Hv as [<-|Hv]; cbn [v_active v_sealed].
      * split; [lia|]. intros id [<-|Hid]; [lia|]. specialize (Ls id Hid). lia.
      * destruct (IDS v) as [A S]; [right; exact Hv|]. split; [lia|]. intros id Hid. specialize (S id Hid). lia.
  - unfold t_flush. destruct (v_sealed (latest t)); [exact OK|]. destruct (gc_stream _ _ _ _); [exact OK|]. cbn [fst].
    apply ids_ok_maint. apply ids_ok_push; [exact OK|exact La|intros id []].
  - unfold t_compact. destruct (v_tables (latest t)); [exact OK|].
    apply ids_ok_maint. apply ids_ok_push; [exact OK|exact La|exact Ls].
  - unfold t_clear. split; cbn [vers next_mid]; [discriminate|].
    intros v [<-|Hv]; cbn [v_active v_sealed].
    + split; [lia|intros id []].
    + destruct (IDS v Hv) as [A S]. split; [lia|]. intros id Hid. specialize (S id Hid). lia.
  - unfold t_register_ingest. apply ids_ok_push; [exact OK|exact La|exact Ls].
  - apply ids_ok_maint. exact OK.
Qed.

Lemma apply_frozen t o k I : ids_ok t -> op_ok I o -> reads (apply_top t o) k I = reads t k I.
Proof.
  intros OK H. pose proof OK as [NE _].
  destruct o as [e| |W s|W s ev f|s|g items|W]; cbn [apply_top op_ok] in *.
  - apply append_frozen. exact H.
  - apply rotate_frozen. exact OK.
  - apply flush_frozen; tauto.
  - apply compact_frozen; tauto.
  - apply clear_frozen; assumption.
  - apply ingest_register_frozen; assumption.
  - apply maintenance_frozen; assumption.
Qed.

Theorem run_frozen ops : forall t k I, ids_ok t -> Forall (op_ok I) ops ->
  reads (fold_left apply_top ops t) k I = reads t k I.
Proof.
  induction ops as [|o ops IH]; intros t k I OK F; cbn [fold_left]; [reflexivity|].
  inversion F as [|? ? Ho Hops]; subst.
  rewrite IH; [|apply ids_ok_apply; exact OK|exact Hops].
  apply apply_frozen; assumption.
Qed.

Lemma ids_ok_init : ids_ok tree_init.
Proof. split; cbn; [discriminate|]. intros v [<-|[]]. cbn. split; [lia|intros id []]. Qed.

(* a live snapshot always finds its super-version: reading never fails *)
Lemma select_some t I : vers t <> [] -> (I = 0 \/ exists v, In v (vers t) /\ v_seq v < I) -> select_version t I <> None.
Proof.
  intros NE H. unfold select_version. destruct (N.eqb_spec I 0); [discriminate|].
  destruct H as [->|(v & Hin & Hv)]; [congruence|].
  destruct (find (fun v0 => v_seq v0 <? I) (vers t)) eqn:F; [discriminate|].
  exfalso. eapply find_none in F; [|exact Hin]. cbn in F. apply N.ltb_ge in F. lia.
Qed.
