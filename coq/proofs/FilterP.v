(* FilterP.v — compaction filters: the filtered form is stable; a Remove verdict does NOT survive a reopen
   (refutation witness for the "stays filtered" part of C18, known finding E17) *)
From FJ Require Import Bytes Codec Lsm Db Prog.

(* the filtered form of an entry is a fixed point of the filter: a later compaction leaves it as it is *)
Lemma apply_filter_idem f e : apply_filter f (apply_filter f e) = apply_filter f e.
Proof.
  unfold apply_filter. destruct (is_tomb e) eqn:T; [now rewrite T|].
  destruct f as [r|]; [|now rewrite T].
  destruct (rule_verdict r (ek e)) eqn:V.
  - now rewrite T, V.
  - reflexivity.
  - cbn. rewrite V. reflexivity.
Qed.

(* key and seqno are never changed by a filter *)
Lemma apply_filter_slot f e : ek (apply_filter f e) = ek e /\ es (apply_filter f e) = es e.
Proof.
  unfold apply_filter. destruct (is_tomb e); [auto|]. destruct f as [r|]; [|auto].
  destruct (rule_verdict r (ek e)); auto.
Qed.

(* ---- refutation of "stays filtered until written again" across a reopen ---- *)
Definition c18_name : bytes := [97; 108; 112; 104; 97]%N.                      (* "alpha" *)
Definition c18_rule : frule := {| fr_remove := [97%N]; fr_replace := [] |}.    (* keys starting with 0x61: Remove *)
Definition c18_witness : list op :=
  [OKs 0 c18_name; OPut 0 [98%N] [187%N]; OPut 0 [97%N] [170%N]; ORotate 0; ODrain; OMajor 0;
   OGet VwNone 0 [97%N];            (* position 6: filtered, reads None *)
   OReopen; OKs 0 c18_name;
   OGet VwNone 0 [97%N]].           (* position 9: the original value is back, with no write in between *)

Lemma remove_verdict_resurrects :
  let out := snd (run as_is (db_init MPlain [(c18_name, c18_rule)]) c18_witness) in
  nth 6 out (Ox ObOk) = Ox (ObOpt None) /\ nth 9 out (Ox ObOk) = Ox (ObOpt (Some [170%N])).
Proof. vm_compute. split; reflexivity. Qed.

(* second face of the same defect (E17), for C04: a key deleted by an INGESTED tombstone (not journaled) comes back after
   a reopen once a last-level compaction has evicted the tombstone together with the value it hid: the keyspace's
   highest persisted seqno falls below the journal record of the value, which is then replayed *)
Definition c04_witness : list op :=
  [OKs 0 c18_name; OPut 0 [96%N] [0%N]; OPut 0 [97%N] [170%N]; OIngest 0 [ITomb [97%N]]; OMajor 0;
   OGet VwNone 0 [97%N];            (* position 5: deleted, reads None *)
   OReopen; OKs 0 c18_name;
   OGet VwNone 0 [97%N]].           (* position 8: the old value is back *)
Lemma ingested_tombstone_resurrects :
  let out := snd (run as_is (db_init MPlain []) c04_witness) in
  nth 5 out (Ox ObOk) = Ox (ObOpt None) /\ nth 8 out (Ox ObOk) = Ox (ObOpt (Some [170%N])).
Proof. vm_compute. split; reflexivity. Qed.
