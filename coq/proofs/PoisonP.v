(* PoisonP.v — fail-stop at the level of the database model (C13): no operation clears the poison flag, and while it is set no
   insert / remove / clear is accepted: the state, in particular the journal, is exactly as it was.                          *)
From FJ Require Import Bytes Codec Reader Lsm Tracker Db BytesP LsmP TxP MapP FilterP OrderP DbOrderP SortP RefineP RecoverP RecoverInvP.
From Coq Require Import ZArith ZifyBool ZifyNat ZifyN Lia.

Lemma poisoned_do_rotate d id : d_poisoned (fst (do_rotate d id)) = d_poisoned d.
Proof. unfold do_rotate. destruct (ks_of d id); [|reflexivity]. destruct (t_rotate _) as [t ok]. destruct ok; reflexivity. Qed.
Lemma poisoned_do_step d : d_poisoned (fst (do_step d)) = d_poisoned d.
Proof.
  unfold do_step. destruct (d_queue d) as [|m q]; [reflexivity|]. destruct m as [id mid| |id].
  - destruct (ks_of _ id) as [ks|]; [|reflexivity]. destruct (_ =? _); [|reflexivity]. cbn [fst]. rewrite poisoned_do_rotate. reflexivity.
  - destruct (d_flushq _) as [|id fq]; [reflexivity|].
    match goal with |- context [maybe_seal ?X] => set (dd := X) end.
    assert (E1 : d_poisoned (maybe_seal dd) = d_poisoned d) by (unfold maybe_seal; destruct (_ && _); reflexivity).
    destruct (ks_of (maybe_seal dd) id) as [ks|]; [|exact E1]. cbn [fst]. destruct (v_sealed (latest (k_tree ks))); exact E1.
  - reflexivity.
Qed.
Lemma poisoned_do_drain f : forall d n, d_poisoned (fst (do_drain f d n)) = d_poisoned d.
Proof. induction f as [|f IH]; intros d n; cbn [do_drain]; [reflexivity|]. destruct (d_queue d); [reflexivity|]. rewrite IH. apply poisoned_do_step. Qed.

(* no operation of a running database clears the flag (only a new process — reopen — starts unpoisoned) *)
Theorem poison_sticky d o : d_poisoned (wstep d o) = d_poisoned d.
Proof.
  destruct o; cbn [wstep].
  - unfold do_ks. destruct (blookup name (d_map d)); reflexivity.
  - unfold write_one. destruct (ks_of d id) as [ks|]; [|reflexivity]. destruct (k_deleted ks); [reflexivity|]. destruct (d_poisoned d) eqn:P; cbn [fst]; [exact P|cbn; exact P].
  - reflexivity.
  - unfold do_clear. destruct (ks_of d id) as [ks|]; [|reflexivity]. destruct (d_poisoned d) eqn:P; cbn [fst]; [exact P|cbn; exact P].
  - apply poisoned_do_rotate.
  - apply poisoned_do_step.
  - apply poisoned_do_drain.
  - unfold do_compact. destruct (ks_of d id) as [ks|]; [|reflexivity]. destruct (v_tables _); reflexivity.
  - unfold do_ingest. destruct (ks_of d id) as [ks|]; [|reflexivity]. destruct items; [reflexivity|].
    destruct (t_rotate (k_tree ks)) as [t1 b]. destruct (v_sealed (latest t1)); reflexivity.
Qed.

Lemma run_poison_sticky ops : forall d, d_poisoned (fold_left wstep ops d) = d_poisoned d.
Proof. induction ops as [|o r IH]; intros d; cbn [fold_left]; [reflexivity|]. rewrite IH. apply poison_sticky. Qed.

(* while it is set, inserts, removes and clears are refused and leave the whole state as it is *)
Theorem poisoned_writes_refused d : d_poisoned d = true ->
  (forall id k v vt mvt, fst (write_one d id k v vt mvt) = d /\ snd (write_one d id k v vt mvt) <> ObOk) /\
  (forall id, fst (do_clear d id) = d /\ snd (do_clear d id) <> ObOk).
Proof.
  intros P. split.
  - intros id k v vt mvt. unfold write_one. destruct (ks_of d id) as [ks|]; [|split; [reflexivity|discriminate]].
    destruct (k_deleted ks); [split; [reflexivity|discriminate]|]. rewrite P. split; [reflexivity|discriminate].
  - intros id. unfold do_clear. destruct (ks_of d id) as [ks|]; [|split; [reflexivity|discriminate]]. rewrite P. split; [reflexivity|discriminate].
Qed.

(* hence: once poisoned, whatever operations follow, every later insert / remove / clear is refused; the journal gains no
   record from them, and what is read does not change through them *)
Theorem poisoned_forever d ops : d_poisoned d = true ->
  let d' := fold_left wstep ops d in
  forall id k v vt mvt, fst (write_one d' id k v vt mvt) = d' /\ snd (write_one d' id k v vt mvt) <> ObOk.
Proof.
  intros P d' id k v vt mvt. apply (proj1 (poisoned_writes_refused d' (eq_trans (run_poison_sticky ops d) P))).
Qed.
