(* ReaderP.v — journal round trip and the cut-at-any-byte theorem *)
From FJ Require Import Bytes Codec Reader BytesP CodecP.
From Coq Require Import ZArith ZifyBool ZifyNat ZifyN.
Ltac Zify.zify_post_hook ::= Z.div_mod_to_equations.

Set Default Proof Using "All".

Section ReaderP.
  Variable hash : bytes -> N.
  Variable compress : bytes -> bytes.
  Variable decompress : bytes -> N -> option bytes.
  Hypothesis hash_bound : forall b, hash b < 2 ^ 64.

  Notation enc_entry := (enc_entry compress).
  Notation dec_entry := (dec_entry decompress).
  Notation enc_records := (enc_records compress).
  Notation enc_batch := (enc_batch hash compress).
  Notation enc_journal := (enc_journal hash compress).
  Notation read_loop := (read_loop hash compress decompress).
  Notation read_journal := (read_journal hash compress decompress).
  Notation wf_entry := (wf_entry compress decompress).

  Definition wf_record (r : record) : Prop := wf_entry (entry_of_record r).
  Definition wf_batch (b : wbatch) : Prop :=
    N.of_nat (length (wb_records b)) < 2 ^ 32 /\ wb_seqno b < 2 ^ 64 /\
    Forall wf_record (wb_records b).

  Definition idle (p s : N) : rstate :=
    {| in_batch := false; counter := 0; bseq := s; items := []; clears := [];
       acc := []; batch_last := p; pos := p |}.

  Lemma rinit_idle : rinit = idle 0 0. Proof. reflexivity. Qed.

  Lemma enc_entry_nonempty e : (1 <= length (enc_entry e))%nat.
  Proof. destruct (enc_entry_head compress decompress e) as [tl ->]. cbn. lia. Qed.

  Lemma blen_length (l : bytes) : blen l = N.of_nat (length l). Proof. reflexivity. Qed.

  Lemma enc_records_cons r rs :
    enc_records (r :: rs) = enc_entry (entry_of_record r) ++ enc_records rs.
  Proof. reflexivity. Qed.

  (* ---- reading a sequence of records inside a batch ---- *)
  Definition after_records (st : rstate) (rs : list record) (k : N) : rstate :=
    {| in_batch := true; counter := k; bseq := bseq st;
       items := rev (ritems_of rs) ++ items st;
       clears := rev (rclears_of rs) ++ clears st;
       acc := rev (map (fun r => enc_entry (entry_of_record r)) rs) ++ acc st;
       batch_last := batch_last st; pos := pos st + blen (enc_records rs) |}.

  Lemma rstate_eta st :
    st = {| in_batch := in_batch st; counter := counter st; bseq := bseq st; items := items st;
            clears := clears st; acc := acc st; batch_last := batch_last st; pos := pos st |}.
  Proof. destruct st; reflexivity. Qed.

  Lemma read_records rs : forall st k rest out f,
    Forall wf_record rs ->
    in_batch st = true -> counter st = N.of_nat (length rs) + k ->
    (length (enc_records rs ++ rest) < f)%nat ->
    read_loop f st (enc_records rs ++ rest) out
      = read_loop (f - length rs) (after_records st rs k) rest out
    /\ (length rest < f - length rs)%nat.
  Proof.
    induction rs as [|r rs IH]; intros st k rest out f W IB CT LF.
    - cbn [Codec.enc_records map concat app length] in *. rewrite Nat.sub_0_r. split; [|exact LF].
      f_equal. unfold after_records. cbn. rewrite (rstate_eta st) at 1.
      f_equal; try lia. exact IB. unfold blen; cbn; lia.
    - inversion W as [|? ? Wr Wrs]; subst.
      unfold Codec.enc_records in *. cbn [map concat] in *. rewrite <- app_assoc in *.
      destruct f as [|f]; [lia|].
      cbn [Reader.read_loop]. rewrite (dec_enc_entry compress decompress _ _ Wr).
      pose proof (enc_entry_nonempty (entry_of_record r)) as NE.
      rewrite app_length in LF.
      destruct r as [ks key v vt c|ks]; cbn [entry_of_record] in *.
      + rewrite IB. cbn [negb]. destruct (N.eqb_spec (counter st) 0) as [E|_]; [cbn [length] in CT; lia|].
        cbn [length Nat.sub].
        match goal with |- Reader.read_loop _ _ _ f ?s _ _ = _ /\ _ =>
          destruct (IH s k rest out f Wrs) as [EQ LT]; [reflexivity| |lia|] end.
        { cbn [counter]. cbn [length] in CT. lia. }
        rewrite EQ. split; [|exact LT].
        f_equal. unfold after_records. cbn [in_batch counter bseq items clears acc batch_last pos ritems_of rclears_of flat_map map rev app].
        f_equal.
        * rewrite <- app_assoc. reflexivity.
        * rewrite <- app_assoc. reflexivity.
        * fold (Codec.enc_records compress rs). rewrite enc_records_cons, blen_app. cbn [entry_of_record]. lia.
      + rewrite IB. cbn [negb]. destruct (N.eqb_spec (counter st) 0) as [E|_]; [cbn [length] in CT; lia|].
        cbn [length Nat.sub].
        match goal with |- Reader.read_loop _ _ _ f ?s _ _ = _ /\ _ =>
          destruct (IH s k rest out f Wrs) as [EQ LT]; [reflexivity| |lia|] end.
        { cbn [counter]. cbn [length] in CT. lia. }
        rewrite EQ. split; [|exact LT].
        f_equal. unfold after_records. cbn [in_batch counter bseq items clears acc batch_last pos ritems_of rclears_of flat_map map rev app].
        f_equal.
        * rewrite <- app_assoc. reflexivity.
        * rewrite <- app_assoc. reflexivity.
        * fold (Codec.enc_records compress rs). rewrite enc_records_cons, blen_app. cbn [entry_of_record]. lia.
  Qed.

  (* ---- one complete batch ---- *)
  Lemma concat_rev_map_enc rs :
    concat (rev (rev (map (fun r => enc_entry (entry_of_record r)) rs) ++ [])) = enc_records rs.
  Proof. rewrite app_nil_r, rev_involutive. reflexivity. Qed.

  Definition fuel_of_batch (b : wbatch) : nat := length (wb_records b) + 2.

  Lemma read_batch b : forall p s rest out f,
    wf_batch b ->
    (length (enc_batch b ++ rest) < f)%nat ->
    read_loop f (idle p s) (enc_batch b ++ rest) out
      = read_loop (f - fuel_of_batch b) (idle (p + blen (enc_batch b)) (wb_seqno b)) rest
          (rbatch_of b :: out)
    /\ (length rest < f - fuel_of_batch b)%nat.
  Proof.
    intros p s rest out f (WC & WS & WR) LF.
    unfold Codec.enc_batch in *. rewrite <- !app_assoc in *.
    set (rs := wb_records b) in *.
    destruct f as [|f]; [lia|].
    cbn [Reader.read_loop].
    rewrite (dec_enc_entry compress decompress (EStart _ _) _ (conj WC WS)).
    cbn [in_batch idle].
    pose proof (enc_entry_nonempty (EStart (N.of_nat (length rs)) (wb_seqno b))) as NE1.
    rewrite app_length in LF.
    match goal with |- Reader.read_loop _ _ _ f ?st _ _ = _ /\ _ =>
      destruct (read_records rs st 0 (enc_entry (EEnd (hash (enc_records rs))) ++ rest) out f WR)
        as [EQ LT]; [reflexivity|cbn [counter]; lia|lia|] end.
    rewrite EQ. clear EQ.
    destruct (f - length rs)%nat as [|f2] eqn:EF; [lia|].
    cbn [Reader.read_loop].
    rewrite (dec_enc_entry compress decompress (EEnd _) _ (hash_bound _)).
    unfold after_records, idle. cbn [counter in_batch acc negb bseq items clears pos batch_last].
    change (0 <? 0) with false. cbv iota.
    rewrite concat_rev_map_enc, N.eqb_refl.
    pose proof (enc_entry_nonempty (EEnd (hash (enc_records rs)))) as NE2.
    rewrite app_length in LT.
    split; [|unfold fuel_of_batch; fold rs; lia].
    replace (S f - fuel_of_batch b)%nat with f2 by (unfold fuel_of_batch; fold rs; lia).
    f_equal.
    - f_equal.
      + rewrite !blen_app. lia.
      + rewrite !blen_app. lia.
    - unfold rbatch_of. fold rs.
      rewrite !app_nil_r, !rev_involutive. reflexivity.
  Qed.

  (* ---- a whole journal ---- *)
  Definition fuel_of (bs : list wbatch) : nat := fold_right (fun b n => (fuel_of_batch b + n)%nat) 0%nat bs.

  Definition last_seq (s : N) (bs : list wbatch) : N := fold_left (fun _ b => wb_seqno b) bs s.

  Lemma enc_journal_cons b bs : enc_journal (b :: bs) = enc_batch b ++ enc_journal bs.
  Proof. reflexivity. Qed.

  Lemma read_batches bs : forall p s rest out f,
    Forall wf_batch bs ->
    (length (enc_journal bs ++ rest) < f)%nat ->
    read_loop f (idle p s) (enc_journal bs ++ rest) out
      = read_loop (f - fuel_of bs) (idle (p + blen (enc_journal bs)) (last_seq s bs)) rest
          (rev (map rbatch_of bs) ++ out)
    /\ (length rest < f - fuel_of bs)%nat.
  Proof.
    induction bs as [|b bs IH]; intros p s rest out f W LF.
    - cbn [Codec.enc_journal map concat app fuel_of fold_right last_seq fold_left rev] in *.
      rewrite Nat.sub_0_r. split; [|exact LF]. do 2 f_equal. unfold blen; cbn; lia.
    - inversion W as [|? ? Wb Wbs]; subst.
      rewrite enc_journal_cons, <- app_assoc in *.
      destruct (read_batch b p s (enc_journal bs ++ rest) out f Wb LF) as [EQ LT].
      rewrite EQ. clear EQ.
      destruct (IH (p + blen (enc_batch b)) (wb_seqno b) rest (rbatch_of b :: out) _ Wbs LT) as [EQ2 LT2].
      rewrite EQ2. cbn [fuel_of fold_right]. split; [|fold (fuel_of bs); lia].
      fold (fuel_of bs).
      replace (f - fuel_of_batch b - fuel_of bs)%nat with (f - (fuel_of_batch b + fuel_of bs))%nat by lia.
      f_equal.
      + cbn [last_seq fold_left]. f_equal. rewrite blen_app. lia.
      + cbn [map rev]. rewrite <- app_assoc. reflexivity.
  Qed.

  (* reading only zero padding (or nothing) stops at once *)
  Lemma dec_zeros z : dec_entry (zeros z) = None.
  Proof. destruct z; [reflexivity|]. unfold zeros. cbn [repeat]. apply (dec_entry_zero compress decompress). Qed.

  Lemma read_zeros f st z out : (0 < f)%nat ->
    read_loop f st (zeros z) out
      = (rev out, RStop (if in_batch st then batch_last st else pos st)).
  Proof. intros Hf. destruct f; [lia|]. cbn [Reader.read_loop]. now rewrite dec_zeros. Qed.

  (* ===== C15: journal round trip, for every per-item compression choice ===== *)
  Theorem read_journal_roundtrip bs z :
    Forall wf_batch bs ->
    read_journal (enc_journal bs ++ zeros z)
      = (map rbatch_of bs, RStop (blen (enc_journal bs))).
  Proof.
    intros W. unfold Reader.read_journal. rewrite rinit_idle.
    destruct (read_batches bs 0 0 (zeros z) [] (S (length (enc_journal bs ++ zeros z))) W) as [EQ LT]; [lia|].
    rewrite EQ. rewrite read_zeros by lia. cbn [in_batch idle pos].
    rewrite app_nil_r, rev_involutive. do 2 f_equal.
  Qed.

  (* ================= cut at any byte ================= *)

  Lemma firstn_app_le {A} n (a b : list A) : (n <= length a)%nat -> firstn n (a ++ b) = firstn n a.
  Proof. intros H. rewrite firstn_app. replace (n - length a)%nat with 0%nat by lia. cbn. apply app_nil_r. Qed.
  Lemma firstn_app_ge {A} n (a b : list A) : (length a <= n)%nat ->
    firstn n (a ++ b) = a ++ firstn (n - length a) b.
  Proof. intros H. rewrite firstn_app, firstn_all2 by lia. reflexivity. Qed.

  Lemma zeros_suffix z l r : zeros z = l ++ r -> exists z', r = zeros z'.
  Proof.
    intros H. exists (length r). unfold zeros. apply Forall_eq_repeat.
    assert (F : Forall (eq 0) (zeros z)) by (unfold zeros; apply Forall_forall; intros x Hx; symmetry; eapply repeat_spec; eauto).
    rewrite H in F. apply Forall_app in F. tauto.
  Qed.

  Lemma nth_zeros k z : nth k (zeros z) 0 = 0.
  Proof. unfold zeros. revert k; induction z as [|z IH]; intros [|k]; cbn; auto. Qed.

  Lemma kind_byte e : kind_of e < 256.
  Proof. destruct e; reflexivity. Qed.

  (* decoding a strict prefix of an entry, continued by zeros: either nothing,
     or a garbled entry of the same kind that is not an End marker and that
     swallows the whole rest of the real bytes *)
  Lemma cut_entry e m z e' r' n' :
    wf_entry e -> (m < length (enc_entry e))%nat ->
    dec_entry (firstn m (enc_entry e) ++ zeros z) = Some (e', r', n') ->
    kind_of e' = kind_of e /\ (forall x, e' <> EEnd x) /\ exists z', r' = zeros z'.
  Proof.
    intros W Hm D.
    set (q := firstn m (enc_entry e)) in *.
    assert (Lq : length q = m) by (unfold q; rewrite firstn_length; lia).
    destruct (local_dec_entry compress decompress _ _ _ _ D) as (c & EQ & -> & L).
    destruct (le_lt_dec (length c) m) as [LE|GT].
    - (* the decoder stopped inside the real bytes: impossible (prefix-freeness) *)
      exfalso.
      assert (Hc : c = firstn (length c) (enc_entry e)).
      { transitivity (firstn (length c) (q ++ zeros z)).
        - rewrite EQ, firstn_app, Nat.sub_diag, firstn_all. cbn. now rewrite app_nil_r.
        - rewrite firstn_app_le by lia. unfold q. rewrite firstn_firstn. f_equal. lia. }
      pose proof (firstn_skipn (length c) (enc_entry e)) as SP. rewrite <- Hc in SP.
      pose proof (dec_enc_entry compress decompress e [] W) as RT.
      rewrite app_nil_r in RT. rewrite <- SP in RT at 1. rewrite L in RT.
      inversion RT as [[E1 E2 E3]].
      assert (length (skipn (length c) (enc_entry e)) = 0%nat) by (rewrite E2; reflexivity).
      rewrite skipn_length in H. lia.
    - (* the decoder ran into the zero padding *)
      apply app_eq_app in EQ as [l [[E1 E2]|[E1 E2]]].
      + (* q = c ++ l : contradicts length c > m *)
        exfalso. rewrite E1, app_length in Lq. lia.
      + assert (Hm1 : (1 <= m)%nat).
        { destruct m; [|lia]. exfalso. unfold q in *. cbn [firstn app] in D. rewrite dec_zeros in D. discriminate. }
        destruct (enc_entry_head compress decompress e) as [tl HE].
        assert (Hq : exists q', q = kind_of e :: q').
        { unfold q. rewrite HE. destruct m; [lia|]. cbn [firstn]. eauto. }
        destruct Hq as [q' Hq].
        assert (K : kind_of e' = kind_of e).
        { rewrite Hq in D. cbn [app] in D. eapply (dec_entry_kind compress decompress); [exact D|apply kind_byte]. }
        split; [exact K|]. split; [|eapply zeros_suffix; exact E2].
        intros x ->.
        (* an End marker needs the last magic byte, which lies in the zeros *)
        apply (dec_end_shape compress decompress) in D as (c8 & SH & L8 & _).
        assert (KE : kind_of e = TAG_END) by (rewrite <- K; reflexivity).
        assert (LE13 : length (enc_entry e) = 13%nat).
        { destruct e; try discriminate KE. cbn [Codec.enc_entry length]. rewrite app_length, le_enc_length. reflexivity. }
        assert (N1 : nth 12 (q ++ zeros z) 0 = 0).
        { rewrite app_nth2 by lia. apply nth_zeros. }
        rewrite SH in N1.
        do 8 (destruct c8 as [|? c8]; [discriminate L8|]). destruct c8; [|discriminate L8].
        cbn in N1. discriminate N1.
  Qed.

  (* processing one (possibly garbled) Item/Clear entry inside a batch *)
  Lemma step_inbatch f st l out e r n :
    dec_entry l = Some (e, r, n) ->
    (kind_of e = TAG_ITEM \/ kind_of e = TAG_CLEAR) ->
    in_batch st = true -> counter st <> 0 ->
    exists st', read_loop (S f) st l out = read_loop f st' r out
                /\ in_batch st' = true /\ batch_last st' = batch_last st
                /\ counter st' = counter st - 1.
  Proof.
    intros D K IB CT. cbn [Reader.read_loop]. rewrite D.
    destruct e; cbn in K; try (destruct K; discriminate).
    - rewrite IB. cbn [negb]. destruct (N.eqb_spec (counter st) 0); [contradiction|].
      eexists; split; [reflexivity|]. repeat split; reflexivity.
    - rewrite IB. cbn [negb]. destruct (N.eqb_spec (counter st) 0); [contradiction|].
      eexists; split; [reflexivity|]. repeat split; reflexivity.
  Qed.

  Lemma record_kind r : kind_of (entry_of_record r) = TAG_ITEM \/ kind_of (entry_of_record r) = TAG_CLEAR.
  Proof. destruct r; [left|right]; reflexivity. Qed.


  (* a cut anywhere after the Start marker and before the end of the End marker *)
  Lemma read_cut_tail rs : forall st k m z out f endx,
    Forall wf_record rs -> in_batch st = true ->
    counter st = N.of_nat (length rs) + k -> endx < 2 ^ 64 ->
    (m < length (enc_records rs ++ enc_entry (EEnd endx)))%nat ->
    (length (firstn m (enc_records rs ++ enc_entry (EEnd endx)) ++ zeros z) < f)%nat ->
    read_loop f st (firstn m (enc_records rs ++ enc_entry (EEnd endx)) ++ zeros z) out
      = (rev out, RStop (batch_last st)).
  Proof.
    induction rs as [|r rs IH]; intros st k m z out f endx W IB CT HX Hm LF.
    - cbn [Codec.enc_records map concat app] in *.
      destruct f as [|f]; [lia|]. cbn [Reader.read_loop].
      destruct (dec_entry (firstn m (enc_entry (EEnd endx)) ++ zeros z)) as [[[e' r'] n']|] eqn:D.
      + exfalso. destruct (cut_entry (EEnd endx) m z e' r' n' HX Hm D) as (K & NE & _).
        destruct e'; cbn in K; try discriminate K. eapply NE; reflexivity.
      + now rewrite IB.
    - inversion W as [|? ? Wr Wrs]; subst.
      rewrite enc_records_cons, <- app_assoc in *.
      destruct (le_lt_dec (length (enc_entry (entry_of_record r))) m) as [GE|LT].
      + (* the record is complete *)
        rewrite firstn_app_ge in * by exact GE. rewrite <- app_assoc in *.
        destruct f as [|f]; [lia|].
        pose proof (dec_enc_entry compress decompress _
          (firstn (m - length (enc_entry (entry_of_record r))) (enc_records rs ++ enc_entry (EEnd endx)) ++ zeros z) Wr) as D.
        destruct (step_inbatch f st _ out _ _ _ D (record_kind r) IB) as (st' & EQ & IB' & BL' & CT').
        { cbn [length] in CT. lia. }
        rewrite EQ, <- BL'.
        pose proof (enc_entry_nonempty (entry_of_record r)) as NE.
        rewrite app_length in Hm, LF.
        apply IH with (k := k); try assumption.
        * cbn [length] in CT. lia.
        * lia.
        * lia.
      + (* the cut is inside this record *)
        rewrite firstn_app_le in * by lia.
        destruct f as [|f]; [lia|].
        destruct (dec_entry (firstn m (enc_entry (entry_of_record r)) ++ zeros z)) as [[[e' r'] n']|] eqn:D.
        * destruct (cut_entry _ m z e' r' n' Wr LT D) as (K & _ & z' & ->).
          assert (K' : kind_of e' = TAG_ITEM \/ kind_of e' = TAG_CLEAR) by (rewrite K; apply record_kind).
          destruct (step_inbatch f st _ out _ _ _ D K' IB) as (st' & EQ & IB' & BL' & CT').
          { cbn [length] in CT. lia. }
          rewrite EQ, <- BL'. rewrite read_zeros, IB'; [reflexivity|].
          pose proof (dec_entry_consumes compress decompress _ _ _ _ D).
          destruct (local_dec_entry compress decompress _ _ _ _ D) as (c & EQc & -> & _).
          rewrite EQc, app_length in LF. unfold blen in H. lia.
        * cbn [Reader.read_loop]. rewrite D. now rewrite IB.
  Qed.

  (* a cut strictly inside one batch, read from the idle state: nothing is
     emitted, no error, the file is cut back to the end of the previous batch *)
  Lemma read_cut_batch b p s m z out f :
    wf_batch b -> (m < length (enc_batch b))%nat ->
    (length (firstn m (enc_batch b) ++ zeros z) < f)%nat ->
    read_loop f (idle p s) (firstn m (enc_batch b) ++ zeros z) out = (rev out, RStop p).
  Proof.
    intros (WC & WS & WR) Hm LF. unfold Codec.enc_batch in *.
    set (rs := wb_records b) in *.
    set (st0 := EStart (N.of_nat (length rs)) (wb_seqno b)) in *.
    assert (W0 : wf_entry st0) by (split; assumption).
    destruct (le_lt_dec (length (enc_entry st0)) m) as [GE|LT].
    - rewrite firstn_app_ge in * by exact GE. rewrite <- app_assoc in *.
      destruct f as [|f]; [lia|]. cbn [Reader.read_loop].
      rewrite (dec_enc_entry compress decompress st0 _ W0). unfold st0 at 1. cbn [in_batch idle].
      pose proof (enc_entry_nonempty st0) as NE. rewrite app_length in Hm, LF.
      erewrite read_cut_tail with (k := 0); [reflexivity|exact WR|reflexivity|cbn [counter]; lia|apply hash_bound|lia|lia].
    - rewrite firstn_app_le in * by lia.
      destruct f as [|f]; [lia|]. cbn [Reader.read_loop].
      destruct (dec_entry (firstn m (enc_entry st0) ++ zeros z)) as [[[e' r'] n']|] eqn:D; [|reflexivity].
      destruct (cut_entry st0 m z e' r' n' W0 LT D) as (K & _ & z' & ->).
      destruct e'; cbn in K; try discriminate K.
      cbn [in_batch idle]. rewrite read_zeros; [reflexivity|].
      pose proof (dec_entry_consumes compress decompress _ _ _ _ D).
      destruct (local_dec_entry compress decompress _ _ _ _ D) as (c & EQc & -> & _).
      rewrite EQc, app_length in LF. unfold blen in H. lia.
  Qed.

  (* the batches that lie completely within the first m bytes *)
  Fixpoint complete_prefix (bs : list wbatch) (m : nat) : list wbatch :=
    match bs with
    | [] => []
    | b :: bs' =>
        if (length (enc_batch b) <=? m)%nat
        then b :: complete_prefix bs' (m - length (enc_batch b))
        else []
    end.

  Lemma read_cut_gen bs : forall p s m z out f,
    Forall wf_batch bs ->
    (length (firstn m (enc_journal bs) ++ zeros z) < f)%nat ->
    read_loop f (idle p s) (firstn m (enc_journal bs) ++ zeros z) out
      = (rev out ++ map rbatch_of (complete_prefix bs m),
         RStop (p + blen (enc_journal (complete_prefix bs m)))).
  Proof.
    induction bs as [|b bs IH]; intros p s m z out f W LF.
    - cbn [Codec.enc_journal map concat complete_prefix] in *. rewrite firstn_nil in *. cbn [app] in *.
      rewrite read_zeros by lia. cbn [in_batch idle pos]. rewrite app_nil_r. do 2 f_equal. unfold blen; cbn; lia.
    - inversion W as [|? ? Wb Wbs]; subst.
      rewrite enc_journal_cons in *. cbn [complete_prefix].
      destruct (Nat.leb_spec (length (enc_batch b)) m) as [GE|LT].
      + rewrite firstn_app_ge in * by exact GE. rewrite <- app_assoc in *.
        destruct (read_batch b p s _ out f Wb LF) as [EQ LT].
        rewrite EQ. rewrite IH by assumption.
        cbn [map rev]. rewrite <- app_assoc. cbn [app]. f_equal. f_equal.
        rewrite enc_journal_cons, blen_app. lia.
      + rewrite firstn_app_le in * by lia.
        rewrite read_cut_batch by assumption.
        cbn [map]. rewrite app_nil_r. do 2 f_equal. unfold blen; cbn; lia.
  Qed.

  (* ===== C03: the journal may end at ANY byte (with any amount of zero padding) ===== *)
  Theorem read_journal_cut bs m z :
    Forall wf_batch bs ->
    read_journal (firstn m (enc_journal bs) ++ zeros z)
      = (map rbatch_of (complete_prefix bs m),
         RStop (blen (enc_journal (complete_prefix bs m)))).
  Proof.
    intros W. unfold Reader.read_journal. rewrite rinit_idle.
    rewrite read_cut_gen by (assumption || lia). reflexivity.
  Qed.

  (* the repaired file is exactly the encoding of the surviving batches *)
  Lemma complete_prefix_is_prefix bs : forall m,
    exists tl, firstn m (enc_journal bs) = enc_journal (complete_prefix bs m) ++ tl.
  Proof.
    induction bs as [|b bs IH]; intros m.
    - exists []. now rewrite firstn_nil.
    - rewrite enc_journal_cons. cbn [complete_prefix].
      destruct (Nat.leb_spec (length (enc_batch b)) m) as [GE|LT].
      + rewrite firstn_app_ge by exact GE. destruct (IH (m - length (enc_batch b))%nat) as [tl ->].
        exists tl. now rewrite enc_journal_cons, app_assoc.
      + eexists. reflexivity.
  Qed.

  Lemma complete_prefix_wf bs m : Forall wf_batch bs -> Forall wf_batch (complete_prefix bs m).
  Proof.
    revert m; induction bs as [|b bs IH]; intros m W; cbn [complete_prefix]; [constructor|].
    inversion W; subst. destruct (length (enc_batch b) <=? m)%nat; [constructor; auto|constructor].
  Qed.

  Lemma enc_journal_app a b : enc_journal (a ++ b) = enc_journal a ++ enc_journal b.
  Proof. unfold Codec.enc_journal. now rewrite map_app, concat_app. Qed.

  (* ===== C03: after the repair, later appends are recoverable again ===== *)
  Theorem read_journal_reappend bs m z bs' z' :
    Forall wf_batch bs -> Forall wf_batch bs' ->
    let cp := complete_prefix bs m in
    let repaired := firstn (length (enc_journal cp)) (firstn m (enc_journal bs) ++ zeros z) in
    repaired = enc_journal cp /\
    read_journal (repaired ++ enc_journal bs' ++ zeros z')
      = (map rbatch_of (cp ++ bs'), RStop (blen (enc_journal (cp ++ bs')))).
  Proof.
    intros W W' cp repaired.
    assert (R : repaired = enc_journal cp).
    { unfold repaired. destruct (complete_prefix_is_prefix bs m) as [tl ->]. fold cp.
      rewrite <- app_assoc, firstn_app_le by lia. apply firstn_all. }
    split; [exact R|]. rewrite R, app_assoc, <- enc_journal_app.
    apply read_journal_roundtrip. apply Forall_app. split; [apply complete_prefix_wf|]; assumption.
  Qed.
End ReaderP.
