(* MapP.v — towards the ordered-map refinement (C01): what a write does to the newest-version reads,
   and what the compaction stream's per-key rule preserves.                                        *)
From FJ Require Import Bytes Codec Lsm BytesP LsmP TxP.
From Coq Require Import ZArith ZifyBool ZifyNat ZifyN.

Definition value_of (o : option ent) : option bytes :=
  match o with
  | Some e => if is_tomb e then None else Some (ev e)
  | None => None
  end.

(* ---- a write with a fresh, highest seqno ---- *)
(* point read in the active memtable after inserting e (seqno above everything in the memtable) *)
Lemma newest_insert_fresh e l k I :
  all_below (es e) l -> es e < I ->
  newest k I (mem_insert e l) = if list_eqb (ek e) k then Some e else newest k I l.
Proof.
  intros AB LT. unfold newest, mem_insert. cbn [best].
  destruct (list_eqb (ek e) k) eqn:K; cbn [andb].
  - destruct (N.ltb_spec (es e) I); [|lia]. apply best_acc_wins.
    intros x Hx. apply filter_In in Hx as [Hx _]. apply AB. exact Hx.
  - apply best_skip_other_key. exact K.
Qed.

(* the write path inserts with a seqno drawn after every seqno in the tree: the point read of the written
   key returns the written value (or absence for a tombstone), every other key is untouched *)
Theorem append_point_read e a k I :
  all_below (es e) a -> es e < I ->
  value_of (newest k I (mem_insert e a)) =
    if list_eqb (ek e) k then (if is_tomb e then None else Some (ev e)) else value_of (newest k I a).
Proof.
  intros AB LT. rewrite newest_insert_fresh by assumption.
  destruct (list_eqb (ek e) k); reflexivity.
Qed.

Lemma apply_filter_none h : apply_filter None h = h.
Proof. unfold apply_filter. destruct (is_tomb h); reflexivity. Qed.

(* ---- the compaction stream's rule for the versions of one key (newest first) ---- *)
(* without a filter: the newest version survives unchanged, unless it is a tombstone at the last level
   whose older versions are all expired (or absent) — then the whole key disappears, which reads the same *)
Theorem gc_key_keeps_newest W evict h t :
  match gc_key W evict None (h :: t) with
  | [] => is_tomb h = true /\ evict = true
  | h' :: _ => h' = h
  end.
Proof.
  cbn [gc_key]. rewrite apply_filter_none.
  destruct t as [|p r].
  - destruct (is_tomb h && evict) eqn:E; [apply andb_true_iff in E; exact E|reflexivity].
  - destruct (es p <? W).
    + destruct (is_tomb h && evict) eqn:E; [apply andb_true_iff in E; exact E|reflexivity].
    + reflexivity.
Qed.

Corollary gc_key_value W evict h t :
  value_of (hd_error (gc_key W evict None (h :: t))) = value_of (Some h).
Proof.
  pose proof (gc_key_keeps_newest W evict h t) as H.
  destruct (gc_key W evict None (h :: t)) as [|h' r]; cbn [hd_error].
  - destruct H as [T _]. cbn. now rewrite T.
  - now subst.
Qed.

(* with a filter: a kept key is untouched, a removed key becomes a tombstone, a replaced key carries the
   replacement — applied to the newest version only as far as reads can tell *)
Theorem gc_key_filter_head W r h t :
  is_tomb h = false ->
  match gc_key W false (Some r) (h :: t) with
  | [] => False
  | h' :: _ =>
      ek h' = ek h /\ es h' = es h /\
      match rule_verdict r (ek h) with
      | FKeep => h' = h
      | FRemove => is_tomb h' = true
      | FReplace v => is_tomb h' = false /\ ev h' = v
      end
  end.
Proof.
  intros NT. cbn [gc_key]. unfold apply_filter. rewrite NT.
  destruct (rule_verdict r (ek h)) eqn:V;
    destruct t as [|p q]; try (destruct (es p <? W)); cbn [is_tomb et ek es ev andb]; rewrite ?NT; cbn [andb];
    repeat split; try reflexivity.
Qed.
