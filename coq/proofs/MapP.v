(* MapP.v — towards the ordered-map refinement (C01): what a write does to the newest-version reads,
   and what the compaction stream's per-key rule preserves.                                        *)
From FJ Require Import Bytes Codec Lsm BytesP LsmP TxP.
From Coq Require Import ZArith ZifyBool ZifyNat ZifyN.

Definition value_of (o : option ent) : option bytes :=
  match o with
  | Some e => if is_tomb e then None else Some (ev e)
  | None => None
  end.

(* ---- a write with a fresh, highest seqno ---- *)
(* point read in the active memtable after inserting e (seqno above everything in the memtable) *)
Lemma newest_insert_fresh e l k I :
  all_below (es e) l -> es e < I ->
  newest k I (mem_insert e l) = if list_eqb (ek e) k then Some e else newest k I l.
Proof.
  intros AB LT. unfold newest, mem_insert. cbn [best].
  destruct (list_eqb (ek e) k) eqn:K; cbn [andb].
  - destruct (N.ltb_spec (es e) I); [|lia]. apply best_acc_wins.
    intros x Hx. apply filter_In in Hx as [Hx _]. apply AB. exact Hx.
  - apply best_skip_other_key. exact K.
Qed.

(* the write path inserts with a seqno drawn after every seqno in the tree: the point read of the written
   key returns the written value (or absence for a tombstone), every other key is untouched *)
Theorem append_point_read e a k I :
  all_below (es e) a -> es e < I ->
  value_of (newest k I (mem_insert e a)) =
    if list_eqb (ek e) k then (if is_tomb e then None else Some (ev e)) else value_of (newest k I a).
Proof.
  intros AB LT. rewrite newest_insert_fresh by assumption.
  destruct (list_eqb (ek e) k); reflexivity.
Qed.

Lemma apply_filter_none h : apply_filter None h = h.
Proof. unfold apply_filter. destruct (is_tomb h); reflexivity. Qed.

(* ---- the compaction stream's rule for the versions of one key (newest first) ---- *)
(* without a filter: the newest version survives unchanged, unless it is a tombstone at the last level
   whose older versions are all expired (or absent) — then the whole key disappears, which reads the same *)
Theorem gc_key_keeps_newest W evict h t :
  match gc_key W evict None (h :: t) with
  | [] => is_tomb h = true /\ evict = true
  | h' :: _ => h' = h
  end.
Proof.
  cbn [gc_key]. rewrite apply_filter_none.
  destruct t as [|p r].
  - destruct (is_tomb h && evict) eqn:E; [apply andb_true_iff in E; exact E|reflexivity].
  - destruct (es p <? W).
    + destruct (is_tomb h && evict) eqn:E; [apply andb_true_iff in E; exact E|reflexivity].
    + reflexivity.
Qed.

Corollary gc_key_value W evict h t :
  value_of (hd_error (gc_key W evict None (h :: t))) = value_of (Some h).
Proof.
  pose proof (gc_key_keeps_newest W evict h t) as H.
  destruct (gc_key W evict None (h :: t)) as [|h' r]; cbn [hd_error].
  - destruct H as [T _]. cbn. now rewrite T.
  - now subst.
Qed.

(* with a filter: a kept key is untouched, a removed key becomes a tombstone, a replaced key carries the
   replacement — applied to the newest version only as far as reads can tell *)
Theorem gc_key_filter_head W r h t :
  is_tomb h = false ->
  match gc_key W false (Some r) (h :: t) with
  | [] => False
  | h' :: _ =>
      ek h' = ek h /\ es h' = es h /\
      match rule_verdict r (ek h) with
      | FKeep => h' = h
      | FRemove => is_tomb h' = true
      | FReplace v => is_tomb h' = false /\ ev h' = v
      end
  end.
Proof.
  intros NT. cbn [gc_key]. unfold apply_filter. rewrite NT.
  destruct (rule_verdict r (ek h)) eqn:V;
    destruct t as [|p q]; try (destruct (es p <? W)); cbn [is_tomb et ek es ev andb]; rewrite ?NT; cbn [andb];
    repeat split; try reflexivity.
Qed.

(* ---- point reads agree with scans when the sources are ordered by recency ----
   A point read looks through the sources in order (active memtable, sealed memtables newest first, tables) and returns
   the first hit; a scan merges everything and lets the highest seqno win.  They agree on every key as long as, per key,
   an earlier source never holds an older version than a later one.  Replaying journal records that the tables already
   cover broke exactly this premise (defects repaired by 3ed2a5b and dc3abc4). *)
Lemma best_app k I a : forall b acc, best k I (a ++ b) acc = best k I b (best k I a acc).
Proof.
  induction a as [|e r IH]; intros b acc; cbn [app best]; [reflexivity|].
  destruct (list_eqb (ek e) k && (es e <? I)); [destruct acc as [x|]; [destruct (es x <? es e)|]|]; apply IH.
Qed.

Lemma best_acc_wins_key k I l a :
  (forall e, In e l -> list_eqb (ek e) k = true -> es e < I -> es e <= es a) -> best k I l (Some a) = Some a.
Proof.
  induction l as [|e r IH]; intros H; cbn [best]; [reflexivity|].
  destruct (list_eqb (ek e) k) eqn:K; cbn [andb].
  - destruct (N.ltb_spec (es e) I) as [L|G].
    + destruct (N.ltb_spec (es a) (es e)) as [L2|G2].
      * specialize (H e (or_introl eq_refl) K L). lia.
      * apply IH. intros x Hx. apply H. now right.
    + apply IH. intros x Hx. apply H. now right.
  - apply IH. intros x Hx. apply H. now right.
Qed.

Lemma best_none_in k I l e : best k I l None = Some e -> In e l /\ list_eqb (ek e) k = true /\ es e < I.
Proof.
  assert (G : forall l acc e, best k I l acc = Some e ->
              (acc = Some e \/ (In e l /\ list_eqb (ek e) k = true /\ es e < I))).
  { clear l e. induction l as [|x r IH]; intros acc e H; cbn [best] in H; [now left|].
    destruct (list_eqb (ek x) k) eqn:K; cbn [andb] in H.
    - destruct (N.ltb_spec (es x) I) as [L|G].
      + destruct acc as [a|].
        * destruct (es a <? es x).
          -- destruct (IH _ _ H) as [E|[A B]]; [injection E as <-; right; repeat split; auto; now left|right; split; [now right|exact B]].
          -- destruct (IH _ _ H) as [E|[A B]]; [now left|right; split; [now right|exact B]].
        * destruct (IH _ _ H) as [E|[A B]]; [injection E as <-; right; repeat split; auto; now left|right; split; [now right|exact B]].
      + destruct (IH _ _ H) as [E|[A B]]; [now left|right; split; [now right|exact B]].
    - destruct (IH _ _ H) as [E|[A B]]; [now left|right; split; [now right|exact B]]. }
  intros H. destruct (G l None e H) as [E|R]; [discriminate|exact R].
Qed.

(* earlier sources are at least as new as later ones, per key, among the versions a read at I can see *)
Fixpoint recency_ordered (k : bytes) (I : N) (srcs : list (list ent)) : Prop :=
  match srcs with
  | [] => True
  | a :: r => (forall x y, In x a -> In y (concat r) -> list_eqb (ek x) k = true -> list_eqb (ek y) k = true ->
                           es x < I -> es y < I -> es y <= es x) /\ recency_ordered k I r
  end.

Theorem first_hit_is_newest k I srcs :
  recency_ordered k I srcs -> first_some (map (newest k I) srcs) = newest k I (concat srcs).
Proof.
  induction srcs as [|a r IH]; intros H; cbn [map concat]; [reflexivity|]. destruct H as [H1 H2].
  assert (E : newest k I (a ++ concat r) = best k I (concat r) (newest k I a))
    by (unfold newest; apply best_app).
  rewrite E. unfold first_some. cbn [fold_right]. fold (first_some (map (newest k I) r)).
  destruct (newest k I a) as [e|] eqn:N.
  - symmetry. apply best_acc_wins_key. intros y Iy Ky Ly.
    destruct (best_none_in _ _ _ _ N) as [Ie [Ke Le]]. apply (H1 e y); assumption.
  - rewrite (IH H2). reflexivity.
Qed.

(* for a tree version: the point read returns what the scan shows for that key *)
Theorem point_read_agrees_with_scan t v k I :
  recency_ordered k I (mem_of t (v_active v) :: map (mem_of t) (v_sealed v) ++ [v_tables v]) ->
  v_get_ent t v k I = newest k I (v_all t v).
Proof.
  intros H. unfold v_get_ent, v_all.
  replace (newest k I (mem_of t (v_active v)) :: map (fun id => newest k I (mem_of t id)) (v_sealed v) ++ [newest k I (v_tables v)])
    with (map (newest k I) (mem_of t (v_active v) :: map (mem_of t) (v_sealed v) ++ [v_tables v]))
    by (cbn [map]; rewrite map_app, map_map; reflexivity).
  rewrite first_hit_is_newest by exact H. f_equal. cbn [concat]. f_equal.
  rewrite concat_app. cbn [concat]. rewrite app_nil_r. rewrite flat_map_concat_map. reflexivity.
Qed.

(* without the premise the two reads differ: an old version in the memtable in front of a newer one in the tables (what
   replaying covered journal records produced) *)
Definition shadow_tree : tree :=
  {| mems := [ {| m_id := 0; m_ents := [mkEnt [107] 1 VValue [1]] |} ];
     vers := [ {| v_seq := 3; v_active := 0; v_sealed := []; v_tables := [mkEnt [107] 2 VValue [2]] |} ];
     next_mid := 1 |}.
Lemma shadow_disagrees :
  value_of (v_get_ent shadow_tree (latest shadow_tree) [107] 10) = Some [1] /\
  value_of (newest [107] 10 (v_all shadow_tree (latest shadow_tree))) = Some [2].
Proof. vm_compute. split; reflexivity. Qed.
