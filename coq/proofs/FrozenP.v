(* FrozenP.v — C05 at the level of the database model: the reads of a live view (snapshot, read transaction, iterator: an
   instant registered in the snapshot tracker) are unchanged by EVERY operation of the database model — writes, batches,
   clears, ingestion, keyspace creation, rotation with its tracker GC and version-history maintenance, worker steps (flush,
   sealing, eviction), drains, major compaction with any filter — and the view stays usable.                               *)
From FJ Require Import Bytes Codec Reader Lsm Tracker Db BytesP LsmP TrackerP DbP TxP MapP FilterP OrderP DbOrderP SortP RefineP.
From Coq Require Import ZArith ZifyBool ZifyNat ZifyN Lia.

(* what a view at instant i reads in the keyspace registered under id *)
Definition vreads (i : N) (kss : list kspace) (id : N) (k : bytes) :=
  option_map (fun ks => reads (k_tree ks) k i) (kfind kss id).

(* the state a live view needs: tracker invariant for the list of live instants, visible <= next seqno *)
Definition VInv (d : db) (live : list N) : Prop := Inv (d_trk d) live /\ vis_le_seq d.

Lemma inv_set_visible t live s : Inv t live -> Inv (tr_set_visible t s) live.
Proof.
  intros [ND CT RV WL WV]. constructor; cbn [tr_set_visible tdata visible lowest_freed]; auto.
  - intros k c H. specialize (RV k c H). lia.
  - lia.
Qed.
Lemma inv_publish t live s : Inv t live -> Inv (tr_publish t s) live.
Proof. intros I. exact (inv_step (t, live) (TPublish s) I). Qed.
Lemma inv_gc_pullup t live : Inv t live -> Inv (tr_gc (tr_pullup t)) live.
Proof. intros I. apply inv_gc. exact (inv_step (t, live) TPullup I). Qed.

Lemma ids_of d ks : DInv d -> In ks (d_kss d) -> ids_ok (k_tree ks).
Proof. intros H I. exact (ti_ids _ (proj1 (H ks I))). Qed.

(* ---- one committed batch ---- *)
Lemma vreads_apply_item i s kss it id k : i <= s -> vreads i (apply_item s kss it) id k = vreads i kss id k.
Proof.
  intros L. unfold vreads, apply_item. rewrite kfind_map by (intros x; destruct (k_id x =? ri_ks it); reflexivity).
  destruct (kfind kss id) as [ks|]; [|reflexivity]. cbn [option_map]. destruct (k_id ks =? ri_ks it); [|reflexivity].
  cbn [with_tree k_tree]. f_equal. apply append_frozen. cbn. exact L.
Qed.
Lemma vreads_fold i s mi : i <= s -> forall kss id k, vreads i (fold_left (apply_item s) mi kss) id k = vreads i kss id k.
Proof. intros L. induction mi as [|it r IH]; intros kss id k; cbn [fold_left]; [reflexivity|]. rewrite IH. apply vreads_apply_item, L. Qed.

Lemma vreads_set i d ks t' n trk id k : ks_of d (k_id ks) = Some ks ->
  (forall k0, reads t' k0 i = reads (k_tree ks) k0 i) ->
  vreads i (d_kss (upd d n trk (set_ks d (with_tree ks t')))) id k = vreads i (d_kss d) id k.
Proof.
  intros K R. unfold vreads. cbn [d_kss upd]. unfold set_ks. rewrite kfind_set by exact K.
  destruct (N.eqb_spec id (k_id ks)) as [E|NE]; [|reflexivity]. subst id. assert (K' : kfind (d_kss d) (k_id ks) = Some ks) by exact K.
  rewrite K'. cbn [option_map with_tree k_tree]. f_equal. apply R.
Qed.

Lemma ks_of_id d id ks : ks_of d id = Some ks -> ks_of d (k_id ks) = Some ks.
Proof. intros K. destruct (kfind_some _ _ _ K) as [_ E]. rewrite E. exact K. Qed.

(* ---- rotation (with tracker GC and version-history maintenance), worker steps, drains ---- *)
Lemma do_rotate_frozen d id1 live i : DInv d -> VInv d live -> In i live ->
  forall id k, vreads i (d_kss (fst (do_rotate d id1))) id k = vreads i (d_kss d) id k.
Proof.
  intros DI [IT VS] Hi id k.
  unfold do_rotate. destruct (ks_of d id1) as [ks|] eqn:K; [|reflexivity]. destruct (t_rotate (k_tree ks)) as [t ok] eqn:R.
  destruct ok; [|reflexivity]. cbn [fst]. assert (Et : t = fst (t_rotate (k_tree ks))) by (rewrite R; reflexivity).
  unfold after_rotate, journal_maintenance. cbn [d_kss upd upd_queue d_trk d_map].
  assert (W' : lowest_freed (tr_gc (tr_pullup (d_trk d))) <= i).
  { pose proof (inv_wm_live _ _ (inv_gc_pullup _ _ IT) i Hi). lia. }
  unfold vreads. rewrite kfind_map by (intros x; destruct (existsb _ _); reflexivity).
  unfold set_ks. cbn [d_kss upd]. rewrite kfind_set by exact (ks_of_id _ _ _ K).
  assert (MA : forall x, vers (k_tree x) <> [] ->
            reads (k_tree (if existsb (fun p => snd p =? k_id x) (d_map d)
                           then with_tree x (vh_maintenance (lowest_freed (tr_gc (tr_pullup (d_trk d)))) (k_tree x)) else x)) k i = reads (k_tree x) k i).
  { intros x NE. destruct (existsb _ _); [|reflexivity]. cbn [with_tree k_tree]. apply maintenance_frozen; assumption. }
  pose proof (ids_of d ks DI (ks_of_in _ _ _ K)) as IK.
  destruct (N.eqb_spec id (k_id ks)) as [E|NE]; cbn [option_map].
  + subst id. assert (K' : kfind (d_kss d) (k_id ks) = Some ks) by exact (ks_of_id _ _ _ K). rewrite K'. cbn [option_map]. f_equal.
    rewrite MA by (cbn [with_tree k_tree]; subst t; exact (proj1 (ids_ok_apply _ TRotate IK))).
    cbn [with_tree k_tree]. subst t. apply rotate_frozen, IK.
  + destruct (kfind (d_kss d) id) as [x|] eqn:Kx; cbn [option_map]; [|reflexivity]. f_equal. apply MA.
    exact (proj1 (ids_of d x DI (proj1 (kfind_some _ _ _ Kx)))).
Qed.

Lemma do_step_frozen d live i : DInv d -> VInv d live -> In i live ->
  forall id k, vreads i (d_kss (fst (do_step d))) id k = vreads i (d_kss d) id k.
Proof.
  intros DI V Hi id k. destruct V as [IT VS]. destruct (params_ok d live i IT VS Hi) as [LS LW].
  unfold do_step. destruct (d_queue d) as [|m q]; [reflexivity|].
  set (d0 := upd_queue d q (d_flushq d)). destruct m as [id1 mid| |id1].
  - destruct (ks_of d0 id1) as [ks|] eqn:K0; [|reflexivity]. destruct (_ =? _); [|reflexivity]. cbn [fst].
    apply (do_rotate_frozen d0 id1 live i); [apply upd_queue_dinv, DI|split; [exact IT|exact VS]|exact Hi].
  - destruct (d_flushq d0) as [|id1 fq]; [reflexivity|].
    set (d1 := maybe_seal (upd_queue d0 (d_queue d0) fq)).
    assert (E1 : d_kss d1 = d_kss d) by (unfold d1, maybe_seal; destruct (_ && _); reflexivity).
    assert (S1 : d_seqno d1 = d_seqno d) by (unfold d1, maybe_seal; destruct (_ && _); reflexivity).
    assert (T1 : d_trk d1 = d_trk d) by (unfold d1, maybe_seal; destruct (_ && _); reflexivity).
    destruct (ks_of d1 id1) as [ks|] eqn:K; [|cbn [fst]; rewrite E1; reflexivity]. cbn [fst].
    destruct (v_sealed (latest (k_tree ks))) eqn:SE; cbn [d_kss journal_maintenance push_msg upd_queue]; [rewrite E1; reflexivity|].
    unfold draw_version. cbn [fst snd d_kss upd].
    assert (Kd : ks_of d id1 = Some ks) by (unfold ks_of in *; rewrite E1 in K; exact K).
    unfold vreads, set_ks. cbn [d_kss upd]. rewrite E1. rewrite kfind_set by exact (ks_of_id _ _ _ Kd).
    destruct (N.eqb_spec id (k_id ks)) as [E|NE]; [|reflexivity]. subst id.
    assert (K' : kfind (d_kss d) (k_id ks) = Some ks) by exact (ks_of_id _ _ _ Kd). rewrite K'. cbn [option_map with_tree k_tree]. f_equal.
    apply flush_frozen; [exact (proj1 (ids_of d ks DI (ks_of_in _ _ _ Kd)))|unfold W_of; rewrite T1; exact LW|rewrite S1; exact LS].
  - reflexivity.
Qed.

Lemma VInv_do_rotate d id1 live : VInv d live -> VInv (fst (do_rotate d id1)) live.
Proof.
  intros [IT VS]. unfold do_rotate. destruct (ks_of d id1) as [ks|]; [|split; assumption]. destruct (t_rotate (k_tree ks)) as [t ok].
  destruct ok; [|split; assumption]. cbn [fst]. unfold after_rotate, journal_maintenance, VInv, vis_le_seq. cbn [d_trk d_seqno upd upd_queue].
  split; [apply inv_gc_pullup, IT|]. unfold vis_le_seq in VS. unfold tr_gc. cbn [visible]. unfold tr_pullup. destruct (tdata (d_trk d)); cbn [visible]; exact VS.
Qed.

Lemma VInv_do_step d live : VInv d live -> VInv (fst (do_step d)) live.
Proof.
  intros V. unfold do_step. destruct (d_queue d) as [|m q]; [exact V|].
  set (d0 := upd_queue d q (d_flushq d)). assert (V0 : VInv d0 live) by exact V. destruct m as [id1 mid| |id1].
  - destruct (ks_of d0 id1) as [ks|]; [|exact V0]. destruct (_ =? _); [|exact V0]. cbn [fst]. apply VInv_do_rotate, V0.
  - destruct (d_flushq d0) as [|id1 fq]; [exact V0|].
    set (d1 := maybe_seal (upd_queue d0 (d_queue d0) fq)).
    assert (V1 : VInv d1 live) by (unfold d1, maybe_seal; destruct (_ && _); exact V0).
    destruct (ks_of d1 id1) as [ks|]; [|exact V1]. cbn [fst].
    destruct (v_sealed (latest (k_tree ks))); [exact V1|]. unfold draw_version. cbn [fst snd].
    destruct V1 as [I1 S1]. unfold VInv, vis_le_seq in *. cbn [d_trk d_seqno journal_maintenance push_msg upd_queue upd].
    split; [apply inv_set_visible, I1|cbn [tr_set_visible visible]; lia].
  - exact V0.
Qed.

Lemma do_drain_frozen f : forall d n live i, DInv d -> VInv d live -> In i live ->
  forall id k, vreads i (d_kss (fst (do_drain f d n))) id k = vreads i (d_kss d) id k.
Proof.
  induction f as [|f IH]; intros d n live i DI V Hi id k; cbn [do_drain]; [reflexivity|]. destruct (d_queue d) eqn:Q; [reflexivity|].
  rewrite (IH (fst (do_step d)) (n + 1) live i (do_step_dinv d DI) (VInv_do_step d live V) Hi). apply (do_step_frozen d live i); assumption.
Qed.

(* ---- every operation ---- *)
Theorem wstep_frozen d o live i : DInv d -> UQ d -> VInv d live -> In i live ->
  forall id k, kfind (d_kss d) id <> None -> vreads i (d_kss (wstep d o)) id k = vreads i (d_kss d) id k.
Proof.
  intros DI U [IT VS] Hi id k EX. destruct (params_ok d live i IT VS Hi) as [LS LW].
  destruct o; cbn [wstep].
  - (* keyspace creation: existing keyspaces are untouched *)
    unfold do_ks. destruct (blookup name (d_map d)); cbn [fst]; [reflexivity|].
    unfold vreads. cbn [d_kss upd_views upd_reg draw_version fst snd upd]. unfold kfind at 1. cbn [find k_id].
    destruct (kfind (d_kss d) id) as [ks|] eqn:K; [|congruence]. destruct (kfind_some _ _ _ K) as [Iks Eid].
    pose proof (proj2 U ks Iks). destruct (N.eqb_spec (d_next_id d) id); [lia|].
    fold (kfind (filter (fun k0 => negb (k_id k0 =? d_next_id d)) (d_kss d)) id). rewrite kfind_filter_ne by lia. rewrite K. reflexivity.
  - unfold write_one. destruct (ks_of d id0) as [ks|]; [|reflexivity]. destruct (k_deleted ks); [reflexivity|]. destruct (d_poisoned d); [reflexivity|].
    cbn [fst]. unfold commit_batch. cbn [d_kss upd upd_journal]. apply vreads_fold, LS.
  - unfold commit_batch. cbn [d_kss upd upd_journal]. apply vreads_fold, LS.
  - unfold do_clear. destruct (ks_of d id0) as [ks|] eqn:K; [|reflexivity]. destruct (d_poisoned d); [reflexivity|].
    unfold draw_version. cbn [fst snd].
    match goal with |- vreads i (d_kss (upd ?D ?N ?T (set_ks ?D (with_tree ks ?T')))) id k = _ =>
      rewrite (vreads_set i D ks T' N T id k) end; [reflexivity|exact (ks_of_id _ _ _ K)|].
    intros k0. apply clear_frozen; [apply (ids_of d), (ks_of_in _ _ _ K); exact DI|cbn; lia].
  - apply (do_rotate_frozen d id0 live i); [exact DI|split; assumption|exact Hi].
  - apply (do_step_frozen d live i); [exact DI|split; assumption|exact Hi].
  - apply (do_drain_frozen fuel d 0 live i); [exact DI|split; assumption|exact Hi].
  - unfold do_compact. destruct (ks_of d id0) as [ks|] eqn:K; [|reflexivity]. destruct (v_tables _); [reflexivity|]. unfold draw_version. cbn [fst snd].
    match goal with |- vreads i (d_kss (upd ?D ?N ?T (set_ks ?D (with_tree ks ?T')))) id k = _ =>
      rewrite (vreads_set i D ks T' N T id k) end; [reflexivity|exact (ks_of_id _ _ _ K)|].
    intros k0. apply compact_frozen; [exact (proj1 (ids_of d ks DI (ks_of_in _ _ _ K)))|exact LW|exact LS].
  - (* bulk ingestion: rotate, flush what is in memory (no GC), register the ingested table *)
    unfold do_ingest. destruct (ks_of d id0) as [ks|] eqn:K; [|reflexivity].
    destruct items as [|it0 its]; [reflexivity|].
    destruct (t_rotate (k_tree ks)) as [t1 b] eqn:R. assert (E1 : t1 = fst (t_rotate (k_tree ks))) by (rewrite R; reflexivity).
    pose proof (ids_of d ks DI (ks_of_in _ _ _ K)) as IK.
    assert (I1 : ids_ok t1) by (subst t1; exact (ids_ok_apply _ TRotate IK)).
    assert (R1 : forall k0, reads t1 k0 i = reads (k_tree ks) k0 i) by (intros k0; subst t1; apply rotate_frozen, IK).
    destruct (v_sealed (latest t1)) as [|i0 ids] eqn:SE; unfold draw_version; cbn [fst snd]; cbn [d_kss push_msg upd_queue].
    + match goal with |- vreads i (d_kss (upd ?D ?N ?T (set_ks ?D (with_tree ks ?T')))) id k = _ =>
        rewrite (vreads_set i D ks T' N T id k) end; [reflexivity|exact (ks_of_id _ _ _ K)|].
      intros k0. rewrite ingest_register_frozen; [apply R1|exact (proj1 I1)|cbn; lia].
    + match goal with |- vreads i (d_kss (upd ?D ?N ?T (set_ks ?D (with_tree ks ?T')))) id k = _ =>
        rewrite (vreads_set i D ks T' N T id k) end; [reflexivity|exact (ks_of_id _ _ _ K)|].
      intros k0. rewrite ingest_register_frozen; [|exact (proj1 (ids_ok_apply t1 (TFlush 0 (d_seqno d)) I1))|cbn; lia].
      rewrite flush_frozen; [apply R1|exact (proj1 I1)|lia|exact LS].
Qed.

(* ---- the tracker invariant survives every operation (no view is opened or closed by these operations) ---- *)
Lemma VInv_do_drain f : forall d n live, VInv d live -> VInv (fst (do_drain f d n)) live.
Proof. induction f as [|f IH]; intros d n live V; cbn [do_drain]; [exact V|]. destruct (d_queue d); [exact V|]. apply IH, VInv_do_step, V. Qed.

Theorem wstep_VInv d o live : VInv d live -> VInv (wstep d o) live.
Proof.
  intros [IT VS]. unfold VInv, vis_le_seq in *. destruct o; cbn [wstep].
  - unfold do_ks. destruct (blookup name (d_map d)); cbn [fst]; [split; assumption|].
    cbn [d_trk d_seqno upd_views upd_reg draw_version fst snd upd]. split; [apply inv_set_visible, IT|cbn [tr_set_visible visible]; lia].
  - unfold write_one. destruct (ks_of d id) as [ks|]; [|split; assumption]. destruct (k_deleted ks); [split; assumption|].
    destruct (d_poisoned d); [split; assumption|]. cbn [fst]. unfold commit_batch. cbn [d_trk d_seqno upd upd_journal].
    split; [apply inv_publish, IT|cbn [tr_publish visible]; lia].
  - unfold commit_batch. cbn [d_trk d_seqno upd upd_journal]. split; [apply inv_publish, IT|cbn [tr_publish visible]; lia].
  - unfold do_clear. destruct (ks_of d id) as [ks|]; [|split; assumption]. destruct (d_poisoned d); [split; assumption|].
    unfold draw_version. cbn [fst snd d_trk d_seqno upd upd_journal].
    split; [apply inv_publish, inv_set_visible, IT|cbn [tr_publish tr_set_visible visible]; lia].
  - apply (VInv_do_rotate d id live). split; assumption.
  - apply (VInv_do_step d live). split; assumption.
  - apply (VInv_do_drain fuel d 0 live). split; assumption.
  - unfold do_compact. destruct (ks_of d id) as [ks|]; [|split; assumption]. destruct (v_tables _); [split; assumption|].
    unfold draw_version. cbn [fst snd d_trk d_seqno upd]. split; [apply inv_set_visible, IT|cbn [tr_set_visible visible]; lia].
  - unfold do_ingest. destruct (ks_of d id) as [ks|]; [|split; assumption].
    destruct items; [cbn [fst d_trk d_seqno push_msg upd_queue upd]; split; [apply inv_gc, IT|unfold tr_gc; cbn [visible]; exact VS]|].
    destruct (t_rotate (k_tree ks)) as [t1 b]. destruct (v_sealed (latest t1)); unfold draw_version; cbn [fst snd d_trk d_seqno push_msg upd_queue upd];
      (split; [apply inv_gc; repeat apply inv_set_visible; exact IT|unfold tr_gc; cbn [visible tr_set_visible]; lia]).
Qed.

Lemma kfind_ids kss kss' id : map k_id kss' = map k_id kss -> kfind kss id <> None -> kfind kss' id <> None.
Proof.
  intros E H. destruct (kfind kss id) as [ks|] eqn:K; [|congruence]. destruct (kfind_some _ _ _ K) as [I Eid].
  assert (In id (map k_id kss')) by (rewrite E, <- Eid; apply in_map, I).
  rewrite in_map_iff in H0. destruct H0 as [k0 [E0 I0]]. unfold kfind. intros F.
  pose proof (find_none _ _ F k0 I0) as X. cbn in X. rewrite E0, N.eqb_refl in X. discriminate.
Qed.

Lemma wstep_keeps_ids d o id : UQ d -> kfind (d_kss d) id <> None -> kfind (d_kss (wstep d o)) id <> None.
Proof.
  intros U H. destruct o; cbn [wstep].
  - unfold do_ks. destruct (blookup name (d_map d)); cbn [fst]; [exact H|]. cbn [d_kss upd_views upd_reg draw_version fst snd upd].
    unfold kfind. cbn [find k_id]. destruct (d_next_id d =? id); [discriminate|].
    destruct (kfind (d_kss d) id) as [ks|] eqn:K; [|congruence]. destruct (kfind_some _ _ _ K) as [I Eid]. pose proof (proj2 U ks I).
    fold (kfind (filter (fun k0 => negb (k_id k0 =? d_next_id d)) (d_kss d)) id). rewrite kfind_filter_ne by lia. rewrite K. discriminate.
  - unfold write_one. destruct (ks_of d id0) as [ks|]; [|exact H]. destruct (k_deleted ks); [exact H|]. destruct (d_poisoned d); [exact H|].
    cbn [fst]. apply (kfind_ids (d_kss d)); [apply idsame_fold|exact H].
  - apply (kfind_ids (d_kss d)); [apply idsame_fold|exact H].
  - unfold do_clear. destruct (ks_of d id0) as [ks|]; [|exact H]. destruct (d_poisoned d); [exact H|]. unfold draw_version. cbn [fst snd].
    apply (kfind_ids (d_kss d)); [|exact H]. cbn [d_kss upd]. apply (idsame_set (upd _ _ _ (d_kss d)) ks).
  - apply (kfind_ids (d_kss d)); [exact (proj1 (idsame_do_rotate d id0))|exact H].
  - apply (kfind_ids (d_kss d)); [exact (proj1 (idsame_do_step d))|exact H].
  - apply (kfind_ids (d_kss d)); [exact (proj1 (idsame_do_drain fuel d 0))|exact H].
  - unfold do_compact. destruct (ks_of d id0) as [ks|]; [|exact H]. destruct (v_tables _); [exact H|]. unfold draw_version. cbn [fst snd].
    apply (kfind_ids (d_kss d)); [|exact H]. cbn [d_kss upd]. apply (idsame_set (upd _ _ _ (d_kss d)) ks).
  - unfold do_ingest. destruct (ks_of d id0) as [ks|]; [|exact H]. destruct items; [exact H|].
    destruct (t_rotate (k_tree ks)) as [t1 b]. destruct (v_sealed (latest t1)); unfold draw_version; cbn [fst snd];
      (apply (kfind_ids (d_kss d)); [|exact H]); cbn [d_kss push_msg upd_queue upd]; apply (idsame_set (upd _ _ _ (d_kss d)) ks).
Qed.

(* every program: a view that is live throughout reads the same at the end as at the beginning, in every keyspace that
   existed when it was opened; and those reads are defined (the view never fails) *)
Theorem wrun_frozen ops : forall d live i, DInv d -> UQ d -> VInv d live -> In i live ->
  forall id k, kfind (d_kss d) id <> None -> vreads i (d_kss (fold_left wstep ops d)) id k = vreads i (d_kss d) id k.
Proof.
  induction ops as [|o r IH]; intros d live i DI U V Hi id k EX; cbn [fold_left]; [reflexivity|].
  rewrite (IH (wstep d o) live i); [apply (wstep_frozen d o live i); assumption|apply (wrun_dinv [o]), DI|apply wstep_UQ, U|apply wstep_VInv, V|exact Hi|].
  apply wstep_keeps_ids; assumption.
Qed.

(* ---- a snapshot opened after any program, then any program ---- *)
Definition open_view (d : db) : db := upd d (d_seqno d) (fst (tr_open (d_trk d))) (d_kss d).

Lemma VInv_open d live : VInv d live -> VInv (open_view d) (visible (d_trk d) :: live).
Proof.
  intros [IT VS]. split; [exact (inv_step (d_trk d, live) TOpen IT)|]. unfold vis_le_seq, open_view in *. cbn. exact VS.
Qed.
Lemma VInv_init mode filters : VInv (db_init mode filters) [].
Proof. split; [apply inv_init|unfold vis_le_seq; cbn; lia]. Qed.
Lemma run_VInv ops : forall d live, VInv d live -> VInv (fold_left wstep ops d) live.
Proof. induction ops as [|o r IH]; intros d live V; cbn [fold_left]; [exact V|]. apply IH, wstep_VInv, V. Qed.

Theorem snapshot_frozen mode filters p1 p2 id k :
  let d1 := fold_left wstep p1 (db_init mode filters) in
  let i := visible (d_trk d1) in
  let d2 := fold_left wstep p2 (open_view d1) in
  kfind (d_kss d1) id <> None -> vreads i (d_kss d2) id k = vreads i (d_kss d1) id k.
Proof.
  intros d1 i d2 EX. unfold d2.
  rewrite (wrun_frozen p2 (open_view d1) [i] i); [reflexivity| | | |now left|exact EX].
  - apply (dinv_ext d1); [reflexivity|cbn; lia|apply wrun_dinv, dinv_init].
  - destruct (run_UQ p1 _ (UQ_init mode filters)) as [A B]. split; [exact A|exact B].
  - apply (VInv_open d1 []). apply run_VInv, VInv_init.
Qed.
