(* DurableP.v — journal durability end to end: writer buffering (WriterP) + reader cut theorem (ReaderP).
   Whatever prefix of the journal stream survives (process crash: bytes handed to the OS; power loss: bytes
   synced), recovery reads exactly the complete batches in it, and that includes every batch written
   before the last persist of the corresponding strength. *)
From FJ Require Import Bytes Codec Reader BytesP CodecP ReaderP Writer WriterP.
From Coq Require Import ZArith ZifyBool ZifyNat ZifyN.

Set Default Proof Using "All".

Section DurableP.
  Variable hash : bytes -> N.
  Variable compress : bytes -> bytes.
  Variable decompress : bytes -> N -> option bytes.
  Hypothesis hash_bound : forall b, hash b < 2 ^ 64.

  Notation enc_batch := (enc_batch hash compress).
  Notation enc_journal := (enc_journal hash compress).
  Notation read_journal := (read_journal hash compress decompress).
  Notation complete_prefix := (complete_prefix hash compress).
  Notation wf_batch := (wf_batch compress decompress).

  (* the complete prefix within m bytes contains every batch that lies within the first m bytes *)
  Lemma complete_prefix_app bs1 : forall bs2 m,
    (length (enc_journal bs1) <= m)%nat ->
    complete_prefix (bs1 ++ bs2) m = bs1 ++ complete_prefix bs2 (m - length (enc_journal bs1)).
  Proof.
    induction bs1 as [|b r IH]; intros bs2 m H; cbn [app].
    - cbn. now rewrite Nat.sub_0_r.
    - rewrite (enc_journal_cons hash compress decompress hash_bound) in H. rewrite app_length in H.
      cbn [ReaderP.complete_prefix]. destruct (Nat.leb_spec (length (enc_batch b)) m) as [L|G]; [|lia].
      rewrite IH by lia. rewrite (enc_journal_cons hash compress decompress hash_bound), app_length.
      replace (m - (length (enc_batch b) + length (enc_journal r)))%nat
        with (m - length (enc_batch b) - length (enc_journal r))%nat by lia.
      reflexivity.
  Qed.

  (* a surviving image: some prefix of the journal stream at least as long as what was made durable *)
  Theorem durable_batches_recovered (bs1 bs2 : list wbatch) (m z : nat) :
    Forall wf_batch (bs1 ++ bs2) ->
    (length (enc_journal bs1) <= m)%nat ->
    exists rest,
      read_journal (firstn m (enc_journal (bs1 ++ bs2)) ++ zeros z)
        = (map rbatch_of (bs1 ++ rest), RStop (blen (enc_journal (bs1 ++ rest))))
      /\ exists k, rest = firstn k bs2.
  Proof.
    intros W H.
    rewrite (read_journal_cut hash compress decompress hash_bound _ m z W).
    rewrite complete_prefix_app by exact H.
    exists (complete_prefix bs2 (m - length (enc_journal bs1))). split; [reflexivity|].
    (* the complete prefix of bs2 is one of its prefixes *)
    generalize (m - length (enc_journal bs1))%nat. clear.
    induction bs2 as [|b r IH]; intros n.
    - exists 0%nat. reflexivity.
    - cbn [ReaderP.complete_prefix]. destruct (length (enc_batch b) <=? n)%nat.
      + destruct (IH (n - length (enc_batch b))%nat) as [k ->]. exists (S k). reflexivity.
      + exists 0%nat. reflexivity.
  Qed.
End DurableP.
