(* RecoverInvP.v — recovery re-establishes the invariant of the write path: for ANY disk image whose journal batches carry
   increasing seqnos and whose trees hold tables only, the keyspaces recovery produces have their sources ordered by recency
   (a record is replayed only when it is newer than everything the tables hold — the rule put in place by 3ed2a5b / dc3abc4)
   and every entry below the restored seqno counter.  Hence after a reopen point reads agree with scans, and every later
   write supersedes everything recovered (C04, C11).                                                                       *)
From FJ Require Import Bytes Codec Reader Lsm Tracker Db BytesP LsmP TxP MapP FilterP OrderP DbOrderP SortP RefineP RecoverP.
From Coq Require Import ZArith ZifyBool ZifyNat ZifyN Lia.

Definition memsrc (t : tree) : list ent := mem_of t (v_active (latest t)) ++ flat_map (mem_of t) (v_sealed (latest t)).

(* everything in the memtables is below n *)
Definition QQ (n : N) (t : tree) : Prop := TInv t /\ forall y, In y (memsrc t) -> es y < n.
(* while the batch with seqno s is being replayed: sealed memtables below s, the active memtable at most s *)
Definition Q (s : N) (t : tree) : Prop :=
  TInv t /\ (forall y, In y (flat_map (mem_of t) (v_sealed (latest t))) -> es y < s) /\
  (forall y, In y (mem_of t (v_active (latest t))) -> es y <= s).

Lemma QQ_Q n s t : n <= s -> QQ n t -> Q s t.
Proof.
  intros L [T M]. split; [exact T|]. split; intros y Iy.
  - assert (es y < n) by (apply M; unfold memsrc; apply in_or_app; now right). lia.
  - assert (es y < n) by (apply M; unfold memsrc; apply in_or_app; now left). lia.
Qed.
Lemma Q_QQ s t : Q s t -> QQ (s + 1) t.
Proof.
  intros [T [A B]]. split; [exact T|]. intros y Iy. unfold memsrc in Iy. apply in_app_or in Iy.
  destruct Iy as [Iy|Iy]; [specialize (B y Iy)|specialize (A y Iy)]; lia.
Qed.
Lemma QQ_mono n m t : n <= m -> QQ n t -> QQ m t.
Proof. intros L [T M]. split; [exact T|]. intros y Iy. specialize (M y Iy). lia. Qed.

Lemma max_seq_ge l : forall e, In e l -> match max_seq l with Some m => es e <= m | None => False end.
Proof. intros e Ie. destruct (max_seq_bound l e Ie) as [m [-> L]]. exact L. Qed.

(* a record newer than everything the tables hold is appended: the discipline of the write path holds for it *)
Lemma Q_append s t e : Q s t -> es e = s ->
  (forall p, t_highest_persisted t = Some p -> p < s) -> Q s (t_append t e).
Proof.
  intros [T [A B]] E HP.
  assert (D : disciplined t (TAppend e)).
  { cbn [disciplined]. intros y Iy. unfold srcs in Iy. cbn [tl] in Iy. rewrite concat_app in Iy. apply in_app_or in Iy.
    destruct Iy as [Iy|Iy].
    - rewrite <- flat_map_concat_map in Iy. specialize (A y Iy). lia.
    - cbn [concat] in Iy. rewrite app_nil_r in Iy. unfold t_highest_persisted in HP.
      pose proof (max_seq_ge _ _ Iy) as G. destruct (max_seq (v_tables (latest t))) as [m|]; [|contradiction].
      specialize (HP m eq_refl). lia. }
  split; [apply (tinv_step t (TAppend e) T D)|]. split.
  - intros y Iy. apply A. assert (LT : latest (t_append t e) = latest t) by reflexivity. rewrite LT in Iy.
    rewrite in_flat_map in *. destruct Iy as [id [Iid Iy]]. exists id. split; [exact Iid|].
    rewrite mem_of_append_other in Iy; [exact Iy|]. intros ->. exact (ti_distinct _ T Iid).
  - intros y Iy. assert (LT : latest (t_append t e) = latest t) by reflexivity. rewrite LT in Iy.
    rewrite mem_of_append_same in Iy by exact T. destruct Iy as [<-|Iy]; [lia|]. apply filter_In in Iy as [Iy _]. apply B, Iy.
Qed.

Lemma Q_clear s sq t : TInv t -> Q s (t_clear sq t).
Proof.
  intros T. split; [apply (tinv_step t (TClear sq) T); exact I|].
  unfold t_clear, latest. cbn [vers hd v_active v_sealed flat_map]. split; [intros y []|].
  intros y Iy. unfold mem_of in Iy. cbn [mems find m_id] in Iy. rewrite N.eqb_refl in Iy. destruct Iy.
Qed.

Section Replay.
  Variable cfg : defects.
  Variable meta : list (N * bytes).
  Variable mp : list (bytes * N).
  Hypothesis SH : d_replay_shadow cfg = false.

  Definition KQ (s : N) (kss : list kspace) : Prop := forall ks, In ks kss -> Q s (k_tree ks).
  Definition KQQ (n : N) (kss : list kspace) : Prop := forall ks, In ks kss -> QQ n (k_tree ks).

  Lemma replay_items_Q s items : forall kss, KQ s kss -> KQ s (replay_items cfg s kss meta mp items).
  Proof.
    unfold replay_items. induction items as [|it r IH]; intros kss H; cbn [fold_left]; [exact H|]. apply IH.
    destruct (alookup (ri_ks it) meta) as [name|]; [|exact H]. destruct (blookup name mp) as [id|]; [|exact H].
    intros ks I. rewrite in_map_iff in I. destruct I as [k0 [<- I0]]. specialize (H k0 I0).
    destruct (k_id k0 =? id); [|exact H]. rewrite SH. cbn [negb andb].
    destruct (t_highest_persisted (k_tree k0)) as [p|] eqn:HP.
    - destruct (N.leb_spec s p); [exact H|]. cbn [with_tree k_tree]. apply Q_append; [exact H|reflexivity|]. intros p' E. rewrite HP in E. injection E as <-. lia.
    - cbn [with_tree k_tree]. apply Q_append; [exact H|reflexivity|]. intros p' E. rewrite HP in E. discriminate.
  Qed.

  Lemma replay_clears_Q s clears : forall sq kss, KQ s kss -> KQ s (snd (replay_clears cfg s (sq, kss) meta mp clears)).
  Proof.
    unfold replay_clears. induction clears as [|c r IH]; intros sq kss H; cbn [fold_left]; [exact H|].
    destruct (alookup c meta) as [name|]; [|apply IH, H]. destruct (blookup name mp) as [id|]; [|apply IH, H].
    destruct (existsb _ kss); [|apply IH, H]. apply IH.
    intros ks I. rewrite in_map_iff in I. destruct I as [k0 [<- I0]]. specialize (H k0 I0).
    destruct (k_id k0 =? id); [|exact H]. cbn [with_tree k_tree]. apply Q_clear. exact (proj1 H).
  Qed.

  Lemma replay_batch_Q b sq kss : KQ (rb_seqno b) kss -> KQ (rb_seqno b) (snd (replay_batch cfg meta mp (sq, kss) b)).
  Proof. intros H. unfold replay_batch. apply replay_clears_Q, replay_items_Q, H. Qed.

  (* batches with increasing seqnos *)
  Fixpoint incr (lo : N) (bs : list rbatch) : Prop :=
    match bs with
    | [] => True
    | b :: r => lo <= rb_seqno b /\ incr (rb_seqno b + 1) r
    end.
  Fixpoint nxt (lo : N) (bs : list rbatch) : N :=
    match bs with
    | [] => lo
    | b :: r => nxt (rb_seqno b + 1) r
    end.

  Lemma incr_app bs1 : forall lo bs2, incr lo (bs1 ++ bs2) <-> incr lo bs1 /\ incr (nxt lo bs1) bs2.
  Proof. induction bs1 as [|b r IH]; intros lo bs2; cbn [app incr nxt]; [tauto|]. rewrite IH. tauto. Qed.
  Lemma nxt_ge bs : forall lo, incr lo bs -> lo <= nxt lo bs.
  Proof. induction bs as [|b r IH]; intros lo H; cbn [nxt]; [lia|]. destruct H as [A B]. specialize (IH _ B). lia. Qed.
  Lemma nxt_app bs1 : forall lo bs2, nxt lo (bs1 ++ bs2) = nxt (nxt lo bs1) bs2.
  Proof. induction bs1 as [|b r IH]; intros lo bs2; cbn [app nxt]; [reflexivity|apply IH]. Qed.

  Lemma replay_fold_QQ bs : forall lo sq kss, incr lo bs -> KQQ lo kss ->
    KQQ (nxt lo bs) (snd (fold_left (replay_batch cfg meta mp) bs (sq, kss))).
  Proof.
    induction bs as [|b r IH]; intros lo sq kss I H; cbn [fold_left nxt]; [exact H|]. destruct I as [I1 I2].
    destruct (replay_batch cfg meta mp (sq, kss) b) as [sq' kss'] eqn:R. apply IH; [exact I2|].
    intros ks Iks. apply Q_QQ. assert (E : kss' = snd (replay_batch cfg meta mp (sq, kss) b)) by (rewrite R; reflexivity).
    rewrite E in Iks. revert ks Iks. apply replay_batch_Q. intros k0 I0. apply (QQ_Q lo); [exact I1|apply H, I0].
  Qed.

  (* the end of one sealed journal: the rebuilt memtable is dropped or sealed *)
  Lemma QQ_rotate n t : QQ n t -> QQ n (fst (t_rotate t)).
  Proof.
    intros [T M]. split; [apply (tinv_step t TRotate T); exact I|].
    pose proof (ti_ids _ T) as [NE IDS]. destruct (IDS _ (latest_in t NE)) as [La Ls].
    destruct (mem_of t (v_active (latest t))) as [|e0 l0] eqn:ME; [unfold t_rotate; rewrite ME; exact M|].
    destruct (rotate_shape t e0 l0 NE ME) as [SH' [NEW FR]].
    intros y Iy. apply M. unfold memsrc in *. rewrite SH' in Iy. cbn [v_active v_sealed flat_map] in Iy. rewrite NEW, (FR _ La) in Iy.
    cbn [app] in Iy. apply in_app_or in Iy. apply in_or_app. destruct Iy as [Iy|Iy]; [left; exact Iy|right].
    rewrite in_flat_map in *. destruct Iy as [id [Iid Iy]]. exists id. split; [exact Iid|]. rewrite (FR _ (Ls _ Iid)) in Iy. exact Iy.
  Qed.

  Lemma with_latest_hd t v : vers t <> [] -> hd dummy_version (with_latest t v) = v.
  Proof. unfold with_latest. destruct (vers t); [congruence|reflexivity]. Qed.
  Lemma with_latest_in t v x : In x (with_latest t v) -> x = v \/ In x (vers t).
  Proof. unfold with_latest. destruct (vers t) as [|v0 r]; intros [<-|H]; auto. right. now right. Qed.

  Lemma QQ_clear_active n t : QQ n t -> QQ n (t_clear_active t).
  Proof.
    intros [T M]. unfold t_clear_active. destruct (mem_of t (v_active (latest t))) as [|e0 l0] eqn:ME; [split; assumption|].
    pose proof (ti_ids _ T) as [NE IDS]. destruct (IDS _ (latest_in t NE)) as [La Ls].
    set (t' := {| mems := {| m_id := next_mid t; m_ents := [] |} :: mems t;
                  vers := with_latest t {| v_seq := v_seq (latest t); v_active := next_mid t; v_sealed := []; v_tables := v_tables (latest t) |};
                  next_mid := next_mid t + 1 |}).
    assert (LT : latest t' = {| v_seq := v_seq (latest t); v_active := next_mid t; v_sealed := []; v_tables := v_tables (latest t) |}).
    { unfold latest at 1. unfold t'. cbn [vers]. apply with_latest_hd, NE. }
    assert (NEW : mem_of t' (next_mid t) = []) by (unfold mem_of, t'; cbn [mems find m_id]; rewrite N.eqb_refl; reflexivity).
    split.
    - split.
      + (* ids *) split.
        * unfold t', with_latest. cbn [vers]. destruct (vers t); discriminate.
        * intros v Iv. unfold t' in Iv. cbn [vers] in Iv. cbn [next_mid t']. apply with_latest_in in Iv.
          destruct Iv as [->|Iv]; [cbn; split; [lia|intros id []]|].
          destruct (IDS v Iv) as [A B]. unfold t'. cbn [next_mid]. split; [lia|intros id Iid; specialize (B id Iid); lia].
      + rewrite LT. cbn. tauto.
      + unfold srcs. rewrite LT. cbn [v_active v_sealed v_tables map app]. rewrite NEW. cbn. split; [intros x y []|split; [intros x y _ []|exact I]].
      + unfold act_ok, has_mem. rewrite LT. cbn [v_active]. unfold t'. cbn [mems find m_id]. rewrite N.eqb_refl. eauto.
    - intros y Iy. unfold memsrc in Iy. rewrite LT in Iy. cbn [v_active v_sealed flat_map] in Iy. rewrite NEW in Iy. destruct Iy.
  Qed.

  Lemma recover_sealed_one_QQ lo st bs : incr lo bs -> KQQ lo (snd (fst st)) ->
    KQQ (nxt lo bs) (snd (fst (recover_sealed_one cfg meta mp st bs))).
  Proof.
    destruct st as [[sq kss] acc]. cbn [fst snd]. intros I H. unfold recover_sealed_one.
    destruct (fold_left (replay_batch cfg meta mp) bs (sq, kss)) as [sq1 kss1] eqn:R. cbn [fst snd].
    assert (H1 : KQQ (nxt lo bs) kss1).
    { assert (E : kss1 = snd (fold_left (replay_batch cfg meta mp) bs (sq, kss))) by (rewrite R; reflexivity). rewrite E.
      apply replay_fold_QQ; assumption. }
    intros ks Iks. rewrite in_map_iff in Iks. destruct Iks as [k0 [<- I0]]. specialize (H1 k0 I0).
    destruct (alookup (k_id k0) _); [|exact H1].
    destruct (match t_highest_persisted (k_tree k0) with Some p => _ | None => false end); cbn [with_tree k_tree];
      [apply QQ_clear_active|apply QQ_rotate]; exact H1.
  Qed.

  Lemma recover_sealed_fold_QQ sealed : forall lo st, incr lo (concat sealed) -> KQQ lo (snd (fst st)) ->
    KQQ (nxt lo (concat sealed)) (snd (fst (fold_left (recover_sealed_one cfg meta mp) sealed st))).
  Proof.
    induction sealed as [|bs r IH]; intros lo st I H; cbn [fold_left concat nxt]; [exact H|].
    cbn [concat] in I. apply incr_app in I. destruct I as [I1 I2]. rewrite nxt_app.
    apply IH; [exact I2|]. apply recover_sealed_one_QQ; assumption.
  Qed.
End Replay.

(* ---- recovery as a whole ---- *)
Theorem recover_tinv cfg mode filters active sealed meta dirs pn ms :
  d_replay_shadow cfg = false ->
  (forall p, In p dirs -> QQ 0 (snd p)) ->           (* what a clean close leaves: trees with empty memtables (tables only) *)
  incr 0 (concat sealed ++ active) ->                (* journal batches carry increasing seqnos, oldest journal first *)
  forall ks, In ks (d_kss (recover cfg mode filters active sealed meta dirs pn ms)) -> TInv (k_tree ks).
Proof.
  intros SH D I ks Iks. unfold recover in Iks.
  match type of Iks with context [fold_left (recover_sealed_one cfg meta ?MP) sealed (0, ?KSS, [])] => set (mp := MP) in *; set (kss0 := KSS) in * end.
  destruct (fold_left (recover_sealed_one cfg meta mp) sealed (0, kss0, [])) as [[sq1 kss1] sealed'] eqn:R1.
  destruct (fold_left (replay_batch cfg meta mp) active (sq1, kss1)) as [sq2 kss2] eqn:R2.
  cbn [d_kss] in Iks.
  apply incr_app in I. destruct I as [I1 I2].
  assert (H0 : KQQ 0 kss0).
  { intros k0 I0. unfold kss0 in I0. rewrite in_map_iff in I0. destruct I0 as [p [<- Ip]]. cbn [k_tree]. apply D.
    apply filter_In in Ip. tauto. }
  assert (H1 : KQQ (nxt 0 (concat sealed)) kss1).
  { assert (E : kss1 = snd (fst (fold_left (recover_sealed_one cfg meta mp) sealed (0, kss0, [])))) by (rewrite R1; reflexivity).
    rewrite E. apply recover_sealed_fold_QQ; assumption. }
  assert (H2 : KQQ (nxt (nxt 0 (concat sealed)) active) kss2).
  { assert (E : kss2 = snd (fold_left (replay_batch cfg meta mp) active (sq1, kss1))) by (rewrite R2; reflexivity).
    rewrite E. apply replay_fold_QQ; assumption. }
  exact (proj1 (H2 ks Iks)).
Qed.

Theorem recover_dinv cfg mode filters active sealed meta dirs pn ms :
  d_replay_shadow cfg = false -> d_seqno_journal cfg = false ->
  (forall p, In p dirs -> QQ 0 (snd p)) -> incr 0 (concat sealed ++ active) ->
  DInv (recover cfg mode filters active sealed meta dirs pn ms).
Proof.
  intros SH SJ D I ks Iks. split; [eapply recover_tinv; eassumption|].
  destruct (recover_seqno_above cfg mode filters active sealed meta dirs pn ms SJ) as [A _].
  intros e Ie. apply (A ks e Iks). rewrite v_all_srcs. exact Ie.
Qed.

(* ======================= programs with reopen ======================= *)
From FJ Require Import Prog.

(* the journal of a running database: sealed journals oldest first, then the active one *)
Definition J (d : db) : list rbatch := concat (map sj_batches (d_sealed d)) ++ d_active d.
(* its batches carry increasing seqnos, all below the counter (every batch is appended under the journal lock with the
   seqno drawn there) *)
Definition JS (d : db) : Prop := incr 0 (J d) /\ forall b, In b (J d) -> rb_seqno b < d_seqno d.

Lemma incr_weaken l : forall lo lo', lo' <= lo -> incr lo l -> incr lo' l.
Proof. destruct l as [|b r]; intros lo lo' L H; cbn [incr] in *; [exact I|]. destruct H. split; [lia|assumption]. Qed.
Lemma incr_snoc l : forall lo b, incr lo l -> (forall x, In x l -> rb_seqno x < rb_seqno b) -> lo <= rb_seqno b -> incr lo (l ++ [b]).
Proof.
  induction l as [|x r IH]; intros lo b H A L; cbn [app incr] in *; [split; [exact L|exact I]|].
  destruct H as [H1 H2]. split; [exact H1|]. apply IH; [exact H2|intros y Iy; apply A; now right|].
  assert (rb_seqno x < rb_seqno b) by (apply A; now left). lia.
Qed.
Lemma incr_suffix a : forall lo b, incr lo (a ++ b) -> incr 0 b.
Proof. intros lo b H. apply incr_app in H. destruct H as [_ H]. eapply incr_weaken; [|exact H]. lia. Qed.

Lemma JS_snoc d b n : JS d -> rb_seqno b = d_seqno d -> d_seqno d < n ->
  incr 0 (J d ++ [b]) /\ forall x, In x (J d ++ [b]) -> rb_seqno x < n.
Proof.
  intros [A B] E L. split.
  - apply incr_snoc; [exact A|intros x Ix; rewrite E; apply B, Ix|lia].
  - intros x Ix. apply in_app_or in Ix. destruct Ix as [Ix|[<-|[]]]; [specialize (B x Ix); lia|lia].
Qed.

Lemma evict_loop_suffix d l : exists pre, l = pre ++ evict_loop d l.
Proof.
  induction l as [|j r IH]; cbn [evict_loop]; [exists []; reflexivity|].
  destruct (evictable d j); [|exists []; reflexivity]. destruct IH as [pre E]. exists (j :: pre). cbn. f_equal. exact E.
Qed.

(* a state with the same counter (or a higher one) whose journal is a suffix of the old one *)
Lemma JS_suffix d d' pre : J d = pre ++ J d' -> d_seqno d <= d_seqno d' -> JS d -> JS d'.
Proof.
  intros E L [A B]. split.
  - rewrite E in A. eapply incr_suffix, A.
  - intros b Ib. assert (rb_seqno b < d_seqno d); [|lia]. apply B. rewrite E. apply in_or_app. now right.
Qed.
Lemma JS_same d d' : J d' = J d -> d_seqno d <= d_seqno d' -> JS d -> JS d'.
Proof. intros E L. apply (JS_suffix d d' []). rewrite E. reflexivity. exact L. Qed.

Lemma J_journal_maintenance d : exists pre, J d = pre ++ J (journal_maintenance d).
Proof.
  unfold J, journal_maintenance. cbn [d_sealed d_active]. destruct (evict_loop_suffix d (d_sealed d)) as [pre E].
  exists (concat (map sj_batches pre)). rewrite E at 1. rewrite map_app, concat_app, <- app_assoc. reflexivity.
Qed.

Lemma JS_do_rotate d id : JS d -> JS (fst (do_rotate d id)).
Proof.
  intros H. unfold do_rotate. destruct (ks_of d id) as [ks|]; [|exact H]. destruct (t_rotate (k_tree ks)) as [t ok].
  destruct ok; [|exact H]. cbn [fst]. unfold after_rotate.
  match goal with |- JS (journal_maintenance ?X) => destruct (J_journal_maintenance X) as [pre E]; apply (JS_suffix X _ pre E); [cbn; lia|] end.
  apply (JS_same d); [reflexivity|cbn; lia|exact H].
Qed.

Lemma J_maybe_seal d : J (maybe_seal d) = J d.
Proof.
  unfold maybe_seal. destruct (_ && _); [|reflexivity]. unfold J. cbn [d_sealed d_active upd_sealed].
  rewrite map_app, concat_app. cbn [map concat sj_batches]. rewrite !app_nil_r. reflexivity.
Qed.

Lemma JS_do_step d : JS d -> JS (fst (do_step d)).
Proof.
  intros H. unfold do_step. destruct (d_queue d) as [|m q]; [exact H|].
  set (d0 := upd_queue d q (d_flushq d)). assert (H0 : JS d0) by (apply (JS_same d); [reflexivity|cbn; lia|exact H]).
  destruct m as [id mid| |id].
  - destruct (ks_of d0 id) as [ks|]; [|exact H0]. destruct (_ =? _); [|exact H0]. cbn [fst]. apply JS_do_rotate, H0.
  - destruct (d_flushq d0) as [|id fq]; [exact H0|].
    set (d1 := maybe_seal (upd_queue d0 (d_queue d0) fq)).
    assert (H1 : JS d1).
    { apply (JS_same d0); [unfold d1; rewrite J_maybe_seal; reflexivity|unfold d1, maybe_seal; destruct (_ && _); cbn; lia|exact H0]. }
    destruct (ks_of d1 id) as [ks|]; [|exact H1]. cbn [fst].
    match goal with |- JS (journal_maintenance ?X) => destruct (J_journal_maintenance X) as [pre E]; apply (JS_suffix X _ pre E); [cbn; lia|] end.
    apply (JS_same d1); [destruct (v_sealed (latest (k_tree ks))); reflexivity| |exact H1].
    destruct (v_sealed (latest (k_tree ks))); cbn; lia.
  - exact H0.
Qed.

Lemma JS_do_drain f : forall d n, JS d -> JS (fst (do_drain f d n)).
Proof. induction f as [|f IH]; intros d n H; cbn [do_drain]; [exact H|]. destruct (d_queue d); [exact H|]. apply IH, JS_do_step, H. Qed.

Theorem wstep_JS d o : JS d -> JS (wstep d o).
Proof.
  intros H. destruct o; cbn [wstep].
  - unfold do_ks. destruct (blookup name (d_map d)); cbn [fst]; (apply (JS_same d); [reflexivity|cbn; lia|exact H]).
  - unfold write_one. destruct (ks_of d id) as [ks|]; [|exact H]. destruct (k_deleted ks); [exact H|]. destruct (d_poisoned d); [exact H|].
    cbn [fst]. unfold commit_batch, JS, J. cbn [d_sealed d_active d_seqno upd upd_journal]. rewrite app_assoc.
    apply (JS_snoc d); [exact H|reflexivity|lia].
  - unfold commit_batch, JS, J. cbn [d_sealed d_active d_seqno upd upd_journal]. rewrite app_assoc.
    apply (JS_snoc d); [exact H|reflexivity|lia].
  - unfold do_clear. destruct (ks_of d id) as [ks|]; [|exact H]. destruct (d_poisoned d); [exact H|].
    unfold draw_version. cbn [fst snd]. unfold JS, J. cbn [d_sealed d_active d_seqno upd upd_journal]. rewrite app_assoc.
    apply (JS_snoc d); [exact H|reflexivity|lia].
  - apply JS_do_rotate, H.
  - apply JS_do_step, H.
  - apply JS_do_drain, H.
  - unfold do_compact. destruct (ks_of d id) as [ks|]; [|exact H]. destruct (v_tables _); [exact H|].
    unfold draw_version. cbn [fst snd]. apply (JS_same d); [reflexivity|cbn; lia|exact H].
  - unfold do_ingest. destruct (ks_of d id) as [ks|]; [|exact H].
    destruct items; [apply (JS_same d); [reflexivity|cbn; lia|exact H]|].
    destruct (t_rotate (k_tree ks)) as [t1 b]. destruct (v_sealed (latest t1)); unfold draw_version; cbn [fst snd];
      (apply (JS_same d); [reflexivity|cbn; lia|exact H]).
Qed.

(* ---- reopen ---- *)
Lemma durable_QQ t : QQ 0 (durable_tree t).
Proof.
  split.
  - split.
    + split; [discriminate|]. intros v [<-|[]]. cbn. split; [lia|intros id []].
    + cbn. tauto.
    + unfold srcs, durable_tree, latest, mem_of. cbn. rewrite N.eqb_refl. cbn. split; [intros x y []|split; [intros x y _ []|exact I]].
    + unfold act_ok, has_mem, durable_tree, latest. cbn. rewrite N.eqb_refl. eauto.
  - intros y Iy. unfold memsrc, durable_tree, latest, mem_of in Iy. cbn in Iy. rewrite N.eqb_refl in Iy. destruct Iy.
Qed.

Lemma recover_sealed_batches cfg meta mp sealed : forall st,
  map sj_batches (snd (fold_left (recover_sealed_one cfg meta mp) sealed st)) = map sj_batches (snd st) ++ sealed.
Proof.
  induction sealed as [|bs r IH]; intros st; cbn [fold_left]; [rewrite app_nil_r; reflexivity|].
  rewrite IH. destruct st as [[sq kss] acc]. unfold recover_sealed_one.
  destruct (fold_left (replay_batch cfg meta mp) bs (sq, kss)) as [sq1 kss1]. cbn [snd].
  rewrite map_app. cbn [map sj_batches]. rewrite <- app_assoc. reflexivity.
Qed.

Lemma J_reopen cfg d : J (do_reopen cfg d) = J d.
Proof.
  unfold do_reopen, recover.
  match goal with |- context [fold_left (recover_sealed_one cfg ?M ?MP) ?S (0, ?K, [])] =>
    pose proof (recover_sealed_batches cfg M MP S (0, K, [])) as E;
    destruct (fold_left (recover_sealed_one cfg M MP) S (0, K, [])) as [[sq1 kss1] sealed'] end.
  match goal with |- context [fold_left (replay_batch cfg ?M ?MP) ?A ?ST] => destruct (fold_left (replay_batch cfg M MP) A ST) as [sq2 kss2] end.
  unfold J. cbn [d_sealed d_active]. cbn [snd map app] in E. rewrite E. reflexivity.
Qed.

Theorem reopen_inv d : JS d -> DInv (do_reopen as_is d) /\ JS (do_reopen as_is d).
Proof.
  intros [A B]. split.
  - unfold do_reopen. apply recover_dinv; [reflexivity|reflexivity| |exact A].
    intros p Ip. rewrite in_flat_map in Ip. destruct Ip as [id [_ Ip]]. destruct (ks_of d id); [|destruct Ip].
    destruct Ip as [<-|[]]. apply durable_QQ.
  - split; [rewrite J_reopen; exact A|].
    intros b Ib. rewrite J_reopen in Ib. unfold do_reopen.
    match goal with |- _ < d_seqno (recover ?c ?m ?f ?a ?s ?me ?di ?pn ?ms) =>
      destruct (recover_seqno_above c m f a s me di pn ms eq_refl) as [_ [G _]]; apply G end.
    exact Ib.
Qed.

(* ---- keyspace deletion: the keyspace object keeps its tree (old handles still read it) and is marked deleted; its name and
   meta rows go; two seqnos are drawn for the meta tree ---- *)
Lemma delks_kss d h ks0 : In ks0 (d_kss (fst (do_delks d h))) -> exists ks1, In ks1 (d_kss d) /\ k_tree ks0 = k_tree ks1.
Proof.
  unfold do_delks. destruct (alookup h (d_handles d)) as [id|]; [|intros I; exists ks0; auto].
  destruct (ks_of d id) as [ks|] eqn:K; [|intros I; exists ks0; auto]. cbn [fst].
  destruct (blookup (k_name ks) (d_map d)); unfold draw_version, set_ks; cbn [fst snd d_kss upd upd_reg];
    intros I; rewrite in_map_iff in I; destruct I as [x [E Ix]]; destruct (k_id x =? _); subst ks0;
    try (exists ks; split; [exact (ks_of_in _ _ _ K)|reflexivity]); exists x; auto.
Qed.
Lemma delks_seq d h : d_seqno d <= d_seqno (fst (do_delks d h)).
Proof.
  unfold do_delks. destruct (alookup h (d_handles d)) as [id|]; [|cbn; lia]. destruct (ks_of d id) as [ks|]; [|cbn; lia]. cbn [fst].
  destruct (blookup (k_name ks) (d_map d)); unfold draw_version; cbn; lia.
Qed.
Lemma delks_J d h : J (fst (do_delks d h)) = J d.
Proof.
  unfold do_delks. destruct (alookup h (d_handles d)) as [id|]; [|reflexivity]. destruct (ks_of d id) as [ks|]; [|reflexivity]. cbn [fst].
  destruct (blookup (k_name ks) (d_map d)); reflexivity.
Qed.
Lemma delks_dinv d h : DInv d -> DInv (fst (do_delks d h)).
Proof.
  intros H ks0 I. destruct (delks_kss d h ks0 I) as [ks1 [I1 E]]. rewrite E. destruct (H ks1 I1) as [A B].
  split; [exact A|]. eapply below_mono; [apply delks_seq|exact B].
Qed.
Lemma delks_VB d h : VB d -> VB (fst (do_delks d h)).
Proof. intros H ks0 I. destruct (delks_kss d h ks0 I) as [ks1 [I1 E]]. rewrite E. eapply vb_mono; [apply delks_seq|apply H, I1]. Qed.
Lemma delks_JS d h : JS d -> JS (fst (do_delks d h)).
Proof. apply JS_same; [apply delks_J|apply delks_seq]. Qed.

Lemma kfind_set_gen kss ks ks' id : k_id ks' = k_id ks -> kfind kss (k_id ks) = Some ks ->
  kfind (map (fun x => if k_id x =? k_id ks' then ks' else x) kss) id = if id =? k_id ks then Some ks' else kfind kss id.
Proof.
  intros EK. rewrite EK. unfold kfind. induction kss as [|a r IH]; cbn [map find]; [discriminate|].
  destruct (N.eqb_spec (k_id a) (k_id ks)) as [E|NE].
  - intros _. rewrite EK. destruct (N.eqb_spec (k_id ks) id) as [E2|NE2].
    + subst id. rewrite N.eqb_refl. reflexivity.
    + destruct (N.eqb_spec id (k_id ks)); [lia|]. rewrite E. destruct (N.eqb_spec (k_id ks) id); [lia|]. clear IH.
      induction r as [|b r IHr]; cbn [map find]; [reflexivity|].
      destruct (N.eqb_spec (k_id b) (k_id ks)) as [E3|NE3].
      * rewrite EK. destruct (N.eqb_spec (k_id ks) id); [lia|]. destruct (N.eqb_spec (k_id b) id); [lia|]. exact IHr.
      * destruct (k_id b =? id); [reflexivity|exact IHr].
  - intros H. destruct (N.eqb_spec (k_id a) id) as [E2|NE2].
    + destruct (N.eqb_spec id (k_id ks)); [lia|reflexivity].
    + apply IH, H.
Qed.

(* deletion changes no read of any keyspace object (the deleted one is still readable through handles opened before) *)
Theorem delks_reads I d h : meq (absd I (fst (do_delks d h))) (absd I d).
Proof.
  intros i k. unfold do_delks. destruct (alookup h (d_handles d)) as [id|]; [|reflexivity].
  destruct (ks_of d id) as [ks|] eqn:K; [|reflexivity]. cbn [fst]. destruct (kfind_some _ _ _ K) as [_ Eid].
  set (ks' := {| k_id := k_id ks; k_name := k_name ks; k_tree := k_tree ks; k_deleted := true; k_filter := k_filter ks |}).
  assert (G : absk I (map (fun x => if k_id x =? k_id ks' then ks' else x) (d_kss d)) i k = absk I (d_kss d) i k).
  { unfold absk. rewrite (kfind_set_gen (d_kss d) ks ks' i eq_refl) by (rewrite Eid; exact K).
    destruct (N.eqb_spec i (k_id ks)) as [E|NE]; [|reflexivity]. subst i. rewrite Eid. assert (K' : kfind (d_kss d) id = Some ks) by exact K.
    rewrite K'. reflexivity. }
  unfold absd. destruct (blookup (k_name ks) (d_map d)); unfold draw_version, set_ks; cbn [fst snd d_kss upd upd_reg]; exact G.
Qed.

(* a deleted keyspace's name is free again, and the keyspace created under it next is a new, empty one *)
Lemma blookup_bremove n l : blookup n (bremove n l) = None.
Proof.
  unfold bremove. induction l as [|[x a] r IH]; cbn [filter blookup fst]; [reflexivity|].
  destruct (list_eqb x n) eqn:E; cbn [negb]; [exact IH|]. cbn [blookup]. rewrite E. exact IH.
Qed.
Theorem delks_then_create_is_empty I d h h2 ks id : alookup h (d_handles d) = Some id -> ks_of d id = Some ks ->
  blookup (k_name ks) (d_map d) <> None ->
  let d1 := fst (do_delks d h) in
  blookup (k_name ks) (d_map d1) = None /\
  forall k, absd I (fst (do_ks d1 h2 (k_name ks))) (d_next_id d1) k = None.
Proof.
  intros A K B d1.
  assert (E : blookup (k_name ks) (d_map d1) = None).
  { unfold d1, do_delks. rewrite A, K. cbn [fst]. destruct (blookup (k_name ks) (d_map d)); [|congruence].
    unfold draw_version. cbn [fst snd d_map upd upd_reg]. apply blookup_bremove. }
  split; [exact E|]. intros k. rewrite (do_ks_refines I d1 h2 (k_name ks)). cbn [sstep]. rewrite E. unfold sclear. rewrite N.eqb_refl. reflexivity.
Qed.

Inductive rop := RW (o : wop) | RReopen | RDelKs (h : N).
Definition rstep (d : db) (o : rop) : db :=
  match o with RW w => wstep d w | RReopen => do_reopen as_is d | RDelKs h => fst (do_delks d h) end.

(* every program of writes, maintenance, keyspace deletions and reopens keeps the write-path invariant (sources ordered by
   recency, entries below the counter) and the journal invariant *)
Theorem rrun_inv ops : forall d, DInv d -> JS d -> DInv (fold_left rstep ops d) /\ JS (fold_left rstep ops d).
Proof.
  induction ops as [|o r IH]; intros d H1 H2; cbn [fold_left]; [split; assumption|].
  destruct o as [w| |h]; cbn [rstep].
  - apply IH; [apply (wrun_dinv [w]), H1|apply wstep_JS, H2].
  - destruct (reopen_inv d H2) as [A B]. apply IH; assumption.
  - apply IH; [apply delks_dinv, H1|apply delks_JS, H2].
Qed.

Lemma JS_init mode filters : JS (db_init mode filters).
Proof. split; [exact I|intros b []]. Qed.

(* C01 / C04 across reopen: after EVERY program of keyspace creation, writes, batches, clears, ingestion, rotation, worker
   steps, drains, major compaction (with any filter) AND reopens, on every keyspace the point read of every key at every
   instant returns exactly the entry the scan shows *)
Theorem reads_agree_with_reopen mode filters ops ks k I :
  let d := fold_left rstep ops (db_init mode filters) in
  In ks (d_kss d) ->
  v_get_ent (k_tree ks) (latest (k_tree ks)) k I = newest k I (v_all (k_tree ks) (latest (k_tree ks))).
Proof.
  intros d Iks. apply (dinv_reads_agree d); [|exact Iks].
  apply (proj1 (rrun_inv ops (db_init mode filters) (dinv_init mode filters) (JS_init mode filters))).
Qed.

(* C11: in every state such a program reaches — in particular right after a reopen — an accepted write supersedes whatever
   was there: the key reads the written value (absent for a removal), every other key of every keyspace reads as before *)
Theorem later_write_wins mode filters ops id k v vt mvt I i k' :
  let d := fold_left rstep ops (db_init mode filters) in
  let d' := fst (write_one d id k v vt mvt) in
  snd (write_one d id k v vt mvt) = ObOk -> d_seqno d' <= I ->
  absd I d' i k' = if (i =? id) && list_eqb k k' then val_of mvt v else absd I d i k'.
Proof.
  intros d d' OK L.
  assert (H : DInv d) by apply (proj1 (rrun_inv ops (db_init mode filters) (dinv_init mode filters) (JS_init mode filters))).
  unfold d'. rewrite (write_one_refines I d id k v vt mvt H L). cbn [sstep]. rewrite OK. reflexivity.
Qed.

(* the seqno counter after a reopen is above every recovered entry and every journal record *)
Theorem reopen_counter_above mode filters ops :
  let d := do_reopen as_is (fold_left rstep ops (db_init mode filters)) in
  (forall ks e, In ks (d_kss d) -> In e (v_all (k_tree ks) (latest (k_tree ks))) -> es e < d_seqno d) /\
  (forall b, In b (J d) -> rb_seqno b < d_seqno d).
Proof.
  intros d.
  pose proof (rrun_inv (ops ++ [RReopen]) (db_init mode filters) (dinv_init mode filters) (JS_init mode filters)) as H.
  assert (E : fold_left rstep (ops ++ [RReopen]) (db_init mode filters) = d) by (rewrite fold_left_app; reflexivity).
  rewrite E in H. destruct H as [H1 [_ H2]]. split; [|exact H2].
  intros ks e Iks Ie. destruct (H1 ks Iks) as [_ B]. apply B. rewrite <- v_all_srcs. exact Ie.
Qed.

(* non-vacuity: a program that writes, flushes, ingests over a journaled key, reopens, and writes again *)
Definition reopen_example : list rop :=
  [RW (WKs 0 [97]); RW (WWrite 1 [107] [1] VValue VValue); RW (WRotate' 1); RW WStep; RW (WWrite 1 [108] [2] VValue VValue);
   RW (WIngest 1 [IPut [107] [7]]); RReopen; RW (WWrite 1 [109] [3] VValue VValue); RReopen].
Lemma reopen_example_reads :
  let d := fold_left rstep reopen_example (db_init MPlain []) in
  absd 100 d 1 [107] = Some [7] /\ absd 100 d 1 [108] = Some [2] /\ absd 100 d 1 [109] = Some [3].
Proof. vm_compute. repeat split. Qed.

(* ======================= version seqnos after recovery ======================= *)
(* recovery installs versions only through replayed clears, which draw from its own running counter; the restored seqno
   counter is at least that counter, so the latest version of every recovered tree is selected by reads above the counter *)
Definition KV (n : N) (kss : list kspace) : Prop := forall ks, In ks kss -> vb n (k_tree ks).

Lemma KV_mono n m kss : n <= m -> KV n kss -> KV m kss.
Proof. intros L H ks I. eapply vb_mono; [exact L|apply H, I]. Qed.

Lemma replay_items_KV cfg s meta mp items n : forall kss, KV n kss -> KV n (replay_items cfg s kss meta mp items).
Proof.
  unfold replay_items. induction items as [|it r IH]; intros kss H; cbn [fold_left]; [exact H|]. apply IH.
  destruct (alookup (ri_ks it) meta) as [name|]; [|exact H]. destruct (blookup name mp) as [id|]; [|exact H].
  intros ks I. rewrite in_map_iff in I. destruct I as [k0 [<- I0]]. specialize (H k0 I0).
  destruct (k_id k0 =? id); [|exact H]. destruct (_ && _); [exact H|]. cbn [with_tree k_tree]. apply vb_append, H.
Qed.

Lemma replay_clears_KV cfg s meta mp clears : forall sq kss, KV sq kss ->
  sq <= fst (replay_clears cfg s (sq, kss) meta mp clears) /\
  KV (fst (replay_clears cfg s (sq, kss) meta mp clears)) (snd (replay_clears cfg s (sq, kss) meta mp clears)).
Proof.
  unfold replay_clears. induction clears as [|c r IH]; intros sq kss H; cbn [fold_left]; [split; [cbn; lia|exact H]|].
  destruct (alookup c meta) as [name|]; [|apply IH, H]. destruct (blookup name mp) as [id|]; [|apply IH, H].
  destruct (existsb _ kss); [|apply IH, H].
  destruct (IH (sq + 1) (map (fun k => if k_id k =? id then with_tree k (t_clear sq (k_tree k)) else k) kss)) as [A B].
  - intros ks I. rewrite in_map_iff in I. destruct I as [k0 [<- I0]]. specialize (H k0 I0).
    destruct (k_id k0 =? id); [cbn [with_tree k_tree]; apply vb_clear; lia|eapply vb_mono; [|exact H]; lia].
  - split; [lia|exact B].
Qed.

Lemma replay_batch_KV cfg meta mp b sq kss : KV sq kss ->
  sq <= fst (replay_batch cfg meta mp (sq, kss) b) /\
  KV (fst (replay_batch cfg meta mp (sq, kss) b)) (snd (replay_batch cfg meta mp (sq, kss) b)).
Proof. intros H. unfold replay_batch. apply replay_clears_KV, replay_items_KV, H. Qed.

Lemma replay_fold_KV cfg meta mp bs : forall sq kss, KV sq kss ->
  sq <= fst (fold_left (replay_batch cfg meta mp) bs (sq, kss)) /\
  KV (fst (fold_left (replay_batch cfg meta mp) bs (sq, kss))) (snd (fold_left (replay_batch cfg meta mp) bs (sq, kss))).
Proof.
  induction bs as [|b r IH]; intros sq kss H; cbn [fold_left]; [split; [cbn; lia|exact H]|].
  destruct (replay_batch_KV cfg meta mp b sq kss H) as [A B].
  destruct (replay_batch cfg meta mp (sq, kss) b) as [sq' kss']. cbn [fst snd] in *.
  destruct (IH sq' kss' B) as [A' B']. split; [lia|exact B'].
Qed.

Lemma vb_clear_active n t : vb n t -> vb n (t_clear_active t).
Proof.
  intros [A B]. unfold t_clear_active. destruct (mem_of t (v_active (latest t))); [split; assumption|].
  split; [unfold with_latest; cbn [vers]; destruct (vers t); discriminate|].
  unfold latest at 1. cbn [vers]. rewrite with_latest_hd by exact A. exact B.
Qed.

Lemma recover_sealed_one_KV cfg meta mp st bs : KV (fst (fst st)) (snd (fst st)) ->
  fst (fst st) <= fst (fst (recover_sealed_one cfg meta mp st bs)) /\
  KV (fst (fst (recover_sealed_one cfg meta mp st bs))) (snd (fst (recover_sealed_one cfg meta mp st bs))).
Proof.
  destruct st as [[sq kss] acc]. cbn [fst snd]. intros H. unfold recover_sealed_one.
  destruct (replay_fold_KV cfg meta mp bs sq kss H) as [A B].
  destruct (fold_left (replay_batch cfg meta mp) bs (sq, kss)) as [sq1 kss1]. cbn [fst snd] in *.
  split; [exact A|]. intros ks I. rewrite in_map_iff in I. destruct I as [k0 [<- I0]]. specialize (B k0 I0).
  destruct (alookup (k_id k0) _); [|exact B].
  destruct (match t_highest_persisted (k_tree k0) with Some p => _ | None => false end); cbn [with_tree k_tree];
    [apply vb_clear_active|apply vb_rotate]; exact B.
Qed.

Lemma recover_sealed_fold_KV cfg meta mp sealed : forall st, KV (fst (fst st)) (snd (fst st)) ->
  KV (fst (fst (fold_left (recover_sealed_one cfg meta mp) sealed st))) (snd (fst (fold_left (recover_sealed_one cfg meta mp) sealed st))).
Proof.
  induction sealed as [|bs r IH]; intros st H; cbn [fold_left]; [exact H|]. apply IH. apply recover_sealed_one_KV, H.
Qed.

Theorem recover_VB cfg mode filters active sealed meta dirs pn ms :
  (forall p, In p dirs -> vb 0 (snd p)) -> VB (recover cfg mode filters active sealed meta dirs pn ms).
Proof.
  intros D ks Iks. unfold recover in *.
  match type of Iks with context [fold_left (recover_sealed_one cfg meta ?MP) sealed (0, ?KSS, [])] => set (mp := MP) in *; set (kss0 := KSS) in * end.
  assert (H0 : KV 0 kss0).
  { intros k0 I0. unfold kss0 in I0. rewrite in_map_iff in I0. destruct I0 as [p [<- Ip]]. cbn [k_tree]. apply D. apply filter_In in Ip. tauto. }
  pose proof (recover_sealed_fold_KV cfg meta mp sealed (0, kss0, []) H0) as H1.
  destruct (fold_left (recover_sealed_one cfg meta mp) sealed (0, kss0, [])) as [[sq1 kss1] sealed'] eqn:R1. cbn [fst snd] in H1.
  destruct (replay_fold_KV cfg meta mp active sq1 kss1 H1) as [_ H2].
  destruct (fold_left (replay_batch cfg meta mp) active (sq1, kss1)) as [sq2 kss2] eqn:R2. cbn [fst snd] in H2.
  cbn [d_kss d_seqno] in *. eapply vb_mono; [|apply H2, Iks].
  destruct (fold_seqno_ge kss2 sq2) as [G _]. destruct (d_seqno_journal cfg); lia.
Qed.

Lemma durable_vb t : vb 0 (durable_tree t).
Proof. split; [discriminate|cbn; lia]. Qed.

Lemma reopen_VB d : VB (do_reopen as_is d).
Proof.
  unfold do_reopen. apply recover_VB. intros p Ip. rewrite in_flat_map in Ip. destruct Ip as [id [_ Ip]].
  destruct (ks_of d id); [|destruct Ip]. destruct Ip as [<-|[]]. apply durable_vb.
Qed.

Lemma rrun_VB ops : forall d, VB d -> VB (fold_left rstep ops d).
Proof.
  induction ops as [|o r IH]; intros d H; cbn [fold_left]; [exact H|]. apply IH.
  destruct o as [w| |h]; cbn [rstep]; [apply wstep_VB, H|apply reopen_VB|apply delks_VB, H].
Qed.

(* the model's own read functions, across reopen: in every state a program of writes, maintenance and reopens reaches, a point
   read / scan at an instant above the counter reads the latest version, where point reads and scans agree *)
Theorem reads_after_reopen mode filters ops ks k I :
  let d := fold_left rstep ops (db_init mode filters) in
  In ks (d_kss d) -> d_seqno d < I ->
  t_get (k_tree ks) k I = Some (abs I (k_tree ks) k) /\
  exists sc, t_scan (k_tree ks) I = Some sc /\
             Sorted.StronglySorted (fun a b => bytes_ltb (fst a) (fst b) = true) sc /\
             forall k' v, In (k', v) sc <-> abs I (k_tree ks) k' = Some v.
Proof.
  intros d Iks L.
  assert (V : vb (d_seqno d) (k_tree ks)) by (apply (rrun_VB ops _ (VB_init mode filters)), Iks).
  assert (DI : DInv d) by apply (proj1 (rrun_inv ops (db_init mode filters) (dinv_init mode filters) (JS_init mode filters))).
  destruct (reads_select_latest (d_seqno d) I (k_tree ks) k V L) as [G S]. split; [exact G|].
  eexists. split; [exact S|]. split; [apply scan_sorted|]. intros k' v. apply (scan_matches_reads I d ks k' v DI Iks).
Qed.

(* ======================= after any history, operation sequences refine the reference maps ======================= *)
(* without a filter table no keyspace has a filter, also after recovery and deletion *)
Lemma replay_items_kpres cfg s meta mp items : forall kss, kpres kss (replay_items cfg s kss meta mp items).
Proof.
  unfold replay_items. induction items as [|it r IH]; intros kss; cbn [fold_left]; [apply kpres_refl|].
  eapply kpres_trans; [|apply IH]. destruct (alookup (ri_ks it) meta) as [name|]; [|apply kpres_refl].
  destruct (blookup name mp) as [id|]; [|apply kpres_refl]. apply kpres_map. intros x.
  destruct (k_id x =? id); [|reflexivity]. destruct (_ && _); reflexivity.
Qed.
Lemma replay_clears_kpres cfg s meta mp clears : forall sq kss, kpres kss (snd (replay_clears cfg s (sq, kss) meta mp clears)).
Proof.
  unfold replay_clears. induction clears as [|c r IH]; intros sq kss; cbn [fold_left]; [apply kpres_refl|].
  destruct (alookup c meta) as [name|]; [|apply IH]. destruct (blookup name mp) as [id|]; [|apply IH].
  destruct (existsb _ kss); [|apply IH]. eapply kpres_trans; [|apply IH]. apply kpres_map. intros x. destruct (k_id x =? id); reflexivity.
Qed.
Lemma replay_fold_kpres cfg meta mp bs : forall sq kss, kpres kss (snd (fold_left (replay_batch cfg meta mp) bs (sq, kss))).
Proof.
  induction bs as [|b r IH]; intros sq kss; cbn [fold_left]; [apply kpres_refl|].
  assert (K : kpres kss (snd (replay_batch cfg meta mp (sq, kss) b))).
  { unfold replay_batch. eapply kpres_trans; [apply replay_items_kpres|apply replay_clears_kpres]. }
  destruct (replay_batch cfg meta mp (sq, kss) b) as [sq' kss']. cbn [snd] in K. eapply kpres_trans; [exact K|apply IH].
Qed.
Lemma recover_sealed_fold_kpres cfg meta mp sealed : forall st, kpres (snd (fst st)) (snd (fst (fold_left (recover_sealed_one cfg meta mp) sealed st))).
Proof.
  induction sealed as [|bs r IH]; intros st; cbn [fold_left]; [apply kpres_refl|]. eapply kpres_trans; [|apply IH].
  destruct st as [[sq kss] acc]. unfold recover_sealed_one. pose proof (replay_fold_kpres cfg meta mp bs sq kss) as K.
  destruct (fold_left (replay_batch cfg meta mp) bs (sq, kss)) as [sq1 kss1]. cbn [fst snd] in *.
  eapply kpres_trans; [exact K|]. apply kpres_map. intros x. destruct (alookup (k_id x) _); [|reflexivity].
  destruct (match t_highest_persisted (k_tree x) with Some p => _ | None => false end); reflexivity.
Qed.

Lemma reopen_NF d : NF d -> NF (do_reopen as_is d).
Proof.
  intros [F _]. unfold do_reopen, recover.
  match goal with |- context [fold_left (recover_sealed_one as_is ?M ?MP) ?S (0, ?K, [])] =>
    pose proof (recover_sealed_fold_kpres as_is M MP S (0, K, [])) as K1;
    assert (K0 : forall k0, In k0 K -> k_filter k0 = None)
      by (intros k0 I0; rewrite in_map_iff in I0; destruct I0 as [p [<- _]]; cbn [k_filter]; rewrite F;
          destruct (alookup (fst p) (d_meta d)); reflexivity);
    destruct (fold_left (recover_sealed_one as_is M MP) S (0, K, [])) as [[sq1 kss1] sealed'] end.
  match goal with |- context [fold_left (replay_batch as_is ?M ?MP) ?A (sq1, kss1)] =>
    pose proof (replay_fold_kpres as_is M MP A sq1 kss1) as K2; destruct (fold_left (replay_batch as_is M MP) A (sq1, kss1)) as [sq2 kss2] end.
  cbn [fst snd] in *. split; [exact F|]. intros ks I. cbn [d_kss] in I.
  destruct (K2 ks I) as [k1 [I1 E1]]. destruct (K1 k1 I1) as [k0 [I0 E0]]. rewrite E1, E0. apply K0, I0.
Qed.

Lemma delks_NF d h : NF d -> NF (fst (do_delks d h)).
Proof.
  intros [F H]. split.
  - unfold do_delks. destruct (alookup h (d_handles d)) as [id|]; [|exact F]. destruct (ks_of d id) as [ks|]; [|exact F]. cbn [fst].
    destruct (blookup (k_name ks) (d_map d)); exact F.
  - intros ks0 I. unfold do_delks in I. destruct (alookup h (d_handles d)) as [id|]; [|apply H, I].
    destruct (ks_of d id) as [ks|] eqn:K; [|apply H, I]. cbn [fst] in I.
    destruct (blookup (k_name ks) (d_map d)); unfold draw_version, set_ks in I; cbn [fst snd d_kss upd upd_reg] in I;
      rewrite in_map_iff in I; destruct I as [x [E Ix]]; destruct (k_id x =? _); subst ks0; try (apply H, Ix);
      cbn [k_filter]; apply H, (ks_of_in _ _ _ K).
Qed.

Lemma rrun_NF ops : forall d, NF d -> NF (fold_left rstep ops d).
Proof.
  induction ops as [|o r IH]; intros d H; cbn [fold_left]; [exact H|]. apply IH.
  destruct o as [w| |h]; cbn [rstep]; [apply wstep_nf, H|apply reopen_NF, H|apply delks_NF, H].
Qed.

(* C11 in general: whatever history of writes, maintenance, deletions and reopens came before (no filter table), every later
   sequence of operations acts on the recovered / current content exactly as on a reference map: accepted writes set their
   key, refused ones and all maintenance change nothing, clears empty, ingestion overlays *)
Theorem history_then_ops_refine mode (hist : list rop) (ops : list wop) I :
  let d1 := fold_left rstep hist (db_init mode []) in
  d_seqno (fold_left wstep ops d1) <= I ->
  meq (absd I (fold_left wstep ops d1)) (srun d1 ops (absd I d1)).
Proof.
  intros d1 L. apply run_refines; [|apply rrun_NF, nf_init|exact L].
  apply (proj1 (rrun_inv hist (db_init mode []) (dinv_init mode []) (JS_init mode []))).
Qed.

(* ======================= a deleted keyspace does not come back at reopen ======================= *)
Lemma replay_items_ids cfg s meta mp items : forall kss, map k_id (replay_items cfg s kss meta mp items) = map k_id kss.
Proof.
  unfold replay_items. induction items as [|it r IH]; intros kss; cbn [fold_left]; [reflexivity|]. rewrite IH.
  destruct (alookup (ri_ks it) meta) as [name|]; [|reflexivity]. destruct (blookup name mp) as [id|]; [|reflexivity].
  rewrite map_map. apply map_ext. intros x. destruct (k_id x =? id); [|reflexivity]. destruct (_ && _); reflexivity.
Qed.
Lemma replay_clears_ids cfg s meta mp clears : forall sq kss, map k_id (snd (replay_clears cfg s (sq, kss) meta mp clears)) = map k_id kss.
Proof.
  unfold replay_clears. induction clears as [|c r IH]; intros sq kss; cbn [fold_left]; [reflexivity|].
  destruct (alookup c meta) as [name|]; [|apply IH]. destruct (blookup name mp) as [id|]; [|apply IH].
  destruct (existsb _ kss); [|apply IH]. rewrite IH. rewrite map_map. apply map_ext. intros x. destruct (k_id x =? id); reflexivity.
Qed.
Lemma replay_fold_ids cfg meta mp bs : forall sq kss, map k_id (snd (fold_left (replay_batch cfg meta mp) bs (sq, kss))) = map k_id kss.
Proof.
  induction bs as [|b r IH]; intros sq kss; cbn [fold_left]; [reflexivity|].
  assert (K : map k_id (snd (replay_batch cfg meta mp (sq, kss) b)) = map k_id kss).
  { unfold replay_batch. rewrite replay_clears_ids. apply replay_items_ids. }
  destruct (replay_batch cfg meta mp (sq, kss) b) as [sq' kss']. cbn [snd] in K. rewrite IH. exact K.
Qed.
Lemma recover_sealed_fold_ids cfg meta mp sealed : forall st,
  map k_id (snd (fst (fold_left (recover_sealed_one cfg meta mp) sealed st))) = map k_id (snd (fst st)).
Proof.
  induction sealed as [|bs r IH]; intros st; cbn [fold_left]; [reflexivity|]. rewrite IH.
  destruct st as [[sq kss] acc]. unfold recover_sealed_one. pose proof (replay_fold_ids cfg meta mp bs sq kss) as K.
  destruct (fold_left (replay_batch cfg meta mp) bs (sq, kss)) as [sq1 kss1]. cbn [fst snd] in *.
  rewrite <- K. rewrite map_map. apply map_ext. intros x. destruct (alookup (k_id x) _); [|reflexivity].
  destruct (match t_highest_persisted (k_tree x) with Some p => _ | None => false end); reflexivity.
Qed.

(* the keyspaces recovery produces are exactly those whose directory has a row in the meta tree *)
Theorem recover_ids cfg mode filters active sealed meta dirs pn ms :
  map k_id (d_kss (recover cfg mode filters active sealed meta dirs pn ms))
  = map fst (filter (fun p => match alookup (fst p) meta with Some _ => true | None => false end) dirs).
Proof.
  unfold recover.
  match goal with |- context [fold_left (recover_sealed_one cfg meta ?MP) sealed (0, ?K, [])] =>
    pose proof (recover_sealed_fold_ids cfg meta MP sealed (0, K, [])) as K1;
    destruct (fold_left (recover_sealed_one cfg meta MP) sealed (0, K, [])) as [[sq1 kss1] sealed'] end.
  match goal with |- context [fold_left (replay_batch cfg meta ?MP) active (sq1, kss1)] =>
    pose proof (replay_fold_ids cfg meta MP active sq1 kss1) as K2; destruct (fold_left (replay_batch cfg meta MP) active (sq1, kss1)) as [sq2 kss2] end.
  cbn [fst snd d_kss] in *. rewrite K2, K1. rewrite map_map. reflexivity.
Qed.

Lemma alookup_aremove_same {A} k (l : list (N * A)) : alookup k (aremove k l) = None.
Proof.
  induction l as [|[x a] r IH]; cbn [aremove alookup]; [reflexivity|].
  destruct (N.eqb_spec x k); [exact IH|]. cbn [alookup]. destruct (N.eqb_spec x k); [contradiction|exact IH].
Qed.

(* deleting the keyspace a name currently maps to removes its row from the meta tree; whatever happens to its directory and
   to the journal records that still carry its id, the next recovery does not produce a keyspace object for that id *)
Theorem deleted_keyspace_gone_after_reopen cfg d h id ks :
  alookup h (d_handles d) = Some id -> ks_of d id = Some ks -> blookup (k_name ks) (d_map d) = Some id ->
  let d1 := fst (do_delks d h) in
  kfind (d_kss (do_reopen cfg d1)) id = None.
Proof.
  intros A K B d1.
  assert (M : alookup id (d_meta d1) = None).
  { unfold d1, do_delks. rewrite A, K. cbn [fst]. rewrite B. unfold draw_version. cbn [fst snd d_meta upd upd_reg]. apply alookup_aremove_same. }
  destruct (kfind (d_kss (do_reopen cfg d1)) id) as [k0|] eqn:F; [|reflexivity]. exfalso.
  destruct (kfind_some _ _ _ F) as [I0 E0].
  assert (In id (map k_id (d_kss (do_reopen cfg d1)))) by (rewrite <- E0; apply in_map, I0).
  unfold do_reopen in H. rewrite recover_ids in H. rewrite in_map_iff in H. destruct H as [p [Ep Ip]].
  apply filter_In in Ip as [_ Ip]. rewrite Ep, M in Ip. discriminate.
Qed.

(* ... and the journal records that still carry the deleted keyspace's id are ignored by replay (items and clears alike) *)
Theorem records_of_deleted_ignored cfg meta mp st b :
  (forall it, In it (rb_items b) -> alookup (ri_ks it) meta = None) -> (forall c, In c (rb_clears b) -> alookup c meta = None) ->
  replay_batch cfg meta mp st b = st.
Proof.
  intros HI HC. destruct st as [sq kss]. unfold replay_batch.
  assert (E1 : replay_items cfg (rb_seqno b) kss meta mp (rb_items b) = kss).
  { unfold replay_items. induction (rb_items b) as [|it r IH]; cbn [fold_left]; [reflexivity|].
    rewrite (HI it) by now left. apply IH. intros x Ix. apply HI. now right. }
  rewrite E1. unfold replay_clears. induction (rb_clears b) as [|c r IH]; cbn [fold_left]; [reflexivity|].
  rewrite (HC c) by now left. apply IH. intros x Ix. apply HC. now right.
Qed.
