(* DbOrderP.v — the operations of Db.v respect the write discipline of OrderP.v: for every keyspace the sources of the
   latest version stay ordered by recency and below the seqno counter, so point reads agree with scans.            *)
From FJ Require Import Bytes Codec Lsm Tracker Db BytesP LsmP TxP MapP FilterP OrderP.
From Coq Require Import ZArith ZifyBool ZifyNat ZifyN Lia.

Definition below (n : N) (t : tree) : Prop := forall e, In e (concat (srcs t)) -> es e < n.
Definition TB (n : N) (t : tree) : Prop := TInv t /\ below n t.

Lemma below_mono n m t : n <= m -> below n t -> below m t.
Proof. intros L B e I. specialize (B e I). lia. Qed.

(* ---- tree-level steps with the bound ---- *)
Lemma srcs_cons t : srcs t = mem_of t (v_active (latest t)) :: (map (mem_of t) (v_sealed (latest t)) ++ [v_tables (latest t)]).
Proof. reflexivity. Qed.

(* appending an entry whose seqno is at least the bound: discipline holds, bound moves to seqno + 1 *)
Lemma tb_append n t e : TB n t -> n <= es e -> TB (es e + 1) (t_append t e).
Proof.
  intros [I B] L. split.
  - apply (tinv_step t (TAppend e) I). cbn [disciplined]. intros y Iy.
    assert (es y < n) by (apply B; rewrite srcs_cons; cbn [concat]; apply in_or_app; right; rewrite srcs_cons in Iy; exact Iy). lia.
  - intros x Ix. unfold srcs in Ix. assert (LT : latest (t_append t e) = latest t) by reflexivity. rewrite LT in Ix.
    cbn [concat] in Ix. apply in_app_or in Ix. destruct Ix as [Ix|Ix].
    + (* active memtable of the new tree: e or an old entry *)
      rewrite mem_of_mo in Ix. unfold t_append in Ix. cbn [mems] in Ix. unfold set_mem in Ix. rewrite mo_set_same in Ix.
      destruct (find _ (mems t)); [|destruct Ix]. destruct Ix as [<-|Ix]; [lia|].
      apply filter_In in Ix as [Ix _].
      assert (es x < n) by (apply B; rewrite srcs_cons; cbn [concat]; apply in_or_app; left; exact Ix). lia.
    + (* the other sources are unchanged *)
      assert (es x < n); [|lia]. apply B. rewrite srcs_cons. cbn [concat]. apply in_or_app. right.
      rewrite concat_app in *. apply in_app_or in Ix. apply in_or_app. destruct Ix as [Ix|Ix]; [left|right; exact Ix].
      rewrite <- flat_map_concat_map in *. rewrite in_flat_map in *. destruct Ix as [id [Iid Ix]]. exists id. split; [exact Iid|].
      assert (NE : id <> v_active (latest t)) by (intros ->; exact (ti_distinct _ I Iid)).
      rewrite mem_of_mo in Ix. unfold t_append in Ix. cbn [mems] in Ix. unfold set_mem in Ix. rewrite mo_set_other in Ix by exact NE.
      exact Ix.
Qed.

(* a second item of the same batch: same seqno s, bound already s + 1; the entries of the other sources are still below s *)
Lemma tb_append_same s t e : TInv t -> es e = s ->
  (forall y, In y (concat (tl (srcs t))) -> es y < s) -> (forall y, In y (hd [] (srcs t)) -> es y <= s) ->
  TInv (t_append t e) /\ (forall y, In y (concat (tl (srcs (t_append t e)))) -> es y < s) /\
  (forall y, In y (hd [] (srcs (t_append t e))) -> es y <= s).
Proof.
  intros I E T H. split; [|split].
  - apply (tinv_step t (TAppend e) I). cbn [disciplined]. intros y Iy. specialize (T y Iy). lia.
  - intros y Iy. apply T. unfold srcs in *. assert (LT : latest (t_append t e) = latest t) by reflexivity. rewrite LT in Iy.
    cbn [tl] in *. rewrite concat_app in *. apply in_app_or in Iy. apply in_or_app. destruct Iy as [Iy|Iy]; [left|right; exact Iy].
    rewrite <- flat_map_concat_map in *. rewrite in_flat_map in *. destruct Iy as [id [Iid Iy]]. exists id. split; [exact Iid|].
    assert (NE : id <> v_active (latest t)) by (intros ->; exact (ti_distinct _ I Iid)).
    rewrite mem_of_mo in Iy. unfold t_append in Iy. cbn [mems] in Iy. unfold set_mem in Iy. rewrite mo_set_other in Iy by exact NE. exact Iy.
  - intros y Iy. unfold srcs in Iy. assert (LT : latest (t_append t e) = latest t) by reflexivity. rewrite LT in Iy. cbn [hd] in Iy.
    rewrite mem_of_mo in Iy. unfold t_append in Iy. cbn [mems] in Iy. unfold set_mem in Iy. rewrite mo_set_same in Iy.
    destruct (find _ (mems t)); [|destruct Iy]. destruct Iy as [<-|Iy]; [lia|]. apply filter_In in Iy as [Iy _].
    apply H. unfold srcs. cbn [hd]. exact Iy.
Qed.

(* operations that only move or drop entries keep the bound: every entry of the result has the (key, seqno) slot of an
   entry that was there before *)
Definition slots_from (t' t : tree) : Prop := forall e, In e (concat (srcs t')) -> slot_in e (concat (srcs t)).
Lemma below_slots n t t' : slots_from t' t -> below n t -> below n t'.
Proof. intros S B e I. destruct (S e I) as [x [Ix [_ Es]]]. rewrite <- Es. apply B, Ix. Qed.

(* ---- Db.v: one committed batch (single writes, batches, transaction commits all go through commit_batch) ---- *)
Definition P (s : N) (t : tree) : Prop :=
  TInv t /\ (forall y, In y (concat (tl (srcs t))) -> es y < s) /\ (forall y, In y (hd [] (srcs t)) -> es y <= s).

Lemma tb_P s t : TB s t -> P s t.
Proof.
  intros [I B]. split; [exact I|]. split.
  - intros y Iy. apply B. rewrite srcs_cons. cbn [concat]. apply in_or_app. right. rewrite srcs_cons in Iy. exact Iy.
  - intros y Iy. assert (es y < s); [|lia]. apply B. rewrite srcs_cons. cbn [concat]. apply in_or_app. left. rewrite srcs_cons in Iy. exact Iy.
Qed.
Lemma P_tb s t : P s t -> TB (s + 1) t.
Proof.
  intros [I [T H]]. split; [exact I|]. intros e Ie. rewrite srcs_cons in Ie. cbn [concat] in Ie. apply in_app_or in Ie.
  destruct Ie as [Ie|Ie].
  - assert (es e <= s); [|lia]. apply H. rewrite srcs_cons. exact Ie.
  - assert (es e < s); [|lia]. apply T. rewrite srcs_cons. exact Ie.
Qed.

Lemma apply_item_P s kss it : (forall ks, In ks kss -> P s (k_tree ks)) ->
  forall ks, In ks (apply_item s kss it) -> P s (k_tree ks).
Proof.
  intros H ks I. unfold apply_item in I. rewrite in_map_iff in I. destruct I as [k0 [E I0]]. specialize (H k0 I0).
  destruct (k_id k0 =? ri_ks it); subst ks; [|exact H]. cbn [with_tree k_tree].
  destruct H as [I [T Hd]]. apply (tb_append_same s); auto.
Qed.

Lemma fold_apply_P s items : forall kss, (forall ks, In ks kss -> P s (k_tree ks)) ->
  forall ks, In ks (fold_left (apply_item s) items kss) -> P s (k_tree ks).
Proof.
  induction items as [|it r IH]; intros kss H ks I; cbn [fold_left] in I; [apply H, I|].
  eapply IH; [|exact I]. apply apply_item_P. exact H.
Qed.

Definition DInv (d : db) : Prop := forall ks, In ks (d_kss d) -> TB (d_seqno d) (k_tree ks).

Theorem commit_batch_dinv d ji mi : DInv d -> DInv (commit_batch d ji mi).
Proof.
  intros H ks I. unfold commit_batch in *. cbn [d_kss d_seqno upd upd_journal] in *.
  apply P_tb. eapply fold_apply_P; [|exact I]. intros k0 I0. apply tb_P, H, I0.
Qed.

Theorem write_one_dinv d id k v vt mvt : DInv d -> DInv (fst (write_one d id k v vt mvt)).
Proof.
  intros H. unfold write_one. destruct (ks_of d id) as [ks|]; [|exact H].
  destruct (k_deleted ks); [exact H|]. destruct (d_poisoned d); [exact H|]. cbn [fst]. apply commit_batch_dinv, H.
Qed.

(* the conclusion for readers: in every state satisfying the invariant, for every keyspace, key and instant, the point read
   of the latest version returns exactly the entry a scan shows *)
Theorem dinv_reads_agree d ks k I : DInv d -> In ks (d_kss d) ->
  v_get_ent (k_tree ks) (latest (k_tree ks)) k I = newest k I (v_all (k_tree ks) (latest (k_tree ks))).
Proof.
  intros H Iks. destruct (H ks Iks) as [TI _]. apply point_read_agrees_with_scan. apply ordered_recency. exact (ti_ord _ TI).
Qed.

Lemma dinv_init mode filters : DInv (db_init mode filters).
Proof. intros ks []. Qed.

(* any sequence of single writes (insert / remove / weak remove through any keyspace handle) from any state satisfying the
   invariant: reads agree afterwards *)
Theorem writes_keep_reads_agreeing ws : forall d,
  DInv d -> DInv (fold_left (fun d w => let '(id, k, v, vt, mvt) := w in fst (write_one d id k v vt mvt)) ws d).
Proof.
  induction ws as [|[[[[id k] v] vt] mvt] r IH]; intros d H; cbn [fold_left]; [exact H|]. apply IH, write_one_dinv, H.
Qed.

(* ---- more Db.v operations ---- *)
Lemma tb_init n : TB n tree_init.
Proof. split; [apply tinv_init|]. intros e I. unfold srcs, latest in I. cbn in I. destruct I. Qed.

Lemma dinv_upd_seq d n trk : d_seqno d <= n -> DInv d -> DInv (upd d n trk (d_kss d)).
Proof. intros L H ks I. cbn [d_kss d_seqno upd] in *. destruct (H ks I) as [A B]. split; [exact A|eapply below_mono; eauto]. Qed.

Theorem do_ks_dinv d h name : DInv d -> DInv (fst (do_ks d h name)).
Proof.
  intros H. unfold do_ks. destruct (blookup name (d_map d)); cbn [fst].
  - intros ks I. cbn in I. apply H, I.
  - intros ks I. cbn in I. destruct I as [<-|I]; [apply tb_init|].
    apply filter_In in I as [I _]. destruct (H ks I) as [A B]. split; [exact A|]. eapply below_mono; [|exact B]. cbn. lia.
Qed.

Lemma tb_clear n s t : TInv t -> TB n (t_clear s t).
Proof.
  intros I. split; [apply (tinv_step t (TClear s) I); exact Logic.I|].
  intros e Ie. unfold t_clear, srcs in Ie. unfold latest in Ie. cbn [vers hd v_active v_sealed v_tables map app concat] in Ie.
  unfold mem_of in Ie. cbn [mems find m_id] in Ie. rewrite N.eqb_refl in Ie. cbn in Ie. destruct Ie.
Qed.

Theorem do_clear_dinv d id : DInv d -> DInv (fst (do_clear d id)).
Proof.
  intros H. unfold do_clear. destruct (ks_of d id) as [ks|] eqn:K; [|exact H]. destruct (d_poisoned d); [exact H|].
  cbn [fst]. intros k0 I. cbn in I. unfold set_ks in I. cbn in I. rewrite in_map_iff in I. destruct I as [k1 [E I1]].
  destruct (k_id k1 =? k_id ks).
  - subst k0. cbn [with_tree k_tree]. apply tb_clear. unfold ks_of in K. apply find_some in K. destruct K as [K _].
    exact (proj1 (H ks K)).
  - subst k0. destruct (H k1 I1) as [A B]. split; [exact A|]. eapply below_mono; [|exact B]. cbn. lia.
Qed.

(* rotation and version-history maintenance leave the sources as they are (up to an empty new memtable in front) *)
Lemma tb_rotate n t : TB n t -> TB n (fst (t_rotate t)).
Proof.
  intros [I B]. split; [apply (tinv_step t TRotate I); exact Logic.I|].
  pose proof (ti_ids _ I) as [NE IDS]. destruct (IDS _ (latest_in t NE)) as [La Ls].
  destruct (mem_of t (v_active (latest t))) as [|e0 l0] eqn:ME; [unfold t_rotate; rewrite ME; exact B|].
  destruct (rotate_shape t e0 l0 NE ME) as [SH [NEW FR]].
  intros e Ie. apply B. unfold srcs in *. rewrite SH in Ie. cbn [v_active v_sealed v_tables map] in Ie. rewrite NEW, (FR _ La) in Ie.
  replace (map (mem_of (fst (t_rotate t))) (v_sealed (latest t))) with (map (mem_of t) (v_sealed (latest t))) in Ie
    by (symmetry; apply map_ext_in; intros id Iid; apply FR, Ls, Iid).
  cbn [concat app] in Ie. exact Ie.
Qed.

Lemma tb_maint n W t : TB n t -> TB n (vh_maintenance W t).
Proof.
  intros [I B]. split; [apply (tinv_step t (TMaint W) I); exact Logic.I|].
  intros e Ie. apply B. rewrite srcs_maint in Ie; [exact Ie|exact (proj1 (ti_ids _ I))].
Qed.

Lemma tb_flush n W s t : TB n t -> TB n (fst (t_flush W s t)).
Proof.
  intros [I B]. split; [apply (tinv_step t (TFlush W s) I); exact Logic.I|].
  pose proof (proj1 (ti_ids _ I)) as NE.
  unfold t_flush. destruct (v_sealed (latest t)) as [|i0 ids] eqn:SE; [exact B|].
  destruct (gc_stream W false None (flat_map (mem_of t) (i0 :: ids))) as [|o1 out] eqn:G; [exact B|]. cbn [fst].
  apply (below_slots n t). 2: exact B.
  intros e Ie. rewrite srcs_maint in Ie by (cbn; discriminate).
  match type of Ie with In _ (concat (srcs ?T)) => set (t' := T) in * end.
  unfold srcs in Ie. change (latest t') with (hd dummy_version (vers t')) in Ie. change (mem_of t') with (mem_of t) in Ie.
  subst t'. cbn [vers hd v_active v_sealed v_tables map app concat] in Ie. rewrite app_nil_r in Ie.
  apply in_app_or in Ie. destruct Ie as [Ie|Ie].
  - exists e. split; [|auto]. unfold srcs. cbn [concat]. apply in_or_app. now left.
  - change (o1 :: out ++ v_tables (latest t)) with ((o1 :: out) ++ v_tables (latest t)) in Ie. apply in_app_or in Ie.
    destruct Ie as [Ie|Ie].
    + assert (SL : slot_in e (flat_map (mem_of t) (i0 :: ids))) by (apply (gc_stream_slots W false None); rewrite G; exact Ie).
      destruct SL as [z [Iz Ez]]. exists z. split; [|exact Ez]. unfold srcs. rewrite SE. cbn [concat]. apply in_or_app. right.
      rewrite concat_app. apply in_or_app. left. rewrite <- flat_map_concat_map. exact Iz.
    + exists e. split; [|auto]. unfold srcs. cbn [concat]. apply in_or_app. right. rewrite concat_app. apply in_or_app. right.
      cbn. rewrite app_nil_r. exact Ie.
Qed.

Lemma tb_compact n W s ev f t : TB n t -> TB n (t_compact W s ev f t).
Proof.
  intros [I B]. split; [apply (tinv_step t (TCompact W s ev f) I); exact Logic.I|].
  unfold t_compact. destruct (v_tables (latest t)) as [|t0 tb] eqn:TBL; [exact B|].
  apply (below_slots n t). 2: exact B.
  intros e Ie. rewrite srcs_maint in Ie by (cbn; discriminate).
  match type of Ie with In _ (concat (srcs ?T)) => set (t' := T) in * end.
  unfold srcs in Ie. change (latest t') with (hd dummy_version (vers t')) in Ie. change (mem_of t') with (mem_of t) in Ie.
  subst t'. cbn [vers hd v_active v_sealed v_tables concat] in Ie.
  apply in_app_or in Ie. destruct Ie as [Ie|Ie].
  - exists e. split; [|auto]. unfold srcs. cbn [concat]. apply in_or_app. now left.
  - rewrite concat_app in Ie. apply in_app_or in Ie. destruct Ie as [Ie|Ie].
    + exists e. split; [|auto]. unfold srcs. cbn [concat]. apply in_or_app. right. rewrite concat_app. apply in_or_app. now left.
    + cbn [concat] in Ie. rewrite app_nil_r in Ie. destruct (gc_stream_slots W ev f _ _ Ie) as [z [Iz Ez]].
      exists z. split; [|exact Ez]. unfold srcs. rewrite TBL. cbn [concat]. apply in_or_app. right. rewrite concat_app. apply in_or_app. right.
      cbn. rewrite app_nil_r. exact Iz.
Qed.

(* ---- lifting to the remaining maintenance operations of Db.v ---- *)
Lemma dinv_ext d d' : d_kss d' = d_kss d -> d_seqno d <= d_seqno d' -> DInv d -> DInv d'.
Proof. intros E L H ks I. rewrite E in I. destruct (H ks I) as [A B]. split; [exact A|eapply below_mono; eauto]. Qed.

Lemma dinv_map d d' (f : kspace -> kspace) :
  d_kss d' = map f (d_kss d) -> d_seqno d <= d_seqno d' ->
  (forall k n, TB n (k_tree k) -> TB n (k_tree (f k))) -> DInv d -> DInv d'.
Proof.
  intros E L F H ks I. rewrite E in I. rewrite in_map_iff in I. destruct I as [k0 [<- I0]].
  apply F. destruct (H k0 I0) as [A B]. split; [exact A|eapply below_mono; eauto].
Qed.

Lemma dinv_set_ks d ks t' n' trk :
  In ks (d_kss d) -> TB n' t' -> d_seqno d <= n' -> DInv d -> DInv (upd d n' trk (set_ks d (with_tree ks t'))).
Proof.
  intros K T L H k0 I. cbn [d_kss d_seqno upd] in *. unfold set_ks in I. rewrite in_map_iff in I. destruct I as [k1 [E I1]].
  destruct (k_id k1 =? k_id (with_tree ks t')); subst k0; [exact T|].
  destruct (H k1 I1) as [A B]. split; [exact A|eapply below_mono; eauto].
Qed.

Lemma ks_of_in d id ks : ks_of d id = Some ks -> In ks (d_kss d).
Proof. unfold ks_of. intros K. apply find_some in K. tauto. Qed.

Lemma journal_maintenance_dinv d : DInv d -> DInv (journal_maintenance d).
Proof. apply dinv_ext; [reflexivity|cbn; lia]. Qed.
Lemma upd_queue_dinv d q fq : DInv d -> DInv (upd_queue d q fq).
Proof. apply dinv_ext; [reflexivity|cbn; lia]. Qed.

Theorem do_rotate_dinv d id : DInv d -> DInv (fst (do_rotate d id)).
Proof.
  intros H. unfold do_rotate. destruct (ks_of d id) as [ks|] eqn:K; [|exact H].
  destruct (t_rotate (k_tree ks)) as [t ok] eqn:R. destruct ok; [|exact H]. cbn [fst].
  assert (Et : t = fst (t_rotate (k_tree ks))) by (rewrite R; reflexivity).
  unfold after_rotate. apply journal_maintenance_dinv.
  set (d0 := upd d (d_seqno d) (d_trk d) (set_ks d (with_tree ks t))).
  assert (H0 : DInv d0).
  { apply dinv_set_ks; [exact (ks_of_in _ _ _ K)| |lia|exact H]. subst t. apply tb_rotate. apply H. exact (ks_of_in _ _ _ K). }
  intros k0 I. cbn [d_kss d_seqno upd upd_queue] in I |- *. rewrite in_map_iff in I. destruct I as [k1 [E I1]].
  assert (T1 : TB (d_seqno d0) (k_tree k1)) by (apply H0; exact I1).
  destruct (existsb _ _); subst k0; [cbn [with_tree k_tree]; apply tb_maint; exact T1|exact T1].
Qed.

Theorem do_compact_dinv d id evict : DInv d -> DInv (do_compact d id evict).
Proof.
  intros H. unfold do_compact. destruct (ks_of d id) as [ks|] eqn:K; [|exact H].
  destruct (v_tables (latest (k_tree ks))); [exact H|]. unfold draw_version. cbn [fst snd].
  set (d1 := upd d (d_seqno d + 1) (tr_set_visible (d_trk d) (d_seqno d + 1)) (d_kss d)).
  assert (H1 : DInv d1) by (apply dinv_upd_seq; [lia|exact H]).
  apply (dinv_set_ks d1 ks); [exact (ks_of_in _ _ _ K)| |cbn; lia|exact H1].
  apply tb_compact. apply H1. exact (ks_of_in _ _ _ K).
Qed.

Lemma maybe_seal_dinv d : DInv d -> DInv (maybe_seal d).
Proof. unfold maybe_seal. destruct (_ && _); [|auto]. apply dinv_ext; [reflexivity|cbn; lia]. Qed.
Lemma push_msg_dinv d m : DInv d -> DInv (push_msg d m).
Proof. apply dinv_ext; [reflexivity|cbn; lia]. Qed.

Theorem do_step_dinv d : DInv d -> DInv (fst (do_step d)).
Proof.
  intros H. unfold do_step. destruct (d_queue d) as [|m q]; [exact H|].
  set (d0 := upd_queue d q (d_flushq d)). assert (H0 : DInv d0) by (apply upd_queue_dinv, H).
  destruct m as [id mid| |id].
  - destruct (ks_of d0 id) as [ks|]; [|exact H0]. destruct (_ =? _); [|exact H0]. cbn [fst]. apply do_rotate_dinv, H0.
  - destruct (d_flushq d0) as [|id fq]; [exact H0|].
    set (d1 := maybe_seal (upd_queue d0 (d_queue d0) fq)).
    assert (H1 : DInv d1) by (apply maybe_seal_dinv, upd_queue_dinv, H0).
    destruct (ks_of d1 id) as [ks|] eqn:K; [|exact H1]. cbn [fst].
    apply journal_maintenance_dinv, push_msg_dinv.
    destruct (v_sealed (latest (k_tree ks))); [exact H1|].
    unfold draw_version. cbn [fst snd].
    set (d2 := upd d1 (d_seqno d1 + 1) (tr_set_visible (d_trk d1) (d_seqno d1 + 1)) (d_kss d1)).
    assert (H2 : DInv d2) by (apply dinv_upd_seq; [lia|exact H1]).
    apply (dinv_set_ks d2 ks); [exact (ks_of_in _ _ _ K)| |cbn; lia|exact H2].
    apply tb_flush. apply H2. exact (ks_of_in _ _ _ K).
  - exact H0.
Qed.

Lemma do_drain_dinv fuel : forall d n, DInv d -> DInv (fst (do_drain fuel d n)).
Proof.
  induction fuel as [|f IH]; intros d n H; cbn [do_drain]; [exact H|].
  destruct (d_queue d); [exact H|]. apply IH, do_step_dinv, H.
Qed.

(* ---- bulk ingestion: rotate, flush what is in memory, register the ingested table ---- *)
Lemma ins_ent_nonempty e l : ins_ent e l <> [].
Proof. destruct l as [|y r]; cbn; [discriminate|]. destruct (_ || _); discriminate. Qed.
Lemma sort_ents_nonempty l : l <> [] -> sort_ents l <> [].
Proof.
  intros NE. unfold sort_ents. assert (R : rev l <> []) by (intros E; apply NE; rewrite <- (rev_involutive l), E; reflexivity).
  destruct (rev l) as [|x r]; [congruence|]. cbn. apply ins_ent_nonempty.
Qed.
Lemma gc_key_nonempty W f l : l <> [] -> gc_key W false f l <> [].
Proof.
  destruct l as [|h t]; [congruence|]. intros _. cbn [gc_key]. rewrite Bool.andb_false_r.
  destruct t as [|p t']; [discriminate|]. destruct (es p <? W); discriminate.
Qed.
Lemma gc_stream_nonempty W f l : l <> [] -> gc_stream W false f l <> [].
Proof.
  intros NE. unfold gc_stream. pose proof (sort_ents_nonempty l NE) as S. destruct (sort_ents l) as [|e0 t] eqn:E; [congruence|].
  cbn [length gc_groups]. destruct (take_key (ek e0) (e0 :: t)) as [g r] eqn:T.
  cbn [take_key] in T. rewrite list_eqb_refl in T. destruct (take_key (ek e0) t) as [g' r'] eqn:T2. injection T as <- <-.
  intros H. apply app_eq_nil in H. destruct H as [H _]. revert H. apply gc_key_nonempty. discriminate.
Qed.

(* the tree part of do_ingest *)
Definition ingest_tree (t : tree) (s g : N) (ents : list ent) : tree :=
  let t1 := fst (t_rotate t) in
  let t2 := match v_sealed (latest t1) with [] => t1 | _ => fst (t_flush 0 s t1) end in
  t_register_ingest g ents t2.

Lemma rotate_active_empty t : TInv t -> mem_of (fst (t_rotate t)) (v_active (latest (fst (t_rotate t)))) = [].
Proof.
  intros I. pose proof (proj1 (ti_ids _ I)) as NE.
  destruct (mem_of t (v_active (latest t))) as [|e0 l0] eqn:ME; [unfold t_rotate; rewrite ME; cbn [fst]; exact ME|].
  destruct (rotate_shape t e0 l0 NE ME) as [SH [NEW _]]. rewrite SH. cbn [v_active]. exact NEW.
Qed.

Lemma flush_shape s t i0 ids : vers t <> [] -> v_sealed (latest t) = i0 :: ids -> flat_map (mem_of t) (i0 :: ids) <> [] ->
  let t' := fst (t_flush 0 s t) in
  v_sealed (latest t') = [] /\ v_active (latest t') = v_active (latest t) /\ (forall id, mem_of t' id = mem_of t id).
Proof.
  intros NE SE NN. unfold t_flush. rewrite SE.
  destruct (gc_stream 0 false None (flat_map (mem_of t) (i0 :: ids))) as [|o1 out] eqn:G;
    [exfalso; revert G; apply gc_stream_nonempty; exact NN|]. cbn [fst].
  rewrite latest_maint by (cbn; discriminate). unfold latest at 1 2. cbn [vers hd v_sealed v_active]. repeat split.
Qed.

Lemma flat_map_nil {A B} (f : A -> list B) l : flat_map f l = [] -> Forall (fun x => f x = []) l.
Proof.
  induction l as [|x r IH]; intros H; [constructor|]. cbn in H. apply app_eq_nil in H. destruct H as [H1 H2].
  constructor; [exact H1|apply IH, H2].
Qed.

Lemma tb_register n g ents t : TB n t -> n <= g -> (forall e, In e ents -> es e = g) ->
  mem_of t (v_active (latest t)) = [] -> Forall (fun id => mem_of t id = []) (v_sealed (latest t)) ->
  TB (g + 1) (t_register_ingest g ents t).
Proof.
  intros [I B] L EG A S. split; [apply (tinv_step t (TIngest g ents) I); split; assumption|].
  intros e Ie. unfold t_register_ingest in Ie.
  match type of Ie with In _ (concat (srcs ?T)) => set (t' := T) in * end.
  unfold srcs in Ie. change (latest t') with (hd dummy_version (vers t')) in Ie. change (mem_of t') with (mem_of t) in Ie.
  subst t'. cbn [vers hd v_active v_sealed v_tables concat] in Ie. rewrite A in Ie. cbn [app] in Ie.
  rewrite concat_app in Ie. apply in_app_or in Ie. destruct Ie as [Ie|Ie].
  - exfalso. rewrite <- flat_map_concat_map in Ie. rewrite in_flat_map in Ie. destruct Ie as [id [Iid Ie]].
    rewrite Forall_forall in S. rewrite (S id Iid) in Ie. destruct Ie.
  - cbn [concat] in Ie. rewrite app_nil_r in Ie. apply in_app_or in Ie. destruct Ie as [Ie|Ie].
    + rewrite (EG e Ie). lia.
    + assert (es e < n); [|lia]. apply B. unfold srcs. cbn [concat]. apply in_or_app. right. rewrite concat_app. apply in_or_app. right.
      cbn. rewrite app_nil_r. exact Ie.
Qed.

Lemma tb_ingest_tree n t s g ents : TB n t -> n <= g -> (forall e, In e ents -> es e = g) ->
  TB (g + 1) (ingest_tree t s g ents).
Proof.
  intros T L EG. unfold ingest_tree.
  set (t1 := fst (t_rotate t)).
  assert (T1 : TB n t1) by (apply tb_rotate, T).
  assert (A1 : mem_of t1 (v_active (latest t1)) = []) by (apply rotate_active_empty, T).
  destruct (v_sealed (latest t1)) as [|i0 ids] eqn:SE.
  - apply (tb_register n); auto. rewrite SE. constructor.
  - destruct (flat_map (mem_of t1) (i0 :: ids)) as [|x xs] eqn:FM.
    + (* every sealed memtable is empty: the flush writes nothing and leaves the tree as it is *)
      assert (E : fst (t_flush 0 s t1) = t1).
      { unfold t_flush. rewrite SE, FM. assert (G : gc_stream 0 false None [] = []) by reflexivity. rewrite G. reflexivity. }
      rewrite E. apply (tb_register n); auto. rewrite SE. apply flat_map_nil. exact FM.
    + destruct (flush_shape s t1 i0 ids (proj1 (ti_ids _ (proj1 T1))) SE) as [S0 [A0 M0]]; [rewrite FM; discriminate|].
      apply (tb_register n); auto; [apply tb_flush, T1|rewrite M0, A0; exact A1|rewrite S0; constructor].
Qed.

Theorem do_ingest_dinv d id items : DInv d -> DInv (fst (do_ingest d id items)).
Proof.
  intros H. unfold do_ingest. destruct (ks_of d id) as [ks|] eqn:K; [|exact H].
  destruct items as [|it0 its]; [cbn [fst]; apply (dinv_ext (push_msg d (WCompact id))); [reflexivity|cbn; lia|apply push_msg_dinv, H]|].
  destruct (t_rotate (k_tree ks)) as [t1 b] eqn:R.
  assert (E1 : t1 = fst (t_rotate (k_tree ks))) by (rewrite R; reflexivity).
  pose proof (H ks (ks_of_in _ _ _ K)) as TK.
  set (ents := fun g => map (fun it => match it with IPut k v => mkEnt k g VValue v | ITomb k => mkEnt k g VTomb [] end) (it0 :: its)).
  assert (EG : forall g e, In e (ents g) -> es e = g).
  { intros g e Ie. unfold ents in Ie. rewrite in_map_iff in Ie. destruct Ie as [it [<- _]]. destruct it; reflexivity. }
  destruct (v_sealed (latest t1)) as [|i0 ids] eqn:SE.
  - (* nothing sealed: no flush *)
    unfold draw_version. cbn [fst snd].
    set (d2 := upd d (d_seqno d + 1) (tr_set_visible (d_trk d) (d_seqno d + 1)) (d_kss d)).
    assert (H2 : DInv d2) by (apply dinv_upd_seq; [lia|exact H]).
    apply push_msg_dinv. apply (dinv_set_ks d2 ks); [exact (ks_of_in _ _ _ K)| |cbn; lia|exact H2].
    assert (IT : t_register_ingest (d_seqno d) (ents (d_seqno d)) t1 = ingest_tree (k_tree ks) 0 (d_seqno d) (ents (d_seqno d)))
      by (unfold ingest_tree; rewrite <- E1, SE; reflexivity).
    change (map _ (it0 :: its)) with (ents (d_seqno d)). rewrite IT. cbn [d_seqno upd d2].
    apply (tb_ingest_tree (d_seqno d)); [exact TK|lia|apply EG].
  - (* flush first: one seqno for the flush, the next for the ingested table *)
    unfold draw_version. cbn [fst snd].
    set (dd := upd d (d_seqno d + 1) (tr_set_visible (d_trk d) (d_seqno d + 1)) (d_kss d)).
    set (d2 := upd dd (d_seqno dd + 1) (tr_set_visible (d_trk dd) (d_seqno dd + 1)) (d_kss dd)).
    assert (H2 : DInv d2) by (apply dinv_upd_seq; [cbn; lia|apply dinv_upd_seq; [lia|exact H]]).
    apply push_msg_dinv. apply (dinv_set_ks d2 ks); [exact (ks_of_in _ _ _ K)| |cbn; lia|exact H2].
    assert (IT : t_register_ingest (d_seqno dd) (ents (d_seqno dd)) (fst (t_flush 0 (d_seqno d) t1))
                 = ingest_tree (k_tree ks) (d_seqno d) (d_seqno dd) (ents (d_seqno dd)))
      by (unfold ingest_tree; rewrite <- E1, SE; reflexivity).
    change (map _ (it0 :: its)) with (ents (d_seqno dd)). rewrite IT.
    apply (tb_ingest_tree (d_seqno d)); [exact TK|cbn; lia|apply EG].
Qed.

(* ---- every program made of these operations ---- *)
Inductive wop :=
| WKs (h : N) (name : bytes) | WWrite (id : N) (k v : bytes) (vt mvt : vtype) | WBatch (ji mi : list ritem)
| WClear (id : N) | WRotate' (id : N) | WStep | WDrain (fuel : nat) | WMajor (id : N) (evict : bool) | WIngest (id : N) (items : list iitem).
Definition wstep (d : db) (o : wop) : db :=
  match o with
  | WKs h name => fst (do_ks d h name)
  | WWrite id k v vt mvt => fst (write_one d id k v vt mvt)
  | WBatch ji mi => commit_batch d ji mi
  | WClear id => fst (do_clear d id)
  | WRotate' id => fst (do_rotate d id)
  | WStep => fst (do_step d)
  | WDrain fuel => fst (do_drain fuel d 0)
  | WMajor id ev => do_compact d id ev
  | WIngest id items => fst (do_ingest d id items)
  end.

Theorem wrun_dinv ops : forall d, DInv d -> DInv (fold_left wstep ops d).
Proof.
  induction ops as [|o r IH]; intros d H; cbn [fold_left]; [exact H|]. apply IH.
  destruct o; cbn [wstep]; [apply do_ks_dinv|apply write_one_dinv|apply commit_batch_dinv|apply do_clear_dinv|apply do_rotate_dinv
                           |apply do_step_dinv|apply do_drain_dinv|apply do_compact_dinv|apply do_ingest_dinv]; exact H.
Qed.

(* C01 at the level of the database model: for EVERY sequence of keyspace creation, single writes, committed batches
   (hence transaction commits), clear, memtable rotation, worker steps (flush with journal sealing and maintenance),
   major compaction and bulk ingestion, on every keyspace the point read of every key at every instant returns exactly
   the entry the scan shows *)
Theorem db_reads_agree mode filters ops ks k I :
  let d := fold_left wstep ops (db_init mode filters) in
  In ks (d_kss d) ->
  v_get_ent (k_tree ks) (latest (k_tree ks)) k I = newest k I (v_all (k_tree ks) (latest (k_tree ks))).
Proof. intros d Iks. apply (dinv_reads_agree d); [apply wrun_dinv, dinv_init|exact Iks]. Qed.

(* non-vacuity: a program over these operations that leaves data in memtable, sealed memtable and tables of a keyspace *)
Definition db_example : list wop :=
  [WKs 0 [97]; WWrite 1 [107] [1] VValue VValue; WRotate' 1; WStep; WWrite 1 [107] [2] VValue VValue;
   WIngest 1 [IPut [106] [7]; ITomb [107]]; WWrite 1 [108] [3] VValue VValue; WRotate' 1; WWrite 1 [107] [4] VValue VValue;
   WMajor 1 true; WClear 1; WWrite 1 [105] [9] VValue VValue].
Lemma db_example_nonempty :
  exists ks, In ks (d_kss (fold_left wstep db_example (db_init MPlain []))) /\
             v_all (k_tree ks) (latest (k_tree ks)) <> [].
Proof. vm_compute. eexists. split; [left; reflexivity|discriminate]. Qed.
