(* SortP.v — the key order is a strict total order; sort_ents sorts (key ascending, seqno descending, stable); what the
   merged compaction / flush stream (gc_stream) does to the newest version of every key; scans are sorted and show exactly
   the newest non-tombstone version of every key.                                                                          *)
From FJ Require Import Bytes Codec Lsm BytesP LsmP TxP MapP FilterP OrderP.
From Coq Require Import ZArith ZifyBool ZifyNat ZifyN Lia Sorted.

(* ---- the key order ---- *)
Lemma ltb_irrefl a : bytes_ltb a a = false.
Proof. induction a as [|x a IH]; cbn; [reflexivity|]. rewrite N.ltb_irrefl, N.eqb_refl. exact IH. Qed.

Lemma ltb_trans a : forall b c, bytes_ltb a b = true -> bytes_ltb b c = true -> bytes_ltb a c = true.
Proof.
  induction a as [|x a IH]; intros [|y b] [|z c]; cbn; try congruence; auto.
  destruct (N.ltb_spec x y), (N.ltb_spec y z), (N.ltb_spec x z); try lia; try congruence; auto;
    destruct (N.eqb_spec x y), (N.eqb_spec y z), (N.eqb_spec x z); try lia; try congruence; auto.
  apply IH.
Qed.

Lemma ltb_total a : forall b, bytes_ltb a b = false -> bytes_ltb b a = false -> a = b.
Proof.
  induction a as [|x a IH]; intros [|y b]; cbn; try congruence; auto.
  destruct (N.ltb_spec x y), (N.ltb_spec y x); try lia; try congruence.
  destruct (N.eqb_spec x y), (N.eqb_spec y x); try lia; try congruence.
  intros A B. f_equal; [assumption|apply IH; assumption].
Qed.

Lemma ltb_asym a b : bytes_ltb a b = true -> bytes_ltb b a = false.
Proof.
  intros H. destruct (bytes_ltb b a) eqn:E; [|reflexivity].
  pose proof (ltb_trans _ _ _ H E) as C. rewrite ltb_irrefl in C. discriminate.
Qed.

Lemma ltb_negtrans a b c : bytes_ltb a b = false -> bytes_ltb b c = false -> bytes_ltb a c = false.
Proof.
  intros A B. destruct (bytes_ltb a c) eqn:C; [|reflexivity].
  destruct (bytes_ltb b a) eqn:D.
  - rewrite (ltb_trans _ _ _ D C) in B. discriminate.
  - rewrite (ltb_total _ _ A D) in C. congruence.
Qed.

Lemma list_eqb_false_ne a b : list_eqb a b = false -> a <> b.
Proof. intros H ->. rewrite list_eqb_refl in H. discriminate. Qed.
Lemma list_eqb_ne a b : a <> b -> list_eqb a b = false.
Proof. intros H. destruct (list_eqb a b) eqn:E; [apply list_eqb_eq in E; contradiction|reflexivity]. Qed.

(* ---- the entry order of the merged stream: key ascending, seqno descending ---- *)
Lemma ent_before_spec a b :
  ent_before a b = true <-> (bytes_ltb (ek a) (ek b) = true \/ (ek a = ek b /\ es b < es a)).
Proof.
  unfold ent_before. destruct (bytes_ltb (ek a) (ek b)) eqn:L1; [split; auto|].
  destruct (bytes_ltb (ek b) (ek a)) eqn:L2.
  - split; [discriminate|]. intros [H|[E _]]; [discriminate|]. rewrite E, ltb_irrefl in L2. discriminate.
  - pose proof (ltb_total _ _ L1 L2) as E. split.
    + intros H. right. split; [exact E|]. lia.
    + intros [H|[_ H]]; [discriminate|]. lia.
Qed.

Lemma ent_before_asym a b : ent_before a b = true -> ent_before b a = false.
Proof.
  intros H. destruct (ent_before b a) eqn:E; [|reflexivity].
  apply ent_before_spec in H. apply ent_before_spec in E.
  destruct H as [H|[K H]], E as [E|[K' E]].
  - rewrite (ltb_asym _ _ H) in E. discriminate.
  - rewrite K', ltb_irrefl in H. discriminate.
  - rewrite K, ltb_irrefl in E. discriminate.
  - lia.
Qed.

Lemma ent_before_negtrans a b c : ent_before a b = false -> ent_before b c = false -> ent_before a c = false.
Proof.
  intros A B. destruct (ent_before a c) eqn:C; [|reflexivity]. exfalso.
  apply ent_before_spec in C.
  assert (NA : ~ (bytes_ltb (ek a) (ek b) = true \/ (ek a = ek b /\ es b < es a)))
    by (intros X; apply ent_before_spec in X; congruence).
  assert (NB : ~ (bytes_ltb (ek b) (ek c) = true \/ (ek b = ek c /\ es c < es b)))
    by (intros X; apply ent_before_spec in X; congruence).
  assert (LA : bytes_ltb (ek a) (ek b) = false) by (destruct (bytes_ltb (ek a) (ek b)); [exfalso; apply NA; now left|reflexivity]).
  assert (LB : bytes_ltb (ek b) (ek c) = false) by (destruct (bytes_ltb (ek b) (ek c)); [exfalso; apply NB; now left|reflexivity]).
  destruct C as [C|[K C]].
  - rewrite (ltb_negtrans _ _ _ LA LB) in C. discriminate.
  - assert (E1 : ek a = ek b).
    { apply ltb_total; [exact LA|]. rewrite K. exact LB. }
    assert (E2 : ek b = ek c) by congruence.
    assert (~ es b < es a) by (intros X; apply NA; right; auto).
    assert (~ es c < es b) by (intros X; apply NB; right; auto). lia.
Qed.

Definition notafter (x y : ent) : Prop := ent_before y x = false.     (* x comes before y, or they share a slot *)
Definition ksorted (l : list ent) : Prop := StronglySorted notafter l.

Lemma same_slot_spec x e : same_slot x e = true <-> (ek x = ek e /\ es x = es e).
Proof.
  unfold same_slot. rewrite andb_true_iff, list_eqb_true_iff. split; intros [A B]; split; auto; lia.
Qed.

Lemma ins_ent_in2 e : forall l x, (x = e \/ In x l) -> In x (ins_ent e l).
Proof.
  induction l as [|y r IH]; intros x H; cbn [ins_ent].
  - destruct H as [->|[]]. now left.
  - destruct (ent_before y e || same_slot y e).
    + destruct H as [->|[->|H]]; [right; apply IH; now left|now left|right; apply IH; now right].
    + destruct H as [->|H]; [now left|now right].
Qed.

Lemma ins_ent_sorted e l : ksorted l -> ksorted (ins_ent e l).
Proof.
  induction 1 as [|x r S IH F]; cbn [ins_ent]; [repeat constructor|].
  destruct (ent_before x e || same_slot x e) eqn:C.
  - constructor; [exact IH|]. rewrite Forall_forall in *. intros y Iy. apply ins_ent_in in Iy. destruct Iy as [->|Iy]; [|apply F, Iy].
    unfold notafter. apply orb_true_iff in C. destruct C as [C|C]; [apply ent_before_asym, C|].
    apply same_slot_spec in C. destruct C as [K Q]. destruct (ent_before e x) eqn:B; [|reflexivity].
    apply ent_before_spec in B. destruct B as [B|[_ B]]; [rewrite K, ltb_irrefl in B; discriminate|lia].
  - apply orb_false_iff in C. destruct C as [C _].
    constructor; [constructor; assumption|]. constructor; [exact C|].
    rewrite Forall_forall in *. intros y Iy. unfold notafter. eapply ent_before_negtrans; [apply F, Iy|exact C].
Qed.

Lemma sort_ents_sorted l : ksorted (sort_ents l).
Proof. unfold sort_ents. induction (rev l) as [|e r IH]; cbn [fold_right]; [constructor|apply ins_ent_sorted, IH]. Qed.

Lemma sort_ents_in2 l x : In x l -> In x (sort_ents l).
Proof.
  unfold sort_ents. intros H. apply in_rev in H. revert H. induction (rev l) as [|e r IH]; intros H; [destruct H|].
  cbn [fold_right]. apply ins_ent_in2. destruct H as [->|H]; [now left|right; apply IH, H].
Qed.

Lemma sort_ents_snoc l e : sort_ents (l ++ [e]) = ins_ent e (sort_ents l).
Proof. unfold sort_ents. rewrite rev_app_distr. reflexivity. Qed.

(* ---- best / newest: helpers ---- *)
Lemma best_nokey k I l : (forall x, In x l -> ek x <> k) -> forall acc, best k I l acc = acc.
Proof.
  induction l as [|x r IH]; intros H acc; cbn [best]; [reflexivity|].
  rewrite (list_eqb_ne (ek x) k) by (apply H; now left). cbn [andb]. apply IH. intros y Iy. apply H. now right.
Qed.

Lemma best_le_acc k I l a : (forall e, In e l -> ek e = k -> es e <= es a) -> best k I l (Some a) = Some a.
Proof.
  intros H. apply best_acc_wins_key. intros e Ie Ke _. apply H; [exact Ie|]. apply list_eqb_eq, Ke.
Qed.

(* inserting e at its sorted position (behind equal slots) acts on [best] like appending it at the end *)
Lemma best_ins_ent k I e : forall l acc, ksorted l -> best k I (ins_ent e l) acc = best k I [e] (best k I l acc).
Proof.
  induction l as [|x r IH]; intros acc S; cbn [ins_ent]; [reflexivity|].
  inversion S as [|x' r' Sr F]; subst.
  destruct (ent_before x e || same_slot x e) eqn:C.
  - cbn [best]. destruct (list_eqb (ek x) k && (es x <? I)); [destruct acc as [a|]; [destruct (es a <? es x)|]|]; apply IH, Sr.
  - (* e goes in front of x :: r; every entry of x :: r with e's key is strictly older than e *)
    apply orb_false_iff in C. destruct C as [C1 C2].
    assert (OLD : forall y, In y (x :: r) -> ek y = ek e -> es y < es e).
    { assert (X : ek x = ek e -> es x < es e).
      { intros K. destruct (ent_before e x) eqn:B.
        - apply ent_before_spec in B. destruct B as [B|[_ B]]; [rewrite K, ltb_irrefl in B; discriminate|exact B].
        - exfalso. assert (es x = es e); [|assert (same_slot x e = true) by (apply same_slot_spec; auto); congruence].
          assert (N1 : ~ es x < es e) by (intros L; assert (ent_before e x = true) by (apply ent_before_spec; right; auto); congruence).
          assert (N2 : ~ es e < es x) by (intros L; assert (ent_before x e = true) by (apply ent_before_spec; right; auto); congruence).
          lia. }
      intros y [<-|Iy] K; [exact (X K)|].
      rewrite Forall_forall in F. specialize (F y Iy). unfold notafter in F.
      (* y not before x, x not before e  =>  y not before e *)
      pose proof (ent_before_negtrans _ _ _ F C1) as YE.
      destruct (N.ltb_spec (es y) (es e)) as [L|G]; [exact L|exfalso].
      destruct (N.eq_dec (es y) (es e)) as [Q|Q].
      - (* same slot as e: then x is not before y either ... x ~ e *)
        assert (XY : ent_before x y = false).
        { destruct (ent_before x y) eqn:B; [|reflexivity]. apply ent_before_spec in B.
          assert (NB : ~ (bytes_ltb (ek x) (ek e) = true \/ (ek x = ek e /\ es e < es x))) by (intros Z; apply ent_before_spec in Z; congruence).
          exfalso. apply NB. destruct B as [B|[K' B]]; [left; rewrite <- K; exact B|right; split; [congruence|lia]]. }
        assert (KX : ek x = ek y).
        { apply ltb_total.
          - destruct (bytes_ltb (ek x) (ek y)) eqn:B; [|reflexivity]. assert (ent_before x y = true) by (apply ent_before_spec; now left). congruence.
          - destruct (bytes_ltb (ek y) (ek x)) eqn:B; [|reflexivity]. assert (ent_before y x = true) by (apply ent_before_spec; now left). congruence. }
        assert (es x < es e) by (apply X; congruence).
        assert (~ es x < es y) by (intros L; assert (ent_before y x = true) by (apply ent_before_spec; right; auto); congruence). lia.
      - assert (ent_before y e = true) by (apply ent_before_spec; right; split; [exact K|lia]). congruence. }
    change (e :: x :: r) with ([e] ++ (x :: r)). rewrite best_app.
    clear IH S Sr F C1 C2. remember (x :: r) as xr eqn:Exr. clear Exr x r.
    destruct (list_eqb (ek e) k && (es e <? I)) eqn:M.
    + apply andb_true_iff in M as [M1 M2]. apply list_eqb_eq in M1.
      assert (OLDk : forall y, In y xr -> ek y = k -> es y < es e) by (intros y Iy Ky; apply OLD; [exact Iy|congruence]).
      assert (B1 : forall acc0, best k I [e] acc0 = match acc0 with Some a0 => if es a0 <? es e then Some e else Some a0 | None => Some e end).
      { intros acc0. cbn [best]. rewrite M1, list_eqb_refl, M2. cbn [andb]. destruct acc0 as [a0|]; [destruct (es a0 <? es e)|]; reflexivity. }
      rewrite !B1. subst k.
      destruct acc as [a|]; cbn beta iota.
      * destruct (N.ltb_spec (es a) (es e)) as [L|G]; cbn beta iota.
        -- rewrite (best_le_acc (ek e) I xr e) by (intros y Iy Ky; assert (es y < es e) by (apply OLDk; [exact Iy|congruence]); lia).
           (* right side: the accumulator after x :: r is a or an entry older than e *)
           assert (R : exists b, best (ek e) I xr (Some a) = Some b /\ es b < es e).
           { clear -L OLD. revert a L. induction xr as [|y l IHl]; intros a L; cbn [best]; [eauto|].
             destruct (list_eqb (ek y) (ek e) && (es y <? I)) eqn:My.
             - apply andb_true_iff in My as [My _]. apply list_eqb_eq in My.
               destruct (es a <? es y); [apply IHl; [intros z Iz; apply OLD; now right|apply OLD; [now left|exact My]]
                                        |apply IHl; [intros z Iz; apply OLD; now right|exact L]].
             - apply IHl; [intros z Iz; apply OLD; now right|exact L]. }
           destruct R as [b [-> Lb]]. destruct (N.ltb_spec (es b) (es e)); [reflexivity|lia].
        -- rewrite (best_le_acc (ek e) I xr a) by (intros y Iy Ky; assert (es y < es e) by (apply OLD; assumption); lia).
           destruct (N.ltb_spec (es a) (es e)); [lia|reflexivity].
      * rewrite (best_le_acc (ek e) I xr e) by (intros y Iy Ky; assert (es y < es e) by (apply OLDk; [exact Iy|congruence]); lia).
        destruct (best (ek e) I xr None) as [b|] eqn:Bn; [|reflexivity].
        apply best_none_in in Bn. destruct Bn as [Ib [Kb _]]. apply list_eqb_eq in Kb.
        assert (es b < es e) by (apply OLD; assumption). destruct (N.ltb_spec (es b) (es e)); [reflexivity|lia].
    + assert (B0 : forall acc0, best k I [e] acc0 = acc0) by (intros acc0; cbn [best]; rewrite M; reflexivity).
      rewrite !B0. reflexivity.
Qed.

Lemma best_single_skip k I e acc : list_eqb (ek e) k && (es e <? I) = false -> best k I [e] acc = acc.
Proof. intros M. cbn [best]. rewrite M. reflexivity. Qed.

(* sorting does not change which version of a key is the newest *)
Theorem newest_sort k I l : newest k I (sort_ents l) = newest k I l.
Proof.
  induction l as [|e r IH] using rev_ind; [reflexivity|].
  rewrite sort_ents_snoc. unfold newest in *. rewrite best_ins_ent by apply sort_ents_sorted. rewrite IH, best_app. reflexivity.
Qed.

(* ---- groups of one key in a sorted list ---- *)
Lemma take_key_keys k : forall l g r, take_key k l = (g, r) -> (forall x, In x g -> ek x = k) /\ (match r with [] => True | y :: _ => ek y <> k end).
Proof.
  induction l as [|e t IH]; intros g r H; cbn [take_key] in H; [injection H as <- <-; split; [intros x []|exact I]|].
  destruct (list_eqb (ek e) k) eqn:K.
  - destruct (take_key k t) as [g' r'] eqn:T. injection H as <- <-. destruct (IH _ _ eq_refl) as [A B]. split; [|exact B].
    intros x [<-|Ix]; [apply list_eqb_eq, K|apply A, Ix].
  - injection H as <- <-. split; [intros x []|apply list_eqb_false_ne, K].
Qed.

Lemma sorted_app_r a b : ksorted (a ++ b) -> ksorted b.
Proof. induction a as [|x a IH]; cbn; [auto|]. intros S. inversion S; subst. apply IH. assumption. Qed.

(* in a sorted list  g ++ r  whose group g has key k and whose rest starts with another key, the rest has no entry of k *)
Lemma sorted_rest_nokey k e g r : ksorted ((e :: g) ++ r) -> ek e = k -> (match r with [] => True | y :: _ => ek y <> k end) ->
  forall x, In x r -> ek x <> k.
Proof.
  intros S K R x Ix Kx. destruct r as [|y r']; [destruct Ix|].
  (* e not after y, so k <= key y, with key y <> k: k < key y; x is y or behind y: key y <= key x = k *)
  assert (EY : notafter e y).
  { inversion S as [|? ? _ F]; subst. rewrite Forall_forall in F. apply F. apply in_or_app. right. now left. }
  assert (YX : x = y \/ notafter y x).
  { destruct Ix as [->|Ix]; [now left|right]. apply sorted_app_r in S. inversion S as [|? ? _ F]; subst.
    rewrite Forall_forall in F. apply F, Ix. }
  destruct YX as [->|YX]; [contradiction|].
  unfold notafter in *.
  assert (L1 : bytes_ltb (ek y) (ek e) = false)
    by (destruct (bytes_ltb (ek y) (ek e)) eqn:B; [assert (ent_before y e = true) by (apply ent_before_spec; now left); congruence|reflexivity]).
  assert (L2 : bytes_ltb (ek x) (ek y) = false)
    by (destruct (bytes_ltb (ek x) (ek y)) eqn:B; [assert (ent_before x y = true) by (apply ent_before_spec; now left); congruence|reflexivity]).
  rewrite K in L1. rewrite Kx in L2. apply R. symmetry. apply ltb_total; assumption.
Qed.

(* ---- the per-key rule of the stream ---- *)
Lemma gc_key_head W ev f h t :
  gc_key W ev f (h :: t) = [] /\ is_tomb (apply_filter f h) = true /\ ev = true \/
  exists rest, gc_key W ev f (h :: t) = apply_filter f h :: rest /\ forall x, In x rest -> slot_in x t.
Proof.
  cbn [gc_key]. destruct t as [|p r].
  - destruct (is_tomb (apply_filter f h) && ev) eqn:E; [left; apply andb_true_iff in E; tauto|right; exists []; split; [reflexivity|intros x []]].
  - destruct (es p <? W).
    + destruct (is_tomb (apply_filter f h) && ev) eqn:E; [left; apply andb_true_iff in E; tauto|right; exists []; split; [reflexivity|intros x []]].
    + right. eexists. split; [reflexivity|]. intros x Ix. apply gc_key_slots in Ix. exact Ix.
Qed.

(* what the stream leaves of key k, for a reader above every seqno in the input: the newest version with the filter applied to
   it, or nothing at all when that is a tombstone evicted at the last level *)
Lemma gc_groups_newest W ev f k I : forall n s, ksorted s -> (length s < n)%nat -> all_below I s ->
  match newest k I s with
  | None => newest k I (gc_groups n W ev f s) = None
  | Some h => newest k I (gc_groups n W ev f s) = Some (apply_filter f h) \/
              (newest k I (gc_groups n W ev f s) = None /\ is_tomb (apply_filter f h) = true /\ ev = true)
  end.
Proof.
  induction n as [|n IH]; intros s S L AB; [lia|]. cbn [gc_groups].
  destruct s as [|e t]; [reflexivity|].
  destruct (take_key (ek e) (e :: t)) as [g r] eqn:T.
  pose proof (take_key_app _ _ _ _ T) as E. destruct (take_key_keys _ _ _ _ T) as [GK RK].
  assert (G0 : exists g', g = e :: g').
  { cbn [take_key] in T. rewrite list_eqb_refl in T. destruct (take_key (ek e) t) as [g' r']. injection T as <- <-. eauto. }
  destruct G0 as [g' ->].
  assert (Sr : ksorted r) by (rewrite E in S; apply sorted_app_r in S; exact S).
  assert (Lr : (length r < n)%nat) by (rewrite E in L; rewrite app_length in L; cbn in L; cbn [length] in *; lia).
  assert (ABr : all_below I r) by (intros x Ix; apply AB; rewrite E; apply in_or_app; now right).
  assert (RN : forall x, In x r -> ek x <> ek e) by (apply (sorted_rest_nokey (ek e) e g' r); [rewrite <- E; exact S|reflexivity|exact RK]).
  destruct (list_eqb (ek e) k) eqn:K.
  - (* this is k's group: its head e is the newest version of k *)
    apply list_eqb_eq in K. subst k.
    assert (HD : forall x, In x g' -> es x <= es e).
    { intros x Ix. rewrite E in S. inversion S as [|? ? _ F]; subst. rewrite Forall_forall in F.
      assert (NA : notafter e x) by (apply F; apply in_or_app; now left). unfold notafter in NA.
      destruct (N.leb_spec (es x) (es e)); [assumption|].
      assert (ent_before x e = true) by (apply ent_before_spec; right; split; [apply GK; now right|lia]). congruence. }
    assert (N0 : newest (ek e) I (e :: t) = Some e).
    { rewrite E. unfold newest. change ((e :: g') ++ r) with (e :: (g' ++ r)). cbn [best]. rewrite list_eqb_refl.
      assert (es e < I) by (apply AB; now left). destruct (N.ltb_spec (es e) I); [|lia]. cbn [andb].
      rewrite best_app. rewrite best_le_acc by (intros x Ix _; apply HD, Ix). apply best_nokey. exact RN. }
    rewrite N0.
    assert (RN' : forall x, In x (gc_groups n W ev f r) -> ek x <> ek e).
    { intros x Ix. destruct (gc_groups_slots _ _ _ _ _ _ Ix) as [z [Iz [Kz _]]]. rewrite <- Kz. apply RN, Iz. }
    unfold newest. rewrite best_app. rewrite (best_nokey _ _ _ RN').
    destruct (gc_key_head W ev f e g') as [[G [Tm Ev]]|[rest [G SL]]]; rewrite G.
    + right. auto.
    + left. destruct (apply_filter_slot f e) as [FK FS]. cbn [best]. rewrite FK, list_eqb_refl, FS.
      assert (es e < I) by (apply AB; now left). destruct (N.ltb_spec (es e) I); [|lia]. cbn [andb].
      apply best_le_acc. intros x Ix _. destruct (SL x Ix) as [z [Iz [_ Ez]]]. rewrite FS, <- Ez. apply HD, Iz.
  - (* another key's group: it contributes nothing to k *)
    assert (GN : forall x, In x (e :: g') -> ek x <> k) by (intros x Ix; rewrite (GK x Ix); apply list_eqb_false_ne, K).
    assert (GN' : forall x, In x (gc_key W ev f (e :: g')) -> ek x <> k).
    { intros x Ix. destruct (gc_key_slots _ _ _ _ _ Ix) as [z [Iz [Kz _]]]. rewrite <- Kz. apply GN, Iz. }
    assert (N0 : newest k I (e :: t) = newest k I r) by (rewrite E; unfold newest; rewrite best_app, (best_nokey _ _ _ GN); reflexivity).
    assert (N1 : newest k I (gc_key W ev f (e :: g') ++ gc_groups n W ev f r) = newest k I (gc_groups n W ev f r))
      by (unfold newest; rewrite best_app, (best_nokey _ _ _ GN'); reflexivity).
    rewrite N0, N1. apply IH; assumption.
Qed.

Theorem gc_stream_newest W ev f k I l : all_below I l ->
  match newest k I l with
  | None => newest k I (gc_stream W ev f l) = None
  | Some h => newest k I (gc_stream W ev f l) = Some (apply_filter f h) \/
              (newest k I (gc_stream W ev f l) = None /\ is_tomb (apply_filter f h) = true /\ ev = true)
  end.
Proof.
  intros AB. unfold gc_stream. rewrite <- (newest_sort k I l).
  apply gc_groups_newest; [apply sort_ents_sorted|lia|]. intros x Ix. apply AB, sort_ents_in, Ix.
Qed.

(* without a filter and without tombstone eviction (flush): exactly the same newest version *)
Corollary gc_stream_newest_flush W k I l : all_below I l -> newest k I (gc_stream W false None l) = newest k I l.
Proof.
  intros AB. pose proof (gc_stream_newest W false None k I l AB) as H.
  destruct (newest k I l) as [h|]; [|exact H]. rewrite apply_filter_none in H. destruct H as [H|[_ [_ H]]]; [exact H|discriminate].
Qed.

(* without a filter: the same value *)
Corollary gc_stream_value W ev k I l : all_below I l ->
  value_of (newest k I (gc_stream W ev None l)) = value_of (newest k I l).
Proof.
  intros AB. pose proof (gc_stream_newest W ev None k I l AB) as H.
  destruct (newest k I l) as [h|]; [|rewrite H; reflexivity]. rewrite apply_filter_none in H.
  destruct H as [->|[-> [T _]]]; [reflexivity|]. cbn. rewrite T. reflexivity.
Qed.

(* ---- scans: sorted by key, and exactly the newest non-tombstone version of every key ---- *)
Definition keys_sorted (l : list bytes) : Prop := StronglySorted (fun a b => bytes_ltb a b = true) l.

Lemma ins_key_in_inv a : forall l x, In x (ins_key a l) -> x = a \/ In x l.
Proof.
  induction l as [|z l IH]; intros x H; cbn [ins_key] in H; [destruct H as [<-|[]]; now left|].
  destruct (bytes_ltb a z); [destruct H as [<-|H]; [now left|now right]|].
  destruct (list_eqb a z); [now right|]. destruct H as [<-|H]; [right; now left|].
  destruct (IH _ H) as [->|I]; [now left|right; now right].
Qed.

Lemma ins_key_sorted a l : keys_sorted l -> keys_sorted (ins_key a l).
Proof.
  induction 1 as [|z r S IH F]; cbn [ins_key]; [repeat constructor|].
  destruct (bytes_ltb a z) eqn:L.
  - constructor; [constructor; assumption|]. constructor; [exact L|].
    rewrite Forall_forall in *. intros y Iy. eapply ltb_trans; [exact L|apply F, Iy].
  - destruct (list_eqb a z) eqn:Q; [constructor; assumption|].
    constructor; [exact IH|]. rewrite Forall_forall in *. intros y Iy. apply ins_key_in_inv in Iy. destruct Iy as [->|Iy]; [|apply F, Iy].
    destruct (bytes_ltb z a) eqn:L2; [reflexivity|]. rewrite (ltb_total _ _ L L2), list_eqb_refl in Q. discriminate.
Qed.

Lemma keys_of_sorted l : keys_sorted (keys_of l).
Proof. induction l as [|e r IH]; cbn [keys_of fold_right]; [constructor|apply ins_key_sorted, IH]. Qed.

Lemma keys_of_inv l k : In k (keys_of l) -> exists e, In e l /\ ek e = k.
Proof.
  induction l as [|e r IH]; cbn [keys_of fold_right]; [intros []|]. intros H. apply ins_key_in_inv in H.
  destruct H as [->|H]; [exists e; split; [now left|reflexivity]|]. destruct (IH H) as [x [Ix Kx]]. exists x. split; [now right|exact Kx].
Qed.

Definition scan_cell (I : N) (vl : list ent) (k : bytes) : list (bytes * bytes) :=
  match newest k I vl with
  | Some e => if is_tomb e then [] else [(k, ev e)]
  | None => []
  end.

Lemma scan_cell_keys I vl k p : In p (scan_cell I vl k) -> fst p = k.
Proof. unfold scan_cell. destruct (newest k I vl) as [e|]; [destruct (is_tomb e)|]; intros []; subst; try reflexivity; contradiction. Qed.

Lemma flat_map_cells_sorted I vl : forall ks, keys_sorted ks ->
  StronglySorted (fun a b => bytes_ltb (fst a) (fst b) = true) (flat_map (scan_cell I vl) ks) /\
  forall p, In p (flat_map (scan_cell I vl) ks) -> In (fst p) ks.
Proof.
  induction 1 as [|k r S IH F]; cbn [flat_map]; [split; [constructor|intros p []]|].
  destruct IH as [IH1 IH2]. split.
  - unfold scan_cell at 1. destruct (newest k I vl) as [e|]; [destruct (is_tomb e)|]; cbn [app]; try exact IH1.
    constructor; [exact IH1|]. rewrite Forall_forall in *. intros p Ip. cbn [fst]. apply F, IH2, Ip.
  - intros p Ip. apply in_app_or in Ip. destruct Ip as [Ip|Ip]; [left; symmetry; eapply scan_cell_keys, Ip|right; apply IH2, Ip].
Qed.

(* a scan is strictly ascending in the key order (in particular: no key twice) *)
Theorem scan_sorted l I : StronglySorted (fun a b => bytes_ltb (fst a) (fst b) = true) (scan_ents l I).
Proof. unfold scan_ents. apply (flat_map_cells_sorted I (vis I l)), keys_of_sorted. Qed.

(* ... and it contains (k, v) exactly when the newest version of k below the instant is the value v *)
Theorem scan_spec l I k v : In (k, v) (scan_ents l I) <-> value_of (newest k I l) = Some v.
Proof.
  unfold scan_ents. rewrite (newest_vis k I l). fold (scan_cell I (vis I l)). split.
  - intros H. apply in_flat_map in H. destruct H as [k' [_ H]]. pose proof (scan_cell_keys _ _ _ _ H) as E. cbn in E. subst k'.
    unfold scan_cell in H. unfold value_of. destruct (newest k I (vis I l)) as [e|]; [|destruct H].
    destruct (is_tomb e); [destruct H|]. destruct H as [H|[]]. congruence.
  - intros H. apply in_flat_map. exists k. unfold scan_cell, value_of in *.
    destruct (newest k I (vis I l)) as [e|] eqn:N; [|discriminate].
    split.
    + destruct (best_none_in _ _ _ _ N) as [Ie [Ke _]]. apply list_eqb_eq in Ke. subst k. apply keys_of_in, Ie.
    + destruct (is_tomb e); [discriminate|]. injection H as <-. now left.
Qed.
