(* CodecP.v — entry codec: locality of the decoder, round trip, tag facts *)
From FJ Require Import Bytes Codec BytesP.
From Coq Require Import ZArith ZifyBool ZifyNat ZifyN.
Ltac Zify.zify_post_hook ::= Z.div_mod_to_equations.

(* source-derived facts the proofs rely on *)
Lemma tags_nonzero : TAG_START <> 0 /\ TAG_ITEM <> 0 /\ TAG_END <> 0 /\ TAG_CLEAR <> 0.
Proof. repeat split; discriminate. Qed.
Lemma tags_distinct :
  TAG_START <> TAG_ITEM /\ TAG_START <> TAG_END /\ TAG_START <> TAG_CLEAR /\
  TAG_ITEM <> TAG_END /\ TAG_ITEM <> TAG_CLEAR /\ TAG_END <> TAG_CLEAR.
Proof. repeat split; discriminate. Qed.
Lemma tags_byte : TAG_START < 256 /\ TAG_ITEM < 256 /\ TAG_END < 256 /\ TAG_CLEAR < 256.
Proof. repeat split; reflexivity. Qed.
Lemma magic_last_nonzero : last MAGIC 0 <> 0.
Proof. discriminate. Qed.
Lemma magic_length : length MAGIC = 4%nat.
Proof. reflexivity. Qed.

  Lemma pbind_consumed {A B} (p : parser A) (f : A -> parser B) l b r n :
    pbind p f l = Some (b, r, n) ->
    exists a r1 n1 n2, p l = Some (a, r1, n1) /\ f a r1 = Some (b, r, n2) /\ n = n1 + n2.
  Proof.
    unfold pbind. destruct (p l) as [[[a r1] n1]|]; [|discriminate].
    destruct (f a r1) as [[[b' r'] n2]|] eqn:F; [|discriminate].
    intros H; inversion H; subst. eauto 10.
  Qed.

  Lemma pnum_consumed w l x r n : pnum w l = Some (x, r, n) -> n = w.
  Proof.
    unfold pnum. intros H. apply pbind_consumed in H as (a & r1 & n1 & n2 & P & F & ->).
    unfold ptake in P. destruct (takeN l w) as [[c r']|]; [|discriminate]. inversion P; subst.
    unfold pret in F. inversion F; subst. lia.
  Qed.

  Lemma takeN1 x l : takeN (x :: l) 1 = Some ([x], l).
  Proof. cbn [takeN]. change (1 =? 0) with false. cbv iota. change (N.pred 1) with 0.
    replace (takeN l 0) with (Some (@nil N, l)) by (destruct l; reflexivity). reflexivity. Qed.


  (* ---- primitive steps on well-formed input ---- *)
  Lemma pnum1 x r : x < 256 -> pnum 1 (x :: r) = Some (x, r, 1).
  Proof. intros H. change (x :: r) with ([x] ++ r).
    replace [x] with (le_enc 1 x) by (cbn; f_equal; lia).
    exact (pnum_app 1%nat x r H). Qed.
  Lemma pnum2 x r : x < 2 ^ 16 -> pnum 2 (le_enc 2 x ++ r) = Some (x, r, 2).
  Proof. intros H. exact (pnum_app 2%nat x r H). Qed.
  Lemma pnum4 x r : x < 2 ^ 32 -> pnum 4 (le_enc 4 x ++ r) = Some (x, r, 4).
  Proof. intros H. exact (pnum_app 4%nat x r H). Qed.
  Lemma pnum8 x r : x < 2 ^ 64 -> pnum 8 (le_enc 8 x ++ r) = Some (x, r, 8).
  Proof. intros H. exact (pnum_app 8%nat x r H). Qed.

  Lemma vtype_code_roundtrip vt : vtype_of_code (vtype_code vt) = Some vt.
  Proof. destruct vt; reflexivity. Qed.
  Lemma comp_code_roundtrip c : comp_of_code (comp_code c) = Some c.
  Proof. destruct c; reflexivity. Qed.
  Lemma vtype_code_byte vt : vtype_code vt < 256.
  Proof. destruct vt; reflexivity. Qed.
  Lemma comp_code_byte c : comp_code c < 256.
  Proof. destruct c; reflexivity. Qed.


Set Default Proof Using "All".

Section CodecP.
  Variable compress : bytes -> bytes.
  Variable decompress : bytes -> N -> option bytes.

  Notation enc_entry := (enc_entry compress).
  Notation dec_entry := (dec_entry decompress).
  Notation stored_of := (stored_of compress).

  Definition wf_entry (e : entry) : Prop :=
    match e with
    | EStart c s => c < 2 ^ 32 /\ s < 2 ^ 64
    | EItem ks k v vt c =>
        ks < 2 ^ 64 /\ blen k < 2 ^ 16 /\ blen v < 2 ^ 32 /\ blen (stored_of v c) < 2 ^ 32 /\
        (c = CLz4 -> decompress (compress v) (blen v) = Some v)
    | EEnd x => x < 2 ^ 64
    | EClear ks => ks < 2 ^ 64
    end.

  (* ---- locality ---- *)
  Ltac loc :=
    repeat first
      [ apply local_pbind; [|intros ?]
      | apply local_pnum | apply local_ptake | apply local_popt
      | apply local_pguard | apply local_pret | apply local_pfail ].

  Lemma local_dec_start : local dec_start. Proof. unfold dec_start; loc. Qed.
  Lemma local_dec_item : local (dec_item decompress). Proof. unfold dec_item; loc. Qed.
  Lemma local_dec_end : local dec_end. Proof. unfold dec_end; loc. Qed.
  Lemma local_dec_clear : local dec_clear. Proof. unfold dec_clear; loc. Qed.

  Lemma local_dec_entry : local dec_entry.
  Proof.
    unfold Codec.dec_entry. apply local_pbind; [apply local_pnum|]. intros t.
    destruct (t =? TAG_START); [apply local_dec_start|].
    destruct (t =? TAG_ITEM); [apply local_dec_item|].
    destruct (t =? TAG_END); [apply local_dec_end|].
    destruct (t =? TAG_CLEAR); [apply local_dec_clear|apply local_pfail].
  Qed.

  (* the decoder consumes at least the tag byte *)
  Lemma dec_entry_consumes l e r n : dec_entry l = Some (e, r, n) -> 0 < n.
  Proof.
    unfold Codec.dec_entry. intros H.
    apply pbind_consumed in H as (t & r1 & n1 & n2 & P & _ & ->).
    apply pnum_consumed in P. lia.
  Qed.

  Lemma dec_entry_nil : dec_entry [] = None.
  Proof. reflexivity. Qed.

  Lemma dec_entry_zero l : dec_entry (0 :: l) = None.
  Proof.
    unfold Codec.dec_entry. unfold pbind at 1. rewrite pnum1 by reflexivity.
    reflexivity.
  Qed.

  Ltac step_bind := unfold pbind at 1.

  Lemma enc_entry_blen_item ks k v vt c :
    blen (enc_entry (EItem ks k v vt c)) = 21 + blen k + blen (stored_of v c).
  Proof.
    cbn [Codec.enc_entry]. rewrite !blen_cons, !blen_app, !blen_le_enc. fold (stored_of v c). lia.
  Qed.

  Theorem dec_enc_entry e r : wf_entry e ->
    dec_entry (enc_entry e ++ r) = Some (e, r, blen (enc_entry e)).
  Proof.
    destruct e as [c s|ks k v vt c|x|ks]; cbn [wf_entry]; intros W.
    - destruct W as [Wc Ws].
      cbn [Codec.enc_entry app]. unfold Codec.dec_entry. step_bind.
      rewrite pnum1 by reflexivity. change (TAG_START =? TAG_START) with true. cbv iota.
      unfold dec_start. rewrite <- app_assoc. step_bind. rewrite pnum4 by assumption.
      step_bind. rewrite pnum8 by assumption. unfold pret.
      rewrite blen_cons, blen_app, !blen_le_enc. do 2 f_equal.
    - destruct W as (Wks & Wk & Wv & Ws & Wl).
      cbn [Codec.enc_entry app]. fold (stored_of v c). unfold Codec.dec_entry. step_bind.
      rewrite pnum1 by reflexivity.
      change (TAG_ITEM =? TAG_START) with false. change (TAG_ITEM =? TAG_ITEM) with true. cbv iota.
      unfold dec_item.
      step_bind. rewrite pnum1 by apply vtype_code_byte.
      step_bind. rewrite vtype_code_roundtrip. unfold popt, pret at 1.
      step_bind. rewrite pnum1 by apply comp_code_byte.
      step_bind. rewrite comp_code_roundtrip. unfold pret at 1.
      rewrite <- !app_assoc.
      step_bind. rewrite pnum8 by assumption.
      step_bind. rewrite pnum2 by assumption.
      step_bind. rewrite pnum4 by assumption.
      step_bind. rewrite pnum4 by assumption.
      step_bind. rewrite ptake_app.
      step_bind. rewrite ptake_app.
      step_bind.
      assert (Hv : match c with CNone => if blen v =? blen (stored_of v c) then Some (stored_of v c) else None
                                | CLz4 => decompress (stored_of v c) (blen v) end = Some v).
      { destruct c; cbn [Codec.stored_of]; [rewrite N.eqb_refl; reflexivity|]. apply Wl. reflexivity. }
      rewrite Hv. unfold pret.
      pose proof (enc_entry_blen_item ks k v vt c) as HL. cbn [Codec.enc_entry] in HL. fold (stored_of v c) in HL.
      rewrite HL. do 2 f_equal. lia.
    - cbn [Codec.enc_entry app]. unfold Codec.dec_entry. step_bind.
      rewrite pnum1 by reflexivity.
      change (TAG_END =? TAG_START) with false. change (TAG_END =? TAG_ITEM) with false.
      change (TAG_END =? TAG_END) with true. cbv iota.
      unfold dec_end. rewrite <- app_assoc. step_bind. rewrite pnum8 by assumption.
      step_bind. change 4 with (blen MAGIC) at 1. rewrite ptake_app.
      step_bind. rewrite list_eqb_refl. unfold pguard, pret.
      rewrite blen_cons, blen_app, blen_le_enc. reflexivity.
    - cbn [Codec.enc_entry app]. unfold Codec.dec_entry. step_bind.
      rewrite pnum1 by reflexivity.
      change (TAG_CLEAR =? TAG_START) with false. change (TAG_CLEAR =? TAG_ITEM) with false.
      change (TAG_CLEAR =? TAG_END) with false. change (TAG_CLEAR =? TAG_CLEAR) with true. cbv iota.
      unfold dec_clear. step_bind. rewrite pnum8 by assumption. unfold pret.
      rewrite blen_cons, blen_le_enc. reflexivity.
  Qed.

  (* ---- the tag byte decides the constructor ---- *)
  Definition kind_of (e : entry) : N :=
    match e with EStart _ _ => TAG_START | EItem _ _ _ _ _ => TAG_ITEM
               | EEnd _ => TAG_END | EClear _ => TAG_CLEAR end.

  Lemma enc_entry_head e : exists tl, enc_entry e = kind_of e :: tl.
  Proof. destruct e; cbn; eauto. Qed.

  Lemma dec_entry_kind t l e r n : dec_entry (t :: l) = Some (e, r, n) -> t < 256 -> kind_of e = t.
  Proof.
    unfold Codec.dec_entry. intros H Ht.
    apply pbind_consumed in H as (t' & r1 & n1 & n2 & P & F & ->).
    unfold pnum, pbind, ptake in P. rewrite takeN1 in P. unfold pret in P. cbn [le_val] in P.
    inversion P; subst. replace (t + 256 * 0) with t in F by lia.
    destruct (N.eqb_spec t TAG_START) as [->|].
    { unfold dec_start in F. apply pbind_consumed in F as (? & ? & ? & ? & _ & F & _).
      apply pbind_consumed in F as (? & ? & ? & ? & _ & F & _). unfold pret in F. now inversion F. }
    destruct (N.eqb_spec t TAG_ITEM) as [->|].
    { unfold dec_item in F.
      repeat (apply pbind_consumed in F as (? & ? & ? & ? & _ & F & _)).
      unfold pret in F. now inversion F. }
    destruct (N.eqb_spec t TAG_END) as [->|].
    { unfold dec_end in F.
      repeat (apply pbind_consumed in F as (? & ? & ? & ? & _ & F & _)).
      unfold pret in F. now inversion F. }
    destruct (N.eqb_spec t TAG_CLEAR) as [->|].
    { unfold dec_clear in F.
      repeat (apply pbind_consumed in F as (? & ? & ? & ? & _ & F & _)).
      unfold pret in F. now inversion F. }
    discriminate.
  Qed.

  (* an End marker is only ever decoded when the four magic bytes are present:
     the 13th consumed byte is the last magic byte *)
  Lemma dec_end_shape l x r n : dec_entry l = Some (EEnd x, r, n) ->
    exists c8, l = TAG_END :: c8 ++ MAGIC ++ r /\ length c8 = 8%nat /\ n = 13.
  Proof.
    unfold Codec.dec_entry. intros H.
    apply pbind_consumed in H as (t & r1 & n1 & n2 & P & F & ->).
    destruct (N.eqb_spec t TAG_START) as [->|].
    { unfold dec_start in F. repeat (apply pbind_consumed in F as (? & ? & ? & ? & _ & F & _)).
      unfold pret in F; inversion F. }
    destruct (N.eqb_spec t TAG_ITEM) as [->|].
    { unfold dec_item in F. repeat (apply pbind_consumed in F as (? & ? & ? & ? & _ & F & _)).
      unfold pret in F; inversion F. }
    destruct (N.eqb_spec t TAG_END) as [->|].
    2:{ destruct (N.eqb_spec t TAG_CLEAR) as [->|]; [|discriminate].
        unfold dec_clear in F. repeat (apply pbind_consumed in F as (? & ? & ? & ? & _ & F & _)).
        unfold pret in F; inversion F. }
    unfold dec_end in F.
    apply pbind_consumed in F as (x' & r2 & m1 & m2 & P1 & F & ->).
    apply pbind_consumed in F as (mg & r3 & m3 & m4 & P2 & F & ->).
    apply pbind_consumed in F as (u & r4 & m5 & m6 & P3 & F & ->).
    unfold pret in F. inversion F; subst. clear F.
    destruct (list_eqb mg MAGIC) eqn:EM; [|discriminate]. apply list_eqb_eq in EM. subst mg.
    unfold pguard, pret in P3. inversion P3; subst. clear P3.
    (* tag *)
    destruct l as [|t0 l0]; [discriminate|].
    unfold pnum, pbind, ptake in P. rewrite takeN1 in P. unfold pret in P. inversion P; subst. clear P.
    cbn [le_val] in H0.
    (* checksum bytes *)
    unfold pnum in P1. apply pbind_consumed in P1 as (c8 & rr & k1 & k2 & T1 & R1 & ->).
    unfold ptake in T1. destruct (takeN r1 8) as [[c8' rr']|] eqn:T; [|discriminate].
    inversion T1; subst. apply takeN_inv in T as [-> L8]. unfold pret in R1. inversion R1; subst. clear R1 T1.
    unfold ptake in P2. destruct (takeN r2 4) as [[m' r']|] eqn:T; [|discriminate].
    inversion P2; subst. apply takeN_inv in T as [-> _]. clear P2.
    exists c8. split; [|split].
    - f_equal. lia.
    - unfold blen in L8. lia.
    - lia.
  Qed.
End CodecP.
