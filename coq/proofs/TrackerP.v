(* TrackerP.v — invariants of the snapshot tracker, for every sequence of
   open / clone / close / publish / gc / pullup (each nonce closed at most once). *)
From FJ Require Import Bytes BytesP Tracker.
From Coq Require Import ZArith ZifyBool ZifyNat ZifyN.

Inductive top := TOpen | TClone (i : N) | TClose (i : N) | TPublish (s : N) | TGc | TPullup.

(* ghost state: the multiset of live nonces (their instants) *)
Fixpoint remove_one (i : N) (l : list N) : list N :=
  match l with
  | [] => []
  | x :: r => if x =? i then r else x :: remove_one i r
  end.

Definition cnt (i : N) (l : list N) : N := N.of_nat (count_occ N.eq_dec l i).

Fixpoint trow (i : N) (l : list (N * N)) : N :=
  match l with
  | [] => 0
  | (k, c) :: r => if k =? i then c else trow i r
  end.

(* one step; operations on nonces that are not live are not part of any execution (a nonce is
   cloned only while alive and closed exactly once, by its Drop) and leave the state alone *)
Definition tstep (st : tracker * list N) (o : top) : tracker * list N :=
  let (t, live) := st in
  match o with
  | TOpen => let (t', i) := tr_open t in (t', i :: live)
  | TClone i => if existsb (N.eqb i) live then (tr_clone t i, i :: live) else st
  | TClose i => if existsb (N.eqb i) live then (tr_close t i, remove_one i live) else st
  | TPublish s => (tr_publish t s, live)
  | TGc => (tr_gc t, live)
  | TPullup => (tr_pullup t, live)
  end.

Definition keys_nodup (l : list (N * N)) : Prop := NoDup (map fst l).

Record Inv (t : tracker) (live : list N) : Prop := {
  inv_nodup : keys_nodup (tdata t);
  inv_count : forall i, cnt i live = trow i (tdata t);
  inv_rows_vis : forall k c, In (k, c) (tdata t) -> k <= visible t;
  inv_wm_live : forall i, In i live -> lowest_freed t <= i - 1;
  inv_wm_vis : lowest_freed t <= visible t - 1
}.

(* ---- bump / unbump ---- *)
Lemma trow_bump i j l : trow j (bump i l) = if j =? i then trow j l + 1 else trow j l.
Proof.
  induction l as [|[k c] r IH]; cbn.
  - destruct (N.eqb_spec i j), (N.eqb_spec j i); subst; try congruence; lia.
  - destruct (N.eqb_spec k i) as [->|NE]; cbn.
    + destruct (N.eqb_spec i j), (N.eqb_spec j i); subst; try congruence; lia.
    + destruct (N.eqb_spec k j) as [->|NE2].
      * destruct (N.eqb_spec j i); [congruence|reflexivity].
      * exact IH.
Qed.

Lemma trow_unbump i j l : keys_nodup l ->
  trow j (unbump i l) = if j =? i then trow j l - 1 else trow j l.
Proof.
  induction l as [|[k c] r IH]; intros ND; cbn.
  - destruct (j =? i); reflexivity.
  - inversion ND as [|? ? Hnot ND']; subst.
    destruct (N.eqb_spec k i) as [->|NE]; cbn.
    + destruct (N.eqb_spec i j), (N.eqb_spec j i); subst; try congruence; reflexivity.
    + destruct (N.eqb_spec k j) as [->|NE2].
      * destruct (N.eqb_spec j i); [congruence|reflexivity].
      * apply IH. exact ND'.
Qed.

Lemma map_fst_bump i l : forall k, In k (map fst (bump i l)) <-> k = i \/ In k (map fst l).
Proof.
  induction l as [|[x c] r IH]; intros k; cbn.
  - intuition.
  - destruct (N.eqb_spec x i) as [->|NE]; cbn; [intuition|]. rewrite IH. intuition.
Qed.

Lemma nodup_bump i l : keys_nodup l -> keys_nodup (bump i l).
Proof.
  unfold keys_nodup. induction l as [|[x c] r IH]; intros ND; cbn.
  - constructor; [intros []|constructor].
  - inversion ND as [|? ? Hnot ND']; subst.
    destruct (N.eqb_spec x i) as [->|NE]; cbn.
    + constructor; assumption.
    + constructor; [|apply IH; exact ND'].
      intros H. apply map_fst_bump in H as [->|H]; [congruence|contradiction].
Qed.

Lemma map_fst_unbump i l : map fst (unbump i l) = map fst l.
Proof. induction l as [|[x c] r IH]; cbn; [reflexivity|]. destruct (x =? i); cbn; congruence. Qed.

Lemma in_bump i l k c : In (k, c) (bump i l) -> k = i \/ In k (map fst l).
Proof.
  intros H. apply (in_map fst) in H. cbn in H. apply map_fst_bump in H. exact H.
Qed.

Lemma in_map_fst {A B} (l : list (A * B)) k : In k (map fst l) -> exists c, In (k, c) l.
Proof. induction l as [|[x c] r IH]; cbn; [intros []|]. intros [->|H]; [eauto|]. destruct (IH H) as [c' Hc]. eauto. Qed.

(* ---- counting ---- *)
Lemma cnt_cons i x l : cnt i (x :: l) = if x =? i then cnt i l + 1 else cnt i l.
Proof.
  unfold cnt. cbn [count_occ]. destruct (N.eq_dec x i) as [->|NE].
  - rewrite N.eqb_refl. lia.
  - destruct (N.eqb_spec x i); [congruence|reflexivity].
Qed.

Lemma cnt_remove_one i j l : In i l ->
  cnt j (remove_one i l) = if j =? i then cnt j l - 1 else cnt j l.
Proof.
  induction l as [|x r IH]; intros H; [destruct H|].
  cbn [remove_one]. destruct (N.eqb_spec x i) as [->|NE].
  - rewrite cnt_cons. destruct (N.eqb_spec i j), (N.eqb_spec j i); subst; try congruence; lia.
  - destruct H as [->|H]; [congruence|].
    rewrite !cnt_cons, (IH H). destruct (N.eqb_spec x j) as [->|]; [|reflexivity].
    destruct (N.eqb_spec j i); [congruence|reflexivity].
Qed.

Lemma cnt_pos i l : In i l -> 0 < cnt i l.
Proof.
  induction l as [|x r IH]; intros H; [destruct H|]. rewrite cnt_cons.
  destruct H as [->|H]; [rewrite N.eqb_refl; lia|]. destruct (x =? i); [lia|auto].
Qed.

Lemma existsb_in i l : existsb (N.eqb i) l = true -> In i l.
Proof. intros H. apply existsb_exists in H as (x & Hx & E). apply N.eqb_eq in E. now subst. Qed.

Lemma in_remove_one i j l : In j (remove_one i l) -> In j l.
Proof.
  induction l as [|x r IH]; cbn; [auto|]. destruct (x =? i); cbn; [auto|]. intros [->|H]; auto.
Qed.

(* ---- gc ---- *)
Definition kept (t : tracker) := filter (fun p : N * N => (0 <? snd p) || (visible t <=? fst p)) (tdata t).

Lemma trow_in l : keys_nodup l -> forall k c, In (k, c) l -> trow k l = c.
Proof.
  induction l as [|[x y] r IH]; intros ND k c H; [destruct H|].
  inversion ND as [|? ? Hnot ND']; subst. cbn. destruct H as [E|H].
  - inversion E; subst. now rewrite N.eqb_refl.
  - destruct (N.eqb_spec x k) as [->|NE]; [|apply IH; assumption].
    exfalso. apply Hnot. apply (in_map fst) in H. exact H.
Qed.

Lemma trow_pos_in l i : 0 < trow i l -> In (i, trow i l) l.
Proof.
  induction l as [|[x y] r IH]; cbn; [lia|]. destruct (N.eqb_spec x i) as [->|NE]; intros H; [left; reflexivity|right; auto].
Qed.

Lemma trow_notin l i : ~ In i (map fst l) -> trow i l = 0.
Proof.
  induction l as [|[x y] r IH]; cbn; [auto|]. intros H. destruct (N.eqb_spec x i); [exfalso; auto|]. apply IH. auto.
Qed.

Lemma trow_filter_gen l (p : N * N -> bool) i : keys_nodup l ->
  trow i (filter p l) = if p (i, trow i l) then trow i l else if existsb (fun q => fst q =? i) l then 0 else trow i l.
Proof.
  induction l as [|[x y] r IH]; intros ND; cbn; [destruct (p (i, 0)); reflexivity|].
  inversion ND as [|? ? Hnot ND']; subst.
  destruct (N.eqb_spec x i) as [->|NE]; cbn.
  - destruct (p (i, y)) eqn:P; cbn; [now rewrite N.eqb_refl|].
    apply trow_notin. intros H. apply Hnot. apply in_map_iff in H as ((a & b) & E & Hin). cbn in E. subst a.
    apply filter_In in Hin as [Hin _]. apply (in_map fst) in Hin. exact Hin.
  - destruct (p (x, y)); cbn; [destruct (N.eqb_spec x i); [congruence|]|]; apply IH; exact ND'.
Qed.

Lemma fold_min_le_acc (r : list (N * N)) : forall a, fold_left (fun lo q => N.min lo (fst q)) r a <= a.
Proof. induction r as [|[k c] r IH]; intros a; cbn; [lia|]. specialize (IH (N.min a k)). lia. Qed.

Lemma fold_min_le_in (r : list (N * N)) : forall a q, In q r ->
  fold_left (fun lo q => N.min lo (fst q)) r a <= fst q.
Proof.
  induction r as [|[k c] r IH]; intros a q H; [destruct H|]. cbn.
  destruct H as [<-|H]; [|apply IH; exact H]. cbn.
  pose proof (fold_min_le_acc r (N.min a k)). lia.
Qed.

Lemma gc_lowest_le t q : In q (kept t) ->
  match kept t with [] => visible t | p :: r => fold_left (fun lo q => N.min lo (fst q)) r (fst p) end <= fst q.
Proof.
  destruct (kept t) as [|p r] eqn:K; intros H; [destruct H|].
  destruct H as [->|H].
  - apply fold_min_le_acc.
  - apply fold_min_le_in. exact H.
Qed.

Lemma gc_lowest_vis t : (forall k c, In (k, c) (tdata t) -> k <= visible t) ->
  match kept t with [] => visible t | p :: r => fold_left (fun lo q => N.min lo (fst q)) r (fst p) end <= visible t.
Proof.
  intros Hv. destruct (kept t) as [|p r] eqn:K; [lia|].
  assert (Hp : In p (kept t)) by (rewrite K; left; reflexivity).
  pose proof (gc_lowest_le t p Hp) as L. rewrite K in L.
  unfold kept in Hp. apply filter_In in Hp as [Hp _]. destruct p as [k c]. specialize (Hv k c Hp). cbn [fst] in *. lia.
Qed.

Lemma inv_gc t live : Inv t live -> Inv (tr_gc t) live.
Proof.
  intros [ND CT RV WL WV]. unfold tr_gc. fold (kept t).
  constructor; cbn [tdata visible lowest_freed].
  - unfold keys_nodup, kept. clear - ND. induction (tdata t) as [|[x y] r IH]; cbn; [constructor|].
    inversion ND as [|? ? Hnot ND']; subst. destruct ((0 <? y) || (visible t <=? x)); cbn; [|apply IH; exact ND'].
    constructor; [|apply IH; exact ND'].
    intros H. apply Hnot. apply in_map_iff in H as ((a & b) & E & Hin). cbn in E; subst a.
    apply filter_In in Hin as [Hin _]. apply (in_map fst) in Hin. exact Hin.
  - intros i. rewrite CT. unfold kept. rewrite (trow_filter_gen _ _ i ND). cbn [fst snd].
    destruct (N.ltb_spec 0 (trow i (tdata t))) as [P|Z]; cbn [orb]; [reflexivity|].
    destruct (visible t <=? i); [reflexivity|]. destruct (existsb _ _); lia.
  - intros k c H. unfold kept in H. apply filter_In in H as [H _]. eauto.
  - intros i Hi. pose proof (WL i Hi) as W1.
    assert (Hrow : In (i, trow i (tdata t)) (kept t)).
    { unfold kept. apply filter_In. pose proof (cnt_pos i live Hi) as P. rewrite CT in P. split.
      - apply trow_pos_in. exact P.
      - cbn. destruct (N.ltb_spec 0 (trow i (tdata t))); [reflexivity|lia]. }
    pose proof (gc_lowest_le t _ Hrow) as L. cbn [fst] in L. lia.
  - pose proof (gc_lowest_vis t RV). lia.
Qed.

Lemma inv_step st o : Inv (fst st) (snd st) -> Inv (fst (tstep st o)) (snd (tstep st o)).
Proof.
  destruct st as [t live]. cbn [fst snd]. intros I. destruct o as [|i|i|s| |]; cbn [tstep].
  - (* open *)
    destruct I as [ND CT RV WL WV]. unfold tr_open. cbn [fst snd].
    constructor; cbn [tdata visible lowest_freed].
    + apply nodup_bump. exact ND.
    + intros i. rewrite cnt_cons, trow_bump, CT. destruct (N.eqb_spec (visible t) i), (N.eqb_spec i (visible t)); subst; try congruence; reflexivity.
    + intros k c H. apply in_bump in H as [->|H]; [lia|]. apply in_map_fst in H as [c' H]. eauto.
    + intros i [<-|H]; [exact WV|auto].
    + exact WV.
  - (* clone *)
    destruct (existsb (N.eqb i) live) eqn:E; [|exact I]. apply existsb_in in E.
    destruct I as [ND CT RV WL WV]. cbn [fst snd]. unfold tr_clone.
    constructor; cbn [tdata visible lowest_freed].
    + apply nodup_bump. exact ND.
    + intros j. rewrite cnt_cons, trow_bump, CT. destruct (N.eqb_spec i j), (N.eqb_spec j i); subst; try congruence; reflexivity.
    + intros k c H. apply in_bump in H as [->|H].
      * pose proof (cnt_pos i live E) as P. rewrite CT in P. apply trow_pos_in in P. eauto.
      * apply in_map_fst in H as [c' H]. eauto.
    + intros j [<-|H]; auto.
    + exact WV.
  - (* close *)
    destruct (existsb (N.eqb i) live) eqn:E; [|exact I]. apply existsb_in in E.
    cbn [fst snd]. unfold tr_close.
    set (t' := {| visible := visible t; tdata := unbump i (tdata t); freed := freed t + 1; lowest_freed := lowest_freed t |}).
    assert (I' : Inv t' (remove_one i live)).
    { destruct I as [ND CT RV WL WV]. constructor; cbn [tdata visible lowest_freed t'].
      - unfold keys_nodup. rewrite map_fst_unbump. exact ND.
      - intros j. rewrite (cnt_remove_one i j live E), (trow_unbump i j _ ND), CT. reflexivity.
      - intros k c H. apply (in_map fst) in H. rewrite map_fst_unbump in H. apply in_map_fst in H as [c' H]. eauto.
      - intros j H. apply in_remove_one in H. auto.
      - exact WV. }
    destruct ((freed t + 1) mod 10000 =? 0); [apply inv_gc|]; exact I'.
  - (* publish *)
    destruct I as [ND CT RV WL WV]. cbn [fst snd]. unfold tr_publish.
    constructor; cbn [tdata visible lowest_freed]; auto.
    + intros k c H. specialize (RV k c H). lia.
    + lia.
  - apply inv_gc. exact I.
  - (* pullup *)
    destruct I as [ND CT RV WL WV]. cbn [fst snd]. unfold tr_pullup.
    destruct (tdata t) as [|p r] eqn:D; [|constructor; rewrite ?D; auto].
    constructor; cbn [tdata visible lowest_freed].
    + constructor.
    + intros i. rewrite CT; try rewrite D; reflexivity.
    + intros k c [].
    + intros i Hi. pose proof (cnt_pos i live Hi) as P. rewrite CT in P; try rewrite D in P; cbn in P. lia.
    + lia.
Qed.

Lemma inv_init v : Inv (tr_init v) [].
Proof.
  constructor; cbn.
  - constructor.
  - intros i. reflexivity.
  - intros k c [].
  - intros i [].
  - lia.
Qed.

Theorem inv_run ops : forall st, Inv (fst st) (snd st) ->
  Inv (fst (fold_left tstep ops st)) (snd (fold_left tstep ops st)).
Proof. induction ops as [|o ops IH]; intros st H; cbn [fold_left]; [exact H|]. apply IH, inv_step, H. Qed.

(* the watermark never decreases *)
Lemma wm_mono_step st o : Inv (fst st) (snd st) -> lowest_freed (fst st) <= lowest_freed (fst (tstep st o)).
Proof.
  destruct st as [t live]. intros [_ _ _ _ WV]. cbn [fst] in WV. destruct o as [|i|i|s| |]; cbn [tstep fst].
  - unfold tr_open. cbn. lia.
  - destruct (existsb _ _); cbn; lia.
  - destruct (existsb _ _); cbn [fst]; [|lia]. unfold tr_close.
    destruct (_ =? 0); [unfold tr_gc|]; cbn [lowest_freed]; lia.
  - cbn. lia.
  - unfold tr_gc. cbn. lia.
  - unfold tr_pullup. destruct (tdata t); cbn; lia.
Qed.
