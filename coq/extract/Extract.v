(* Extraction of the executable model (ExtrOcamlBasic only: bool, option,
   list, prod, unit, sumbool become OCaml's; N/positive/nat stay Coq's). *)
From FJ Require Import Prog Reader Options Marker Writer JournalMgr.
Require Import ExtrOcamlBasic.
Extraction Language OCaml.
Extraction "../ocaml/gen/fjmodel.ml"
  run db_step db_init as_is ideal read_journal enc_journal enc_batch choose_comp
  rule_verdict tr_open tr_close tr_gc tr_pullup tr_publish tr_clone tr_init
  N.of_nat N.to_nat encode_kvs from_kvs default_opts check_version open_db w_init w_step w_log jstep jinit journal_count m_evicted m_sealed.
