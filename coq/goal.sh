#!/bin/bash
# usage: goal.sh <file.v> <line>  — prints the proof state after <line>
f=$1; n=$2
head -n $n $f > /tmp/Goal_tmp.v
echo "Show." >> /tmp/Goal_tmp.v
cd /verif/coq && timeout 300 coqc -Q model FJ -Q proofs FJ -Q props FJ /tmp/Goal_tmp.v 2>&1 | grep -v "^File\|Error: There are pending proofs\|^$" | head -${3:-80}
