#!/bin/bash
# usage: seedround2.sh <ID e.g. R3-C07> <checks e.g. "C07 C05">  — confirms variants a/b of a sub-agent delivery under /tmp/wt/<ID>.out
# (seedconfirm.sh in the scratch worktree /tmp/wt/<ID>) and evaluates each confirmed one with nseval.sh (private copies of /repo and
# /verif in a mount namespace: /repo itself is not touched, so several rounds can run at once)
ID=$1; checks=$2
for v in a b; do
  d=/tmp/wt/$ID.out/$v; [ -f $d/patch.diff ] || continue
  feat=$(python3 -c "
import json
f=json.load(open('$d/meta.json')).get('features','') or ''
print('--features fjall_verif' if 'fjall_verif' in f else '')" 2>/dev/null)
  if ! grep -q "demo_with_change=\[test result: FAILED" /tmp/wt/$ID.$v.result 2>/dev/null; then
    /verif/seedconfirm.sh $ID $v "$feat" > /tmp/wt/$ID.$v.confirm.log 2>&1
  fi
  res=$(cat /tmp/wt/$ID.$v.result 2>/dev/null)
  echo "$res"
  if echo "$res" | grep -q "demo_with_change=\[test result: FAILED" && echo "$res" | grep -q "demo_without=\[test result: ok"; then
    echo "EVAL2 $ID/$v: $(/verif/nseval.sh $ID-$v $d/patch.diff $checks 2>&1 | grep -v WARNING | tr '\n' ' ' | cut -c1-700)"
  else
    echo "EVAL2 $ID/$v: not confirmed"
  fi
done
