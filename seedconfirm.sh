#!/bin/bash
# usage: seedconfirm.sh <worktree> <outdir-with-patch.diff+demo.rs> [features]
# confirms in the scratch worktree: builds + existing tests pass with the change; demo fails with it, passes without
wt=$1; out=$2; feat=${3:-}
cd "$wt" || exit 2
git checkout -q -- . ; rm -f tests/seeded_confirm.rs
git apply "$out/patch.diff" || { echo "RESULT apply-failed"; exit 1; }
export CARGO_NET_OFFLINE=true
cargo build --offline >/dev/null 2>&1 || { echo "RESULT build-failed"; git checkout -q -- .; exit 1; }
# doctests can hang on a loaded machine in the unrepaired Drop (fixed in /repo by 0511e00): run them under a timeout
log=$(timeout 900 cargo test --workspace --offline --no-fail-fast --lib --tests 2>&1; timeout 600 cargo test --offline --doc 2>&1)
suite=$(echo "$log" | grep -E "^test result" | awk '{p+=$4; f+=$6} END {print p" passed "f" failed"}')
flaky=$(echo "$log" | grep -E "^test .* FAILED" | head -3 | tr '\n' ';')
cp "$out/demo.rs" tests/seeded_confirm.rs
with=$(cargo test --offline $feat --test seeded_confirm 2>&1 | grep -E "^test result" | head -1)
git checkout -q -- src
without=$(cargo test --offline $feat --test seeded_confirm 2>&1 | grep -E "^test result" | head -1)
rm -f tests/seeded_confirm.rs; git checkout -q -- .
echo "RESULT suite_with_change=[$suite] failing_tests=[$flaky] demo_with_change=[$with] demo_without=[$without]"
