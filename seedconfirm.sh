#!/bin/bash
# usage: seedconfirm.sh <ID> <variant> [features]
# confirms a seeded change in the scratch worktree /tmp/wt/<ID> (moved to /repo's current HEAD): it builds, the existing
# test suite passes with it, its demonstration fails with it and passes without it.  Result: /tmp/wt/<ID>.<variant>.result
ID=$1; var=$2; feat=${3:-}
wt=/tmp/wt/$ID; out=/tmp/wt/$ID.out/$var; res=/tmp/wt/$ID.$var.result
cd "$wt" || exit 2
git checkout -q -- . ; rm -f tests/seeded_confirm.rs tests/seeded_*.rs
git checkout -q --detach "$(git -C /repo rev-parse HEAD)"
git apply "$out/patch.diff" || { echo "RESULT apply-failed" > $res; exit 1; }
export CARGO_NET_OFFLINE=true
cargo build --offline >/dev/null 2>&1 || { echo "RESULT build-failed" > $res; git checkout -q -- .; exit 1; }
log=$(timeout 1500 cargo test --workspace --offline --no-fail-fast --lib --tests 2>&1; timeout 1500 cargo test --offline --doc 2>&1)
suite=$(echo "$log" | grep -E "^test result" | awk '{p+=$4; f+=$6} END {print p" passed "f" failed"}')
failing=$(echo "$log" | grep -E "^test .* FAILED" | head -3 | tr '\n' ';')
# a failing existing test is re-run 3 times alone: flaky (also fails/passes on the unchanged tree) or really broken by the change
rerun=""
for t in $(echo "$log" | grep -E "^test .* FAILED" | awk '{print $2}' | head -3); do
  ok=0; for i in 1 2 3; do cargo test --offline $t 2>&1 | grep -q "^test result: ok" && ok=$((ok+1)); done
  rerun="$rerun $t:rerun_ok=$ok/3"
done
cp "$out/demo.rs" tests/seeded_confirm.rs
with=$(timeout 900 cargo test --offline $feat --test seeded_confirm 2>&1 | grep -E "^test result" | head -1)
git checkout -q -- src
without=$(timeout 900 cargo test --offline $feat --test seeded_confirm 2>&1 | grep -E "^test result" | head -1)
rm -f tests/seeded_confirm.rs; git checkout -q -- .
echo "RESULT $ID/$var head=$(git rev-parse --short HEAD) suite_with_change=[$suite] failing_tests=[$failing] reruns=[$rerun] demo_with_change=[$with] demo_without=[$without]" > $res
cat $res
