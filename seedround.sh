#!/bin/bash
# usage: seedround.sh <ID e.g. R3-C07> <checks e.g. "C07 C05">  — confirms variants a/b of a sub-agent delivery under
# /tmp/wt/<ID>.out and evaluates each confirmed one with the given checks; serialised by a lock (one patch in /repo at a time)
ID=$1; checks=$2
exec 9>/tmp/wt/.seedround.lock; flock 9
for v in a b; do
  d=/tmp/wt/$ID.out/$v; [ -f $d/patch.diff ] || continue
  feat=$(python3 -c "import json;print(json.load(open('$d/meta.json')).get('features',''))" 2>/dev/null)
  /verif/seedconfirm.sh $ID $v "$feat" > /tmp/wt/$ID.$v.confirm.log 2>&1
  res=$(cat /tmp/wt/$ID.$v.result 2>/dev/null)
  echo "$res"
  if echo "$res" | grep -q "demo_with_change=\[test result: FAILED" && echo "$res" | grep -q "demo_without=\[test result: ok"; then
    echo "EVAL $ID/$v: $(/verif/seedeval.sh $d/patch.diff $checks 2>&1 | tr '\n' ' ')"
  else
    echo "EVAL $ID/$v: not confirmed"
  fi
done
