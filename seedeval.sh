#!/bin/bash
# usage: seedeval.sh <patch.diff> <check ids...>   — applies a seeded change to /repo, runs the checks, undoes it
set -u
patch=$1; shift
cd /verif
git -C /repo apply "$patch" || { echo "patch does not apply"; exit 2; }
for p in "$@"; do
  out=$(./check $p --tier quick 2>/dev/null | grep -E "^VIOLATION" | head -1)
  echo "$p: ${out:-no violation}"
done
git -C /repo checkout -- .
git -C /repo status --short | head -3
