#!/usr/bin/env python3
"""seedstore.py <ID> <variant> <name> <caught_by comma list> [missed_by comma list] — files a confirmed seeded change
under /verif/seeded/<name>/ (patch.diff, demo.rs, demo.md, meta.json) with my own confirmation and detection record."""
import json, os, shutil, sys, re
ID, var, name, caught = sys.argv[1:5]
missed = sys.argv[5] if len(sys.argv) > 5 else ""
ROUND = os.environ.get("SEED_ROUND_DIR", "/tmp/wt")
src = "%s/%s.out/%s" % (ROUND, ID, var)
dst = "/verif/seeded/%s" % name
os.makedirs(dst, exist_ok=True)
for f in ("patch.diff", "demo.rs", "demo.md"):
    if os.path.exists(os.path.join(src, f)):
        shutil.copy(os.path.join(src, f), os.path.join(dst, f))
meta = json.load(open(os.path.join(src, "meta.json")))
rp = "%s/%s.%s.result" % (ROUND, ID, var)
conf = [l for l in open(rp).read().splitlines() if l.startswith("RESULT")] if os.path.exists(rp) else []
idx = 0
meta_out = {
    "property": ID, "summary": meta.get("summary"), "needs": meta.get("needs"), "files": meta.get("files"),
    "confirmed_by_me": conf[idx] if len(conf) > idx else "pending",
    "what_i_ran": ["seedconfirm.sh %s %s: scratch worktree /tmp/wt/%s moved to /repo's HEAD; git apply patch.diff; cargo build --offline; "
                   "cargo test --workspace --offline --no-fail-fast --lib --tests, then --doc (existing suite, unedited; a failing test is "
                   "re-run 3 times alone to tell a flaky test from a broken one); cargo test --test seeded_confirm (the demonstration) "
                   "with the change and after git checkout -- src" % (ID, var, ID),
                   "seedeval.sh: git -C /repo apply patch.diff; ./check <id> --tier quick; git -C /repo checkout -- ."],
    "caught_by_checks": [c for c in caught.split(",") if c], "not_caught_by": [c for c in missed.split(",") if c],
    "author_ran": meta.get("ran"),
}
json.dump(meta_out, open(os.path.join(dst, "meta.json"), "w"), indent=1)
print("stored", dst)
