//! Small helpers shared by all sub-commands: hex coding, canonical error
//! names, option rendering and line-atomic stdout output.

use std::io::Write;

/// Lower-case hex of `b`; the empty byte string is written `-`.
pub fn hex(b: &[u8]) -> String {
    if b.is_empty() {
        return "-".to_string();
    }
    // values of 64 KiB and more (only `bigfill` writes them) are printed as their length: the model holds a
    // placeholder for them and prints the same
    if b.len() >= 65536 {
        return format!("BIG{}", b.len());
    }
    const DIGITS: &[u8; 16] = b"0123456789abcdef";
    let mut s = String::with_capacity(b.len() * 2);
    for x in b {
        s.push(DIGITS[(x >> 4) as usize] as char);
        s.push(DIGITS[(x & 15) as usize] as char);
    }
    s
}

/// Inverse of [`hex`]; `-` (or the empty token) is the empty byte string.
pub fn unhex(s: &str) -> Option<Vec<u8>> {
    if s == "-" || s.is_empty() {
        return Some(vec![]);
    }
    if s.len() % 2 != 0 {
        return None;
    }
    let nib = |c: u8| -> Option<u8> {
        match c {
            b'0'..=b'9' => Some(c - b'0'),
            b'a'..=b'f' => Some(c - b'a' + 10),
            b'A'..=b'F' => Some(c - b'A' + 10),
            _ => None,
        }
    };
    let b = s.as_bytes();
    let mut out = Vec::with_capacity(b.len() / 2);
    for p in b.chunks(2) {
        out.push((nib(p[0])? << 4) | nib(p[1])?);
    }
    Some(out)
}

/// Renders `k=v` for scan / iterator / dump output.
pub fn kv(k: &[u8], v: &[u8]) -> String {
    format!("{}={}", hex(k), hex(v))
}

/// Maps a fjall error onto the small canonical enum of the spec.
pub fn err_name(e: &fjall::Error) -> String {
    use fjall::Error as E;
    match e {
        E::Poisoned => "poisoned".into(),
        E::KeyspaceDeleted => "deleted".into(),
        E::Locked => "locked".into(),
        E::InvalidVersion(_) => "version".into(),
        E::Io(_) => "io".into(),
        E::JournalRecovery(r) => format!("journal:{r:?}"),
        E::Decompress(_) => "decompress".into(),
        E::InvalidTag(_) => "invalidtag".into(),
        E::InvalidTrailer => "invalidtrailer".into(),
        E::Unrecoverable => "unrecoverable".into(),
        E::Storage(_) => "storage".into(),
        // fjall::Error is #[non_exhaustive]
        _ => "other".into(),
    }
}

/// Same mapping, but starting from the `{:?}` rendering of a `fjall::Error`
/// (this is what `fjall::verif_hooks::read_journal` hands out).
pub fn err_name_from_debug(s: &str) -> String {
    let s = s.trim();
    if let Some(rest) = s.strip_prefix("JournalRecovery(") {
        let inner = rest.trim_end_matches(')');
        return format!("journal:{inner}");
    }
    let table: &[(&str, &str)] = &[
        ("Poisoned", "poisoned"),
        ("KeyspaceDeleted", "deleted"),
        ("Locked", "locked"),
        ("InvalidVersion", "version"),
        ("Io(", "io"),
        ("Decompress", "decompress"),
        ("InvalidTag", "invalidtag"),
        ("InvalidTrailer", "invalidtrailer"),
        ("Unrecoverable", "unrecoverable"),
        ("Storage(", "storage"),
    ];
    for (prefix, name) in table {
        if s.starts_with(prefix) {
            return (*name).to_string();
        }
    }
    "other".into()
}

/// `err <E>` result string.
pub fn err(e: &fjall::Error) -> String {
    format!("err {}", err_name(e))
}

/// Writes one complete observation line and flushes. The stdout lock is held
/// for the whole line so lines of concurrently finishing asynchronous
/// operations never interleave.
pub fn emit(lineno: usize, result: &str) {
    let out = std::io::stdout();
    let mut out = out.lock();
    // Errors (closed pipe) are deliberately ignored: nothing sensible is left to do.
    let _ = writeln!(out, "{lineno} {result}");
    let _ = out.flush();
}

/// Extracts the panic message, cut to the first 60 chars, spaces → `_`.
pub fn panic_text(p: &(dyn std::any::Any + Send)) -> String {
    let msg: &str = if let Some(s) = p.downcast_ref::<&str>() {
        s
    } else if let Some(s) = p.downcast_ref::<String>() {
        s.as_str()
    } else {
        "unknown"
    };
    let cut: String = msg
        .chars()
        .take(60)
        .map(|c| if c.is_whitespace() { '_' } else { c })
        .collect();
    format!("panic {cut}")
}

#[cfg(test)]
mod tests {
    use super::*;

    #[test]
    fn hex_roundtrip() {
        assert_eq!(hex(&[]), "-");
        assert_eq!(hex(&[0, 255, 0x1a]), "00ff1a");
        assert_eq!(unhex("00ff1a"), Some(vec![0, 255, 0x1a]));
        assert_eq!(unhex("-"), Some(vec![]));
        assert_eq!(unhex("0"), None);
        assert_eq!(unhex("zz"), None);
    }

    #[test]
    fn debug_names() {
        assert_eq!(
            err_name_from_debug("JournalRecovery(ChecksumMismatch)"),
            "journal:ChecksumMismatch"
        );
        assert_eq!(err_name_from_debug("Io(Os { code: 5 })"), "io");
        assert_eq!(err_name_from_debug("InvalidTrailer"), "invalidtrailer");
        assert_eq!(err_name_from_debug("what"), "other");
    }
}


static START: std::sync::OnceLock<std::time::Instant> = std::sync::OnceLock::new();

/// Nanoseconds since the first call (process start for all practical purposes).
pub fn now_ns() -> u128 {
    START.get_or_init(std::time::Instant::now).elapsed().as_nanos()
}

/// `FJV_TIMING=1`: asynchronous result lines carry call/return timestamps.
pub fn timing_enabled() -> bool {
    static ON: std::sync::OnceLock<bool> = std::sync::OnceLock::new();
    *ON.get_or_init(|| std::env::var_os("FJV_TIMING").is_some())
}
