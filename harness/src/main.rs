//! `fjv` — implementation-side harness: interprets a small line-based program
//! language against the real fjall (see SPEC.md).
//!
//! Sub-commands:
//! * `fjv run <program-file> <dir>`
//! * `fjv oracle`
//! * `fjv readjournal <file>`

mod interp;
mod oracle;
mod pause;
mod util;

use interp::Interp;
use std::collections::HashMap;
use std::sync::mpsc;
use std::sync::Arc;
use std::thread::JoinHandle;
use std::time::{Duration, Instant};
use util::emit;

fn usage() -> i32 {
    eprintln!("usage: fjv run <program-file> <dir> | fjv oracle | fjv readjournal <file>");
    2
}

fn main() {
    let args: Vec<String> = std::env::args().collect();
    let code = match args.get(1).map(String::as_str) {
        Some("run") if args.len() == 4 => run(&args[2], &args[3]),
        Some("oracle") if args.len() == 2 => oracle::serve(),
        Some("readjournal") if args.len() == 3 => oracle::read_journal(&args[2]),
        Some("readcuts") if args.len() == 4 => oracle::read_cuts(&args[2], &args[3]),
        _ => usage(),
    };
    std::process::exit(code);
}

// ---------------------------------------------------------------------------
// Executor threads
// ---------------------------------------------------------------------------
//
// Every operation runs on an executor thread, never on the process main
// thread, which only reads the program, dispatches lines and prints results:
//
// * `thread <id> <op…> [&]` lines run on the executor named `<id>`;
// * all other lines run on a hidden executor that stands in for "the main
//   thread" of the program (it is the one pause points ignore).
//
// The dispatcher waits for the reply of a synchronous line, but only for
// `FJV_SYNC_TIMEOUT_MS` (default 30 s). If an operation blocks for longer — a
// program-level deadlock such as waiting for a lock that only a later line
// would release — the line's result is `err timeout` and the program goes on,
// so one blocked call does not swallow all later observations. The late result
// of the blocked operation is discarded.

/// Name of the hidden executor for ordinary (non-`thread`) lines. Cannot
/// clash with a program-chosen id because ids never contain spaces.
const MAIN_ID: &str = "main thread";

/// One line to run on an executor thread.
struct Job {
    lineno: usize,
    toks: Vec<String>,
    /// `Some` = synchronous (the dispatcher waits for the reply and prints it);
    /// `None` = asynchronous (the executor prints the result line itself).
    reply: Option<mpsc::Sender<String>>,
}

struct Executor {
    jobs: mpsc::Sender<Job>,
    handle: JoinHandle<()>,
}

/// The executor threads. They own nothing: all interpreter state lives in the
/// shared [`Interp`]. Jobs of one executor run in submission order.
struct Executors {
    interp: Arc<Interp>,
    by_id: HashMap<String, Executor>,
    /// Stand-ins for the main thread that were given up on after a timeout.
    abandoned: Vec<JoinHandle<()>>,
    sync_timeout: Duration,
}

impl Executors {
    fn submit(&mut self, id: &str, job: Job) {
        let interp = &self.interp;
        let w = self.by_id.entry(id.to_string()).or_insert_with(|| {
            let (tx, rx) = mpsc::channel::<Job>();
            let interp = interp.clone();
            let is_main = id == MAIN_ID;
            let handle = std::thread::Builder::new()
                .name(format!("fjv:{id}"))
                .spawn(move || {
                    if is_main {
                        pause::mark_main_thread();
                    }
                    for job in rx {
                        let toks: Vec<&str> = job.toks.iter().map(String::as_str).collect();
                        let t0 = util::now_ns();
                        let res = interp.exec(&toks, job.reply.is_none());
                        let t1 = util::now_ns();
                        match job.reply {
                            Some(r) => {
                                let _ = r.send(res);
                            }
                            // asynchronous operations carry their call/return times (ns since process
                            // start) when FJV_TIMING is set: `<lineno> <result> @<call>-<return>`
                            None if util::timing_enabled() => {
                                emit(job.lineno, &format!("{res} @{t0}-{t1}"));
                            }
                            None => emit(job.lineno, &res),
                        }
                    }
                })
                .expect("cannot spawn executor thread");
            Executor { jobs: tx, handle }
        });
        // The receiver only goes away when the thread died, which `exec`
        // (it catches panics) does not let happen.
        let _ = w.jobs.send(job);
    }

    /// Runs one line synchronously on executor `id`; `None` = timed out.
    fn run_sync(&mut self, id: &str, lineno: usize, toks: &[&str]) -> Option<String> {
        let (tx, rx) = mpsc::channel();
        self.submit(
            id,
            Job {
                lineno,
                toks: toks.iter().map(|s| (*s).to_string()).collect(),
                reply: Some(tx),
            },
        );
        match rx.recv_timeout(self.sync_timeout) {
            Ok(r) => Some(r),
            Err(mpsc::RecvTimeoutError::Disconnected) => Some("panic executor_died".into()),
            Err(mpsc::RecvTimeoutError::Timeout) => {
                if id == MAIN_ID {
                    // The stand-in for the main thread is stuck inside a call.
                    // Leave it behind (it ends once the call returns, because
                    // its job channel is closed now) and continue on a fresh one.
                    if let Some(w) = self.by_id.remove(id) {
                        drop(w.jobs);
                        self.abandoned.push(w.handle);
                    }
                }
                // A named thread keeps its identity: later lines for it queue
                // up behind the blocked operation.
                None
            }
        }
    }

    /// Waits for all outstanding (asynchronous) operations.
    ///
    /// Normally every thread simply drains its queue and ends. Two safety nets
    /// keep a sloppy program from hanging the harness forever: pause points
    /// still held are released, and if threads are still stuck after the
    /// timeout (e.g. blocked on the single-writer lock of a transaction the
    /// program never finished) the interpreter state is torn down, which rolls
    /// back open transactions. Returns false if threads are stuck even then.
    fn finish(self) -> bool {
        let Executors {
            interp,
            by_id,
            abandoned,
            sync_timeout,
        } = self;
        let mut handles = abandoned;
        for (_, w) in by_id {
            drop(w.jobs); // closes the channel → the thread ends after its queue
            handles.push(w.handle);
        }
        interp.pauses().release_all();
        if !wait_finished(&handles, sync_timeout) {
            interp.shutdown();
            if !wait_finished(&handles, sync_timeout) {
                return false;
            }
        }
        for h in handles {
            let _ = h.join();
        }
        true
    }
}

/// Polls until all threads have ended or `patience` ran out.
fn wait_finished(handles: &[JoinHandle<()>], patience: Duration) -> bool {
    let deadline = Instant::now() + patience;
    loop {
        if handles.iter().all(JoinHandle::is_finished) {
            return true;
        }
        if Instant::now() >= deadline {
            return false;
        }
        std::thread::sleep(Duration::from_millis(1));
    }
}

// ---------------------------------------------------------------------------
// `fjv run`
// ---------------------------------------------------------------------------

fn run(program: &str, dir: &str) -> i32 {
    let text = match std::fs::read_to_string(program) {
        Ok(t) => t,
        Err(e) => {
            eprintln!("fjv: cannot read {program}: {e}");
            return 2;
        }
    };

    // Panics inside operations are caught and reported on stdout; keep stderr
    // to one short line per panic instead of a backtrace banner.
    std::panic::set_hook(Box::new(|info| {
        let loc = info
            .location()
            .map(|l| format!("{}:{}", l.file(), l.line()))
            .unwrap_or_default();
        let msg = if let Some(s) = info.payload().downcast_ref::<&str>() {
            (*s).to_string()
        } else if let Some(s) = info.payload().downcast_ref::<String>() {
            s.clone()
        } else {
            "?".to_string()
        };
        eprintln!("fjv: caught panic at {loc}: {msg}");
    }));

    // Upper bound for a synchronous line (ms, env FJV_SYNC_TIMEOUT_MS).
    let sync_timeout = Duration::from_millis(
        std::env::var("FJV_SYNC_TIMEOUT_MS")
            .ok()
            .and_then(|v| v.parse().ok())
            .unwrap_or(30_000),
    );

    let interp = Arc::new(Interp::new(std::path::PathBuf::from(dir)));
    let mut execs = Executors {
        interp: interp.clone(),
        by_id: HashMap::new(),
        abandoned: vec![],
        sync_timeout,
    };

    for (idx, raw) in text.lines().enumerate() {
        let lineno = idx + 1;
        let line = raw.trim_end_matches(['\r', ' ', '\t']);
        if line.is_empty() || line.starts_with('#') {
            continue;
        }
        let toks: Vec<&str> = line.split(' ').collect();

        match toks[0] {
            // `exit <code>`: simulate a crash without clean shutdown — nothing is
            // dropped, no destructor of the database runs.
            "exit" => {
                let code = match (toks.len(), toks.get(1).and_then(|c| c.parse::<i32>().ok())) {
                    (2, Some(code)) => code,
                    _ => {
                        emit(lineno, "badop");
                        continue;
                    }
                };
                emit(lineno, "ok");
                std::process::exit(code);
            }
            "thread" => {
                let mut rest = &toks[1..];
                let is_async = rest.last() == Some(&"&");
                if is_async {
                    rest = &rest[..rest.len() - 1];
                }
                // Needs an id and an operation; thread control itself and `exit`
                // only make sense at top level.
                if rest.len() < 2 || matches!(rest[1], "thread" | "exit") {
                    emit(lineno, "badop");
                    continue;
                }
                let id = rest[0];
                if is_async {
                    execs.submit(
                        id,
                        Job {
                            lineno,
                            toks: rest[1..].iter().map(|s| (*s).to_string()).collect(),
                            reply: None,
                        },
                    );
                } else {
                    let res = execs.run_sync(id, lineno, &rest[1..]);
                    emit(lineno, res.as_deref().unwrap_or("err timeout"));
                }
            }
            _ => {
                let res = execs.run_sync(MAIN_ID, lineno, &toks);
                emit(lineno, res.as_deref().unwrap_or("err timeout"));
            }
        }
    }

    // Join all threads (= wait for outstanding asynchronous operations) …
    if !execs.finish() {
        eprintln!("fjv: executor threads are stuck at program end; giving up");
        std::process::exit(4);
    }
    // … then shut down cleanly (same drop order as `close`).
    interp.shutdown();
    drop(interp);
    0
}
