//! `fjv` — implementation-side harness: interprets a small line-based program
//! language against the real fjall (see SPEC.md).
//!
//! Sub-commands:
//! * `fjv run <program-file> <dir>`
//! * `fjv oracle`
//! * `fjv readjournal <file>`

mod interp;
mod oracle;
mod pause;
mod util;

use interp::Interp;
use std::collections::HashMap;
use std::sync::mpsc;
use std::sync::Arc;
use std::thread::JoinHandle;
use util::emit;

fn usage() -> i32 {
    eprintln!("usage: fjv run <program-file> <dir> | fjv oracle | fjv readjournal <file>");
    2
}

fn main() {
    let args: Vec<String> = std::env::args().collect();
    let code = match args.get(1).map(String::as_str) {
        Some("run") if args.len() == 4 => run(&args[2], &args[3]),
        Some("oracle") if args.len() == 2 => oracle::serve(),
        Some("readjournal") if args.len() == 3 => oracle::read_journal(&args[2]),
        _ => usage(),
    };
    std::process::exit(code);
}

// ---------------------------------------------------------------------------
// Worker threads of the program language (`thread <id> <op…> [&]`)
// ---------------------------------------------------------------------------

/// One line to run on a named worker thread.
struct Job {
    lineno: usize,
    toks: Vec<String>,
    /// `Some` = synchronous (main waits for the reply and prints it);
    /// `None` = asynchronous (the worker prints the result line itself).
    reply: Option<mpsc::Sender<String>>,
}

struct Worker {
    jobs: mpsc::Sender<Job>,
    handle: JoinHandle<()>,
}

/// The named worker threads. They own nothing: all interpreter state lives in
/// the shared [`Interp`]. Jobs of one thread run in submission order.
struct Workers {
    interp: Arc<Interp>,
    by_id: HashMap<String, Worker>,
}

impl Workers {
    fn submit(&mut self, id: &str, job: Job) {
        let interp = &self.interp;
        let w = self.by_id.entry(id.to_string()).or_insert_with(|| {
            let (tx, rx) = mpsc::channel::<Job>();
            let interp = interp.clone();
            let handle = std::thread::Builder::new()
                .name(format!("fjv:{id}"))
                .spawn(move || {
                    for job in rx {
                        let toks: Vec<&str> = job.toks.iter().map(String::as_str).collect();
                        let res = interp.exec(&toks, job.reply.is_none());
                        match job.reply {
                            Some(r) => {
                                let _ = r.send(res);
                            }
                            None => emit(job.lineno, &res),
                        }
                    }
                })
                .expect("cannot spawn worker thread");
            Worker { jobs: tx, handle }
        });
        // The receiver only goes away when the thread died, which `exec`
        // (it catches panics) does not let happen.
        let _ = w.jobs.send(job);
    }

    /// Waits for all outstanding (asynchronous) operations.
    fn finish(self) {
        let Workers { interp, by_id } = self;
        let mut handles = vec![];
        for (_, w) in by_id {
            drop(w.jobs); // closes the channel → the thread ends after its queue
            handles.push(w.handle);
        }
        // Make sure nothing stays parked at a pause point forever.
        // (Programs are expected to release what they hold; this is a safety net
        // that only kicks in after every program line has been issued.)
        interp.pauses().release_all();
        for h in handles {
            let _ = h.join();
        }
    }
}

// ---------------------------------------------------------------------------
// `fjv run`
// ---------------------------------------------------------------------------

fn run(program: &str, dir: &str) -> i32 {
    let text = match std::fs::read_to_string(program) {
        Ok(t) => t,
        Err(e) => {
            eprintln!("fjv: cannot read {program}: {e}");
            return 2;
        }
    };

    // Panics inside operations are caught and reported on stdout; keep stderr
    // to one short line per panic instead of a backtrace banner.
    std::panic::set_hook(Box::new(|info| {
        let loc = info
            .location()
            .map(|l| format!("{}:{}", l.file(), l.line()))
            .unwrap_or_default();
        let msg = if let Some(s) = info.payload().downcast_ref::<&str>() {
            (*s).to_string()
        } else if let Some(s) = info.payload().downcast_ref::<String>() {
            s.clone()
        } else {
            "?".to_string()
        };
        eprintln!("fjv: caught panic at {loc}: {msg}");
    }));

    pause::mark_main_thread();

    let interp = Arc::new(Interp::new(std::path::PathBuf::from(dir)));
    let mut workers = Workers {
        interp: interp.clone(),
        by_id: HashMap::new(),
    };

    for (idx, raw) in text.lines().enumerate() {
        let lineno = idx + 1;
        let line = raw.trim_end_matches(['\r', ' ', '\t']);
        if line.is_empty() || line.starts_with('#') {
            continue;
        }
        let toks: Vec<&str> = line.split(' ').collect();

        match toks[0] {
            // `exit <code>`: simulate a crash without clean shutdown — nothing is
            // dropped, no destructor of the database runs.
            "exit" => {
                let Some(code) = toks.get(1).and_then(|c| c.parse::<i32>().ok()) else {
                    emit(lineno, "badop");
                    continue;
                };
                if toks.len() != 2 {
                    emit(lineno, "badop");
                    continue;
                }
                emit(lineno, "ok");
                std::process::exit(code);
            }
            "thread" => {
                let mut rest = &toks[1..];
                let is_async = rest.last() == Some(&"&");
                if is_async {
                    rest = &rest[..rest.len() - 1];
                }
                // Needs an id and an operation; thread control itself and `exit`
                // only make sense on the main thread.
                if rest.len() < 2 || matches!(rest[1], "thread" | "exit") {
                    emit(lineno, "badop");
                    continue;
                }
                let id = rest[0];
                let op: Vec<String> = rest[1..].iter().map(|s| (*s).to_string()).collect();
                if is_async {
                    workers.submit(
                        id,
                        Job {
                            lineno,
                            toks: op,
                            reply: None,
                        },
                    );
                } else {
                    let (tx, rx) = mpsc::channel();
                    workers.submit(
                        id,
                        Job {
                            lineno,
                            toks: op,
                            reply: Some(tx),
                        },
                    );
                    let res = rx.recv().unwrap_or_else(|_| "panic worker_died".into());
                    emit(lineno, &res);
                }
            }
            _ => emit(lineno, &interp.exec(&toks, false)),
        }
    }

    // Join all threads (= wait for outstanding asynchronous operations) …
    workers.finish();
    // … then shut down cleanly (same drop order as `close`).
    interp.shutdown();
    drop(interp);
    0
}
