//! Pause points: deterministic interleavings for the threaded part of the
//! program language.
//!
//! fjall (feature `fjall_verif`) calls `verif_hooks::pause(site)` at a few
//! instrumented places. `pausepoint <site> <nth> hold` arms a site: the
//! `<nth>` hit of it blocks the hitting thread until `release <site>`.
//!
//! Hits coming from the interpreter's *main* thread (the executor that runs
//! ordinary, non-`thread` lines) are ignored (neither
//! counted nor held): the main thread is the only one that can issue
//! `release`, so holding it could never be undone. Worker threads created by
//! `thread <id> …` and fjall's own background workers are counted and held.

use std::collections::HashMap;
use std::sync::{Arc, Condvar, Mutex, MutexGuard};
use std::time::{Duration, Instant};

thread_local! {
    /// Set on the interpreter's main thread only.
    static IS_MAIN: std::cell::Cell<bool> = const { std::cell::Cell::new(false) };
}

/// Marks the calling thread as the interpreter main thread.
pub fn mark_main_thread() {
    IS_MAIN.with(|f| f.set(true));
}

#[derive(Default)]
struct Site {
    /// Hits seen since the site was armed.
    hits: u64,
    /// Which hit to hold (1-based).
    nth: u64,
    /// Number of threads currently blocked at this site.
    held: usize,
    /// Set by `release`; a released site never holds again until re-armed.
    released: bool,
    /// Bumped on every (re-)arm so that a thread held under an old arming
    /// wakes up when the site is armed anew.
    generation: u64,
}

#[derive(Default)]
pub struct PauseCtl {
    sites: Mutex<HashMap<String, Site>>,
    cv: Condvar,
    installed: Mutex<bool>,
}

impl PauseCtl {
    fn lock(&self) -> MutexGuard<'_, HashMap<String, Site>> {
        self.sites.lock().unwrap_or_else(|e| e.into_inner())
    }

    /// Installs the global fjall pause handler (once).
    fn install(self: &Arc<Self>) {
        let mut inst = self.installed.lock().unwrap_or_else(|e| e.into_inner());
        if *inst {
            return;
        }
        let me = self.clone();
        fjall::verif_hooks::set_pause_handler(Some(Arc::new(move |site: &str| me.hit(site))));
        *inst = true;
    }

    /// `pausepoint <site> <nth> hold`
    pub fn arm(self: &Arc<Self>, site: &str, nth: u64) {
        self.install();
        let mut sites = self.lock();
        let s = sites.entry(site.to_string()).or_default();
        s.hits = 0;
        s.nth = nth;
        s.released = false;
        s.generation += 1;
        self.cv.notify_all();
    }

    /// `pausepoint <site> <nth> off`: forget the site, waking anything held there.
    pub fn disarm(&self, site: &str) {
        let mut sites = self.lock();
        if let Some(s) = sites.get_mut(site) {
            s.released = true;
            s.nth = 0;
        }
        self.cv.notify_all();
    }

    /// `release <site>`; returns false when the site was never armed.
    pub fn release(&self, site: &str) -> bool {
        let mut sites = self.lock();
        let known = match sites.get_mut(site) {
            Some(s) => {
                s.released = true;
                true
            }
            None => false,
        };
        self.cv.notify_all();
        known
    }

    /// Releases everything (used at program end so that joins cannot hang).
    pub fn release_all(&self) {
        let mut sites = self.lock();
        for s in sites.values_mut() {
            s.released = true;
        }
        self.cv.notify_all();
    }

    /// `waitpause <site>`: blocks until some thread is held at the site.
    /// `None` = the site was never armed, `Some(false)` = timeout.
    pub fn wait_held(&self, site: &str, timeout: Duration) -> Option<bool> {
        let deadline = Instant::now() + timeout;
        let mut sites = self.lock();
        if !sites.contains_key(site) {
            return None;
        }
        loop {
            if sites.get(site).is_some_and(|s| s.held > 0) {
                return Some(true);
            }
            let now = Instant::now();
            if now >= deadline {
                return Some(false);
            }
            let (g, _) = self
                .cv
                .wait_timeout(sites, deadline - now)
                .unwrap_or_else(|e| e.into_inner());
            sites = g;
        }
    }

    /// Called by fjall at every instrumented site.
    fn hit(&self, site: &str) {
        if IS_MAIN.with(std::cell::Cell::get) {
            return;
        }
        let mut sites = self.lock();
        let Some(s) = sites.get_mut(site) else {
            return;
        };
        if s.released || s.nth == 0 {
            return;
        }
        s.hits += 1;
        if s.hits != s.nth {
            return;
        }
        let generation = s.generation;
        s.held += 1;
        self.cv.notify_all();
        loop {
            let done = match sites.get(site) {
                Some(s) => s.released || s.generation != generation,
                None => true,
            };
            if done {
                break;
            }
            sites = self.cv.wait(sites).unwrap_or_else(|e| e.into_inner());
        }
        if let Some(s) = sites.get_mut(site) {
            s.held = s.held.saturating_sub(1);
        }
        self.cv.notify_all();
    }
}
