//! `fjv oracle` (hash / compression line server) and `fjv readjournal`.
//!
//! Both exist so that the model side never has to re-implement xxh3 or LZ4:
//! it asks the very same library versions fjall links against.

use crate::util::{err_name_from_debug, hex, unhex};
use std::io::{BufRead, Write};

/// Answers one oracle request line.
///
/// * `h <hex>`       → xxh3-64 of the bytes, decimal
/// * `c <hex>`       → hex of `lz4_flex::compress(bytes)` (raw block, no size prefix)
/// * `d <len> <hex>` → `ok <hex>` iff `lz4_flex::decompress_into` into a buffer
///   of exactly `len` bytes succeeds and returns `len`; otherwise `err`
///
/// Malformed requests answer `err`.
pub fn answer(line: &str) -> String {
    let toks: Vec<&str> = line.split(' ').filter(|t| !t.is_empty()).collect();
    match toks.as_slice() {
        ["h", data] => match unhex(data) {
            Some(b) => xxhash_rust::xxh3::xxh3_64(&b).to_string(),
            None => "err".into(),
        },
        ["c", data] => match unhex(data) {
            Some(b) => hex(&lz4_flex::compress(&b)),
            None => "err".into(),
        },
        ["d", len, data] => {
            let (Ok(len), Some(b)) = (len.parse::<usize>(), unhex(data)) else {
                return "err".into();
            };
            // Guard against absurd allocation requests.
            if len > (1 << 30) {
                return "err".into();
            }
            let mut buf = vec![0u8; len];
            match lz4_flex::decompress_into(&b, &mut buf) {
                Ok(n) if n == len => format!("ok {}", hex(&buf)),
                _ => "err".into(),
            }
        }
        _ => "err".into(),
    }
}

/// Line server: one reply per request line, flushed immediately.
pub fn serve() -> i32 {
    let stdin = std::io::stdin();
    let stdout = std::io::stdout();
    for line in stdin.lock().lines() {
        let Ok(line) = line else { break };
        let line = line.trim_end_matches(['\r', '\n']);
        if line.is_empty() {
            continue;
        }
        let reply = answer(line);
        let mut out = stdout.lock();
        if writeln!(out, "{reply}").is_err() || out.flush().is_err() {
            break;
        }
    }
    0
}

/// `fjv readjournal <file>`: runs the real journal reader (with its
/// truncation side effect) and prints what it recovered.
pub fn read_journal(path: &str) -> i32 {
    let path = std::path::Path::new(path);
    let (batches, error) = fjall::verif_hooks::read_journal(path);

    let stdout = std::io::stdout();
    let mut out = stdout.lock();

    for (seqno, items, clears) in &batches {
        let items_s = if items.is_empty() {
            "-".to_string()
        } else {
            items
                .iter()
                .map(|(ksid, k, v, vt)| format!("{ksid}:{vt}:{}:{}", hex(k), hex(v)))
                .collect::<Vec<_>>()
                .join(",")
        };
        let clears_s = if clears.is_empty() {
            "-".to_string()
        } else {
            clears
                .iter()
                .map(u64::to_string)
                .collect::<Vec<_>>()
                .join(",")
        };
        let _ = writeln!(out, "batch {seqno} {items_s} | {clears_s}");
    }

    match &error {
        None => {
            let _ = writeln!(out, "end ok");
        }
        Some(e) => {
            let _ = writeln!(out, "end err {}", err_name_from_debug(e));
        }
    }

    // File length *after* the reader ran (it may have truncated a corrupt tail).
    match std::fs::metadata(path) {
        Ok(m) => {
            let _ = writeln!(out, "len {}", m.len());
        }
        Err(_) => {
            let _ = writeln!(out, "len -");
        }
    }
    let _ = out.flush();
    0
}

/// `fjv readcuts <journal-file> <scratch-file>`: stdin lines `<m> <pad>`; for each, writes the first `m`
/// bytes of the journal followed by `pad` zero bytes to the scratch file, runs the real reader on it and
/// prints the `readjournal` lines followed by `--`.
pub fn read_cuts(journal: &str, scratch: &str) -> i32 {
    let Ok(data) = std::fs::read(journal) else {
        eprintln!("cannot read {journal}");
        return 2;
    };
    let stdin = std::io::stdin();
    for line in stdin.lock().lines() {
        let Ok(line) = line else { break };
        let toks: Vec<&str> = line.split(' ').filter(|t| !t.is_empty()).collect();
        let (m, pad, alter) = match toks.as_slice() {
            [m, pad] => (m, pad, None),
            [m, pad, off, val] => (m, pad, Some((off, val))),
            _ => continue,
        };
        let (Ok(m), Ok(pad)) = (m.parse::<usize>(), pad.parse::<usize>()) else {
            continue;
        };
        let m = m.min(data.len());
        let mut buf = Vec::with_capacity(m + pad);
        buf.extend_from_slice(&data[..m]);
        buf.resize(m + pad, 0);
        if let Some((off, val)) = alter {
            if let (Ok(off), Ok(val)) = (off.parse::<usize>(), val.parse::<u8>()) {
                if let Some(b) = buf.get_mut(off) {
                    *b = val;
                }
            }
        }
        if std::fs::write(scratch, &buf).is_err() {
            eprintln!("cannot write {scratch}");
            return 2;
        }
        read_journal(scratch);
        let stdout = std::io::stdout();
        let mut out = stdout.lock();
        let _ = writeln!(out, "--");
        let _ = out.flush();
    }
    0
}

#[cfg(test)]
mod tests {
    use super::*;

    #[test]
    fn oracle_roundtrip() {
        assert_eq!(answer("h -"), xxhash_rust::xxh3::xxh3_64(b"").to_string());
        let c = answer("c 6161616161616161616161616161616161616161");
        assert_ne!(c, "err");
        let d = answer(&format!("d 20 {c}"));
        assert_eq!(d, "ok 6161616161616161616161616161616161616161");
        assert_eq!(answer(&format!("d 19 {c}")), "err");
        assert_eq!(answer("x"), "err");
    }
}
