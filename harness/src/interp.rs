//! The program interpreter: one [`Interp::exec`] call per program line.
//!
//! Design notes
//! * All named objects (database, keyspace handles, snapshots, iterators,
//!   transactions) live in [`State`] behind one mutex. The mutex is only held
//!   to look names up / (un)bind them — never while a database call runs, so a
//!   thread that is parked inside fjall at a pause point does not stop the main
//!   thread from running further operations.
//! * Handles that are `Clone` (database, keyspaces, snapshots) are cloned out
//!   of the state for the duration of a call; transactions and iterators are
//!   not clonable and live in their own `Arc<Mutex<…>>` slot.
//! * Every database error is mapped to `err <E>`; panics are caught.

use crate::pause::PauseCtl;
use crate::util::{err, hex, kv, panic_text, unhex};
use fjall::compaction::filter::{
    CompactionFilter, CompactionFilterResult, Context, Factory, ItemAccessor, Verdict,
};
use fjall::config::{
    BlockSizePolicy, BloomConstructionPolicy, CompressionPolicy, FilterPolicy, FilterPolicyEntry,
    HashRatioPolicy, PartitioningPolicy, PinningPolicy, RestartIntervalPolicy,
};
use fjall::{
    AbstractTree, CompressionType, Database, Guard, Iter, Keyspace, KeyspaceCreateOptions,
    KvSeparationOptions, OptimisticTxDatabase, OptimisticTxKeyspace, OptimisticWriteTx,
    PersistMode, Readable, SingleWriterTxDatabase, SingleWriterTxKeyspace, SingleWriterWriteTx,
    Slice, Snapshot, UserValue,
};
use std::collections::HashMap;
use std::ops::Bound;
use std::panic::{catch_unwind, AssertUnwindSafe};
use std::path::PathBuf;
use std::sync::{Arc, Mutex, MutexGuard};
use std::time::Duration;

// ---------------------------------------------------------------------------
// Results
// ---------------------------------------------------------------------------

/// Why an operation did not produce a normal result.
pub enum Fail {
    /// Unknown handle / view / iterator / transaction name.
    BadRef,
    /// Unknown operation or malformed arguments.
    BadOp,
    /// A database call returned an error.
    Db(fjall::Error),
    /// Pre-rendered result (`err busy`, `err notx`, …).
    Msg(&'static str),
}

impl From<fjall::Error> for Fail {
    fn from(e: fjall::Error) -> Self {
        Fail::Db(e)
    }
}

type R = Result<String, Fail>;

fn ok() -> R {
    Ok("ok".into())
}

fn render(r: R) -> String {
    match r {
        Ok(s) => s,
        Err(Fail::BadRef) => "badref".into(),
        Err(Fail::BadOp) => "badop".into(),
        Err(Fail::Db(e)) => err(&e),
        Err(Fail::Msg(m)) => m.into(),
    }
}

fn opt_value(v: Option<UserValue>) -> String {
    match v {
        Some(v) => format!("some {}", hex(&v)),
        None => "none".into(),
    }
}

fn opt_guard(g: Option<Guard>) -> R {
    match g {
        Some(g) => Ok(format!("some {}", guard_kv(g)?)),
        None => Ok("none".into()),
    }
}

fn guard_kv(g: Guard) -> Result<String, Fail> {
    let (k, v) = g.into_inner()?;
    Ok(kv(&k, &v))
}

fn opt_seqno(s: Option<u64>) -> String {
    s.map_or_else(|| "-".to_string(), |x| x.to_string())
}

// ---------------------------------------------------------------------------
// Open configuration
// ---------------------------------------------------------------------------

#[derive(Clone, Copy, PartialEq, Eq, Debug)]
enum Mode {
    Plain,
    Sw,
    Occ,
}

impl Mode {
    fn parse(s: &str) -> Option<Self> {
        match s {
            "plain" => Some(Self::Plain),
            "sw" => Some(Self::Sw),
            "occ" => Some(Self::Occ),
            _ => None,
        }
    }
}

/// Remembered `open` configuration (re-used by `reopen`).
#[derive(Clone)]
struct OpenCfg {
    mode: Mode,
    workers: usize,
    lz4: bool,
    manual: bool,
    cache: Option<u64>,
    /// (keyspace name, rule string, parsed rules)
    filters: Vec<(String, String, Vec<Rule>)>,
}

impl OpenCfg {
    fn new(mode: Mode) -> Self {
        Self {
            mode,
            workers: 0,
            lz4: true,
            manual: false,
            cache: None,
            filters: vec![],
        }
    }

    /// Applies `key=value` option tokens.
    fn apply(&mut self, toks: &[&str]) -> Result<(), Fail> {
        for t in toks {
            let (k, v) = t.split_once('=').ok_or(Fail::BadOp)?;
            match k {
                "workers" => self.workers = v.parse().map_err(|_| Fail::BadOp)?,
                "jcomp" => {
                    self.lz4 = match v {
                        "lz4" => true,
                        "none" => false,
                        _ => return Err(Fail::BadOp),
                    }
                }
                "manual" => self.manual = parse_flag(v)?,
                "cache" => self.cache = Some(v.parse().map_err(|_| Fail::BadOp)?),
                "filters" => {
                    self.filters.clear();
                    if v != "-" && !v.is_empty() {
                        for part in v.split(';') {
                            // The rule itself may contain ':' (p-rules), so only
                            // the first ':' separates name and rule.
                            let (name, rule) = part.split_once(':').ok_or(Fail::BadOp)?;
                            let parsed = parse_rules(rule).ok_or(Fail::BadOp)?;
                            self.filters
                                .push((name.to_string(), rule.to_string(), parsed));
                        }
                    }
                }
                _ => return Err(Fail::BadOp),
            }
        }
        Ok(())
    }
}

fn parse_flag(v: &str) -> Result<bool, Fail> {
    match v {
        "0" => Ok(false),
        "1" => Ok(true),
        _ => Err(Fail::BadOp),
    }
}

// ---------------------------------------------------------------------------
// Compaction filters
// ---------------------------------------------------------------------------

#[derive(Clone, Debug)]
enum Rule {
    /// `r<2 hex>`: keys starting with that byte → `Verdict::Remove`
    Remove(u8),
    /// `p<2 hex>:<valhex>`: keys starting with that byte → `Verdict::ReplaceValue`
    Replace(u8, Vec<u8>),
}

fn parse_rules(s: &str) -> Option<Vec<Rule>> {
    let mut out = vec![];
    for part in s.split(',') {
        let (kind, rest) = part.split_at_checked(1)?;
        match kind {
            "r" => {
                let b = unhex(rest)?;
                if b.len() != 1 {
                    return None;
                }
                out.push(Rule::Remove(b[0]));
            }
            "p" => {
                let (first, val) = rest.split_once(':')?;
                let b = unhex(first)?;
                if b.len() != 1 {
                    return None;
                }
                out.push(Rule::Replace(b[0], unhex(val)?));
            }
            _ => return None,
        }
    }
    Some(out)
}

/// Factory named after its rule string.
struct RuleFactory {
    name: String,
    rules: Vec<Rule>,
}

impl Factory for RuleFactory {
    fn name(&self) -> &str {
        &self.name
    }

    fn make_filter(&self, _ctx: &Context) -> Box<dyn CompactionFilter> {
        Box::new(RuleFilter {
            rules: self.rules.clone(),
        })
    }
}

struct RuleFilter {
    rules: Vec<Rule>,
}

impl CompactionFilter for RuleFilter {
    fn filter_item(&mut self, item: ItemAccessor<'_>, _ctx: &Context) -> CompactionFilterResult {
        let Some(first) = item.key().first().copied() else {
            return Ok(Verdict::Keep);
        };
        for r in &self.rules {
            match r {
                Rule::Remove(b) if *b == first => return Ok(Verdict::Remove),
                Rule::Replace(b, v) if *b == first => {
                    return Ok(Verdict::ReplaceValue(Slice::from(&v[..])))
                }
                _ => {}
            }
        }
        Ok(Verdict::Keep)
    }
}

type Assigner = Arc<dyn Fn(&str) -> Option<Arc<dyn Factory>> + Send + Sync>;

fn make_assigner(filters: &[(String, String, Vec<Rule>)]) -> Assigner {
    let map: HashMap<String, Arc<dyn Factory>> = filters
        .iter()
        .map(|(ks, rule, parsed)| {
            let f: Arc<dyn Factory> = Arc::new(RuleFactory {
                name: rule.clone(),
                rules: parsed.clone(),
            });
            (ks.clone(), f)
        })
        .collect();
    Arc::new(move |name: &str| map.get(name).cloned())
}

// ---------------------------------------------------------------------------
// Database / keyspace / transaction wrappers over the three modes
// ---------------------------------------------------------------------------

#[derive(Clone)]
enum Db {
    Plain(Database),
    Sw(SingleWriterTxDatabase),
    Occ(OptimisticTxDatabase),
}

impl Db {
    /// The plain database behind every mode (for everything non-transactional).
    fn inner(&self) -> &Database {
        match self {
            Db::Plain(d) => d,
            Db::Sw(d) => d.inner(),
            Db::Occ(d) => d.inner(),
        }
    }
}

#[derive(Clone)]
enum Ks {
    Plain(Keyspace),
    Sw(SingleWriterTxKeyspace),
    Occ(OptimisticTxKeyspace),
}

impl Ks {
    fn inner(&self) -> &Keyspace {
        match self {
            Ks::Plain(k) => k,
            Ks::Sw(k) => k.inner(),
            Ks::Occ(k) => k.inner(),
        }
    }
}

/// Counts interpreter-side users of the single-writer lock (open `sw`
/// transactions plus in-flight single-operation helpers). Synchronous
/// operations that would need the lock answer `err busy` while it is > 0
/// instead of dead-locking the interpreter.
#[derive(Clone, Default)]
struct SwLockCount(Arc<Mutex<usize>>);

impl SwLockCount {
    /// Registers a new user. `may_block` = the caller is an asynchronous
    /// `thread … &` line, which is allowed to really block on the lock.
    fn acquire(&self, may_block: bool) -> Result<SwHold, Fail> {
        let mut n = self.0.lock().unwrap_or_else(|e| e.into_inner());
        if *n > 0 && !may_block {
            return Err(Fail::Msg("err busy"));
        }
        *n += 1;
        Ok(SwHold(self.0.clone()))
    }
}

/// RAII registration in [`SwLockCount`].
struct SwHold(Arc<Mutex<usize>>);

impl Drop for SwHold {
    fn drop(&mut self) {
        let mut n = self.0.lock().unwrap_or_else(|e| e.into_inner());
        *n = n.saturating_sub(1);
    }
}

/// An open single-writer transaction.
///
/// `SingleWriterWriteTx<'a>` borrows the database handle it was created from
/// (it holds a `MutexGuard` of the single-writer lock). To keep it in the
/// interpreter state next to the database we box a clone of the database
/// handle and extend the borrow to `'static`.
struct SwTx {
    // Field order = drop order: the transaction (and its guard) first …
    tx: SingleWriterWriteTx<'static>,
    // … then the handle that owns the mutex the guard points into …
    _db: Box<SingleWriterTxDatabase>,
    // … and only then the interpreter-side registration.
    _hold: SwHold,
}

// SAFETY: the only non-`Send` part is the `std::sync::MutexGuard` inside the
// transaction. The harness only runs on Linux where std's mutex is futex based
// and has no notion of an owning thread, so unlocking on another thread is
// fine. Access is serialised by the slot mutex the `SwTx` is stored in.
#[allow(unsafe_code)]
unsafe impl Send for SwTx {}

impl SwTx {
    fn begin(db: &SingleWriterTxDatabase, hold: SwHold) -> Self {
        let boxed = Box::new(db.clone());
        // SAFETY: `boxed` is heap allocated, never moved out of the box, and is
        // dropped strictly after `tx` (field order above / explicit order in
        // `finish`), so the reference outlives every use by the transaction.
        #[allow(unsafe_code)]
        let db_ref: &'static SingleWriterTxDatabase =
            unsafe { &*std::ptr::from_ref::<SingleWriterTxDatabase>(&*boxed) };
        let tx = db_ref.write_tx();
        Self {
            tx,
            _db: boxed,
            _hold: hold,
        }
    }

    /// Consumes the transaction with `f` (commit / rollback / drop) and only
    /// afterwards lets go of the database handle and the lock registration.
    fn finish<T>(self, f: impl FnOnce(SingleWriterWriteTx<'static>) -> T) -> T {
        let SwTx { tx, _db, _hold } = self;
        let r = f(tx);
        drop(_db);
        drop(_hold);
        r
    }
}

enum Tx {
    Sw(SwTx),
    Occ(OptimisticWriteTx),
}

type TxSlot = Arc<Mutex<Option<Tx>>>;
type IterSlot = Arc<Mutex<Iter>>;

// ---------------------------------------------------------------------------
// Parsed operation pieces
// ---------------------------------------------------------------------------

enum View {
    Latest,
    Snap(Snapshot),
    Tx(TxSlot),
}

enum Dir {
    Fwd,
    Rev,
    /// Cyclic pattern of `f` (next) / `b` (next_back).
    Zip(Vec<u8>),
}

impl Dir {
    fn parse(s: &str) -> Result<Self, Fail> {
        match s {
            "fwd" => Ok(Dir::Fwd),
            "rev" => Ok(Dir::Rev),
            _ => {
                let p = s.strip_prefix("zip:").ok_or(Fail::BadOp)?;
                if p.is_empty() || !p.bytes().all(|c| c == b'f' || c == b'b') {
                    return Err(Fail::BadOp);
                }
                Ok(Dir::Zip(p.as_bytes().to_vec()))
            }
        }
    }
}

enum RangeSpec {
    All,
    Prefix(Vec<u8>),
    Range(Bound<Vec<u8>>, Bound<Vec<u8>>),
}

impl RangeSpec {
    fn parse(s: &str) -> Result<Self, Fail> {
        if s == "all" {
            return Ok(RangeSpec::All);
        }
        if let Some(p) = s.strip_prefix("prefix:") {
            return Ok(RangeSpec::Prefix(unhex(p).ok_or(Fail::BadOp)?));
        }
        if let Some(r) = s.strip_prefix("range:") {
            let (lo, hi) = r.split_once(':').ok_or(Fail::BadOp)?;
            return Ok(RangeSpec::Range(parse_bound(lo)?, parse_bound(hi)?));
        }
        Err(Fail::BadOp)
    }
}

fn parse_bound(s: &str) -> Result<Bound<Vec<u8>>, Fail> {
    if s == "*" {
        return Ok(Bound::Unbounded);
    }
    if let Some(h) = s.strip_prefix('[') {
        return Ok(Bound::Included(unhex(h).ok_or(Fail::BadOp)?));
    }
    if let Some(h) = s.strip_prefix('(') {
        return Ok(Bound::Excluded(unhex(h).ok_or(Fail::BadOp)?));
    }
    Err(Fail::BadOp)
}

enum ReadOp {
    Get(Vec<u8>),
    Has(Vec<u8>),
    Size(Vec<u8>),
    First,
    Last,
    Len,
    Empty,
    Scan(Dir, RangeSpec),
}

/// The `<fn>` argument of `fu` / `uf`.
enum UpdFn {
    None,
    Set(Vec<u8>),
    App(Vec<u8>),
}

impl UpdFn {
    fn parse(s: &str) -> Result<Self, Fail> {
        if s == "none" {
            return Ok(UpdFn::None);
        }
        if let Some(h) = s.strip_prefix("set:") {
            return Ok(UpdFn::Set(unhex(h).ok_or(Fail::BadOp)?));
        }
        if let Some(h) = s.strip_prefix("app:") {
            return Ok(UpdFn::App(unhex(h).ok_or(Fail::BadOp)?));
        }
        Err(Fail::BadOp)
    }

    fn apply(&self, prev: Option<&UserValue>) -> Option<UserValue> {
        match self {
            UpdFn::None => None,
            UpdFn::Set(v) => Some(Slice::from(&v[..])),
            UpdFn::App(suffix) => {
                let mut v: Vec<u8> = prev.map(|p| p.to_vec()).unwrap_or_default();
                v.extend_from_slice(suffix);
                Some(Slice::from(&v[..]))
            }
        }
    }
}

/// Single-key write operations (shared by view `-` and `tx t<N> …`).
enum WriteOp {
    Put(Vec<u8>, Vec<u8>),
    Del(Vec<u8>),
    DelW(Vec<u8>),
    Take(Vec<u8>),
    Fu(Vec<u8>, UpdFn),
    Uf(Vec<u8>, UpdFn),
}

impl WriteOp {
    /// Parses `<op> … <k> [<v>|<fn>]` where `args` starts at `<k>`.
    fn parse(op: &str, args: &[&str]) -> Result<Self, Fail> {
        let key = || -> Result<Vec<u8>, Fail> { bytes(args, 0) };
        match (op, args.len()) {
            ("put", 2) => Ok(WriteOp::Put(key()?, bytes(args, 1)?)),
            ("del", 1) => Ok(WriteOp::Del(key()?)),
            ("delw", 1) => Ok(WriteOp::DelW(key()?)),
            ("take", 1) => Ok(WriteOp::Take(key()?)),
            ("fu", 2) => Ok(WriteOp::Fu(key()?, UpdFn::parse(args[1])?)),
            ("uf", 2) => Ok(WriteOp::Uf(key()?, UpdFn::parse(args[1])?)),
            _ => Err(Fail::BadOp),
        }
    }

    /// Needs the transactional keyspace API (not available on `plain`).
    fn is_tx_only(&self) -> bool {
        matches!(self, WriteOp::Take(_) | WriteOp::Fu(..) | WriteOp::Uf(..))
    }
}

fn arg<'a>(toks: &[&'a str], i: usize) -> Result<&'a str, Fail> {
    toks.get(i).copied().ok_or(Fail::BadOp)
}

fn bytes(toks: &[&str], i: usize) -> Result<Vec<u8>, Fail> {
    unhex(arg(toks, i)?).ok_or(Fail::BadOp)
}

fn exact(toks: &[&str], n: usize) -> Result<(), Fail> {
    if toks.len() == n {
        Ok(())
    } else {
        Err(Fail::BadOp)
    }
}

fn parse_persist(s: &str) -> Result<PersistMode, Fail> {
    match s {
        "buffer" => Ok(PersistMode::Buffer),
        "data" => Ok(PersistMode::SyncData),
        "all" => Ok(PersistMode::SyncAll),
        _ => Err(Fail::BadOp),
    }
}

// ---------------------------------------------------------------------------
// Keyspace options (`ksx`) and their stored form (`cfg`)
// ---------------------------------------------------------------------------

/// `,`-separated list. The empty token is the empty list: the 1..255 bound is
/// the library constructors' business (they panic, the op answers `panic …`).
fn parse_list<T>(v: &str, item: impl Fn(&str) -> Result<T, Fail>) -> Result<Vec<T>, Fail> {
    if v.is_empty() {
        return Ok(vec![]);
    }
    v.split(',').map(item).collect()
}

fn parse_num<T: std::str::FromStr>(s: &str) -> Result<T, Fail> {
    // `parse` would also take a leading `+`
    if s.is_empty() || !s.bytes().all(|c| c.is_ascii_digit()) {
        return Err(Fail::BadOp);
    }
    s.parse().map_err(|_| Fail::BadOp)
}

/// f32 written as 8 hex digits = its IEEE bit pattern (NaN payloads are exact).
fn parse_f32_bits(s: &str) -> Result<f32, Fail> {
    if s.len() != 8 || !s.bytes().all(|c| c.is_ascii_hexdigit()) {
        return Err(Fail::BadOp);
    }
    u32::from_str_radix(s, 16)
        .map(f32::from_bits)
        .map_err(|_| Fail::BadOp)
}

fn parse_compression(s: &str) -> Result<CompressionType, Fail> {
    match s {
        "none" => Ok(CompressionType::None),
        "lz4" => Ok(CompressionType::Lz4),
        _ => Err(Fail::BadOp),
    }
}

/// `n` | `b<f32 bits>` (bloom, bits per key) | `f<f32 bits>` (bloom, false positive rate)
fn parse_filter_entry(s: &str) -> Result<FilterPolicyEntry, Fail> {
    if s == "n" {
        return Ok(FilterPolicyEntry::None);
    }
    let (kind, bits) = s.split_at_checked(1).ok_or(Fail::BadOp)?;
    let x = parse_f32_bits(bits)?;
    match kind {
        "b" => Ok(FilterPolicyEntry::Bloom(BloomConstructionPolicy::BitsPerKey(x))),
        "f" => Ok(FilterPolicyEntry::Bloom(
            BloomConstructionPolicy::FalsePositiveRate(x),
        )),
        _ => Err(Fail::BadOp),
    }
}

/// One parsed `key=value` of `ksx`.
enum KsOpt {
    Mt(u64),
    ManualP(bool),
    Eprh(bool),
    Dbs(Vec<u32>),
    Dbri(Vec<u8>),
    Dbhr(Vec<f32>),
    IbPin(Vec<bool>),
    FbPin(Vec<bool>),
    IbPart(Vec<bool>),
    FbPart(Vec<bool>),
    Dbc(Vec<CompressionType>),
    Ibc(Vec<CompressionType>),
    Fp(Vec<FilterPolicyEntry>),
    /// l0 threshold, table target size, level ratios
    Lev(u8, u64, Vec<f32>),
    /// limit, ttl seconds
    Fifo(u64, Option<u64>),
    /// separation threshold, file target size, staleness threshold, age cutoff, compression
    Blob(u32, u64, f32, f32, CompressionType),
}

impl KsOpt {
    fn parse(k: &str, v: &str) -> Result<Self, Fail> {
        Ok(match k {
            "mt" => KsOpt::Mt(parse_num(v)?),
            "manualp" => KsOpt::ManualP(parse_flag(v)?),
            "eprh" => KsOpt::Eprh(parse_flag(v)?),
            "dbs" => KsOpt::Dbs(parse_list(v, parse_num)?),
            "dbri" => KsOpt::Dbri(parse_list(v, parse_num)?),
            "dbhr" => KsOpt::Dbhr(parse_list(v, parse_f32_bits)?),
            "ibpin" => KsOpt::IbPin(parse_list(v, parse_flag)?),
            "fbpin" => KsOpt::FbPin(parse_list(v, parse_flag)?),
            "ibpart" => KsOpt::IbPart(parse_list(v, parse_flag)?),
            "fbpart" => KsOpt::FbPart(parse_list(v, parse_flag)?),
            "dbc" => KsOpt::Dbc(parse_list(v, parse_compression)?),
            "ibc" => KsOpt::Ibc(parse_list(v, parse_compression)?),
            "fp" => KsOpt::Fp(parse_list(v, parse_filter_entry)?),
            "lev" => {
                let p: Vec<&str> = v.split(':').collect();
                let [l0, target, ratios] = p.as_slice() else {
                    return Err(Fail::BadOp);
                };
                KsOpt::Lev(
                    parse_num(l0)?,
                    parse_num(target)?,
                    parse_list(ratios, parse_f32_bits)?,
                )
            }
            "fifo" => {
                let (limit, ttl) = v.split_once(':').ok_or(Fail::BadOp)?;
                let ttl = if ttl == "-" {
                    None
                } else {
                    Some(parse_num(ttl)?)
                };
                KsOpt::Fifo(parse_num(limit)?, ttl)
            }
            "blob" => {
                let p: Vec<&str> = v.split(':').collect();
                let [thr, target, stale, age, comp] = p.as_slice() else {
                    return Err(Fail::BadOp);
                };
                KsOpt::Blob(
                    parse_num(thr)?,
                    parse_num(target)?,
                    parse_f32_bits(stale)?,
                    parse_f32_bits(age)?,
                    parse_compression(comp)?,
                )
            }
            _ => return Err(Fail::BadOp),
        })
    }

    /// Calls the setter (the policy constructors may panic on the value).
    fn apply(self, o: KeyspaceCreateOptions) -> KeyspaceCreateOptions {
        match self {
            KsOpt::Mt(b) => o.max_memtable_size(b),
            KsOpt::ManualP(f) => o.manual_journal_persist(f),
            KsOpt::Eprh(f) => o.expect_point_read_hits(f),
            KsOpt::Dbs(v) => o.data_block_size_policy(BlockSizePolicy::new(v)),
            KsOpt::Dbri(v) => o.data_block_restart_interval_policy(RestartIntervalPolicy::new(v)),
            KsOpt::Dbhr(v) => o.data_block_hash_ratio_policy(HashRatioPolicy::new(v)),
            KsOpt::IbPin(v) => o.index_block_pinning_policy(PinningPolicy::new(v)),
            KsOpt::FbPin(v) => o.filter_block_pinning_policy(PinningPolicy::new(v)),
            KsOpt::IbPart(v) => o.index_block_partitioning_policy(PartitioningPolicy::new(v)),
            KsOpt::FbPart(v) => o.filter_block_partitioning_policy(PartitioningPolicy::new(v)),
            KsOpt::Dbc(v) => o.data_block_compression_policy(CompressionPolicy::new(v)),
            KsOpt::Ibc(v) => o.index_block_compression_policy(CompressionPolicy::new(v)),
            KsOpt::Fp(v) => o.filter_policy(FilterPolicy::new(v)),
            KsOpt::Lev(l0, target, ratios) => o.compaction_strategy(Arc::new(
                fjall::compaction::Leveled::default()
                    .with_l0_threshold(l0)
                    .with_table_target_size(target)
                    .with_level_ratio_policy(ratios),
            )),
            KsOpt::Fifo(limit, ttl) => {
                o.compaction_strategy(Arc::new(fjall::compaction::Fifo::new(limit, ttl)))
            }
            KsOpt::Blob(thr, target, stale, age, comp) => o.with_kv_separation(Some(
                KvSeparationOptions::default()
                    .separation_threshold(thr)
                    .file_target_size(target)
                    .staleness_threshold(stale)
                    .age_cutoff(age)
                    .compression(comp),
            )),
        }
    }
}

/// `cfg <h>`: the stored option form, rows sorted by name, then `kvsep=<0|1>`.
fn cfg_dump(ks: &Keyspace) -> String {
    // Row key = 'c' ++ 8-byte big-endian keyspace id ++ ASCII name.
    const PREFIX: usize = 1 + std::mem::size_of::<u64>();
    let mut rows: Vec<(String, String)> = ks
        .verif_config_dump()
        .into_iter()
        .map(|(k, v)| {
            let name = k.get(PREFIX..).unwrap_or_default();
            (String::from_utf8_lossy(name).into_owned(), hex(&v))
        })
        .collect();
    rows.sort();
    let mut out: Vec<String> = rows.into_iter().map(|(n, v)| format!("{n}={v}")).collect();
    out.push(format!("kvsep={}", u8::from(ks.is_kv_separated())));
    out.join(",")
}

// ---------------------------------------------------------------------------
// Generic read paths
// ---------------------------------------------------------------------------

fn as_range(lo: &Bound<Vec<u8>>, hi: &Bound<Vec<u8>>) -> (Bound<Vec<u8>>, Bound<Vec<u8>>) {
    (lo.clone(), hi.clone())
}

/// Opens an iterator through a `Readable` (snapshot or write transaction).
fn iter_via<T: Readable>(r: &T, ks: &Keyspace, range: &RangeSpec) -> Iter {
    match range {
        RangeSpec::All => r.iter(ks),
        RangeSpec::Prefix(p) => r.prefix(ks, p),
        RangeSpec::Range(lo, hi) => r.range::<Vec<u8>, _>(ks, as_range(lo, hi)),
    }
}

/// Opens an iterator through the keyspace API (view `-`).
fn iter_latest(ks: &Keyspace, range: &RangeSpec) -> Iter {
    match range {
        RangeSpec::All => ks.iter(),
        RangeSpec::Prefix(p) => ks.prefix(p),
        RangeSpec::Range(lo, hi) => ks.range::<Vec<u8>, _>(as_range(lo, hi)),
    }
}

/// Drives an iterator to exhaustion in the requested direction pattern.
fn run_scan(mut it: Iter, dir: &Dir) -> R {
    let mut out: Vec<String> = vec![];
    match dir {
        Dir::Fwd => {
            for g in it {
                out.push(guard_kv(g)?);
            }
        }
        Dir::Rev => {
            while let Some(g) = it.next_back() {
                out.push(guard_kv(g)?);
            }
        }
        Dir::Zip(pattern) => {
            let mut i = 0usize;
            loop {
                let g = if pattern[i % pattern.len()] == b'f' {
                    it.next()
                } else {
                    it.next_back()
                };
                // A double-ended iterator answers None from both ends once
                // they met, so the first None ends the scan.
                let Some(g) = g else { break };
                out.push(guard_kv(g)?);
                i += 1;
            }
        }
    }
    if out.is_empty() {
        Ok("-".into())
    } else {
        Ok(out.join(","))
    }
}

/// Read through a snapshot or a write transaction (`Readable` trait methods).
fn read_via<T: Readable>(r: &T, ks: &Keyspace, op: &ReadOp) -> R {
    match op {
        ReadOp::Get(k) => Ok(opt_value(r.get(ks, k)?)),
        ReadOp::Has(k) => Ok(r.contains_key(ks, k)?.to_string()),
        ReadOp::Size(k) => Ok(match r.size_of(ks, k)? {
            Some(n) => format!("some {n}"),
            None => "none".into(),
        }),
        ReadOp::First => opt_guard(r.first_key_value(ks)),
        ReadOp::Last => opt_guard(r.last_key_value(ks)),
        ReadOp::Len => Ok(r.len(ks)?.to_string()),
        ReadOp::Empty => Ok(r.is_empty(ks)?.to_string()),
        ReadOp::Scan(dir, range) => run_scan(iter_via(r, ks, range), dir),
    }
}

/// Read with view `-`: the keyspace's own methods (tx keyspaces use their own
/// wrappers where they have them, otherwise `inner()`).
fn read_latest(ks: &Ks, op: &ReadOp) -> R {
    match op {
        ReadOp::Get(k) => Ok(opt_value(match ks {
            Ks::Plain(x) => x.get(k)?,
            Ks::Sw(x) => x.get(k)?,
            Ks::Occ(x) => x.get(k)?,
        })),
        ReadOp::Has(k) => Ok(match ks {
            Ks::Plain(x) => x.contains_key(k)?,
            Ks::Sw(x) => x.contains_key(k)?,
            Ks::Occ(x) => x.contains_key(k)?,
        }
        .to_string()),
        ReadOp::Size(k) => Ok(
            match match ks {
                Ks::Plain(x) => x.size_of(k)?,
                Ks::Sw(x) => x.size_of(k)?,
                Ks::Occ(x) => x.size_of(k)?,
            } {
                Some(n) => format!("some {n}"),
                None => "none".into(),
            },
        ),
        ReadOp::First => opt_guard(match ks {
            Ks::Plain(x) => x.first_key_value(),
            Ks::Sw(x) => x.first_key_value(),
            Ks::Occ(x) => x.first_key_value(),
        }),
        ReadOp::Last => opt_guard(match ks {
            Ks::Plain(x) => x.last_key_value(),
            Ks::Sw(x) => x.last_key_value(),
            Ks::Occ(x) => x.last_key_value(),
        }),
        // The tx keyspace types have no len / is_empty / iterators of their own.
        ReadOp::Len => Ok(ks.inner().len()?.to_string()),
        ReadOp::Empty => Ok(ks.inner().is_empty()?.to_string()),
        ReadOp::Scan(dir, range) => run_scan(iter_latest(ks.inner(), range), dir),
    }
}

// ---------------------------------------------------------------------------
// Interpreter state
// ---------------------------------------------------------------------------

#[derive(Default)]
struct State {
    cfg: Option<OpenCfg>,
    db: Option<Db>,
    ks: HashMap<String, Ks>,
    snaps: HashMap<String, Snapshot>,
    iters: HashMap<String, IterSlot>,
    txs: HashMap<String, TxSlot>,
}

impl State {
    fn db(&self) -> Result<Db, Fail> {
        self.db.clone().ok_or(Fail::Msg("err nodb"))
    }

    fn ks(&self, h: &str) -> Result<Ks, Fail> {
        self.ks.get(h).cloned().ok_or(Fail::BadRef)
    }

    fn view(&self, v: &str) -> Result<View, Fail> {
        if v == "-" {
            return Ok(View::Latest);
        }
        if v.starts_with('s') {
            return self
                .snaps
                .get(v)
                .cloned()
                .map(View::Snap)
                .ok_or(Fail::BadRef);
        }
        if v.starts_with('t') {
            return self.txs.get(v).cloned().map(View::Tx).ok_or(Fail::BadRef);
        }
        Err(Fail::BadRef)
    }
}

/// Everything `reopen` / `close` has to drop, in the order the spec demands.
struct Teardown {
    snaps: Vec<Snapshot>,
    iters: Vec<IterSlot>,
    txs: Vec<TxSlot>,
    ks: Vec<Ks>,
    db: Option<Db>,
}

impl Teardown {
    fn run(self) {
        let Teardown {
            snaps,
            iters,
            txs,
            ks,
            db,
        } = self;
        drop(snaps); // views
        drop(iters); // iterators
        for slot in txs {
            // transactions: plain drop (= rollback)
            let tx = slot.lock().unwrap_or_else(|e| e.into_inner()).take();
            drop(tx);
        }
        drop(ks); // keyspace handles
        drop(db); // database handle(s)
    }
}

pub struct Interp {
    dir: PathBuf,
    st: Mutex<State>,
    sw_lock: SwLockCount,
    pauses: Arc<PauseCtl>,
}

impl Interp {
    pub fn new(dir: PathBuf) -> Self {
        Self {
            dir,
            st: Mutex::new(State::default()),
            sw_lock: SwLockCount::default(),
            pauses: Arc::new(PauseCtl::default()),
        }
    }

    pub fn pauses(&self) -> &Arc<PauseCtl> {
        &self.pauses
    }

    /// Clean end of program: drops everything in the order `close` uses.
    pub fn shutdown(&self) {
        self.teardown().run();
    }

    fn state(&self) -> MutexGuard<'_, State> {
        self.st.lock().unwrap_or_else(|e| e.into_inner())
    }

    /// Executes one operation (already split into tokens) and renders its
    /// result. `may_block` is set for asynchronous `thread … &` lines.
    pub fn exec(&self, toks: &[&str], may_block: bool) -> String {
        match catch_unwind(AssertUnwindSafe(|| self.dispatch(toks, may_block))) {
            Ok(r) => render(r),
            Err(p) => panic_text(&*p),
        }
    }

    fn dispatch(&self, toks: &[&str], may_block: bool) -> R {
        let op = arg(toks, 0)?;
        let a = &toks[1..];
        match op {
            // --- opening ---------------------------------------------------
            "open" => self.op_open(a),
            "reopen" => self.op_reopen(a),
            "close" => {
                exact(a, 0)?;
                self.teardown().run();
                ok()
            }
            // --- keyspaces -------------------------------------------------
            "ks" => self.op_ks(a),
            "ksx" => self.op_ksx(a),
            "cfg" => {
                exact(a, 1)?;
                let ks = self.state().ks(a[0])?;
                Ok(cfg_dump(ks.inner()))
            }
            "delks" => {
                exact(a, 1)?;
                let (db, ks) = self.db_ks(a[0])?;
                db.inner().delete_keyspace(ks.inner().clone())?;
                ok()
            }
            "drop" => {
                exact(a, 1)?;
                let ks = self.state().ks.remove(a[0]).ok_or(Fail::BadRef)?;
                drop(ks);
                ok()
            }
            "exists" => {
                exact(a, 1)?;
                let db = self.state().db()?;
                Ok(db.inner().keyspace_exists(a[0]).to_string())
            }
            "names" => {
                exact(a, 0)?;
                let db = self.state().db()?;
                let names = sorted_names(db.inner());
                Ok(if names.is_empty() {
                    "-".into()
                } else {
                    names.join(",")
                })
            }
            // --- writes (view `-`) -------------------------------------------
            "put" | "del" | "delw" | "take" | "fu" | "uf" => {
                let ks = self.state().ks(arg(a, 0)?)?;
                let w = WriteOp::parse(op, &a[1..])?;
                self.write_latest(&ks, &w, may_block)
            }
            "clear" => {
                exact(a, 1)?;
                let ks = self.state().ks(a[0])?;
                // The tx keyspace types have no `clear` of their own.
                ks.inner().clear()?;
                ok()
            }
            "batch" => self.op_batch(a),
            "ingest" => self.op_ingest(a),
            // `bigfill <h> <count> <kib> <tag>`: `count` plain inserts of `kib` KiB of incompressible bytes
            // under keys "bf" ++ tag ++ index (reaches the 64 MB journal rotation with real traffic)
            "bigfill" => {
                exact(a, 4)?;
                let ks = self.state().ks(a[0])?;
                let count: usize = a[1].parse().map_err(|_| Fail::BadOp)?;
                let kib: usize = a[2].parse().map_err(|_| Fail::BadOp)?;
                let tag = a[3];
                let mut x: u64 = 0x9E37_79B9_7F4A_7C15 ^ (tag.len() as u64) ^ (count as u64);
                for i in 0..count {
                    let mut v = Vec::with_capacity(kib * 1024);
                    while v.len() < kib * 1024 {
                        x ^= x << 13;
                        x ^= x >> 7;
                        x ^= x << 17;
                        v.extend_from_slice(&x.to_le_bytes());
                    }
                    let key = format!("bf{tag}{i:04}");
                    // same path as `put` (on transactional databases: the keyspace wrapper's single-operation transaction)
                    let r = self.write_latest(&ks, &WriteOp::Put(key.into_bytes(), v), may_block)?;
                    if r != "ok" {
                        return Ok(r);
                    }
                }
                ok()
            }
            "persist" => {
                exact(a, 1)?;
                let mode = parse_persist(a[0])?;
                match self.state().db()? {
                    Db::Plain(d) => d.persist(mode)?,
                    Db::Sw(d) => d.persist(mode)?,
                    Db::Occ(d) => d.persist(mode)?,
                }
                ok()
            }
            // --- reads -------------------------------------------------------
            "get" | "has" | "size" => {
                exact(a, 3)?;
                let k = bytes(a, 2)?;
                let rop = match op {
                    "get" => ReadOp::Get(k),
                    "has" => ReadOp::Has(k),
                    _ => ReadOp::Size(k),
                };
                self.read(a[0], a[1], &rop)
            }
            "first" | "last" | "len" | "empty" => {
                exact(a, 2)?;
                let rop = match op {
                    "first" => ReadOp::First,
                    "last" => ReadOp::Last,
                    "len" => ReadOp::Len,
                    _ => ReadOp::Empty,
                };
                self.read(a[0], a[1], &rop)
            }
            "scan" => {
                exact(a, 4)?;
                let rop = ReadOp::Scan(Dir::parse(a[2])?, RangeSpec::parse(a[3])?);
                self.read(a[0], a[1], &rop)
            }
            // --- views -------------------------------------------------------
            "snap" => self.op_snap(a),
            "it" => self.op_it(a),
            "tx" => self.op_tx(a, may_block),
            // --- maintenance / introspection ---------------------------------
            "rotate" => {
                exact(a, 1)?;
                let ks = self.state().ks(a[0])?;
                Ok(ks.inner().rotate_memtable()?.to_string())
            }
            "step" => {
                // `step` may carry a hint token (used by the model side only); it is ignored here
                let db = self.state().db()?;
                let before = db.inner().seqno();
                Ok(match db.inner().verif_step()? {
                    None => "none".into(),
                    Some(d) => {
                        // a `*` marks a step during which some tree changed its version
                        // (a seqno was drawn): a flush that registered tables, a compaction that ran
                        let star = if db.inner().seqno() != before { "*" } else { "" };
                        format!("{}{star}", step_kind(&d))
                    }
                })
            }
            "drain" => {
                let db = self.state().db()?;
                let mut kinds: Vec<String> = vec![];
                while kinds.len() < 200 && db.inner().verif_queue_len() > 0 {
                    let before = db.inner().seqno();
                    let Some(d) = db.inner().verif_step()? else {
                        break;
                    };
                    let star = if db.inner().seqno() != before { "*" } else { "" };
                    kinds.push(format!("{}{star}", step_kind(&d)));
                }
                Ok(if kinds.is_empty() {
                    "-".to_string()
                } else {
                    kinds.join(",")
                })
            }
            "major" => {
                exact(a, 1)?;
                let ks = self.state().ks(a[0])?;
                ks.inner().major_compact()?;
                ok()
            }
            "gc" | "pullup" => {
                exact(a, 0)?;
                let db = self.state().db()?;
                db.inner().verif_tracker_gc(op == "pullup");
                ok()
            }
            "info" => {
                exact(a, 0)?;
                let db = self.state().db()?;
                let d = db.inner();
                let (open, wm) = d.verif_tracker_info();
                Ok(format!(
                    "seqno={} visible={} journals={} queue={} open={} wm={} poisoned={}",
                    d.seqno(),
                    d.visible_seqno(),
                    d.journal_count(),
                    d.verif_queue_len(),
                    open,
                    wm,
                    u8::from(d.verif_is_poisoned()),
                ))
            }
            "journals" => {
                // number of journal files the journal manager tracks (sealed + the active one): compared with the model
                exact(a, 0)?;
                let db = self.state().db()?;
                Ok(format!("{}", db.inner().journal_count()))
            }
            "seqnos" => {
                exact(a, 1)?;
                let ks = self.state().ks(a[0])?;
                let t = &ks.inner().tree;
                Ok(format!(
                    "mem={} persisted={} highest={} sealed={} tables={}",
                    opt_seqno(t.get_highest_memtable_seqno()),
                    opt_seqno(t.get_highest_persisted_seqno()),
                    opt_seqno(t.get_highest_seqno()),
                    t.sealed_memtable_count(),
                    t.table_count(),
                ))
            }
            "dump" => {
                exact(a, 0)?;
                let db = self.state().db()?;
                self.op_dump(db.inner())
            }
            "sleep" => {
                exact(a, 1)?;
                let ms: u64 = a[0].parse().map_err(|_| Fail::BadOp)?;
                std::thread::sleep(Duration::from_millis(ms));
                ok()
            }
            // Creates the file that arms the LD_PRELOAD shim (if configured).
            "arm" => {
                exact(a, 0)?;
                if let Some(p) = std::env::var_os("FJSHIM_ARM_FILE") {
                    // Best effort: the result line is `ok` either way.
                    let _ = std::fs::File::create(p);
                }
                ok()
            }
            // --- pause points --------------------------------------------------
            "pausepoint" => {
                exact(a, 3)?;
                let nth: u64 = a[1].parse().map_err(|_| Fail::BadOp)?;
                match a[2] {
                    "hold" if nth > 0 => self.pauses.arm(a[0], nth),
                    "off" => self.pauses.disarm(a[0]),
                    _ => return Err(Fail::BadOp),
                }
                ok()
            }
            "release" => {
                exact(a, 1)?;
                if self.pauses.release(a[0]) {
                    ok()
                } else {
                    Err(Fail::BadRef)
                }
            }
            "waitpause" => {
                exact(a, 1)?;
                match self.pauses.wait_held(a[0], Duration::from_secs(10)) {
                    Some(true) => ok(),
                    Some(false) => Err(Fail::Msg("err timeout")),
                    None => Err(Fail::BadRef),
                }
            }
            _ => Err(Fail::BadOp),
        }
    }

    // -----------------------------------------------------------------------
    // open / reopen / close
    // -----------------------------------------------------------------------

    /// Unbinds everything from the state and hands it back for dropping
    /// (outside the state lock).
    fn teardown(&self) -> Teardown {
        let mut st = self.state();
        Teardown {
            snaps: st.snaps.drain().map(|(_, v)| v).collect(),
            iters: st.iters.drain().map(|(_, v)| v).collect(),
            txs: st.txs.drain().map(|(_, v)| v).collect(),
            ks: st.ks.drain().map(|(_, v)| v).collect(),
            db: st.db.take(),
        }
    }

    fn op_open(&self, a: &[&str]) -> R {
        let mode = Mode::parse(arg(a, 0)?).ok_or(Fail::BadOp)?;
        let mut cfg = OpenCfg::new(mode);
        cfg.apply(&a[1..])?;
        self.open_with(cfg)
    }

    fn op_reopen(&self, a: &[&str]) -> R {
        let mut cfg = self.state().cfg.clone().ok_or(Fail::Msg("err nodb"))?;
        let mut opts = a;
        // Optional leading mode token (not in the spec, but harmless).
        if let Some(m) = a.first().and_then(|t| Mode::parse(t)) {
            cfg.mode = m;
            opts = &a[1..];
        }
        cfg.apply(opts)?;
        self.open_with(cfg)
    }

    fn open_with(&self, cfg: OpenCfg) -> R {
        // Whatever is still open goes away first (required for `reopen`; for a
        // second `open` it avoids a guaranteed `locked`).
        self.teardown().run();
        self.state().cfg = Some(cfg.clone());
        let db = self.build(&cfg)?;
        self.state().db = Some(db);
        ok()
    }

    fn build(&self, cfg: &OpenCfg) -> Result<Db, fjall::Error> {
        // The builder is generic over a trait that fjall does not export, so
        // the three instantiations are produced by a macro.
        macro_rules! build {
            ($ty:ty) => {{
                let mut b = <$ty>::builder(&self.dir)
                    .worker_threads_unchecked(cfg.workers)
                    .journal_compression(if cfg.lz4 {
                        CompressionType::Lz4
                    } else {
                        CompressionType::None
                    })
                    .manual_journal_persist(cfg.manual);
                if let Some(c) = cfg.cache {
                    b = b.cache_size(c);
                }
                if !cfg.filters.is_empty() {
                    b = b.with_compaction_filter_factories(make_assigner(&cfg.filters));
                }
                b.open()
            }};
        }
        Ok(match cfg.mode {
            Mode::Plain => Db::Plain(build!(Database)?),
            Mode::Sw => Db::Sw(build!(SingleWriterTxDatabase)?),
            Mode::Occ => Db::Occ(build!(OptimisticTxDatabase)?),
        })
    }

    // -----------------------------------------------------------------------
    // keyspaces
    // -----------------------------------------------------------------------

    fn db_ks(&self, h: &str) -> Result<(Db, Ks), Fail> {
        let st = self.state();
        Ok((st.db()?, st.ks(h)?))
    }

    fn op_ks(&self, a: &[&str]) -> R {
        let h = arg(a, 0)?;
        let name = arg(a, 1)?;

        let mut mt: Option<u64> = None;
        let mut blob: Option<u32> = None;
        let mut fifo: Option<u64> = None;
        let mut leveled: Option<u8> = None;
        let mut manualp: Option<bool> = None;
        for t in &a[2..] {
            let (k, v) = match t.split_once('=') {
                Some((k, v)) => (k, Some(v)),
                None => (*t, None),
            };
            let num = |v: Option<&str>| -> Result<u64, Fail> {
                v.ok_or(Fail::BadOp)?.parse().map_err(|_| Fail::BadOp)
            };
            match k {
                "mt" => mt = Some(num(v)?),
                // `blob` without a threshold separates every non-empty value
                // (threshold 1), which is what tiny test values need.
                "blob" => {
                    blob = Some(match v {
                        Some(_) => u32::try_from(num(v)?).map_err(|_| Fail::BadOp)?,
                        None => 1,
                    })
                }
                "fifo" => fifo = Some(num(v)?),
                "leveled" => leveled = Some(u8::try_from(num(v)?).map_err(|_| Fail::BadOp)?),
                "manualp" => manualp = Some(parse_flag(v.ok_or(Fail::BadOp)?)?),
                _ => return Err(Fail::BadOp),
            }
        }

        let make = move || {
            let mut o = KeyspaceCreateOptions::default();
            if let Some(b) = mt {
                o = o.max_memtable_size(b);
            }
            if let Some(t) = blob {
                o = o.with_kv_separation(Some(
                    KvSeparationOptions::default().separation_threshold(t),
                ));
            }
            if let Some(limit) = fifo {
                o = o.compaction_strategy(Arc::new(fjall::compaction::Fifo::new(limit, None)));
            }
            if let Some(l0) = leveled {
                o = o.compaction_strategy(Arc::new(
                    fjall::compaction::Leveled::default().with_l0_threshold(l0),
                ));
            }
            if let Some(f) = manualp {
                o = o.manual_journal_persist(f);
            }
            o
        };

        self.bind_ks(h, name, make)
    }

    /// Binds handle `h` to `db.keyspace(name, make)` (shared by `ks` / `ksx`).
    fn bind_ks(&self, h: &str, name: &str, make: impl FnOnce() -> KeyspaceCreateOptions) -> R {
        let db = self.state().db()?;
        // the options closure is a pause site of the harness itself (`harness.ks.options`): `Database::keyspace` calls it
        // only for a name that does not exist yet, at the point where it decides to create the keyspace
        let make = move || {
            fjall::verif_hooks::pause("harness.ks.options");
            make()
        };
        // Keyspace creation goes through the tx database's own `keyspace()`
        // so that the tx keyspace type is available.
        let ks = match &db {
            Db::Plain(d) => Ks::Plain(d.keyspace(name, make)?),
            Db::Sw(d) => Ks::Sw(d.keyspace(name, make)?),
            Db::Occ(d) => Ks::Occ(d.keyspace(name, make)?),
        };
        let old = self.state().ks.insert(h.to_string(), ks);
        drop(old);
        ok()
    }

    /// `ksx <h> <name> <opt>*`: like `ks`, but with the full option record.
    fn op_ksx(&self, a: &[&str]) -> R {
        let h = arg(a, 0)?;
        let name = arg(a, 1)?;

        // Syntax first: a malformed token is `badop` whatever else is on the line.
        let mut opts: Vec<KsOpt> = vec![];
        for t in &a[2..] {
            let (k, v) = t.split_once('=').ok_or(Fail::BadOp)?;
            opts.push(KsOpt::parse(k, v)?);
        }

        // The option record is built *before* `keyspace()` is called and the
        // closure only hands it over: `Database::keyspace` runs the closure
        // while it holds the keyspaces write lock, so a constructor panic
        // inside the closure (empty list, > 255 entries) would poison that
        // lock and turn every later operation into a `lock is poisoned` panic.
        // Built here the panic is reported for this op only. Keys are applied
        // in the order written (`lev` and `fifo` share one setter: last wins).
        let mut o = KeyspaceCreateOptions::default();
        for opt in opts {
            o = opt.apply(o);
        }

        self.bind_ks(h, name, move || o)
    }

    fn op_dump(&self, db: &Database) -> R {
        let names = sorted_names(db);
        if names.is_empty() {
            return Ok("-".into());
        }
        let mut parts = vec![];
        for name in names {
            // A fresh handle; the keyspace exists, so the options are unused.
            let ks = db.keyspace(&name, KeyspaceCreateOptions::default)?;
            let mut items = vec![];
            for g in ks.iter() {
                items.push(guard_kv(g)?);
            }
            parts.push(format!("{name}{{{}}}", items.join(",")));
        }
        Ok(parts.join(";"))
    }

    // -----------------------------------------------------------------------
    // writes
    // -----------------------------------------------------------------------

    /// Single-key write with view `-`, i.e. directly on the keyspace handle.
    fn write_latest(&self, ks: &Ks, w: &WriteOp, may_block: bool) -> R {
        match ks {
            Ks::Plain(k) => {
                if w.is_tx_only() {
                    return Err(Fail::Msg("err notx"));
                }
                match w {
                    WriteOp::Put(key, v) => k.insert(key, v)?,
                    WriteOp::Del(key) => k.remove(key)?,
                    WriteOp::DelW(key) => k.remove_weak(key)?,
                    _ => unreachable!("tx-only ops were rejected above"),
                }
                ok()
            }
            Ks::Sw(k) => {
                // Every helper of the sw keyspace opens a write transaction
                // internally, i.e. takes the single-writer lock.
                let _hold = self.sw_lock.acquire(may_block)?;
                match w {
                    WriteOp::Put(key, v) => k.insert(key, v).map(|()| "ok".to_string()),
                    WriteOp::Del(key) => k.remove(key).map(|()| "ok".to_string()),
                    WriteOp::DelW(key) => k.remove_weak(key).map(|()| "ok".to_string()),
                    WriteOp::Take(key) => k.take(key).map(opt_value),
                    WriteOp::Fu(key, f) => k.fetch_update(key, |p| f.apply(p)).map(opt_value),
                    WriteOp::Uf(key, f) => k.update_fetch(key, |p| f.apply(p)).map(opt_value),
                }
                .map_err(Fail::Db)
            }
            Ks::Occ(k) => match w {
                WriteOp::Put(key, v) => k.insert(key, v).map(|()| "ok".to_string()),
                WriteOp::Del(key) => k.remove(key).map(|()| "ok".to_string()),
                WriteOp::DelW(key) => k.remove_weak(key).map(|()| "ok".to_string()),
                WriteOp::Take(key) => k.take(key).map(opt_value),
                WriteOp::Fu(key, f) => k.fetch_update(key, |p| f.apply(p)).map(opt_value),
                WriteOp::Uf(key, f) => k.update_fetch(key, |p| f.apply(p)).map(opt_value),
            }
            .map_err(Fail::Db),
        }
    }

    /// `batch <dur> <item>*`
    fn op_batch(&self, a: &[&str]) -> R {
        let dur = arg(a, 0)?;
        let durability = if dur == "-" {
            None
        } else {
            Some(parse_persist(dur)?)
        };

        enum Item {
            Put(Ks, Vec<u8>, Vec<u8>),
            Del(Ks, Vec<u8>),
            DelW(Ks, Vec<u8>),
        }

        // Resolve everything first so that a bad item leaves no trace.
        let (db, items) = {
            let st = self.state();
            let db = st.db()?;
            let mut items = vec![];
            for t in &a[1..] {
                let parts: Vec<&str> = t.split(':').collect();
                let item = match parts.as_slice() {
                    [h, "p", k, v] => Item::Put(
                        st.ks(h)?,
                        unhex(k).ok_or(Fail::BadOp)?,
                        unhex(v).ok_or(Fail::BadOp)?,
                    ),
                    [h, "d", k] => Item::Del(st.ks(h)?, unhex(k).ok_or(Fail::BadOp)?),
                    [h, "w", k] => Item::DelW(st.ks(h)?, unhex(k).ok_or(Fail::BadOp)?),
                    _ => return Err(Fail::BadOp),
                };
                items.push(item);
            }
            (db, items)
        };

        let mut batch = db.inner().batch();
        if durability.is_some() {
            // `-` leaves whatever `Database::batch()` chose.
            batch = batch.durability(durability);
        }
        for item in &items {
            match item {
                Item::Put(ks, k, v) => batch.insert(ks.inner(), k, v),
                Item::Del(ks, k) => batch.remove(ks.inner(), k),
                Item::DelW(ks, k) => batch.remove_weak(ks.inner(), k),
            }
        }
        batch.commit()?;
        ok()
    }

    /// `ingest <h> <item>*` with items `<k>=<v>` / `<k>!`
    fn op_ingest(&self, a: &[&str]) -> R {
        let ks = self.state().ks(arg(a, 0)?)?;
        let mut items: Vec<(Vec<u8>, Option<Vec<u8>>)> = vec![];
        for t in &a[1..] {
            if let Some(k) = t.strip_suffix('!') {
                items.push((unhex(k).ok_or(Fail::BadOp)?, None));
            } else {
                let (k, v) = t.split_once('=').ok_or(Fail::BadOp)?;
                items.push((
                    unhex(k).ok_or(Fail::BadOp)?,
                    Some(unhex(v).ok_or(Fail::BadOp)?),
                ));
            }
        }
        let mut ing = ks.inner().start_ingestion()?;
        for (k, v) in &items {
            match v {
                Some(v) => ing.write(k, v)?,
                None => ing.write_tombstone(k)?,
            }
        }
        ing.finish()?;
        ok()
    }

    // -----------------------------------------------------------------------
    // reads
    // -----------------------------------------------------------------------

    fn read(&self, view: &str, h: &str, op: &ReadOp) -> R {
        let (view, ks) = {
            let st = self.state();
            (st.view(view)?, st.ks(h)?)
        };
        match view {
            View::Latest => read_latest(&ks, op),
            View::Snap(s) => read_via(&s, ks.inner(), op),
            View::Tx(slot) => {
                let g = slot.lock().unwrap_or_else(|e| e.into_inner());
                match g.as_ref() {
                    Some(Tx::Sw(t)) => read_via(&t.tx, ks.inner(), op),
                    Some(Tx::Occ(t)) => read_via(t, ks.inner(), op),
                    None => Err(Fail::BadRef),
                }
            }
        }
    }

    // -----------------------------------------------------------------------
    // views: snapshots, iterators, transactions
    // -----------------------------------------------------------------------

    fn op_snap(&self, a: &[&str]) -> R {
        exact(a, 2)?;
        let name = a[0];
        if !name.starts_with('s') {
            return Err(Fail::BadOp);
        }
        match a[1] {
            "open" => {
                let db = self.state().db()?;
                let snap = match &db {
                    Db::Plain(d) => d.snapshot(),
                    Db::Sw(d) => d.read_tx(),
                    Db::Occ(d) => d.read_tx(),
                };
                let instant = snap.seqno();
                let old = self.state().snaps.insert(name.to_string(), snap);
                drop(old);
                Ok(format!("ok {instant}"))
            }
            "close" => {
                let s = self.state().snaps.remove(name).ok_or(Fail::BadRef)?;
                drop(s);
                ok()
            }
            _ => Err(Fail::BadOp),
        }
    }

    fn op_it(&self, a: &[&str]) -> R {
        let name = arg(a, 0)?;
        if !name.starts_with('i') {
            return Err(Fail::BadOp);
        }
        match arg(a, 1)? {
            "open" => {
                exact(a, 5)?;
                let range = RangeSpec::parse(a[4])?;
                let (view, ks) = {
                    let st = self.state();
                    (st.view(a[2])?, st.ks(a[3])?)
                };
                let it = match view {
                    View::Latest => iter_latest(ks.inner(), &range),
                    View::Snap(s) => iter_via(&s, ks.inner(), &range),
                    View::Tx(slot) => {
                        let g = slot.lock().unwrap_or_else(|e| e.into_inner());
                        match g.as_ref() {
                            Some(Tx::Sw(t)) => iter_via(&t.tx, ks.inner(), &range),
                            Some(Tx::Occ(t)) => iter_via(t, ks.inner(), &range),
                            None => return Err(Fail::BadRef),
                        }
                    }
                };
                let old = self
                    .state()
                    .iters
                    .insert(name.to_string(), Arc::new(Mutex::new(it)));
                drop(old);
                ok()
            }
            dir @ ("next" | "back") => {
                exact(a, 2)?;
                let slot = self.state().iters.get(name).cloned().ok_or(Fail::BadRef)?;
                let mut it = slot.lock().unwrap_or_else(|e| e.into_inner());
                let g = if dir == "next" {
                    it.next()
                } else {
                    it.next_back()
                };
                opt_guard(g)
            }
            "close" => {
                exact(a, 2)?;
                let it = self.state().iters.remove(name).ok_or(Fail::BadRef)?;
                drop(it);
                ok()
            }
            _ => Err(Fail::BadOp),
        }
    }

    fn op_tx(&self, a: &[&str], may_block: bool) -> R {
        let name = arg(a, 0)?;
        if !name.starts_with('t') {
            return Err(Fail::BadOp);
        }
        let sub = arg(a, 1)?;
        match sub {
            "begin" => {
                exact(a, 2)?;
                let db = {
                    let st = self.state();
                    if st.txs.contains_key(name) {
                        return Err(Fail::Msg("err exists"));
                    }
                    st.db()?
                };
                let tx = match &db {
                    Db::Plain(_) => return Err(Fail::Msg("err notx")),
                    Db::Sw(d) => {
                        // `write_tx()` blocks while another write tx is alive.
                        let hold = self.sw_lock.acquire(may_block)?;
                        Tx::Sw(SwTx::begin(d, hold))
                    }
                    Db::Occ(d) => Tx::Occ(d.write_tx()?),
                };
                self.state()
                    .txs
                    .insert(name.to_string(), Arc::new(Mutex::new(Some(tx))));
                ok()
            }
            "put" | "del" | "delw" | "take" | "fu" | "uf" => {
                let h = arg(a, 2)?;
                let w = WriteOp::parse(sub, &a[3..])?;
                let (slot, ks) = {
                    let st = self.state();
                    (st.txs.get(name).cloned().ok_or(Fail::BadRef)?, st.ks(h)?)
                };
                let mut g = slot.lock().unwrap_or_else(|e| e.into_inner());
                match (g.as_mut().ok_or(Fail::BadRef)?, &ks) {
                    (Tx::Sw(t), Ks::Sw(k)) => tx_write_sw(&mut t.tx, k, &w),
                    (Tx::Occ(t), Ks::Occ(k)) => tx_write_occ(t, k, &w),
                    // Handles and transactions of different modes cannot coexist
                    // (reopen drops both), but stay defensive.
                    _ => Err(Fail::BadRef),
                }
            }
            "commit" | "rollback" | "drop" => {
                exact(a, 2)?;
                // Unbind first: the name is gone whatever the outcome.
                let slot = self.state().txs.remove(name).ok_or(Fail::BadRef)?;
                let tx = slot
                    .lock()
                    .unwrap_or_else(|e| e.into_inner())
                    .take()
                    .ok_or(Fail::BadRef)?;
                match (sub, tx) {
                    ("commit", Tx::Sw(t)) => {
                        t.finish(SingleWriterWriteTx::commit)?;
                        ok()
                    }
                    ("commit", Tx::Occ(t)) => match t.commit()? {
                        Ok(()) => ok(),
                        Err(fjall::Conflict) => Ok("conflict".into()),
                    },
                    ("rollback", Tx::Sw(t)) => {
                        t.finish(SingleWriterWriteTx::rollback);
                        ok()
                    }
                    ("rollback", Tx::Occ(t)) => {
                        t.rollback();
                        ok()
                    }
                    (_, Tx::Sw(t)) => {
                        t.finish(drop);
                        ok()
                    }
                    (_, Tx::Occ(t)) => {
                        drop(t);
                        ok()
                    }
                }
            }
            _ => Err(Fail::BadOp),
        }
    }
}

fn tx_write_sw(tx: &mut SingleWriterWriteTx<'static>, k: &SingleWriterTxKeyspace, w: &WriteOp) -> R {
    match w {
        WriteOp::Put(key, v) => {
            tx.insert(k, key, v);
            ok()
        }
        WriteOp::Del(key) => {
            tx.remove(k, key);
            ok()
        }
        WriteOp::DelW(key) => {
            tx.remove_weak(k, key);
            ok()
        }
        WriteOp::Take(key) => Ok(opt_value(tx.take(k, key)?)),
        WriteOp::Fu(key, f) => Ok(opt_value(tx.fetch_update(k, key, |p| f.apply(p))?)),
        WriteOp::Uf(key, f) => Ok(opt_value(tx.update_fetch(k, key, |p| f.apply(p))?)),
    }
}

fn tx_write_occ(tx: &mut OptimisticWriteTx, k: &OptimisticTxKeyspace, w: &WriteOp) -> R {
    match w {
        WriteOp::Put(key, v) => {
            tx.insert(k, key, v);
            ok()
        }
        WriteOp::Del(key) => {
            tx.remove(k, key);
            ok()
        }
        WriteOp::DelW(key) => {
            tx.remove_weak(k, key);
            ok()
        }
        WriteOp::Take(key) => Ok(opt_value(tx.take(k, key)?)),
        WriteOp::Fu(key, f) => Ok(opt_value(tx.fetch_update(k, key, |p| f.apply(p))?)),
        WriteOp::Uf(key, f) => Ok(opt_value(tx.update_fetch(k, key, |p| f.apply(p))?)),
    }
}

fn sorted_names(db: &Database) -> Vec<String> {
    let mut names: Vec<String> = db
        .list_keyspace_names()
        .iter()
        .map(|n| n.to_string())
        .collect();
    names.sort();
    names
}

/// Derives the step kind from the `WorkerMessage` debug rendering.
fn step_kind(desc: &str) -> &'static str {
    if desc.contains("Rotate") {
        "rotate"
    } else if desc.contains("Flush") {
        "flush"
    } else if desc.contains("Compact") {
        "compact"
    } else if desc.contains("Close") {
        "close"
    } else {
        "other"
    }
}
