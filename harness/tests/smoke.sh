#!/usr/bin/env bash
# Smoke test for the fjv harness.
#
#   tests/smoke.sh           build, run every program against a fresh directory
#                            under /dev/shm and compare with tests/expected/*
#   tests/smoke.sh --bless   (re)generate tests/expected/* from the current
#                            implementation (only after checking them by hand!)
set -e
HERE="$(cd "$(dirname "$(readlink -f "$0")")" && pwd)"
ROOT="$(dirname "$HERE")"
FJV="$ROOT/target/release/fjv"
BLESS=0
[ "${1:-}" = "--bless" ] && BLESS=1

"$ROOT/build.sh" >/dev/null 2>"$HERE/.build.log" || { cat "$HERE/.build.log" >&2; exit 1; }
rm -f "$HERE/.build.log"

WORK="$(mktemp -d /dev/shm/fjv-smoke.XXXXXX)"
trap 'rm -rf "$WORK"' EXIT
FAIL=0

# check <name> : compares $WORK/<name>.out with tests/expected/<name>.out
check() {
    local name="$1"
    if [ "$BLESS" = 1 ]; then
        cp "$WORK/$name.out" "$HERE/expected/$name.out"
        echo "blessed $name"
    elif diff -u "$HERE/expected/$name.out" "$WORK/$name.out" >"$WORK/$name.diff"; then
        echo "ok   $name"
    else
        echo "FAIL $name"
        cat "$WORK/$name.diff"
        FAIL=1
    fi
}

# run <name> <dir> <expected exit code> [sort]
run() {
    local name="$1" dir="$2" want="$3" sorted="${4:-}"
    local rc=0
    FJSHIM_ARM_FILE="$WORK/$name.armed" FJV_SYNC_TIMEOUT_MS=20000 \
        timeout 120 "$FJV" run "$HERE/progs/$name.prog" "$dir" >"$WORK/$name.raw" 2>"$WORK/$name.err" || rc=$?
    if [ "$sorted" = sort ]; then
        # asynchronous result lines may arrive in any order relative to main-thread lines
        sort -n -s -k1,1 "$WORK/$name.raw" >"$WORK/$name.out"
    else
        cp "$WORK/$name.raw" "$WORK/$name.out"
    fi
    echo "exit $rc" >>"$WORK/$name.out"
    if [ "$rc" != "$want" ]; then
        echo "FAIL $name: exit code $rc, wanted $want"
        cat "$WORK/$name.err"
        FAIL=1
    fi
    check "$name"
}

# --- program runs, one fresh directory per database mode ----------------------
run plain "$WORK/plain" 3
# `arm` must have created the arm file
[ -e "$WORK/plain.armed" ] || { echo "FAIL arm file was not created"; FAIL=1; }
# crash recovery: second program against the directory the first one exit(3)-ed in
run plain_recover "$WORK/plain" 0
run sw "$WORK/sw" 0
run occ "$WORK/occ" 0
run threads "$WORK/threads" 0 sort
# C16: option records (`ksx`) and their stored form (`cfg`) across reopen
run options "$WORK/options" 0

# --- fjv oracle -----------------------------------------------------------------
{
    printf 'h 616263\n'
    printf 'h -\n'
    printf 'c 6161616161616161616161616161616161616161\n'
    printf 'c -\n'
    printf 'd 20 1961010060616161616161\n'
    printf 'd 19 1961010060616161616161\n'
    printf 'd 0 00\n'
    printf 'd 5 zz\n'
    printf 'bad request\n'
} | timeout 20 "$FJV" oracle >"$WORK/oracle.out"
check oracle

# --- fjv readjournal -----------------------------------------------------------------
# the journal the occ program left behind (clean shutdown) …
JNL="$WORK/occ/0.jnl"
{
    timeout 20 "$FJV" readjournal "$JNL"
    # … the same with a torn tail: the reader stops early and truncates the file
    cp "$JNL" "$WORK/torn.jnl"
    truncate -s -5 "$WORK/torn.jnl"
    timeout 20 "$FJV" readjournal "$WORK/torn.jnl"
    # … and a missing file
    timeout 20 "$FJV" readjournal "$WORK/nonexistent.jnl"
} >"$WORK/readjournal.out"
check readjournal

if [ "$FAIL" = 0 ]; then
    echo "smoke ok"
else
    echo "smoke FAILED"
    exit 1
fi
