#!/usr/bin/env bash
# Builds the `fjv` harness offline against the current /repo working tree.
#
# Cargo.lock is seeded from /repo/Cargo.lock (cargo adds the `fjv` entry
# itself). It is only (re-)copied when missing or when the build with the
# existing lock file fails (e.g. /repo changed its dependencies).
set -e
cd "$(dirname "$(readlink -f "$0")")"

export CARGO_NET_OFFLINE=true

build() {
    cargo build --release --offline "$@"
}

if [ ! -f Cargo.lock ]; then
    cp /repo/Cargo.lock Cargo.lock
    build
elif ! build; then
    echo "build.sh: build with existing Cargo.lock failed; re-seeding from /repo/Cargo.lock" >&2
    cp /repo/Cargo.lock Cargo.lock
    build
fi

test -x target/release/fjv
echo "fjv built: $(pwd)/target/release/fjv"
# the same sources once more with debug assertions and overflow checks on (used by the C03 check to repeat every cut);
# built here so that the check itself only has to re-link after a source change
if [ "${FJV_SKIP_DBG:-0}" != "1" ]; then
    cargo build --profile dbgassert --offline >/dev/null 2>&1 && echo "fjv (debug assertions) built: $(pwd)/target/dbgassert/fjv" || echo "fjv (debug assertions) did not build"
fi
