#!/usr/bin/env bash
# Builds the `fjv` harness offline against the current /repo working tree.
#
# Cargo.lock is seeded from /repo/Cargo.lock (cargo adds the `fjv` entry
# itself). It is only (re-)copied when missing or when the build with the
# existing lock file fails (e.g. /repo changed its dependencies).
set -e
cd "$(dirname "$(readlink -f "$0")")"

export CARGO_NET_OFFLINE=true

build() {
    cargo build --release --offline "$@"
}

if [ ! -f Cargo.lock ]; then
    cp /repo/Cargo.lock Cargo.lock
    build
elif ! build; then
    echo "build.sh: build with existing Cargo.lock failed; re-seeding from /repo/Cargo.lock" >&2
    cp /repo/Cargo.lock Cargo.lock
    build
fi

test -x target/release/fjv
echo "fjv built: $(pwd)/target/release/fjv"
