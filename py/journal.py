"""Byte-level journal helpers: producing journals with the real writer, an independent
framing parser (oracle for batch boundaries), and reader comparisons model vs implementation."""
import os, random, shutil, struct, subprocess
from common import FJV, FJM, ENV, run_fjv, workdir

from gen import KEYS, val


def journal_program(seed, jcomp, nbatches, big=True, clears=True, mode="plain"):
    """A program whose journal has varied batch shapes."""
    r = random.Random(seed)
    lines = ["open %s jcomp=%s" % (mode, jcomp), "ks h0 alpha", "ks h1 beta", "ks h2 gamma"]
    for _ in range(nbatches):
        c = r.random()
        h = "h%d" % r.randrange(3)
        if c < 0.3:
            lines.append("put %s %s %s" % (h, r.choice(KEYS), val(r, big)))
        elif c < 0.4:
            lines.append("del %s %s" % (h, r.choice(KEYS)))
        elif c < 0.45:
            lines.append("delw %s %s" % (h, r.choice(KEYS)))
        elif c < 0.52 and clears:
            lines.append("clear %s" % h)
        else:
            n = r.choice([1, 2, 3, 5, 8, 13, 40]) if r.random() < 0.8 else r.randrange(41, 200)
            items = []
            for _ in range(n):
                hh = "h%d" % r.randrange(3)
                k = r.choice(KEYS) if r.random() < 0.8 else "".join("%02x" % r.randrange(256) for _ in range(r.randrange(1, 40)))
                t = r.random()
                if t < 0.75:
                    items.append("%s:p:%s:%s" % (hh, k, val(r, big and r.random() < 0.3)))
                elif t < 0.9:
                    items.append("%s:d:%s" % (hh, k))
                else:
                    items.append("%s:w:%s" % (hh, k))
            lines.append("batch - " + " ".join(items))
    return "\n".join(lines) + "\n"


def make_journal(prog, dbdir):
    """Runs prog with a clean close; returns the journal content (without the zero padding)."""
    obs, raw, rc = run_fjv(prog, dbdir=dbdir)
    jp = os.path.join(dbdir, "0.jnl")
    data = open(jp, "rb").read()
    return data.rstrip(b"\x00"), obs, rc


def frame(data):
    """Independent structural parser of the entry framing: returns (entries, batch_ends).
    entries: list of (tag, start, end); batch_ends: offsets just after each End marker."""
    pos, entries, ends = 0, [], []
    n = len(data)
    while pos < n:
        tag = data[pos]
        if tag == 1:
            ln = 13
        elif tag == 2:
            if pos + 21 > n:
                break
            klen = struct.unpack_from("<H", data, pos + 11)[0]
            slen = struct.unpack_from("<I", data, pos + 17)[0]
            ln = 21 + klen + slen
        elif tag == 3:
            ln = 13
        elif tag == 4:
            ln = 9
        else:
            break
        if pos + ln > n:
            break
        entries.append((tag, pos, pos + ln))
        pos += ln
        if tag == 3:
            ends.append(pos)
    return entries, ends


def read_impl(path):
    p = subprocess.run([FJV, "readjournal", path], env=ENV, stdout=subprocess.PIPE, stderr=subprocess.PIPE,
                       text=True, timeout=120)
    return p.stdout.strip().splitlines()


def read_model(path):
    p = subprocess.run([FJM, "readjournal", path], env=ENV, stdout=subprocess.PIPE, stderr=subprocess.PIPE,
                       text=True, timeout=300)
    if p.returncode != 0:
        return ["fjm failed: " + p.stderr[-300:]]
    return p.stdout.strip().splitlines()


def encode_model(batch_lines, comp, thr):
    p = subprocess.run([FJM, "encode", comp, str(thr)], input="\n".join(batch_lines) + "\n", env=ENV,
                       stdout=subprocess.PIPE, stderr=subprocess.PIPE, text=True, timeout=300)
    h = p.stdout.strip()
    return b"" if h == "-" else bytes.fromhex(h)


def strip_seq(lines):
    """batch lines without seqnos are not needed: seqnos are part of the bytes, keep them."""
    return lines


def _blocks(out):
    blocks, cur = [], []
    for l in out.splitlines():
        if l == "--":
            blocks.append(cur)
            cur = []
        else:
            cur.append(l)
    return blocks


def cuts_impl(journal_file, scratch, cuts, fjv=None):
    """cuts: list of (m, pad). One fjv process; returns one list of lines per cut.  fjv: another build of the harness
    (the one with debug assertions and overflow checks on)."""
    inp = "".join("%d %d\n" % c for c in cuts)
    p = subprocess.run([fjv or FJV, "readcuts", journal_file, scratch], input=inp, env=ENV, stdout=subprocess.PIPE,
                       stderr=subprocess.PIPE, text=True, timeout=3600)
    return _blocks(p.stdout)


def cuts_model(journal_file, cuts):
    inp = "".join("%d %d\n" % c for c in cuts)
    p = subprocess.run(["bash", "-c", "ulimit -s unlimited 2>/dev/null; exec %s cuts %s" % (FJM, journal_file)],
                       input=inp, env=ENV, stdout=subprocess.PIPE, stderr=subprocess.PIPE, text=True, timeout=2400)
    if p.returncode != 0:
        raise RuntimeError("fjm cuts failed: " + p.stderr[-300:])
    return _blocks(p.stdout)
