"""Differential execution of sequential programs: implementation (fjv) vs. the
extracted Coq model under `as_is` (correspondence) and under `ideal` (the
property oracle: the repaired model, which the theorems tie to Spec maps)."""
import collections, json, os
from common import (run_fjv, run_fjm, compare, cfg_bits, SWITCHES, known_switch, ddmin_lines, pmap, log, canon)


def op_signature(prog):
    kinds = []
    for l in prog.splitlines():
        t = l.split()
        if t:
            kinds.append(t[0] if t[0] not in ("tx", "it", "snap") else t[0] + ":" + (t[2] if len(t) > 2 else ""))
    return tuple(kinds)


def evaluate(prog):
    impl, raw, rc = run_fjv(prog)
    asis = run_fjm(prog, "as_is")
    ideal = run_fjm(prog, "ideal")
    # the number of journal files (`journals`) is an internal observation: a difference there breaks the correspondence with
    # the model, it is not by itself a failure of the property the program is checked for
    from common import UNCOMPARED_OPS
    return dict(prog=prog, impl=impl, asis=asis, ideal=ideal, rc=rc,
                d_spec=compare(prog, impl, ideal, ignore_ops=UNCOMPARED_OPS + ("journals",)), d_corr=compare(prog, impl, asis))


def attribute(prog, impl):
    """Which defect switches explain impl != ideal?  Returns the smallest set S of switches such that the
    model with exactly S on (all others off) reproduces the implementation's observations, or None."""
    import itertools
    for n in (1, 2, 3):
        for S in itertools.combinations(SWITCHES, n):
            off = [s for s in SWITCHES if s not in S]
            m = run_fjm(prog, cfg_bits(off=off))
            if compare(prog, impl, m) is None:
                return list(S)
    return None


def fmt_replay(prop, prog, ev, note):
    out = [f"# property {prop}: {note}", "# program (replay with: fjv run <file> <fresh dir>)"]
    out.append(prog.rstrip("\n"))
    out.append("# line: implementation | model(as_is) | oracle(ideal)")
    for i, l in enumerate(prog.splitlines(), 1):
        if l.strip():
            a, b, c = ev["impl"].get(i), ev["asis"].get(i), ev["ideal"].get(i)
            mark = " <<<" if canon(a) != canon(c) and b != "skip" and not l.startswith(("step", "drain", "info", "seqnos")) else ""
            out.append(f"# {i}: {a} | {b} | {c}{mark}")
    return "\n".join(out) + "\n"


def run_seq(report, programs, shrink=True, extra_search=None):
    """Runs all programs; fills report (violations / known findings) and returns stats."""
    prop = report.prop
    results = pmap(evaluate, programs)
    stats = collections.Counter()
    ophist = collections.Counter()
    sigs = set()
    corr_fail = []
    for ev in results:
        prog = ev["prog"]
        stats["programs"] += 1
        sig = op_signature(prog)
        for k in sig:
            ophist[k] += 1
        stats["ops"] += len(sig)
        if len(set(sig)) >= 4:
            sigs.add(sig)
        if ev["d_spec"] is None and ev["d_corr"] is None:
            stats["agree"] += 1
            continue
        stats["disagreements_checked"] += 1
        if ev["d_spec"] is not None:
            # the property oracle fails on a concrete program
            expl = attribute(prog, ev["impl"]) if ev["d_corr"] is None else None
            if expl is not None and all(known_switch(prop, s) for s in expl):
                for s in expl:
                    f = known_switch(prop, s)
                    report.known_finding(f"{s} ({f['id']}): {f['what']}")
                stats["known_finding_programs"] += 1
                continue
            # unlisted failure: shrink and report
            small = prog
            if shrink:
                def still(p):
                    # a candidate that hangs (a removed `drain` lets 4 sealed memtables stall the writer) is not a smaller failing
                    # program: short limits, no patient re-run, and a cut-off run counts as "does not fail"
                    i, _, rc_ = run_fjv(p, timeout=15, retry=False, env_extra={"FJV_SYNC_TIMEOUT_MS": "4000"})
                    if rc_ == -99 or any(v == "err timeout" for v in i.values()):
                        return False
                    return compare(p, i, run_fjm(p, "ideal")) is not None and \
                        (attribute_quick(p, i) is None)
                try:
                    small = ddmin_lines(prog, still, keep_first=1, budget=60)
                except Exception as e:  # shrinking must never hide the finding
                    log("shrink failed:", e)
                    small = prog
            ev2 = evaluate(small)
            if ev2["d_spec"] is None:
                ev2, small = ev, prog
            note = "implementation differs from the property oracle at line %s" % (ev2["d_spec"][0],)
            if expl:
                note += " (explained by unlisted model switch(es) %s)" % expl
            report.violation(fmt_replay(prop, small, ev2, note))
            stats["violations"] += 1
        else:
            # impl == oracle but != faithful model: the correspondence is broken, property not refuted here
            corr_fail.append(ev)
    if corr_fail and not report.violations:
        ev = corr_fail[0]
        found = extra_search(ev) if extra_search else None
        if found:
            report.violation(found)
        else:
            report.violation(fmt_replay(prop, ev["prog"], ev,
                                        "correspondence model(as_is) vs implementation no longer checks at line %s; "
                                        "the implementation still agrees with the property oracle on every generated "
                                        "program" % (ev["d_corr"][0],)), suffix="no-failing-input-found")
        stats["correspondence_failures"] = len(corr_fail)
    return dict(stats=stats, ophist=ophist, distinct=len(sigs), results=results)


def attribute_quick(prog, impl):
    """is the failure explained by listed known switches? (used while shrinking an UNLISTED failure:
    we keep shrinking only while the failure stays unexplained)"""
    m = run_fjm(prog, "as_is")
    if compare(prog, impl, m) is None:
        return True
    return None
