"""Process-level crash / power-loss / fault machinery on top of the LD_PRELOAD shim."""
import os, random, re, shutil
from common import run_fjv, run_fjm, SHIM, workdir, parse_obs
from gen import KEYS, val

MUTATING = ("write", "pwrite", "writev", "pwritev", "ftruncate", "fsync", "fdatasync", "unlink", "unlinkat", "rename",
            "renameat", "renameat2", "mkdir", "mkdirat", "rmdir", "open", "openat", "creat", "fallocate",
            "posix_fallocate", "sync_file_range")


def workload(seed, mode="plain", nops=10, maint=True, jcomp="lz4", manual=False, persists=False, arm_early=False, reopen_first=False):
    """Deterministic workload: setup, `arm`, then operations each followed by `dump` (the oracle positions).
    Returns the program text; line numbers of the `dump`s give the prefix states."""
    r = random.Random(seed)
    mp = " manualp=1" if manual else ""
    L = ["open %s jcomp=%s%s" % (mode, jcomp, " manual=1" if manual else "")] + (["arm"] if arm_early else []) + \
        ["ks h0 alpha" + mp, "ks h1 beta" + mp, "put h0 61 00"] + \
        (["reopen", "ks h0 alpha", "ks h1 beta"] if reopen_first and not arm_early else []) + ["dump"] + ([] if arm_early else ["arm"])
    nks = 2
    tx_open = False
    for _ in range(nops):
        c = r.random()
        h = "h%d" % r.randrange(nks)
        if c < 0.28:
            L.append("put %s %s %s" % (h, r.choice(KEYS), val(r, big=r.random() < 0.15)))
        elif c < 0.38:
            L.append("del %s %s" % (h, r.choice(KEYS)))
        elif c < 0.55:
            items = []
            for _ in range(r.randrange(2, 6)):
                hh = "h%d" % r.randrange(nks)
                items.append("%s:p:%s:%s" % (hh, r.choice(KEYS), val(r, big=r.random() < 0.1)) if r.random() < 0.75
                             else "%s:d:%s" % (hh, r.choice(KEYS)))
            L.append("batch %s %s" % (r.choice(["-", "-", "buffer", "data", "all"]) if persists else "-", " ".join(items)))
        elif c < 0.6:
            L.append("clear %s" % h)
        elif c < 0.66 and nks < 3:
            L.append("ks h%d gamma%s" % (nks, mp))
            nks += 1
        elif c < 0.74 and mode != "plain":
            t = "t0"
            L.append("tx %s begin" % t)
            for _ in range(r.randrange(1, 4)):
                L.append("tx %s put h%d %s %s" % (t, r.randrange(nks), r.choice(KEYS), val(r)))
            L.append("tx %s commit" % t)
        elif c < 0.8 and persists:
            L.append("persist %s" % r.choice(["buffer", "data", "all"]))
        elif maint and c < 0.88:
            L.append("rotate %s" % h)
        elif maint and c < 0.96:
            L.append(r.choice(["step", "drain"]))
        elif maint:
            L.append("major %s" % h)
        else:
            L.append("put %s %s %s" % (h, r.choice(KEYS), val(r)))
        L.append("dump")
        # a persist right behind a write (every write kind, clear most of all: it is the rarest) — the write is then the
        # last thing in the journal writer's buffer when persist runs
        if persists and L[-2].split()[0] in ("put", "del", "batch", "clear", "tx") and r.random() < (0.7 if L[-2].startswith("clear") else 0.15):
            L.append("persist %s" % r.choice(["buffer", "data", "all"]))
            L.append("dump")
    L.append("exit 0")
    return "\n".join(L) + "\n"


def shim_env(db, wd, **kw):
    env = {"LD_PRELOAD": SHIM, "FJSHIM_ROOT": db, "FJSHIM_ARM_FILE": os.path.join(wd, "armed"),
           "FJSHIM_LOG": os.path.join(wd, "log")}
    for k, v in kw.items():
        env["FJSHIM_" + k] = str(v)
    return env


def read_log(wd):
    p = os.path.join(wd, "log")
    if not os.path.exists(p):
        return []
    out = []
    for l in open(p).read().splitlines():
        t = l.split(" ")
        if len(t) >= 6 and t[0].isdigit():
            out.append(dict(n=int(t[0]), call=t[1], path=t[2], off=t[3], len=t[4], ret=" ".join(t[5:])))
    return out


def prefix_states(prog, cfg="ideal"):
    """oracle: the model's dump after each operation; returns list of (lineno, dump) in program order"""
    m = run_fjm(prog, cfg)
    out = []
    for i, l in enumerate(prog.splitlines(), 1):
        if l.strip() == "dump":
            out.append((i, m.get(i)))
    return out


def acked_ops(prog, obs):
    """index of the last program line whose result was printed"""
    return max(obs) if obs else 0


def fresh(wd):
    db = os.path.join(wd, "db")
    shutil.rmtree(db, ignore_errors=True)
    a = os.path.join(wd, "armed")
    if os.path.exists(a):
        os.remove(a)
    lg = os.path.join(wd, "log")
    if os.path.exists(lg):
        os.remove(lg)
    return db


def reopen_dump(db, mode="plain", extra=""):
    o, raw, rc = run_fjv("open %s\ndump\n%s" % (mode, extra), dbdir=db)
    return o.get(1), o.get(2), o
