#!/usr/bin/env python3
"""Regenerates MANIFEST.json from the table below (kept in one place so it stays valid)."""
import json, os
ROOT = os.path.dirname(os.path.dirname(os.path.abspath(__file__)))
ids = [json.loads(l)["id"] for l in open(os.path.join(ROOT, "properties.jsonl"))]

CLAIMED = {
 "C03": dict(cat="proof", tech="Coq proof (cut-at-any-byte, reappend) + byte-level differential check of the journal reader",
   text="Coq theorems C03_cut_any_byte and C03_reappend (props/C03.v, closed under the global context) hold for every list of "
        "well-formed batches, every cut offset and every amount of zero padding, over the byte-level model Reader.v of "
        "journal/reader.rs + batch_reader.rs. The model is tied to the code on every run: journals written by the real writer are "
        "cut at every byte of their last two batches and at all entry boundaries, and the real reader (verif hook around "
        "JournalBatchReader) and the extracted Reader.v must return the same batches, outcome and truncation length; the model "
        "encoder must reproduce the file bytes; sampled cuts are reopened through Database recovery, appended to and reopened again; "
        "torn final write() calls are produced with the LD_PRELOAD shim.",
   note="trusted: Coq kernel, extraction (ExtrOcamlBasic), fjm driver, fjv harness, shim; xxh3/lz4 uninterpreted (Section variables); "
        "OS model: a torn write leaves a prefix followed by zeros/EOF. Clause 'applied all-or-nothing with one seqno at recovery' is "
        "validated by the reopen runs, its model-level theorem lives with C02/C04.", ref="6 C03"),
 "C15": dict(cat="proof", tech="Coq proof (entry/journal round trip, checksummed acceptance) + differential round trip and single-byte damage sweep",
   text="Coq theorems C15_entry_roundtrip, C15_journal_roundtrip (any per-item compression choice, so writer and reader settings are "
        "independent), C15_accepted_batches_checksummed (for ANY byte string, every emitted batch re-encodes to bytes whose xxh3 equals "
        "an End checksum present in the file) and C15_damage_needs_collision. Tied to the code by round trips through the real writer "
        "and real recovery under all four write/read compression settings and by altering every byte of small journals (3 values "
        "each), comparing real reader and Reader.v, with a state-level verdict through real recovery. The damage clause is partial: "
        "Start.seqno/item_count are outside the checksum (known finding E10).",
   note="trusted: as C03; hypothesis inside wf_entry: lz4 round trip decompress(compress v) = v; collision-freedom of xxh3 is not assumed, "
        "the theorem exhibits the collision", ref="6 C15"),
}

SEQ_NOTE = ("trusted: extraction + fjm driver, fjv harness, generators and canonicaliser; the oracle is the extracted model with "
            "every defect switch off (ideal), tied to Spec maps by the Coq theorems as they are completed; lsm-tree below Lsm.v modelled")
def seq(prop, what, ref):
    return dict(cat="translation_validation", tech="executable Coq model (extracted) vs implementation on generated programs; oracle = repaired model",
                text=what, note=SEQ_NOTE, ref=ref)
CLAIMED.update({
 "C01": seq("C01", "Every generated program (inserts, removes, batches, clears, ingestion, every read/scan form, rotate/flush/compaction/major "
            "placed at random) is executed by the implementation and by the extracted Coq model (Lsm.v/Db.v/Prog.v); every operation's "
            "result must be identical, and equal to the repaired-model oracle. Theorems about the model are being added (level will be "
            "raised to proof when C01's refinement theorems are closed).", "6 C01"),
 "C04": seq("C04", "Histories with repeated reopen, ingestion over existing keys, clear, flush/compaction: dump before close and after reopen, "
            "point reads vs scans, compared between implementation, model recovery (Db.v recover) and oracle.", "6 C04"),
 "C05": seq("C05", "Programs with several live views (snapshots, transaction read views, lazily consumed iterators, instant-0 snapshots, same-instant "
            "views closed in any order) interleaved with writes and every maintenance step incl. gc/pullup; every view re-read later; implementation "
            "vs Tracker.v/Lsm.v version-history model vs oracle.", "6 C05"),
 "C07": seq("C07", "Optimistic transaction histories (all read and write methods, helpers, all begin/commit/rollback orders, gc steps): each read and each "
            "commit verdict compared between implementation, the model of conflict_manager/oracle (Db.v has_conflict, Prog.v tx_commit) and oracle; "
            "independently a brute-force checker searches a real-time-consistent serial order explaining the implementation's committed reads.", "6 C07"),
 "C08": seq("C08", "In-transaction programs on both transactional databases with all endings, compared with the overlay model (Prog.v tx_*); multi-threaded "
            "read-modify-write counters on the single-writer database.", "6 C08"),
 "C11": seq("C11", "Histories ending in reopen + overwrite/remove of recovered keys + reads through point reads, scans and a fresh snapshot, compared with the "
            "model; plus the direct clause: seqno()/visible_seqno() right after reopen exceed every seqno in any tree (hook) and any journal record.", "6 C11"),
 "C12": seq("C12", "Create/write/delete/re-create histories over three names with old handles, dropped handles and reopen anywhere: names, exists, dumps of "
            "all keyspaces compared between implementation, registry model (Db.v do_ks/do_delks/recover) and oracle.", "6 C12"),
 "C18": seq("C18", "Keyspaces with and without name-assigned filters (keep/remove/replace by first key byte) under random maintenance and reopen, compared with "
            "the model's compaction stream (Lsm.v gc_key/apply_filter).", "6 C18"),
})

CLAIMED.update({
 "C02": dict(cat="fault_enumeration", tech="crash enumeration under an LD_PRELOAD shim; oracle states from the extracted Coq model",
   text="Deterministic workloads (writes, batches, transactions, clears, keyspace creation, rotate/flush/compaction/major) run under the shim; the "
        "process is killed before every file-mutating system call after open and in the middle of journal writes; a fresh process reopens and "
        "dumps every keyspace; the recovered state must be the Coq model's state after the last acknowledged operation or after the operation "
        "in flight. Journal-level all-or-nothing is the C03 theorem; model-level recovery theorems are being added.",
   note="crash = process death (write() data survives); lsm-tree's own flush/manifest crash safety is exercised, not proved; workloads start after open returned", ref="6 C02"),
 "C09": dict(cat="fault_enumeration", tech="power-loss adversary from the shim's syscall log (unsynced journal bytes dropped) + syscall trace conformance",
   text="For workloads with persist(buffer|data|all), batch durability levels, manual and automatic journal persist and clean close: at (a sample "
        "of) every later system call the process is killed, every journal file is cut back to the extent written at its last successful "
        "fsync/fdatasync, and the directory is reopened; every key must carry a value from a state at or after the last sync-acknowledged operation. "
        "One trace scenario pins the write/fdatasync/fsync sequence per persist mode.",
   note="fsync durability is the OS's promise; only journal files lose unsynced data (table durability belongs to lsm-tree)", ref="6 C09"),
 "C10": dict(cat="fault_enumeration", tech="real 64 MB journal traffic; journal unlinks observed through the shim; crash right after each unlink",
   text="Multi-keyspace workloads with 66 MiB of incompressible journal traffic per round reach real journal rotation; keyspaces are flushed in random "
        "order with one lagging; every unlink of N.jnl is observed: oldest first, a crash right after the unlink recovers every acknowledged write, "
        "journal_count returns to 1 once everything is flushed.", note="process-crash model at the unlink points", ref="6 C10"),
 "C13": dict(cat="fault_enumeration", tech="EIO/ENOSPC/short-write injection on the n-th journal write/sync for every n (LD_PRELOAD shim)",
   text="For every n, the n-th write / n-th fsync|fdatasync of *.jnl fails (optionally after a short write) during workloads mixing small operations, "
        ">= 8 KiB values, batches, transactions, clears and persists: the failing call must report an error, no later write may be acknowledged, and "
        "after exit (with and without clean drop) reopening yields the acknowledged prefix or that plus the complete failed operation (oracle states "
        "from the Coq model).", note="faults on journal files only; single-threaded workloads", ref="6 C13"),
 "C06": dict(cat="exploration", tech="controlled schedules through pause points with readers inside the commit window",
   text="A batch / transaction commit is held after the seqno draw, between item applies or before publish; inside the window snapshots and single scans of "
        "all keyspaces must show none or all of the batch, optionally while a flush of another keyspace or a major compaction completes; after release the "
        "snapshot is unchanged and a new one sees everything. Schedules with a tree version upgrade inside the window fail: known finding E4.",
   note="schedules enumerated through pause points only; the interleaving theorem over Conc.v is future work", ref="6 C06"),
 "C14": dict(cat="exploration", tech="real threads with call/return timestamps; per-key Wing-Gong linearizability search; reopen equality",
   text="2-8 threads issue put/del/get/batches through cloned handles with memtables of 600-4000 bytes and 1-4 worker threads; every operation is "
        "timestamped; per-key histories (registers compose) are searched for a linearization including the final content; content after reopen equals "
        "the final content; runs must terminate (write stalls release).", note="OS-scheduled interleavings are sampled, memory ordering and fairness are runtime", ref="6 C14"),
 "C16": dict(cat="proof", tech="Coq proof (policy codecs, stored-form round trip) + differential check of stored option rows",
   text="Coq theorems C16_policy_roundtrips (six codecs, vectors of length <= 255, f32 as bit patterns), C16_kvs_roundtrip (from_kvs(encode_kvs o) = o with "
        "level_count forced to 7, all strategies/parameters, blob options), C16_existing_ignores_options; tied to the code by creating random option "
        "records through the real API and comparing Keyspace::verif_config_dump after creation and after reopen-with-different-options with the extracted "
        "Options.v; behavioural probe on the memtable size. Known finding E15 (256-entry level ratio vector).",
   note="trusted: as C03; the guard length <= 255 is exactly what the policy constructors assert", ref="6 C16"),
 "C17": dict(cat="proof", tech="Coq proof (marker acceptance for all byte strings, refusal before any effect, lock iff handle) + marker fuzz / lock / thread checks",
   text="Coq theorems C17_marker (accepted iff the content starts with 'FJL' 3), C17_refused_unmodified, C17_locked_unmodified, C17_lock_iff_handle over "
        "Marker.v; tied to the code by opening a real database directory under every single-byte variant, truncation and extension of the marker (result "
        "and directory-tree hash before/after compared with the model), second opens from another process while handles and workers are alive, after the last "
        "drop and after exit, and a /proc count of fjall worker threads.", note="flock semantics and thread exit are the OS's", ref="6 C17"),
})

PROOF_NOTE = ("trusted: Coq kernel, extraction (ExtrOcamlBasic), fjm driver, fjv harness, generators; lsm-tree below the Lsm.v contract is "
              "modelled, not verified; the theorems are about the model, the differential run ties the model to the code on every run")
CLAIMED["C05"] = dict(cat="proof", tech="Coq proof (tracker invariants, frozen reads under all tree operations, parameter lemma) + differential programs with many live views",
   text="Coq theorems (props/C05.v, closed): C05_tracker_invariants — for every sequence of open/clone/close/publish/gc/pullup the table counts the live "
        "holders and the GC watermark stays below every live instant and below the visible seqno; C05_reads_frozen — point reads and scans at instant I "
        "(through super-version selection) are unchanged by every sequence of memtable appends, rotation, flush, compaction (any filter), clear, ingestion "
        "registration and version-history maintenance whose new seqnos are >= I and whose watermarks are <= I; C05_fjall_parameters_ok — the seqnos fjall "
        "draws and the watermark it passes satisfy exactly that for every live view; C05_select_defined — a live view always finds its super-version. Tied to "
        "the code by programs with up to five live views (snapshots, tx read views, lazily consumed iterators, instant-0 snapshots) re-read after every "
        "kind of operation, implementation vs extracted model vs oracle. Thread schedules: known finding E4 (see C06).",
   note=PROOF_NOTE + "; Rust atomics/DashMap assumed sequentially consistent at API-call granularity", ref="6 C05")
CLAIMED["C08"] = dict(cat="proof", tech="Coq proof (overlay read-your-writes / last-write-wins, commit = final write per key, rollback no-op) + differential in-transaction programs + threaded counters",
   text="Coq theorems (props/C08.v, closed): C08_read_your_writes for any list of in-transaction writes; C08_commit_complete / C08_commit_sound — the commit batch "
        "contains exactly each key's final overlay entry; C08_rollback_noop; C08_tx_write_is_overlay_step (bridge to the interpreter). Tied to the code by "
        "random in-transaction programs on both transactional databases with all endings and by multi-threaded read-modify-write counters on the "
        "single-writer database.", note=PROOF_NOTE + "; the single-writer mutual-exclusion clause is checked by the threaded counter runs only", ref="6 C08")
CLAIMED["C07"] = dict(cat="proof", tech="Coq proof (has_conflict characterisation, footprints, validation soundness) + differential SSI histories + brute-force serial-order search",
   text="Coq theorems (props/C07.v, closed; partial w.r.t. the full property): C07_has_conflict_iff (conflict detection = a written key lies in a recorded read "
        "footprint of the same keyspace), C07_footprints (what point, full and range/prefix reads record covers what they read), C07_validation_sound (for any "
        "key/value types: no intervening committed write in the footprint => snapshot state and pre-commit state agree on the footprint, i.e. the transaction's "
        "reads are those of the serial execution in commit order). Not yet a theorem: that every read method of the Rust API records its footprint (validated "
        "differentially: each read and each commit verdict vs the extracted model) and the lifting through Db.v. Independently a brute-force checker searches a "
        "real-time-consistent serial order for the implementation's committed reads.",
   note=PROOF_NOTE + "; commits and snapshot acquisition are serialised by the oracle mutex (assumed; single-threaded interleavings of whole API calls)", ref="6 C07")

CLAIMED["C11"] = dict(cat="proof", tech="Coq proof (recovered counter above every tree entry and journal record; later write wins the point read) + differential reopen/overwrite programs + direct counter clause",
   text="Coq theorems (props/C11.v, closed): C11_seqno_above_all — for ANY disk image given to the model's recover (any journal batches, tables, registry), the "
        "next seqno exceeds every entry of every recovered keyspace's current version and every journal record (clears included), and visible = next seqno; "
        "C11_later_write_wins_partial — a write with such a seqno wins the point read of its key. Tied to the code by histories ending in reopen + overwrite/remove + "
        "point reads, scans and a fresh snapshot (implementation vs extracted recover), and by comparing seqno()/visible_seqno() right after reopen with the highest "
        "seqno of every tree (hook) and of every journal file (framing parser). The scan clause is decided differentially.",
   note=PROOF_NOTE, ref="6 C11")

CLAIMED["C06"] = dict(cat="proof", tech="Coq proof over an interleaving model of the commit protocol (all schedules), refutation witness for the known finding, pause-point schedules on the implementation",
   text="Coq theorems (props/C06.v, closed): C06_snapshot_atomic — in Conc.v (acquire journal mutex, draw seqno, apply item by item, publish, release; readers "
        "snapshot at any point) for EVERY interleaving, any number of batches of any size, a snapshot sees of each batch all items or none, provided no step advances "
        "the visible seqno outside the mutex; C06_bump_refuted — with lsm-tree's version-upgrade bump the statement fails on a 5-event trace (known finding E4). "
        "On the implementation the same traces are forced through pause points (reader / second writer / flush / major compaction inside the commit window, lock "
        "hand-over race) plus free-running stress; schedules with a tree version upgrade in the window reproduce E4 and are reported as KNOWN-FINDING, everything "
        "else must show none-or-all.",
   note="Conc.v bakes in mutual exclusion of the journal Mutex and sequential consistency at micro-step granularity; the implementation side explores enumerated and sampled schedules only", ref="6 C06")

CLAIMED["C09"] = dict(cat="proof", tech="Coq proof (writer buffering + persist modes, end to end with the reader cut theorem) + syscall-trace conformance + power-loss adversary from the shim log",
   text="Coq theorems (props/C09.v, closed): over Writer.v (8 KiB BufWriter, is_buffer_dirty, persist modes) for EVERY sequence of journal writes of any entry "
        "sizes and persists: C09_persist_sync_durable (after persist SyncData|SyncAll the power-loss image is the whole stream written so far), "
        "C09_persist_buffer_crash_safe, C09_powerloss_is_prefix, and C09_synced_batches_recovered (with C03's cut theorem: any surviving prefix covering the synced "
        "batches is recovered as those batches plus a prefix of the later ones). Tied to the code by comparing the exact write()/fdatasync()/fsync() sequence with byte "
        "counts of random write/persist sequences against the extracted Writer.v, and by the power-loss adversary on generated workloads (unsynced journal bytes dropped "
        "at sampled system calls, per-key durability oracle).",
   note="fsync/fdatasync durability is the OS's promise; rotation and Journal::drop syncs are exercised by the adversary (clean close) but are not model theorems; tables' durability belongs to lsm-tree", ref="6 C09")
CLAIMED["C02"]["text"] += (" Journal part as theorems (props/C02.v): C02_acknowledged_bytes_reach_the_os and C02_journal_recovers_acknowledged_prefix (Writer.v + C03 cut theorem).")

CLAIMED["C10"] = dict(cat="proof", tech="Coq proof over a step model of journal sealing/reclaiming (all interleavings of its critical sections) + step-by-step conformance with real 64 MB journal traffic + crash right after every journal unlink",
   text="Coq theorems (props/C10.v, closed) over JournalMgr.v, whose steps are the critical sections of the code (write under the journal lock, memtable rotation, "
        "registration of flushed tables, journal sealing with build_seqno_map under the journal lock, JournalManager::maintenance, delete_keyspace, a compaction "
        "dropping an item), for EVERY sequence of such steps: C10_evicted_only_when_durable (every record of every unlinked journal had reached a table of its "
        "keyspace, or the keyspace was deleted), C10_oldest_first (maintenance removes a prefix of the sealed list), C10_back_to_one_partial (all flushed => one "
        "journal, unless a compaction dropped a keyspace's newest flushed item), C10_example (non-vacuity). Tied to the code by translating workloads with real 66 MiB "
        "journal traffic step by step into model operations and comparing journal_count after every step and the number of unlinked files (shim). The crash clause is "
        "decided on the real code: every unlink of N.jnl is observed, a crash right after it must recover every acknowledged write.",
   note=PROOF_NOTE + "; the translation of harness operations into model steps (which flush task a worker tick takes, when 64 000 000 bytes are passed) is correspondence glue; "
        "thread interleavings inside a critical section are not modelled; process-crash model at the unlink points", ref="6 C10")
CLAIMED["C13"]["tech"] += " + slow failing append with writers queued on the journal lock (multi-writer schedules judged by the order of journal writes)"
CLAIMED["C13"]["text"] += (" Multi-writer: the failing write() is delayed while two more writers (insert, batch, transaction commit, clear, persist) queue on the journal lock; "
                          "nothing may be acknowledged whose journal bytes follow the failed call. Partial theorem C13_poison_sticky_partial (props/C13.v).")
CLAIMED["C13"]["note"] = "faults on journal files only; one family of multi-writer schedules, other thread schedules are not enumerated"
CLAIMED["C18"]["text"] += (" An independent monitor over the implementation's own observations checks 'filtered once stays filtered until written again'; it is refuted for a Remove "
                          "verdict across a reopen (known finding E17, theorem C18_stays_filtered_refuted with the same history); C18_filtered_form_stable_partial: the filtered form "
                          "is a fixed point of the filter.")
CLAIMED["C17"]["text"] += (" Also: refused directories without a lock file (known finding E18 for marker absent + lock absent, theorem C17_absent_marker_refuted), and dropping the last handle "
                          "while a sealed journal is tracked followed by a reopen in the same process.")

CLAIMED["C01"]["text"] += (" Theorems (props/C01.v, closed): C01_reads_agree — for EVERY sequence of tree operations (appends, rotation, flush, compaction with any filter, "
    "clear, ingestion registration, version-history maintenance) respecting the write discipline, the point read of every key at every instant equals the entry the scan shows "
    "(the sources stay ordered by recency, OrderP.v); C01_point_read_agrees_with_scan_partial; C01_shadowing_refuted_without_recency (what replaying covered journal records produced).")
CLAIMED["C04"]["text"] += (" Partial theorems (props/C04.v): C04_covered_records_not_replayed_partial (a journal batch the tables already cover changes nothing at replay: "
    "ingested or filter-produced table data is neither shadowed nor wiped), C04_uncovered_records_replayed_partial. A tenth of the programs seal the journal with real 66 MiB fills "
    "(the model holds placeholders) and compare the number of journal files with the model after every worker step; fixed histories cover ingestion/clear over records in a sealed journal; "
    "a writer racing with an ingestion that holds the journal lock.")
CLAIMED["C12"]["text"] += (" Partial theorems (props/C12.v): C12_recovered_ids_fresh_partial (for ANY disk image the recovered id counter exceeds every directory id and every keyspace id "
    "in any sealed or active journal record), C12_new_keyspace_takes_next_id_partial, C12_frame_partial, C12_deleted_refused_partial.")
CLAIMED["C14"]["text"] += (" Partial theorems (props/C14.v) over the interleaving model Conc.v: C14_apply_order_is_seqno_order_partial (for every interleaving the memtable receives writes "
    "in seqno order = the order in which the journal mutex was taken), C14_nothing_applied_is_lost_partial. Deterministic additions: a writer held at each of 5 pause points while a second "
    "writer, a rotation and a flush run (the value must not change without a write), and a single-worker progress scenario (L0 must not reach the write-halt threshold).")
CLAIMED["C02"]["text"] += (" Model level: C02_acknowledged_write_is_journaled_partial, C02_acknowledged_clear_is_journaled_partial. Large-traffic crash scenarios: a keyspace whose "
    "acknowledged writes live only in a sealed journal.")

CLAIMED["C04"]["text"] += (" Independent judge on the implementation alone: the dump right before every reopen equals the first dump after it. The full statement is REFUTED on the "
    "unchanged code (known finding E17, second face): a key deleted by an ingested tombstone reads its old value again after a reopen once a last-level compaction has evicted the "
    "tombstone (C04_reopen_identity_refuted; corpus/C04/e17_ingested_tombstone_resurrected.txt) — reported as KNOWN-FINDING, every other change of content across a reopen is a violation.")

CLAIMED["C01"]["text"] += (" C01_db_reads_agree lifts this to the database model: for EVERY sequence of keyspace creation, single writes, committed batches / transaction commits, clear, "
    "rotation, worker steps (flush, journal sealing, maintenance), major compaction with any filter and bulk ingestion, every keyspace's point reads equal its scan entries (DbOrderP.v).")

m = {"version": 1, "setup_cmd": "./setup.sh",
     "hooks": {"guard": "cargo feature fjall_verif",
               "enable": "harness/Cargo.toml depends on fjall = { path = \"/repo\", features = [\"fjall_verif\"] }",
               "baseline_off_cmd": "cd /repo && cargo test --workspace --no-fail-fast --offline",
               "source_commits": ["3625703", "f42994d", "23fbda1", "b3eb392", "25a6fa4", "3bb90be"], "add_only": True},
     "engines": [{"name": "coq-model+correspondence", "path": "coq/ ocaml/ harness/ shim/ py/",
                  "serves_properties": sorted(CLAIMED),
                  "kind_free_text": "Coq 8.16 model + theorems; extracted model (fjm) vs implementation harness (fjv) on the same programs / bytes"}],
     "checks": [], "notes": "see DESIGN.md; known findings in known_findings.json", "not_applicable": []}
for i in ids:
    if i in CLAIMED:
        c = CLAIMED[i]
        m["checks"].append({"property_id": i, "quick_cmd": f"./check {i} --tier quick",
                            "thorough_cmd": f"./check {i} --tier thorough",
                            "evidence_file": f"evidence/{i}.json", "replay_cmd_template": f"./check {i} --replay {{path}}",
                            "engine": "coq-model+correspondence",
                            "level_claimed": {"category": c["cat"], "text": c["text"], "design_ref": c["ref"]},
                            "level_note": c["note"], "technique": c["tech"]})
    else:
        m["not_applicable"].append({"property_id": i, "reason": "check not built yet (framework under construction); will be claimed once its check runs"})
json.dump(m, open(os.path.join(ROOT, "MANIFEST.json"), "w"), indent=1)
print("claimed:", sorted(CLAIMED))
