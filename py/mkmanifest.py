#!/usr/bin/env python3
"""Regenerates MANIFEST.json from the table below (kept in one place so it stays valid)."""
import json, os
ROOT = os.path.dirname(os.path.dirname(os.path.abspath(__file__)))
ids = [json.loads(l)["id"] for l in open(os.path.join(ROOT, "properties.jsonl"))]

CLAIMED = {
 "C03": dict(cat="proof", tech="Coq proof (cut-at-any-byte, reappend) + byte-level differential check of the journal reader",
   text="Coq theorems C03_cut_any_byte and C03_reappend (props/C03.v, closed under the global context) hold for every list of "
        "well-formed batches, every cut offset and every amount of zero padding, over the byte-level model Reader.v of "
        "journal/reader.rs + batch_reader.rs. The model is tied to the code on every run: journals written by the real writer are "
        "cut at every byte of their last two batches and at all entry boundaries, and the real reader (verif hook around "
        "JournalBatchReader) and the extracted Reader.v must return the same batches, outcome and truncation length; the model "
        "encoder must reproduce the file bytes; sampled cuts are reopened through Database recovery, appended to and reopened again; "
        "torn final write() calls are produced with the LD_PRELOAD shim.",
   note="trusted: Coq kernel, extraction (ExtrOcamlBasic), fjm driver, fjv harness, shim; xxh3/lz4 uninterpreted (Section variables); "
        "OS model: a torn write leaves a prefix followed by zeros/EOF. Clause 'applied all-or-nothing with one seqno at recovery' is "
        "validated by the reopen runs, its model-level theorem lives with C02/C04.", ref="6 C03"),
 "C15": dict(cat="proof", tech="Coq proof (entry/journal round trip, checksummed acceptance) + differential round trip and single-byte damage sweep",
   text="Coq theorems C15_entry_roundtrip, C15_journal_roundtrip (any per-item compression choice, so writer and reader settings are "
        "independent), C15_accepted_batches_checksummed (for ANY byte string, every emitted batch re-encodes to bytes whose xxh3 equals "
        "an End checksum present in the file) and C15_damage_needs_collision. Tied to the code by round trips through the real writer "
        "and real recovery under all four write/read compression settings and by altering every byte of small journals (3 values "
        "each), comparing real reader and Reader.v, with a state-level verdict through real recovery. The damage clause is partial: "
        "Start.seqno/item_count are outside the checksum (known finding E10).",
   note="trusted: as C03; hypothesis inside wf_entry: lz4 round trip decompress(compress v) = v; collision-freedom of xxh3 is not assumed, "
        "the theorem exhibits the collision", ref="6 C15"),
}

SEQ_NOTE = ("trusted: extraction + fjm driver, fjv harness, generators and canonicaliser; the oracle is the extracted model with "
            "every defect switch off (ideal), tied to Spec maps by the Coq theorems as they are completed; lsm-tree below Lsm.v modelled")
def seq(prop, what, ref):
    return dict(cat="translation_validation", tech="executable Coq model (extracted) vs implementation on generated programs; oracle = repaired model",
                text=what, note=SEQ_NOTE, ref=ref)
CLAIMED.update({
 "C01": seq("C01", "Every generated program (inserts, removes, batches, clears, ingestion, every read/scan form, rotate/flush/compaction/major "
            "placed at random) is executed by the implementation and by the extracted Coq model (Lsm.v/Db.v/Prog.v); every operation's "
            "result must be identical, and equal to the repaired-model oracle. Theorems about the model are being added (level will be "
            "raised to proof when C01's refinement theorems are closed).", "6 C01"),
 "C04": seq("C04", "Histories with repeated reopen, ingestion over existing keys, clear, flush/compaction: dump before close and after reopen, "
            "point reads vs scans, compared between implementation, model recovery (Db.v recover) and oracle.", "6 C04"),
 "C05": seq("C05", "Programs with several live views (snapshots, transaction read views, lazily consumed iterators, instant-0 snapshots, same-instant "
            "views closed in any order) interleaved with writes and every maintenance step incl. gc/pullup; every view re-read later; implementation "
            "vs Tracker.v/Lsm.v version-history model vs oracle.", "6 C05"),
 "C07": seq("C07", "Optimistic transaction histories (all read and write methods, helpers, all begin/commit/rollback orders, gc steps): each read and each "
            "commit verdict compared between implementation, the model of conflict_manager/oracle (Db.v has_conflict, Prog.v tx_commit) and oracle; "
            "independently a brute-force checker searches a real-time-consistent serial order explaining the implementation's committed reads.", "6 C07"),
 "C08": seq("C08", "In-transaction programs on both transactional databases with all endings, compared with the overlay model (Prog.v tx_*); multi-threaded "
            "read-modify-write counters on the single-writer database.", "6 C08"),
 "C11": seq("C11", "Histories ending in reopen + overwrite/remove of recovered keys + reads through point reads, scans and a fresh snapshot, compared with the "
            "model; plus the direct clause: seqno()/visible_seqno() right after reopen exceed every seqno in any tree (hook) and any journal record.", "6 C11"),
 "C12": seq("C12", "Create/write/delete/re-create histories over three names with old handles, dropped handles and reopen anywhere: names, exists, dumps of "
            "all keyspaces compared between implementation, registry model (Db.v do_ks/do_delks/recover) and oracle.", "6 C12"),
 "C18": seq("C18", "Keyspaces with and without name-assigned filters (keep/remove/replace by first key byte) under random maintenance and reopen, compared with "
            "the model's compaction stream (Lsm.v gc_key/apply_filter).", "6 C18"),
})

m = {"version": 1, "setup_cmd": "./setup.sh",
     "hooks": {"guard": "cargo feature fjall_verif",
               "enable": "harness/Cargo.toml depends on fjall = { path = \"/repo\", features = [\"fjall_verif\"] }",
               "baseline_off_cmd": "cd /repo && cargo test --workspace --no-fail-fast --offline",
               "source_commits": ["3625703", "f42994d"], "add_only": True},
     "engines": [{"name": "coq-model+correspondence", "path": "coq/ ocaml/ harness/ shim/ py/",
                  "serves_properties": sorted(CLAIMED),
                  "kind_free_text": "Coq 8.16 model + theorems; extracted model (fjm) vs implementation harness (fjv) on the same programs / bytes"}],
     "checks": [], "notes": "see DESIGN.md; known findings in known_findings.json", "not_applicable": []}
for i in ids:
    if i in CLAIMED:
        c = CLAIMED[i]
        m["checks"].append({"property_id": i, "quick_cmd": f"./check {i} --tier quick",
                            "thorough_cmd": f"./check {i} --tier thorough",
                            "evidence_file": f"evidence/{i}.json", "replay_cmd_template": f"./check {i} --replay {{path}}",
                            "engine": "coq-model+correspondence",
                            "level_claimed": {"category": c["cat"], "text": c["text"], "design_ref": c["ref"]},
                            "level_note": c["note"], "technique": c["tech"]})
    else:
        m["not_applicable"].append({"property_id": i, "reason": "check not built yet (framework under construction); will be claimed once its check runs"})
json.dump(m, open(os.path.join(ROOT, "MANIFEST.json"), "w"), indent=1)
print("claimed:", sorted(CLAIMED))
