"""Helper for properties decided by sequential differential programs."""
from seqdiff import run_seq


def audit(rep, prop_file, theorems, build):
    """proof audit for a property whose theorems are closed; records a violation when they stop checking"""
    from common import proof_audit
    obl, dis, problems = proof_audit(prop_file, theorems, build["coq"])
    rep._audit = (obl, dis, problems, prop_file)
    return problems


def coverage(rep, res, progs, rule, extra=None):
    st = res["stats"]
    rep.coverage = dict(programs=st["programs"], disagreements_checked=st["disagreements_checked"],
                        evaluations=st["ops"], distinct_nontrivial=res["distinct"], rule=rule,
                        samples=[progs[0].splitlines()[:16]], op_histogram=dict(res["ophist"]),
                        known_finding_programs=st["known_finding_programs"],
                        correspondence_failures=st.get("correspondence_failures", 0))
    if extra:
        rep.coverage.update(extra)
    if getattr(rep, "_audit", None):
        from common import TRUSTED_BASE
        obl, dis, problems, pf = rep._audit
        if problems and not rep.violations:
            rep.violation("# %s: proof obligations no longer check\n%s\n" % (rep.prop, "\n".join(problems)),
                          suffix="no-failing-input-found")
        rep.coverage.update(obligations=obl, discharged=dis if not problems else min(dis, obl - 1),
                            checker_cmd="cd coq && make %s (coqc 8.16.1) + Print Assumptions audit" % pf.replace(".v", ".vo"),
                            trusted_base=TRUSTED_BASE, traces_validated_against_impl=st["programs"],
                            proof_problems=problems)


def replay_file(rep, path):
    prog = "".join(l for l in open(path) if not l.startswith("#"))
    run_seq(rep, [prog], shrink=False)
    rep.coverage = dict(programs=1, disagreements_checked=len(rep.violations), samples=[prog.splitlines()[:10]])


def corpus(prop):
    import os
    d = os.path.join(os.path.dirname(os.path.dirname(os.path.abspath(__file__))), "corpus", prop)
    out = []
    if os.path.isdir(d):
        for f in sorted(os.listdir(d)):
            if not os.path.isfile(os.path.join(d, f)):
                continue
            prog = "".join(l for l in open(os.path.join(d, f)) if not l.startswith("#"))
            # witnesses that need real 64 MB traffic, threads or the shim are replayed by the property's scenario code,
            # not by the sequential differential runner (the model has no such operations)
            if any(w in prog for w in ("bigfill", "thread ", "pausepoint", "arm\n")):
                continue
            out.append(prog)
    return out
