"""C17 — one live instance per directory, and only compatible directories open.
Theorems: props/C17.v.  Correspondence: marker contents fuzzed against Marker.v check_version/open_db with a
directory-tree hash before/after every refused open; second-open attempts from another process while handles
are alive; worker threads gone after the last drop."""
import hashlib, os, random, shutil, subprocess, time
from common import proof_audit, run_fjv, workdir, pmap, FJM, FJV, ENV, TRUSTED_BASE

LEVEL = "proof"
COQ_TARGETS = ("props/C17.vo",)
THEOREMS = ["C17_marker", "C17_refused_unmodified", "C17_locked_unmodified", "C17_lock_iff_handle", "C17_absent_marker_refuted"]


def tree_hash(d, shallow=False):
    """hash of the directory tree; shallow = top-level files (journals, marker, lock) and keyspace directory names only
    (used while another live instance's background workers may legitimately rewrite tables)"""
    h = hashlib.sha256()
    if shallow:
        for f in sorted(os.listdir(d)):
            p = os.path.join(d, f)
            h.update(f.encode())
            if os.path.isfile(p):
                try:
                    with open(p, "rb") as fh:
                        h.update(fh.read(1 << 20).rstrip(b"\0"))
                    h.update(str(os.path.getsize(p)).encode())
                except OSError:
                    pass
            else:
                h.update(",".join(sorted(os.listdir(p))).encode())
        return h.hexdigest()
    for root, dirs, files in sorted(os.walk(d)):
        dirs.sort()
        for f in sorted(files):
            p = os.path.join(root, f)
            st = os.stat(p)
            h.update(os.path.relpath(p, d).encode())
            h.update(str(st.st_size).encode())
            with open(p, "rb") as fh:
                # journals are 64 MiB of mostly zeros: hash the non-zero prefix and the length
                data = fh.read(1 << 20)
                h.update(data.rstrip(b"\0"))
        for x in dirs:
            h.update(("D" + os.path.relpath(os.path.join(root, x), d)).encode())
    return h.hexdigest()


def make_db(wd, name="db"):
    db = os.path.join(wd, name)
    run_fjv("open plain\nks h0 alpha\nput h0 61 01\nbatch - h0:p:62:02 h0:p:63:03\nrotate h0\ndrain\nput h0 64 04\n", dbdir=db)
    return db


def model_marker(cases):
    inp = "".join("%s %d %d\n" % c for c in cases)
    p = subprocess.run([FJM, "marker"], input=inp, env=ENV, stdout=subprocess.PIPE, stderr=subprocess.PIPE, text=True)
    return p.stdout.splitlines()


def marker_variants(r, n):
    good = bytes([70, 74, 76, 3])
    out = [good, good + b"\0", good + b"extra", b"", good[:1], good[:2], good[:3], bytes([70, 74, 76]), bytes([70, 74, 76, 0]),
           bytes([70, 74, 76, 1]), bytes([70, 74, 76, 2]), bytes([70, 74, 76, 4]), bytes([70, 74, 76, 255]), b"fjl\x03",
           bytes([0, 0, 0, 0]), bytes([3, 76, 74, 70])]
    for pos in range(4):
        for v in range(256):
            if v != good[pos]:
                out.append(good[:pos] + bytes([v]) + good[pos + 1:])
    extra = [bytes(r.randrange(256) for _ in range(r.randrange(0, 9))) for _ in range(200)]
    out += extra
    if n < len(out):
        keep = out[:16] + r.sample(out[16:], n - 16)
        return keep
    return out


def marker_case(args):
    wd_db, content = args
    nolock = False
    if isinstance(content, tuple):
        content, nolock = content
    wd = workdir()
    try:
        db = os.path.join(wd, "db")
        shutil.copytree(wd_db, db)
        if nolock:
            os.remove(os.path.join(db, "lock"))     # e.g. a directory copied without its lock file, or written by 1.x/2.x
        if content is None:
            os.remove(os.path.join(db, "version"))
        else:
            open(os.path.join(db, "version"), "wb").write(content)
        before = tree_hash(db)
        names0 = set(os.listdir(db))
        o, raw, rc = run_fjv("open plain\n", dbdir=db)
        after = tree_hash(db)
        added = sorted(set(os.listdir(db)) - names0)
        res = o.get(1, "<none>")
        return dict(content=None if content is None else content.hex(), res=res, unchanged=(before == after), nolock=nolock, added=added)
    finally:
        shutil.rmtree(wd, ignore_errors=True)


def lock_scenario(idx, mode):
    """process A keeps handles alive; process B tries to open meanwhile, and again after A is gone"""
    wd = workdir()
    try:
        db = os.path.join(wd, "db")
        run_fjv("open %s\nks h0 alpha\nput h0 61 01\n" % mode, dbdir=db)
        pa = os.path.join(wd, "a.prog")
        hold = ["open %s workers=2" % mode, "ks h0 alpha", "ks h1 beta", "put h0 62 02", "rotate h0", "sleep 1500"]
        if idx % 2 == 0:
            hold += ["close", "sleep 800"]       # A drops everything but the process lives on
        open(pa, "w").write("\n".join(hold) + "\n")
        a = subprocess.Popen([FJV, "run", pa, db], env=ENV, stdout=subprocess.PIPE, stderr=subprocess.PIPE, text=True)
        time.sleep(0.6)
        h0 = tree_hash(db, shallow=True)
        o1, _, _ = run_fjv("open %s\n" % mode, dbdir=db)
        h1 = tree_hash(db, shallow=True)
        workers_alive = worker_threads(a.pid)
        problems = []
        if o1.get(1) != "err locked":
            problems.append("second open while handles are alive: %s" % o1.get(1))
        if h0 != h1:
            problems.append("refused (locked) open changed the directory")
        if workers_alive < 1:
            problems.append("no worker thread visible while the database is open (probe broken?)")
        if idx % 2 == 0:
            time.sleep(1.3)                          # A has executed `close` by now, still sleeping
            left = worker_threads(a.pid)
            if left != 0:
                problems.append("%d fjall worker threads still alive after the last handle was dropped" % left)
            o2, _, _ = run_fjv("open %s\nks h0 alpha\nget - h0 62\n" % mode, dbdir=db)
            if o2.get(1) != "ok" or o2.get(3) != "some 02":
                problems.append("open after the last drop (process still alive): %s %s" % (o2.get(1), o2.get(3)))
        a.wait(timeout=20)
        o3, _, _ = run_fjv("open %s\nks h0 alpha\nget - h0 62\n" % mode, dbdir=db)
        if o3.get(1) != "ok" or o3.get(3) != "some 02":
            problems.append("open after the holder exited: %s %s" % (o3.get(1), o3.get(3)))
        return problems
    finally:
        shutil.rmtree(wd, ignore_errors=True)


def slow_worker_drop(mode, workers):
    """the last handle is dropped while a worker thread is slow to leave the pool (held for 1.5 s between receiving the
    Close message and signing off): the drop must still complete and the directory must open again"""
    prog = ("open %s workers=%d\nks h0 alpha\nput h0 61 01\npausepoint worker.exit 1 hold\nthread c close &\nsleep 1500\n"
            "release worker.exit\nsleep 400\nthread c open %s\nthread c ks h0 alpha\nthread c get - h0 61\n" % (mode, workers, mode))
    o, raw, rc = run_fjv(prog, env_extra={"FJV_SYNC_TIMEOUT_MS": "4000"}, timeout=60)
    if o.get(5) != "ok" or o.get(9) != "ok" or o.get(11) != "some 01":
        return ("dropping the last handle while a worker is slow to exit never completes (close: %s, reopen: %s, read: %s)"
                % (o.get(5), o.get(9), o.get(11)), prog)
    return None


def sealed_journal_drop(mode):
    """a sealed journal is tracked (with keyspace handles as eviction watermarks) when the last handle is dropped, first
    one sealed in this session, then one recovered from disk: the drop must release the directory (reopen in the SAME
    process must succeed and see the data) and no worker may stay behind"""
    L = ["open %s jcomp=none workers=2" % mode, "ks h0 hot", "ks h1 cold", "put h1 63 01", "bigfill h0 66 1024 t0", "rotate h0",
         "sleep 1500", "info", "reopen", "ks h1 cold", "get - h1 63", "put h1 64 02", "reopen", "ks h1 cold", "get - h1 64", "close", "sleep 300"]
    prog = "\n".join(L) + "\n"
    wd = workdir()
    try:
        db = os.path.join(wd, "db")
        pa = os.path.join(wd, "a.prog")
        open(pa, "w").write(prog + "sleep 1500\n")
        a = subprocess.Popen([FJV, "run", pa, db], env=ENV, stdout=subprocess.PIPE, stderr=subprocess.PIPE, text=True)
        out, err = a.communicate(timeout=300)
        o = {}
        for l in out.splitlines():
            t = l.split(" ", 1)
            if t[0].isdigit():
                o[int(t[0])] = t[1] if len(t) > 1 else ""
        if "journals=2" not in o.get(8, ""):
            return None, False
        if o.get(9) != "ok" or o.get(11) != "some 01" or o.get(13) != "ok" or o.get(15) != "some 02":
            return ("with a sealed journal tracked, dropping the last handle does not release the directory: reopen in the same "
                    "process: %s (read %s), second reopen: %s (read %s); info before: %s"
                    % (o.get(9), o.get(11), o.get(13), o.get(15), o.get(8)), prog), True
        return None, True
    finally:
        shutil.rmtree(wd, ignore_errors=True)


def worker_threads(pid):
    n = 0
    try:
        for t in os.listdir("/proc/%d/task" % pid):
            try:
                if open("/proc/%d/task/%s/comm" % (pid, t)).read().strip().startswith("fjall:worker"):
                    n += 1
            except OSError:
                pass
    except OSError:
        return -1
    return n


def run(rep, tier, seed, build):
    obl, dis, problems = proof_audit("props/C17.v", THEOREMS, build["coq"])
    r = random.Random(seed)
    wd = workdir()
    try:
        base = make_db(wd)
        variants = marker_variants(r, 260 if tier == "quick" else 5000)
        results = pmap(marker_case, [(base, v) for v in variants] + [(base, None)])
        # refused directories that have no lock file yet: the refusal must not create one
        good = bytes([70, 74, 76, 3])
        nl = [v for v in variants if v != good][: (40 if tier == "quick" else 600)]
        res_nl = pmap(marker_case, [(base, (v, True)) for v in nl] + [(base, (None, True))])
        bad_nl = [x for x in res_nl if x["res"] == "ok" or not x["unchanged"]]
        from common import known_switch
        f18 = known_switch("C17", "no_marker_no_lock")
        for x in list(bad_nl):
            # known finding E18: marker absent AND lock file absent in an otherwise complete database directory
            if f18 and x["content"] is None and x["nolock"] and x["res"].startswith("err") and x["added"] == ["lock"]:
                rep.known_finding("no_marker_no_lock (%s): %s" % (f18["id"], f18["what"]))
                bad_nl.remove(x)
        for x in bad_nl[:2]:
            rep.violation("# C17: directory without a lock file and with version marker %s: open gives '%s', directory %s "
                          "(a refused open must leave the directory as it was)\n"
                          % (x["content"], x["res"], "unchanged" if x["unchanged"] else "MODIFIED"))
        model = model_marker([(x["content"] if x["content"] not in (None, "") else ("absent" if x["content"] is None else "-"), 0, 1)
                              for x in results])
        bad = []
        for x, m in zip(results, model):
            want_res, want_mod = m.split(" ")[0:-1], m.split(" ")[-1]
            want_res = " ".join(want_res)
            got = x["res"] if x["res"] in ("ok", "err version", "err locked", "err io") else x["res"]
            if got != want_res or (want_res != "ok" and not x["unchanged"]):
                bad.append((x, m))
        for x, m in bad[:3]:
            rep.violation("# C17: version marker content %s: open gives '%s', directory %s; model: %s\n"
                          % (x["content"], x["res"], "unchanged" if x["unchanged"] else "MODIFIED", m))
        from common import pmap_confirm
        lp = []
        ls, unconf1 = pmap_confirm(lambda a: lock_scenario(*a), list(enumerate(["plain", "sw", "occ", "plain"][: (2 if tier == "quick" else 4)])),
                                   lambda x: bool(x), workers=1)
        for (i, mode), probs in zip(enumerate(["plain", "sw", "occ", "plain"]), ls):
            lp += [(mode, p) for p in probs]
        for mode, p in lp[:2]:
            rep.violation("# C17 (%s database): %s\n" % (mode, p))
        sws, unconf2 = pmap_confirm(lambda a: slow_worker_drop(*a), [("plain", 2), ("occ", 1), ("sw", 4)][: (2 if tier == "quick" else 3)],
                                    lambda x: bool(x), workers=1)
        for (mode, w), sw in zip([("plain", 2), ("occ", 1), ("sw", 4)], sws):
            if sw:
                lp.append((mode, sw[0]))
                rep.violation("# C17 (%s database, %d workers): %s\n%s" % (mode, w, sw[0], sw[1]))
                break
        (sjr,), unconf3 = pmap_confirm(sealed_journal_drop, ["plain" if seed % 2 else "sw"], lambda x: bool(x[0]), workers=1)
        sj, sj_eff = sjr
        if sj:
            lp.append(("sealed", sj[0]))
            rep.violation("# C17: %s\n%s" % sj)
        if problems and not rep.violations:
            rep.violation("# C17: proof obligations no longer check\n" + "\n".join(problems) + "\n", suffix="no-failing-input-found")
        rep.coverage = dict(
            obligations=obl, discharged=dis if not problems else min(dis, obl - 1),
            checker_cmd="cd coq && make props/C17.vo (coqc 8.16.1) + Print Assumptions audit", trusted_base=TRUSTED_BASE,
            programs=len(results) + 2, traces_validated_against_impl=len(results), disagreements_checked=len(bad) + len(lp) + len(bad_nl),
            no_lock_file_cases=len(res_nl), unconfirmed_alarms=unconf1 + unconf2 + unconf3, sealed_journal_drop_effective=sj_eff,
            evaluations=len(results) + 2, distinct_nontrivial=len({x["content"] for x in results}),
            rule="version marker contents: every single-byte variant of 'FJL\\x03', truncations, extensions, other versions, "
                 "random strings and an absent marker over a real database directory (with a journal and tables); open result "
                 "and SHA-256 of the directory tree before/after compared with Marker.v open_db; lock: a second process opens "
                 "while the first holds database + keyspace handles (and worker threads), after it dropped everything, and "
                 "after it exited; fjall:worker threads counted through /proc",
            samples=[dict(marker=x["content"], result=x["res"], unchanged=x["unchanged"]) for x in results[:4]],
            proof_problems=problems)
        rep.assumptions = ["flock semantics and thread exit are the OS's; the marker theorem covers all byte strings"]
    finally:
        shutil.rmtree(wd, ignore_errors=True)


def replay(rep, path, build):
    run(rep, "quick", rep.seed, build)
