"""C02 — acknowledged writes survive a process crash, in commit order.
Crash enumeration on the real code: the process is killed before every file-mutating system call (and in the
middle of journal writes); a fresh process reopens and dumps; the oracle accepts exactly the prefix states
between 'last acknowledged' and 'in flight' (states computed by the extracted Coq model)."""
import os, shutil, collections, random
from common import run_fjv, workdir, pmap, log
import crash as C

LEVEL = "fault_enumeration"
COQ_TARGETS = ("props/C02.vo",)
THEOREMS = ["C02_acknowledged_bytes_reach_the_os", "C02_journal_recovers_acknowledged_prefix",
            "C02_acknowledged_write_is_journaled_partial", "C02_acknowledged_clear_is_journaled_partial", "C02_unflushed_writes_are_in_a_live_journal"]


def allowed_states(prog, states, last_line):
    """states: [(lineno, dump)] oracle positions (a `dump` follows every operation group).
    last_line = last program line whose result was printed before the crash.  The operation group before
    dump j is acknowledged iff every line before that dump was printed.  Allowed: the state at the last
    acknowledged position, or at the next one (the group in flight: all-or-nothing)."""
    acked = [j for j, (ln, _) in enumerate(states) if ln - 1 <= last_line]
    acked_pos = acked[-1] if acked else 0
    hi = min(acked_pos + 1, len(states) - 1)
    return [states[j][1] for j in range(acked_pos, hi + 1)], acked_pos


def add_key(dump, name, k, v):
    """the dump string with name{...} updated by k=v (keys sorted bytewise)"""
    parts = []
    seen = False
    for part in (dump or "").split(";"):
        if part.startswith(name + "{"):
            seen = True
            body = part[len(name) + 1:-1]
            d = dict(x.split("=") for x in body.split(",") if x)
            d[k] = v
            part = name + "{" + ",".join("%s=%s" % (a, d[a]) for a in sorted(d, key=bytes.fromhex)) + "}"
        parts.append(part)
    if not seen:
        parts = sorted([p for p in parts if p and p != "-"] + ["%s{%s=%s}" % (name, k, v)])
    return ";".join(parts)


def crash_workload(args):
    idx, seed, tier = args
    r = random.Random(seed * 15485863 + idx)
    mode = ["plain", "plain", "sw", "occ"][idx % 4]
    prog = C.workload(seed * 15485863 + idx, mode=mode, nops=r.randrange(5, 11), maint=True,
                      jcomp=r.choice(["none", "lz4"]))
    states = C.prefix_states(prog)
    wd = workdir()
    out = dict(prog=prog, runs=0, problems=[], events=0, calls=collections.Counter(), torn=0)
    try:
        db = C.fresh(wd)
        obs, raw, rc = run_fjv(prog, dbdir=db, env_extra=C.shim_env(db, wd))
        evs = C.read_log(wd)
        out["events"] = len(evs)
        for e in evs:
            out["calls"][e["call"]] += 1
        # sanity: uncrashed run agrees with the model at every dump
        for ln, st in states:
            if obs.get(ln) != st:
                out["problems"].append(("nocrash", ln, obs.get(ln), st))
                return out
        targets = [(e["n"], None) for e in evs]
        for e in evs:
            if e["call"] in ("write", "pwrite", "writev") and e["path"].endswith(".jnl") and e["len"].isdigit():
                ln = int(e["len"])
                ks = sorted(set([1, ln // 2, ln - 1]) - {0, ln}) if ln > 1 else []
                targets += [(e["n"], k) for k in (ks if tier != "quick" else ks[:1])]
        if tier == "quick" and len(targets) > 160:
            keep = set(r.sample(range(len(targets)), 160))
            targets = [t for i, t in enumerate(targets) if i in keep]
        for (n, torn) in targets:
            db = C.fresh(wd)
            kw = dict(CRASH_AT=n)
            if torn is not None:
                kw["TORN"] = torn
                out["torn"] += 1
            o, raw, rc = run_fjv(prog, dbdir=db, env_extra=C.shim_env(db, wd, **kw))
            last = C.acked_ops(prog, o)
            # reopen, dump; then write once more, reopen again and dump again: the repaired journal must keep working
            okres, dump, o2 = C.reopen_dump(db, mode, extra="ks h9 alpha\nput h9 7a7a7a 01\nreopen\ndump\n")
            out["runs"] += 1
            allowed, pos = allowed_states(prog, states, last)
            if okres != "ok" or dump not in allowed:
                out["problems"].append(("crash", n, torn, "last acknowledged line %d" % last, okres, dump, allowed))
                if len(out["problems"]) >= 2:
                    break
            else:
                d2 = o2.get(6)
                want = add_key(dump, "alpha", "7a7a7a", "01")
                if o2.get(5) != "ok" or d2 != want:
                    out["problems"].append(("crash+write+reopen", n, torn, "last acknowledged line %d" % last,
                                            "%s after the second reopen" % o2.get(5), d2, [want]))
                    if len(out["problems"]) >= 2:
                        break
        out["sample"] = dict(mode=mode, ops=prog.splitlines()[6:12], events=len(evs), crash_runs=out["runs"])
        return out
    finally:
        shutil.rmtree(wd, ignore_errors=True)


def lagging_crash(variant):
    """more than 64 MB of journal traffic (the journal is sealed and may be reclaimed) with a keyspace whose acknowledged
    writes live only in the sealed journal; the process dies without dropping anything; reopen must show every write"""
    L = ["open plain jcomp=none", "ks h0 hot", "ks h1 cold", "ks h2 idle"]
    if variant == 1:
        L += ["put h1 62 00", "rotate h1", "drain"]
    L += ["put h1 63 01", "batch - h1:p:65:03 h0:p:65:03", "bigfill h0 66 1024 t0", "put h1 64 02", "rotate h0", "drain", "info"]
    if variant == 2:
        L += ["bigfill h0 66 1024 t1", "rotate h0", "drain", "info"]
    L += ["exit 0"]
    prog = "\n".join(L) + "\n"
    wd = workdir()
    try:
        db = os.path.join(wd, "db")
        o0, raw0, rc0 = run_fjv(prog, dbdir=db, timeout=900)
        if rc0 == -99 or any(v == "err timeout" for v in o0.values()):
            return None               # cut-off run on an overloaded machine: nothing to judge
        o, raw, rc = run_fjv("open plain\nks h1 cold\nscan - h1 fwd all\nks h0 hot\nget - h0 65\nsize - h0 %s\n"
                             % ("bft0%04d" % 65).encode().hex(), dbdir=db, timeout=120)
        want = ("62=00," if variant == 1 else "") + "63=01,64=02,65=03"
        if o.get(3) != want or o.get(5) != "some 03" or o.get(6) != "some %d" % (1024 * 1024):
            return ("after > 64 MB of journal traffic and a process crash, acknowledged writes are missing: cold = %s (expected %s), "
                    "hot 65 = %s, last big value = %s" % (o.get(3), want, o.get(5), o.get(6)), prog)
        return None
    finally:
        shutil.rmtree(wd, ignore_errors=True)


def run(rep, tier, seed, build):
    from common import proof_audit
    obl, dis, pproblems = proof_audit("props/C02.v", THEOREMS, build["coq"])
    n = 24 if tier == "quick" else 300
    results = pmap(crash_workload, [(i, seed, tier) for i in range(n)])
    calls = collections.Counter()
    for r_ in results:
        calls.update(r_["calls"])
    bad = [r_ for r_ in results if r_["problems"]]
    lag = [x for x in pmap(lagging_crash, [0, 1] if tier == "quick" else [0, 1, 2], workers=3) if x]
    for msg, prog in lag[:1]:
        rep.violation("# C02: %s\n# (the process exits without dropping the database = crash)\n%s" % (msg, prog))
    for r_ in bad[:3]:
        p = r_["problems"][0]
        rep.violation("# C02: %s\n# crash before event %s (torn after %s bytes): %s\n# reopen: %s  recovered: %s\n"
                      "# allowed prefix states: %s\n# workload (run under the shim with FJSHIM_CRASH_AT=%s):\n%s"
                      % (p[0], p[1], p[2], p[3] if len(p) > 3 else "", p[4] if len(p) > 4 else "",
                         p[5] if len(p) > 5 else "", p[6] if len(p) > 6 else "", p[1], r_["prog"]))
    runs = sum(r_["runs"] for r_ in results)
    rep.coverage = dict(evaluations=runs, distinct_nontrivial=len({(r_["events"], len(r_["prog"])) for r_ in results if r_["events"] > 5}),
                        rule="deterministic workloads (single writes, batches, transactions, clears, keyspace creation, rotate, flush, "
                             "compaction steps, major compaction; plain / single-writer / optimistic databases; journal compression on/off) "
                             "run under the LD_PRELOAD shim; the process is killed before each file-mutating call (write, ftruncate, fsync, "
                             "fdatasync, unlink, rename, mkdir, open(O_CREAT)...) issued after the database is open, and after k bytes of "
                             "journal writes; a fresh process reopens and dumps all keyspaces; accepted = the model's state after the last "
                             "acknowledged operation or after the operation in flight; non-trivial workload = > 5 events",
                        samples=[r_["sample"] for r_ in results if r_.get("sample")][:3], workloads=n,
                        large_traffic_crash_scenarios=2 if tier == "quick" else 3, crash_points=runs, torn_write_points=sum(r_["torn"] for r_ in results),
                        syscall_histogram=dict(calls), disagreements_checked=len(bad), exhaustive=(tier != "quick"),
                        journal_theorems=THEOREMS, journal_theorems_discharged=dis, journal_theorem_problems=pproblems)
    if pproblems and not rep.violations:
        rep.violation("# C02: journal theorems no longer check\n" + "\n".join(pproblems) + "\n", suffix="no-failing-input-found")
    rep.assumptions = ["crash model: process death (kill) — everything handed to the OS by write() survives; power loss is C09",
                       "workloads start after Database::open has returned"]


def replay(rep, path, build):
    run(rep, "quick", rep.seed, build)
