"""C06 — a committed batch becomes visible to readers atomically.
Controlled schedules through the pause points (after the seqno draw, between item applies, before publish) with a
reader taking snapshots / scans of all keyspaces inside the window, optionally with a background step (flush of
another keyspace, major compaction) released inside the window."""
import random, re
from common import run_fjv, pmap, known_switch, proof_audit, TRUSTED_BASE

LEVEL = "proof"
COQ_TARGETS = ("props/C06.vo",)
THEOREMS = ["C06_snapshot_atomic", "C06_bump_refuted"]
KEYS = ["61", "62", "63", "64", "65"]


def schedule(seed):
    r = random.Random(seed)
    mode = r.choice(["plain", "plain", "sw", "occ"])
    nitems = r.randrange(2, 6)
    maint = r.choice(["none", "writer", "flush", "major", "flush", "writer"])
    use_tx = mode != "plain" and r.random() < 0.5
    items = [(r.choice(["h0", "h1"]), r.choice(KEYS), "%02x" % r.randrange(1, 255)) for _ in range(nitems)]
    # distinct (handle,key) so that partial application is observable item by item
    seen, its = set(), []
    for h, k, v in items:
        if (h, k) not in seen:
            seen.add((h, k))
            its.append((h, k, v))
    # the pause site is chosen after de-duplication, so that it is always reached
    site, nth = r.choice([("batch.after_seqno", 1), ("batch.after_item", r.randrange(1, len(its) + 1)),
                          ("batch.before_publish", 1), ("batch.after_item", 1)])
    L = ["open %s" % mode, "ks h0 alpha", "ks h1 beta", "ks h2 gamma", "put h0 6b 00", "put h1 6b 00", "put h2 6b 00"]
    # a third of the schedules run on a RECOVERED database (the counters and the snapshot tracker are built by
    # Database::recover, not by create_new)
    reopened = r.random() < 0.34
    if reopened:
        L += ["reopen", "ks h0 alpha", "ks h1 beta", "ks h2 gamma"]
    if maint == "flush":
        L += ["rotate h2", "pausepoint worker.flush.before 1 hold", "thread wk step &", "waitpause worker.flush.before"]
    elif maint == "major":
        L += ["rotate h2", "drain"]
    L.append("pausepoint %s %d hold" % (site, nth))
    if use_tx:
        L.append("thread w tx t0 begin")
        for h, k, v in its:
            L.append("thread w tx t0 put %s %s %s" % (h, k, v))
        L.append("thread w tx t0 commit &")
    else:
        L.append("thread w batch - " + " ".join("%s:p:%s:%s" % it for it in its) + " &")
    L.append("waitpause %s" % site)
    win_start = len(L)
    if maint == "flush":
        L += ["release worker.flush.before", "sleep 150"]
    elif maint == "major":
        L += ["major h2"]
    elif maint == "writer":
        # a second writer arrives inside the window: it must wait for the journal lock (its result arrives later)
        L += ["thread w2 put h2 6c 01 &", "sleep 120"]
    L += ["snap s0 open", "scan s0 h0 fwd all", "scan s0 h1 fwd all", "scan - h0 fwd all", "scan - h1 fwd all"]
    L += ["release %s" % site, "sleep 150"]
    after = len(L)
    L += ["scan s0 h0 fwd all", "scan s0 h1 fwd all", "snap s1 open", "scan s1 h0 fwd all", "scan s1 h1 fwd all"]
    return dict(prog="\n".join(L) + "\n", items=its, maint=maint, site=site, mode=mode, win=win_start, after=after, tx=use_tx,
                reopened=reopened)


def parse(s):
    return {} if s in ("-", None) else dict(x.split("=") for x in s.split(","))


def judge(sc):
    o, raw, rc = run_fjv(sc["prog"], timeout=90)
    lines = sc["prog"].splitlines()
    idx = {l: i + 1 for i, l in enumerate(lines)}

    def at(prefix, start, occurrence=0):
        hits = [i + 1 for i, l in enumerate(lines) if l == prefix and i + 1 > start]
        return o.get(hits[occurrence]) if len(hits) > occurrence else None
    before = {"h0": {"6b": "00"}, "h1": {"6b": "00"}}
    full = {h: dict(d) for h, d in before.items()}
    for h, k, v in sc["items"]:
        full[h][k] = v
    problems = []
    # inside the window: each view (snapshot s0; single scans) must show none or all of the batch
    s0 = {"h0": parse(at("scan s0 h0 fwd all", sc["win"])), "h1": parse(at("scan s0 h1 fwd all", sc["win"]))}
    live = {"h0": parse(at("scan - h0 fwd all", sc["win"])), "h1": parse(at("scan - h1 fwd all", sc["win"]))}
    if s0 not in (before, full):
        problems.append(("snapshot taken inside the commit window sees part of the batch", s0))
    for h in ("h0", "h1"):
        if live[h] not in (before[h], full[h]):
            problems.append(("single scan of %s inside the commit window sees part of the batch" % h, live[h]))
    # the same snapshot after the commit finished: unchanged
    s0b = {"h0": parse(at("scan s0 h0 fwd all", sc["after"])), "h1": parse(at("scan s0 h1 fwd all", sc["after"]))}
    if s0b != s0:
        problems.append(("snapshot changed after the batch finished", (s0, s0b)))
    s1 = {"h0": parse(at("scan s1 h0 fwd all", sc["after"])), "h1": parse(at("scan s1 h1 fwd all", sc["after"]))}
    if s1 != full:
        problems.append(("snapshot taken after the commit does not see the whole batch", s1))
    if any(v.startswith("err timeout") or v.startswith("panic") for v in o.values()):
        problems.append(("schedule did not run to completion", [v for v in o.values() if v.startswith(("err timeout", "panic"))][:2]))
    return dict(sc=sc, obs=o, problems=problems)


def race(seed):
    """lock hand-over race: writer w2 is held inside its critical section (ks.after_journal: journal lock held); a batch
    (thread w) and another single write (thread w3) queue up for the lock; w2 is released; the batch is held after its
    first item.  Whoever wins the lock, a snapshot taken now must see none of the batch.  Repeated, because the OS decides
    the hand-over order."""
    r = random.Random(seed)
    L = ["open plain", "ks h0 alpha", "ks h1 beta", "ks h2 gamma", "put h0 6b 00", "put h1 6b 00"]
    checks = []
    for rd in range(8):
        v = "%02x" % (rd + 1)
        L += ["pausepoint ks.after_journal 1 hold", "thread w2 put h2 6c %s &" % v, "waitpause ks.after_journal",
              "pausepoint batch.after_item 1 hold",
              # the single write queues for the lock first, the batch second (lock hand-over is FIFO in practice);
              # odd rounds use the opposite order
              *(["thread w3 put h2 6d %s &" % v, "sleep 30",
                 "thread w batch - h0:p:61:%s h0:p:62:%s h1:p:61:%s h1:p:62:%s &" % (v, v, v, v), "sleep 30"] if rd % 2 == 0 else
                ["thread w batch - h0:p:61:%s h0:p:62:%s h1:p:61:%s h1:p:62:%s &" % (v, v, v, v), "sleep 30",
                 "thread w3 put h2 6d %s &" % v, "sleep 30"]),
              "pausepoint ks.after_journal 1 off", "release ks.after_journal", "waitpause batch.after_item", "sleep 30",
              "snap s%d open" % rd, "scan s%d h0 fwd all" % rd, "scan s%d h1 fwd all" % rd]
        checks.append((len(L) - 1, len(L), v))
        L += ["release batch.after_item", "sleep 60", "pausepoint batch.after_item 1 off", "snap s%d close" % rd]
    prog = "\n".join(L) + "\n"
    o, raw, rc = run_fjv(prog, timeout=120)
    bad = []
    prev = "00"
    for (l0, l1, v) in checks:
        a, b = parse(o.get(l0)), parse(o.get(l1))
        seen = {a.get("61"), a.get("62"), b.get("61"), b.get("62")}
        # inside the window: all four keys still carry the previous round's value (or nothing in round 0)
        if len(seen) != 1:
            bad.append((v, o.get(l0), o.get(l1)))
    return dict(prog=prog, bad=bad, obs=o)


def stress(seed):
    """free-running threads, no maintenance (no tree version upgrade can occur): W writers commit batches that set the
    same fresh value on 4 keys over two keyspaces; R readers open a snapshot and scan both keyspaces.  Every
    snapshot must show ONE value on all four keys (atomic and in commit order)."""
    r = random.Random(seed)
    W, R = r.choice([2, 3, 4]), r.choice([2, 3])
    nb, ns = 25, 70
    NK = 120
    keys = ["6b%04x" % i for i in range(NK)]

    def big(v):
        return " ".join(["h0:p:%s:%s" % (k, v) for k in keys[:NK // 2]] + ["h1:p:%s:%s" % (k, v) for k in keys] +
                        ["h0:p:%s:%s" % (k, v) for k in keys[NK // 2:]])
    L = ["open %s" % r.choice(["plain", "plain", "sw"]), "ks h0 alpha", "ks h1 beta", "batch - " + big("0000")]
    if seed % 2:
        L += ["reopen", "ks h0 alpha", "ks h1 beta"]      # every other run on a recovered database
    plan = ["w%d" % i for i in range(W) for _ in range(nb)] + ["r%d" % i for i in range(R) for _ in range(ns)]
    r.shuffle(plan)
    cnt = {}
    snaps = []
    for t in plan:
        cnt[t] = cnt.get(t, 0) + 1
        if t[0] == "w":
            v = "%02x%02x" % (int(t[1:]) + 1, cnt[t])
            L.append("thread %s batch - %s &" % (t, big(v)))
        else:
            sname = "s%d" % (int(t[1:]) * 1000 + cnt[t])
            L.append("thread %s snap %s open &" % (t, sname))
            L.append("thread %s scan %s h0 fwd all &" % (t, sname))
            L.append("thread %s scan %s h1 fwd all &" % (t, sname))
            L.append("thread %s snap %s close &" % (t, sname))
            snaps.append(sname)
    prog = "\n".join(L) + "\n"
    o, raw, rc = run_fjv(prog, timeout=120)
    lines = prog.splitlines()
    per = {}
    for i, l in enumerate(lines, 1):
        t = l.split()
        if len(t) > 3 and t[0] == "thread" and t[2] == "scan":
            per.setdefault(t[3], []).append(o.get(i))
    bad = []
    for sname, scans in per.items():
        vals = set()
        for sc in scans:
            if sc is None or sc.startswith(("err", "panic")):
                bad.append((sname, scans))
                break
            vals.update(x.split("=")[1] for x in sc.split(",") if "=" in x)
        else:
            if len(vals) != 1:
                bad.append((sname, scans))
    return dict(prog=prog, snapshots=len(per), bad=bad, writers=W, readers=R)


def run(rep, tier, seed, build):
    obl, dis, pproblems = proof_audit("props/C06.v", THEOREMS, build["coq"])
    n = 120 if tier == "quick" else 3000
    scs = [schedule(seed * 179424673 + i) for i in range(n)]
    from common import pmap_confirm
    res, unconf = pmap_confirm(judge, scs, lambda x: bool(x["problems"]), workers=12)
    bad = [x for x in res if x["problems"]]
    known, unknown = [], []
    for x in bad:
        # a tree version upgrade (flush registration / compaction) inside the window bumps the shared visible seqno
        (known if x["sc"]["maint"] in ("flush", "major") else unknown).append(x)
    f = known_switch("C06", "d_visible_bump")
    if known:
        if f:
            rep.known_finding("d_visible_bump (%s): %s" % (f["id"], f["what"]))
        else:
            unknown = known + unknown
    for x in unknown[:3]:
        rep.violation("# C06: %s: %s\n# schedule (%s, pause at %s, maintenance in window: %s):\n%s# observations: %s\n"
                      % (x["problems"][0][0], x["problems"][0][1], x["sc"]["mode"], x["sc"]["site"], x["sc"]["maint"],
                         x["sc"]["prog"], {k: v for k, v in sorted(x["obs"].items())}))
    rc_, unconf2 = pmap_confirm(race, [seed * 13 + i for i in range(6 if tier == "quick" else 60)], lambda x: bool(x["bad"]), workers=6)
    for x in [x for x in rc_ if x["bad"]][:2]:
        rep.violation("# C06: lock hand-over race: a snapshot taken while a batch was held after its first item sees part of it: %s\n%s"
                      % (x["bad"][0], x["prog"]))
    st = pmap(stress, [seed * 7 + i for i in range(6 if tier == "quick" else 60)], workers=3)
    for x in [x for x in st if x["bad"]][:2]:
        rep.violation("# C06: a snapshot taken while %d writers commit 4-key batches (no maintenance running) shows a torn or "
                      "out-of-order batch: %s\n%s" % (x["writers"], x["bad"][0], x["prog"]))
    rep.coverage = dict(unconfirmed_alarms=unconf + unconf2, evaluations=n + sum(x["snapshots"] for x in st), stress_runs=len(st), race_rounds=8 * len(rc_),
                        stress_snapshots=sum(x["snapshots"] for x in st), distinct_nontrivial=len({(x["sc"]["site"], x["sc"]["maint"], x["sc"]["mode"], len(x["sc"]["items"]), x["sc"]["tx"], x["sc"]["reopened"]) for x in res}),
                        schedules_on_recovered_database=sum(1 for s in scs if s["reopened"]),
                        rule="schedules: a batch or transaction commit of 2-5 items over two keyspaces is held at a pause point (after "
                             "the seqno draw / after the i-th item / before publish); inside the window a reader opens a snapshot and "
                             "scans every keyspace, single scans run, and optionally a flush of a third keyspace (worker held after its "
                             "journal-lock section) or a major compaction completes; after release the same snapshot is re-read and a new "
                             "one must see the whole batch; a third of the schedules first close and reopen the database; distinct by "
                             "(site, maintenance, db mode, items, tx, recovered)",
                        samples=[scs[0]["prog"].splitlines()], schedules_with_maintenance=sum(1 for s in scs if s["maint"] != "none"),
                        known_finding_schedules=len(known), disagreements_checked=len(bad))
    rep.coverage.update(obligations=obl, discharged=dis if not pproblems else min(dis, obl - 1),
                        checker_cmd="cd coq && make props/C06.vo (coqc 8.16.1) + Print Assumptions audit", trusted_base=TRUSTED_BASE,
                        traces_validated_against_impl=n, proof_problems=pproblems)
    if pproblems and not rep.violations:
        rep.violation("# C06: proof obligations no longer check\n" + "\n".join(pproblems) + "\n", suffix="no-failing-input-found")
    rep.assumptions = ["the theorem is over Conc.v (journal mutex = one in-flight slot; Rust Mutex mutual exclusion assumed); it holds for "
                       "every interleaving WITHOUT the version-upgrade bump, and is refuted with it (known finding E4)",
                       "schedules on the implementation are enumerated through pause points; free-running schedules are sampled"]


def replay(rep, path, build):
    run(rep, "quick", rep.seed, build)
