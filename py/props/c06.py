"""C06 — a committed batch becomes visible to readers atomically.
Controlled schedules through the pause points (after the seqno draw, between item applies, before publish) with a
reader taking snapshots / scans of all keyspaces inside the window, optionally with a background step (flush of
another keyspace, major compaction) released inside the window."""
import random, re
from common import run_fjv, pmap, known_switch, proof_audit, TRUSTED_BASE

LEVEL = "exploration"
COQ_TARGETS = ()
KEYS = ["61", "62", "63", "64", "65"]


def schedule(seed):
    r = random.Random(seed)
    mode = r.choice(["plain", "plain", "sw", "occ"])
    nitems = r.randrange(2, 6)
    maint = r.choice(["none", "none", "flush", "major", "flush"])
    use_tx = mode != "plain" and r.random() < 0.5
    items = [(r.choice(["h0", "h1"]), r.choice(KEYS), "%02x" % r.randrange(1, 255)) for _ in range(nitems)]
    # distinct (handle,key) so that partial application is observable item by item
    seen, its = set(), []
    for h, k, v in items:
        if (h, k) not in seen:
            seen.add((h, k))
            its.append((h, k, v))
    # the pause site is chosen after de-duplication, so that it is always reached
    site, nth = r.choice([("batch.after_seqno", 1), ("batch.after_item", r.randrange(1, len(its) + 1)),
                          ("batch.before_publish", 1), ("batch.after_item", 1)])
    L = ["open %s" % mode, "ks h0 alpha", "ks h1 beta", "ks h2 gamma", "put h0 6b 00", "put h1 6b 00", "put h2 6b 00"]
    if maint == "flush":
        L += ["rotate h2", "pausepoint worker.flush.before 1 hold", "thread wk step &", "waitpause worker.flush.before"]
    elif maint == "major":
        L += ["rotate h2", "drain"]
    L.append("pausepoint %s %d hold" % (site, nth))
    if use_tx:
        L.append("thread w tx t0 begin")
        for h, k, v in its:
            L.append("thread w tx t0 put %s %s %s" % (h, k, v))
        L.append("thread w tx t0 commit &")
    else:
        L.append("thread w batch - " + " ".join("%s:p:%s:%s" % it for it in its) + " &")
    L.append("waitpause %s" % site)
    win_start = len(L)
    if maint == "flush":
        L += ["release worker.flush.before", "sleep 150"]
    elif maint == "major":
        L += ["major h2"]
    L += ["snap s0 open", "scan s0 h0 fwd all", "scan s0 h1 fwd all", "scan - h0 fwd all", "scan - h1 fwd all"]
    L += ["release %s" % site, "sleep 150"]
    after = len(L)
    L += ["scan s0 h0 fwd all", "scan s0 h1 fwd all", "snap s1 open", "scan s1 h0 fwd all", "scan s1 h1 fwd all"]
    return dict(prog="\n".join(L) + "\n", items=its, maint=maint, site=site, mode=mode, win=win_start, after=after, tx=use_tx)


def parse(s):
    return {} if s in ("-", None) else dict(x.split("=") for x in s.split(","))


def judge(sc):
    o, raw, rc = run_fjv(sc["prog"], timeout=90)
    lines = sc["prog"].splitlines()
    idx = {l: i + 1 for i, l in enumerate(lines)}

    def at(prefix, start, occurrence=0):
        hits = [i + 1 for i, l in enumerate(lines) if l == prefix and i + 1 > start]
        return o.get(hits[occurrence]) if len(hits) > occurrence else None
    before = {"h0": {"6b": "00"}, "h1": {"6b": "00"}}
    full = {h: dict(d) for h, d in before.items()}
    for h, k, v in sc["items"]:
        full[h][k] = v
    problems = []
    # inside the window: each view (snapshot s0; single scans) must show none or all of the batch
    s0 = {"h0": parse(at("scan s0 h0 fwd all", sc["win"])), "h1": parse(at("scan s0 h1 fwd all", sc["win"]))}
    live = {"h0": parse(at("scan - h0 fwd all", sc["win"])), "h1": parse(at("scan - h1 fwd all", sc["win"]))}
    if s0 not in (before, full):
        problems.append(("snapshot taken inside the commit window sees part of the batch", s0))
    for h in ("h0", "h1"):
        if live[h] not in (before[h], full[h]):
            problems.append(("single scan of %s inside the commit window sees part of the batch" % h, live[h]))
    # the same snapshot after the commit finished: unchanged
    s0b = {"h0": parse(at("scan s0 h0 fwd all", sc["after"])), "h1": parse(at("scan s0 h1 fwd all", sc["after"]))}
    if s0b != s0:
        problems.append(("snapshot changed after the batch finished", (s0, s0b)))
    s1 = {"h0": parse(at("scan s1 h0 fwd all", sc["after"])), "h1": parse(at("scan s1 h1 fwd all", sc["after"]))}
    if s1 != full:
        problems.append(("snapshot taken after the commit does not see the whole batch", s1))
    if any(v.startswith("err timeout") or v.startswith("panic") for v in o.values()):
        problems.append(("schedule did not run to completion", [v for v in o.values() if v.startswith(("err timeout", "panic"))][:2]))
    return dict(sc=sc, obs=o, problems=problems)


def run(rep, tier, seed, build):
    n = 120 if tier == "quick" else 3000
    scs = [schedule(seed * 179424673 + i) for i in range(n)]
    res = pmap(judge, scs, workers=12)
    bad = [x for x in res if x["problems"]]
    known, unknown = [], []
    for x in bad:
        # a tree version upgrade (flush registration / compaction) inside the window bumps the shared visible seqno
        (known if x["sc"]["maint"] in ("flush", "major") else unknown).append(x)
    f = known_switch("C06", "d_visible_bump")
    if known:
        if f:
            rep.known_finding("d_visible_bump (%s): %s" % (f["id"], f["what"]))
        else:
            unknown = known + unknown
    for x in unknown[:3]:
        rep.violation("# C06: %s: %s\n# schedule (%s, pause at %s, maintenance in window: %s):\n%s# observations: %s\n"
                      % (x["problems"][0][0], x["problems"][0][1], x["sc"]["mode"], x["sc"]["site"], x["sc"]["maint"],
                         x["sc"]["prog"], {k: v for k, v in sorted(x["obs"].items())}))
    rep.coverage = dict(evaluations=n, distinct_nontrivial=len({(x["sc"]["site"], x["sc"]["maint"], x["sc"]["mode"], len(x["sc"]["items"]), x["sc"]["tx"]) for x in res}),
                        rule="schedules: a batch or transaction commit of 2-5 items over two keyspaces is held at a pause point (after "
                             "the seqno draw / after the i-th item / before publish); inside the window a reader opens a snapshot and "
                             "scans every keyspace, single scans run, and optionally a flush of a third keyspace (worker held after its "
                             "journal-lock section) or a major compaction completes; after release the same snapshot is re-read and a new "
                             "one must see the whole batch; distinct by (site, maintenance, db mode, items, tx)",
                        samples=[scs[0]["prog"].splitlines()], schedules_with_maintenance=sum(1 for s in scs if s["maint"] != "none"),
                        known_finding_schedules=len(known), disagreements_checked=len(bad))
    rep.assumptions = ["schedules are enumerated through pause points; free-running thread schedules are sampled in C14"]


def replay(rep, path, build):
    run(rep, "quick", rep.seed, build)
