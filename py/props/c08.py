"""C08 — transaction-local semantics: read-your-writes, last write wins, clean rollback, single writer."""
import os, re, shutil
from common import run_fjv, workdir, pmap
from gen import Gen
from seqdiff import run_seq
from seqprop import coverage, replay_file, corpus, audit

LEVEL = "proof"
COQ_TARGETS = ("props/C08.vo",)
THEOREMS = ["C08_read_your_writes", "C08_commit_complete", "C08_commit_sound", "C08_rollback_noop", "C08_tx_write_is_overlay_step", "C08_commit_refines_reference_map"]
RULE = ("in-transaction programs (<= 40 calls on overlapping keys and several keyspaces, every read method after every write, "
        "take/fetch_update/update_fetch with removing, constant and appending functions) on both transactional databases, all "
        "three endings (commit / rollback / drop), reads from outside before and after; compared between implementation, model "
        "and oracle; plus N-thread read-modify-write counters on the single-writer database (no lost update)")


def programs(seed, n, nops):
    out = []
    for i in range(n):
        mode = ["sw", "occ"][i % 2]
        g = Gen(seed * 100153 + i, mode=mode, nks=1 + i % 3, maxviews=1 if mode == "sw" else 2,
                weights=dict(reopen=0.3, snap=0.5, it=0.5, tx=4, txop=20, gc=0.5, ks=0, delks=0, ingest=0.3, clear=0.3,
                             major=0.3, rotate=1, step=1, put=2, delete=1, batch=0.5, get=2, scan=2, misc=1))
        p = g.program(nops)
        g.lines = []
        for t in list(g.txs):
            g.probe(t)
            g.emit("tx %s %s" % (t, g.r.choice(["commit", "rollback", "drop"])))
        g.probe()
        out.append(p + "\n".join(g.lines) + "\n")
    return out


def counter_run(args):
    """single-writer database: T threads each do K read-modify-write transactions on one counter key"""
    seed, threads, k = args
    lines = ["open sw workers=1", "ks h0 alpha", "put h0 63 00"]
    n = 0
    for r in range(k):
        for t in range(threads):
            lines.append("thread w%d uf h0 63 app:01 &" % t)
            n += 1
    lines.append("sleep 50")
    prog = "\n".join(lines) + "\n"
    wd = workdir()
    try:
        obs, raw, rc = run_fjv(prog + "", dbdir=os.path.join(wd, "db"), timeout=120)
        o2, _, _ = run_fjv("open sw\nks h0 alpha\nsize - h0 63\n", dbdir=os.path.join(wd, "db"))
        got = o2.get(3)
        oks = sum(1 for v in obs.values() if v.startswith("some"))
        want = "some %d" % (1 + oks)
        return dict(ok=(got == want and oks == n), got=got, want=want, acks=oks, n=n, prog=prog)
    finally:
        shutil.rmtree(wd, ignore_errors=True)


def exclusive_run(kind):
    """single-writer database: while thread W holds an explicit write transaction that has read k, every other write to the
    database — another write_tx, but also a plain insert / remove / batch through the keyspace handle, which is a
    one-operation transaction — must wait for W's commit.  W reads k, B writes k, W writes k from what it read and commits:
    the only serial order consistent with W's read is W then B, so B's value must be the final one.  (A Database-level
    write batch is not a transaction of the single-writer database — the type does not offer one — and is not part of this.)"""
    bop = {"put": "put h0 63 bb", "del": "del h0 63", "batch": "batch - h0:p:63:bb", "take": "take h0 63"}[kind]
    L = ["open sw", "ks h0 alpha", "put h0 63 00", "thread w tx t0 begin", "thread w get t0 h0 63",
         "thread b %s &" % bop, "sleep 300", "thread w tx t0 put h0 63 01", "thread w get t0 h0 63", "thread w tx t0 commit",
         "thread b has - h0 00", "get - h0 63"]
    prog = "\n".join(L) + "\n"
    o, raw, rc = run_fjv(prog, env_extra={"FJV_SYNC_TIMEOUT_MS": "8000"}, timeout=90)
    want = {"put": "some bb", "del": "none", "batch": "some bb", "take": "none"}[kind]
    seen, inside, final = o.get(5), o.get(9), o.get(len(L))
    if seen is None or final is None or any(str(v).startswith("err timeout") for v in o.values()):
        return None
    if seen != "some 00" or inside != "some 01" or final != want:
        return ("single-writer exclusion: W read %s, B did `%s` while W's transaction was open, W wrote 01 (read back %s) and committed; "
                "final value %s, expected %s (B serialised after W)" % (seen, bop, inside, final, want), prog)
    return None


def run(rep, tier, seed, build):
    n, nops = (300, 40) if tier == "quick" else (8000, 60)
    audit(rep, "props/C08.v", THEOREMS, build)
    progs = corpus("C08") + programs(seed, n, nops)
    res = run_seq(rep, progs)
    cr = pmap(counter_run, [(seed + i, 2 + i % 3, 6) for i in range(4 if tier == "quick" else 40)], workers=4)
    for c in cr:
        if not c["ok"]:
            rep.violation("# C08: single-writer read-modify-write lost an update: final size %s, expected %s (%d of %d acknowledged)\n%s"
                          % (c["got"], c["want"], c["acks"], c["n"], c["prog"]))
            break
    from common import pmap_confirm
    ex, unconf = pmap_confirm(exclusive_run, ["put", "del", "take"], lambda x: bool(x), workers=4)
    for msg, prog in [x for x in ex if x][:2]:
        rep.violation("# C08: %s\n%s" % (msg, prog))
    coverage(rep, res, progs, RULE, dict(counter_runs=len(cr), counter_increments=sum(c["n"] for c in cr), exclusion_schedules=3, unconfirmed_alarms=unconf))


def replay(rep, path, build):
    replay_file(rep, path)
