"""C11 — after reopening, new writes supersede everything recovered."""
import os, re, shutil, struct
from common import run_fjv, workdir, pmap
from gen import Gen, KEYS
from seqdiff import run_seq
from seqprop import audit
import journal as J

LEVEL = "proof"
COQ_TARGETS = ("props/C11.vo",)
THEOREMS = ["C11_seqno_above_all", "C11_later_write_wins", "C11_after_any_history_operations_refine", "C11_reads_agree_after_reopen", "C11_counter_above_after_reopen",
            "C11_example", "C11_later_write_wins_partial"]


def programs(seed, n, nops):
    out = []
    for i in range(n):
        mode = ["plain", "plain", "sw", "occ"][i % 4]
        g = Gen(seed * 100043 + i, mode=mode, nks=1 + i % 3, configs=["", "", "blob=8", "blob=1"], sealing=(2 if i >= n - max(12, n // 12) else 0),
                weights=dict(reopen=2, snap=0.5, it=0, tx=0, txop=0, gc=0.3, ks=0.3, delks=0, ingest=2, clear=1.5,
                             major=1.5, rotate=3, step=3, delete=5))
        p = g.program(nops)
        g.lines = []
        g.op_reopen()
        # overwrite / remove recovered keys, then read back through point reads, scans and a new snapshot
        for h in g.handles:
            for k in g.r.sample(KEYS, 4):
                if g.r.random() < 0.6:
                    g.emit("put h%d %s %s" % (h, k, "ee%02x" % g.r.randrange(256)))
                else:
                    g.emit("del h%d %s" % (h, k))
        g.emit("snap s77 open")
        g.probe()
        g.probe("s77")
        out.append(p + "\n".join(g.lines) + "\n")
    return out


def counter_check(prog):
    """direct clause: right after a reopen the next seqno exceeds every seqno in any journal or table"""
    cut = prog.rfind("\nreopen\n")
    head = prog[:cut + 1]
    hs = sorted(set(re.findall(r"^ks (h\d+) (\w+)", head, flags=re.M)))
    tail = "reopen\ninfo\n" + "".join("ks %s %s\nseqnos %s\n" % (h, n, h) for h, n in hs) + "exit 0\n"
    wd = workdir()
    try:
        db = os.path.join(wd, "db")
        obs, raw, rc = run_fjv(head + tail, dbdir=db)
        base = len(head.splitlines())
        info = obs.get(base + 2, "")
        m = re.search(r"seqno=(\d+) visible=(\d+)", info)
        if not m:
            return None
        seqno, visible = int(m.group(1)), int(m.group(2))
        highest = []
        for i in range(len(hs)):
            s = obs.get(base + 2 + 2 * (i + 1), "")
            mm = re.search(r"highest=(\d+|-)", s)
            if mm and mm.group(1) != "-":
                highest.append(int(mm.group(1)))
        jmax = -1
        for f in os.listdir(db):
            if f.endswith(".jnl"):
                data = open(os.path.join(db, f), "rb").read().rstrip(b"\0")
                for (t, s, e) in J.frame(data)[0]:
                    if t == 1:
                        jmax = max(jmax, struct.unpack_from("<Q", data, s + 5)[0])
        top = max(highest + [jmax])
        if seqno <= top or visible != seqno:
            return dict(prog=head + tail, seqno=seqno, visible=visible, highest_in_trees=highest, highest_in_journal=jmax)
        return None
    finally:
        shutil.rmtree(wd, ignore_errors=True)


def run(rep, tier, seed, build):
    n, nops = (200, 35) if tier == "quick" else (5000, 90)
    problems = audit(rep, "props/C11.v", THEOREMS, build)
    progs = programs(seed, n, nops)
    res = run_seq(rep, progs)
    st = res["stats"]
    # the highest seqno of a keyspace lives only in its tables (bulk ingestion is its last operation) and many EMPTY keyspaces
    # surround it: whatever order recovery visits the keyspaces in, the counter must end above the ingested table
    many = []
    for names in (("e%d", "data"), ("k%d", "zz"), ("x%d", "m"), ("aa%d", "b0")):
        L = ["open plain"] + ["ks h%d %s" % (i, names[0] % i) for i in range(9)] + ["ks h9 " + names[1], "put h9 61 01",
             "ingest h9 6a=01 6b=02 6c=03", "reopen"]
        many.append("\n".join(L) + "\n")
    cc = [c for c in pmap(counter_check, progs + many) if c]
    if cc:
        c = min(cc, key=lambda c: len(c["prog"]))
        rep.violation("# C11: after reopen the sequence counter (%d, visible %d) does not exceed every recovered seqno: "
                      "trees %s, journal records up to %d\n%s" % (c["seqno"], c["visible"], c["highest_in_trees"],
                                                                  c["highest_in_journal"], c["prog"]))
    rep.coverage = dict(programs=st["programs"], disagreements_checked=st["disagreements_checked"] + len(cc),
                        evaluations=st["ops"], distinct_nontrivial=res["distinct"],
                        rule="generated histories ending in reopen, overwrite/remove of recovered keys, then point reads, "
                             "scans and a fresh snapshot; compared between implementation, model and oracle; additionally the "
                             "doc-hidden seqno()/visible_seqno() right after each final reopen are compared with the highest "
                             "seqno in every tree (hook) and in every journal file (framing parser); non-trivial = >= 4 "
                             "distinct operation kinds",
                        samples=[progs[0].splitlines()[:14]], op_histogram=dict(res["ophist"]),
                        counter_failures=len(cc), known_finding_programs=st["known_finding_programs"],
                        correspondence_failures=st.get("correspondence_failures", 0))
    from common import TRUSTED_BASE
    obl, dis, pr, pf = rep._audit
    rep.coverage.update(obligations=obl, discharged=dis if not pr else min(dis, obl - 1), trusted_base=TRUSTED_BASE,
                        checker_cmd="cd coq && make props/C11.vo (coqc 8.16.1) + Print Assumptions audit",
                        traces_validated_against_impl=st["programs"], proof_problems=pr)
    if pr and not rep.violations:
        rep.violation("# C11: proof obligations no longer check\n" + "\n".join(pr) + "\n", suffix="no-failing-input-found")


def replay(rep, path, build):
    prog = "".join(l for l in open(path) if not l.startswith("#"))
    run_seq(rep, [prog], shrink=False)
    c = counter_check(prog)
    if c:
        rep.violation("# C11 counter clause fails\n" + c["prog"])
    rep.coverage = dict(programs=1, disagreements_checked=len(rep.violations), samples=[prog.splitlines()[:10]])
