"""C13 — fail-stop after a journal I/O failure (fault injection through the LD_PRELOAD shim)."""
import os, shutil, collections, random
from common import run_fjv, workdir, pmap
import crash as C
from props.c02 import allowed_states

LEVEL = "fault_enumeration"
COQ_TARGETS = ("props/C13.vo",)
THEOREMS = ["C13_no_operation_clears_the_flag", "C13_poisoned_forever", "C13_poisoned_refuses_writes_and_clears", "C13_poison_sticky_partial"]
WRITE_OPS = ("put", "del", "delw", "batch", "clear", "persist", "take", "fu", "uf")


def is_write_line(t):
    return t and (t[0] in WRITE_OPS or (t[0] == "tx" and len(t) > 2 and t[2] == "commit"))


def fault_workload(args):
    idx, seed, tier = args
    r = random.Random(seed * 32452843 + idx)
    mode = ["plain", "plain", "sw", "occ"][idx % 4]
    manual = (idx % 5 == 4)
    prog = C.workload(seed * 32452843 + idx, mode=mode, nops=r.randrange(6, 12), maint=(idx % 3 == 0),
                      jcomp="none", manual=manual, persists=True, reopen_first=(idx % 2 == 1))
    # make sure some values bypass the 8 KiB BufWriter (error surfaces in write_all) inside batches and single puts
    big = "ab" * 9000
    lines = prog.splitlines()
    ins = [i for i, l in enumerate(lines) if l.startswith(("put ", "batch "))]
    bl = [i for i in ins if lines[i].startswith("batch ")]
    pick = r.sample(ins, min(2, len(ins)))
    if bl and not any(i in bl for i in pick):
        pick[0] = r.choice(bl)        # always a batch with a record of 8 KiB or more (written with one direct write() call)
    for i in pick:
        if lines[i].startswith("put "):
            t = lines[i].split()
            lines[i] = "put %s %s %s" % (t[1], t[2], big)
        else:
            lines[i] += " h0:p:7a7a:%s" % big
    prog = "\n".join(lines) + "\n"
    states = C.prefix_states(prog)
    wd = workdir()
    out = dict(prog=prog, runs=0, problems=[], kinds=collections.Counter(), surfaced=collections.Counter())
    try:
        db = C.fresh(wd)
        obs, raw, rc = run_fjv(prog, dbdir=db, env_extra=C.shim_env(db, wd))
        evs = [e for e in C.read_log(wd) if e["path"].endswith(".jnl")]
        nw = sum(1 for e in evs if e["call"] in ("write", "pwrite", "writev"))
        ns = sum(1 for e in evs if e["call"] in ("fsync", "fdatasync"))
        plan = [("write", n, None) for n in range(1, nw + 1)] + [("sync", n, None) for n in range(1, ns + 1)]
        # short writes: always on the calls that bypass the 8 KiB BufWriter (a record written with one write() call: a short
        # count must not be taken for success), plus the first few others
        wevs = [e for e in evs if e["call"] in ("write", "pwrite", "writev")]
        big_ns = [i + 1 for i, e in enumerate(wevs) if e["len"].isdigit() and int(e["len"]) >= 8192]
        must = [("write", n, k) for n in big_ns for k in (1, 100, 5000)]
        plan += [("write", n, k) for n in range(1, nw + 1) for k in (1, 100)][: (10 if tier == "quick" else 10 ** 6)]
        if tier == "quick" and len(plan) > 50:
            plan = r.sample(plan, 50)
        plan = must[: (12 if tier == "quick" else 10 ** 6)] + [x for x in plan if x not in must]
        for (cls, n, short) in plan:
            for ending in (("exit 0",) if tier == "quick" and r.random() < 0.7 else ("exit 0", "close")):
                db = C.fresh(wd)
                kw = dict(FAULT_AT=n, FAULT_CLASS=cls, FAULT_ERRNO=r.choice([5, 28]), FAULT_PATH=".jnl")
                if short is not None:
                    kw["FAULT_SHORT"] = short
                p2 = prog if ending == "exit 0" else prog.replace("exit 0\n", "close\n")
                o, raw, rc = run_fjv(p2, dbdir=db, env_extra=C.shim_env(db, wd, **kw))
                out["runs"] += 1
                out["kinds"][cls + ("-short" if short else "")] += 1
                pl = p2.splitlines()
                # the failing call is a write operation, or a background worker tick (`step` / `drain`: the journal writer's
                # position query flushes its buffer) — a worker error poisons the database just the same
                errs = [i for i in sorted(o) if o[i].startswith("err") and
                        (is_write_line(pl[i - 1].split()) or pl[i - 1].split()[0] in ("step", "drain"))]
                faulted = any("E5" in e["ret"] or "E28" in e["ret"] for e in C.read_log(wd))
                if not faulted:
                    continue
                if not errs:
                    # the injected fault was not reported by any write operation
                    if ending == "close":
                        continue     # may have hit the final sync of Journal::drop: nothing acknowledged afterwards
                    out["problems"].append(("swallowed", cls, n, short, "no operation reported the injected error", "", []))
                    break
                f = errs[0]
                out["surfaced"][pl[f - 1].split()[0] + ":" + o[f]] += 1
                later_ok = [i for i in sorted(o) if i > f and is_write_line(pl[i - 1].split()) and not o[i].startswith("err")]
                if later_ok:
                    out["problems"].append(("not-fail-stop", cls, n, short,
                                            "line %d (%s) failed with '%s' but line %d (%s) was acknowledged afterwards"
                                            % (f, pl[f - 1][:40], o[f], later_ok[0], pl[later_ok[0] - 1][:40]), "", []))
                    break
                okres, dump, o2 = C.reopen_dump(db, mode)
                allowed, pos = allowed_states(p2, states, f - 1)
                if manual:
                    # manual journal persist: only persist() makes earlier writes crash-durable; without a clean
                    # drop any prefix of the acknowledged operations may be what reached the OS
                    allowed = [st for (_, st) in states[:pos + 2]] + [""]      # "" = nothing reached the OS yet
                # keyspace creation is not a journal write and is not refused after the failure:
                # compare modulo empty keyspaces
                strip = lambda d: ";".join(x for x in (d or "").split(";") if not x.endswith("{}") and x != "-")
                if okres != "ok" or strip(dump) not in [strip(a) for a in allowed]:
                    out["problems"].append(("recovery", cls, n, short, "failed line %d (%s): %s" % (f, pl[f - 1][:40], o[f]),
                                            "%s %s" % (okres, dump), allowed))
                    break
            if out["problems"]:
                break
        # transient short writes (the call returns a short count and nothing fails afterwards, as after an interrupted write):
        # either the writer completes the record (write_all) and nothing is lost, or it reports an error; a record cut short
        # behind an acknowledgement shows up after reopen: everything up to the last acknowledged persist (manual journal
        # persist) / the last acknowledged operation must be there
        if not out["problems"]:
            for n in big_ns[: (3 if tier == "quick" else 10 ** 6)]:
                for k in (100, 5000):
                    db = C.fresh(wd)
                    p2 = prog.replace("exit 0\n", "close\n")
                    o, raw, rc = run_fjv(p2, dbdir=db, env_extra=C.shim_env(db, wd, FAULT_AT=n, FAULT_CLASS="write", FAULT_PATH=".jnl",
                                                                             FAULT_SHORT=k, FAULT_SHORT_TRANSIENT=1))
                    out["runs"] += 1
                    out["kinds"]["write-short-transient"] += 1
                    pl = p2.splitlines()
                    if not any("SHORT" in e["ret"] or (e["ret"].isdigit() and e["len"].isdigit() and int(e["ret"]) < int(e["len"]))
                               for e in C.read_log(wd)):
                        continue
                    if any(o[i].startswith("err") for i in o if is_write_line(pl[i - 1].split())):
                        continue          # reported: the fail-stop part is covered by the runs above
                    okres, dump, o2 = C.reopen_dump(db, mode)
                    last = C.acked_ops(p2, o)
                    allowed, pos = allowed_states(p2, states, last)
                    strip = lambda d: ";".join(x for x in (d or "").split(";") if not x.endswith("{}") and x != "-")
                    # a clean close flushes and syncs the journal: every acknowledged operation must be there
                    if okres != "ok" or strip(dump) not in [strip(a) for a in allowed]:
                        out["problems"].append(("short-write-accepted", "write", n, k,
                                                "a write() of the %d-th journal write call returned a short count (%d bytes) and no operation reported "
                                                "an error, yet after a clean close and reopen acknowledged operations are missing" % (n, k),
                                                "%s %s" % (okres, dump), allowed))
                        break
                if out["problems"]:
                    break
        out["sample"] = dict(mode=mode, manual_persist=manual, journal_writes=nw, journal_syncs=ns, runs=out["runs"],
                             ops=[l[:60] for l in prog.splitlines()[6:10]])
        return out
    finally:
        shutil.rmtree(wd, ignore_errors=True)


def racing_writers(args):
    """writer A's journal append fails slowly (the failing write() sleeps 700 ms before returning the error) while A holds the
    journal lock; writers B and C arrive meanwhile and queue on the lock.  Sound judgement from the shim's event order: a
    write acknowledged although its journal bytes were written after the failed call is a violation, and everything
    acknowledged must be there after reopen."""
    mode, akind, bkind, short, reopened = args
    big = "ab" * 9000
    a = {"batch": "batch - h0:p:62:%s h1:p:63:01" % big, "put": "put h0 62 %s" % big}[akind]
    L = ["open %s jcomp=none" % mode, "ks h0 alpha", "ks h1 beta", "put h0 61 00"]
    if reopened:
        L += ["reopen", "ks h0 alpha", "ks h1 beta"]
    if bkind == "tx":
        L += ["thread b tx t1 begin", "thread b tx t1 put h0 64 04"]
    L += ["arm", "thread a %s &" % a, "sleep 250"]
    ia = len(L) - 1
    b = {"batch": "batch - h0:p:64:04 h1:p:64:04", "put": "put h1 64 04", "tx": "tx t1 commit", "clear": "clear h1",
         "persist": "persist all"}[bkind]
    # barriers: a synchronous read on each thread returns only after that thread's asynchronous write has returned
    L += ["thread b %s &" % b, "thread c put h1 65 05 &", "thread a has - h1 00", "thread b has - h1 00", "thread c has - h1 00",
          "put h0 66 06", "batch - h1:p:67:07", "exit 0"]
    ib = ia + 2
    prog = "\n".join(L) + "\n"
    wd = workdir()
    try:
        db = C.fresh(wd)
        kw = dict(FAULT_AT=1, FAULT_CLASS="write", FAULT_ERRNO=5, FAULT_PATH=".jnl", FAULT_DELAY_MS=700)
        if short:
            kw["FAULT_SHORT"] = 100
        o, raw, rc = run_fjv(prog, dbdir=db, env_extra=C.shim_env(db, wd, **kw), timeout=60)
        evs = [e for e in C.read_log(wd) if e["path"].endswith(".jnl") and e["call"] in ("write", "pwrite", "writev")]
        fi = next((i for i, e in enumerate(evs) if "E5" in e["ret"]), None)
        problems = []
        if fi is None or not o.get(ia, "").startswith("err"):
            return dict(prog=prog, problems=[], effective=False)     # the fault did not hit A's append (nothing to judge)
        writes_after = [e for e in evs[fi + 1:] if not e["ret"].startswith("E")]
        acked = {i: l for i, l in enumerate(L, 1) if i > ia and o.get(i, "").startswith("ok") and is_write_line(l.replace("thread b ", "").replace("thread c ", "").split())}
        if writes_after and acked:
            problems.append("A's journal append failed (line %d: %s) and %d journal write(s) followed it; acknowledged afterwards: %s"
                            % (ia, o.get(ia), len(writes_after), "; ".join("line %d %s" % (i, l[:40]) for i, l in acked.items())))
        okres, dump, o2 = C.reopen_dump(db, mode)
        for i, l in acked.items():
            for tok, need in (("64", "64=04"), ("65", "65=05"), ("66", "66=06"), ("67", "67=07")):
                if (" " + tok + " " in l or ":" + tok + ":" in l) and "clear" not in l and need not in (dump or ""):
                    problems.append("line %d (%s) was acknowledged but is missing after reopen: %s %s" % (i, l[:40], okres, dump))
        if okres != "ok":
            problems.append("reopen after the failure: %s" % okres)
        return dict(prog=prog, problems=problems, effective=True)
    finally:
        shutil.rmtree(wd, ignore_errors=True)


RACES = [(m, a, b, s_, ro) for m in ("plain", "sw", "occ") for a in ("batch", "put") for b in ("batch", "put", "tx", "clear", "persist")
         for s_ in (False, True) for ro in (False, True) if not (m == "plain" and b == "tx")]


def run(rep, tier, seed, build):
    from common import proof_audit
    obl, dis, pproblems = proof_audit("props/C13.v", THEOREMS, build["coq"])
    n = 20 if tier == "quick" else 300
    results = pmap(fault_workload, [(i, seed, tier) for i in range(n)])
    races = RACES if tier != "quick" else [x for i, x in enumerate(RACES) if (i + seed) % 5 == 0]
    from common import pmap_confirm
    rr, unconf = pmap_confirm(racing_writers, races, lambda x: bool(x["problems"]), workers=8)
    for x in [x for x in rr if x["problems"]][:2]:
        rep.violation("# C13: writers queued on the journal lock while another writer's append fails: %s\n"
                      "# shim: FJSHIM_FAULT_AT=1 FJSHIM_FAULT_CLASS=write FJSHIM_FAULT_PATH=.jnl FJSHIM_FAULT_DELAY_MS=700\n%s"
                      % (x["problems"][0], x["prog"]))
    bad = [r_ for r_ in results if r_["problems"]]
    for r_ in bad[:3]:
        p = r_["problems"][0]
        rep.violation("# C13: %s — fault class=%s on the %s-th matching journal call (short write: %s)\n# %s\n# after reopen: %s\n"
                      "# allowed: %s\n# workload (shim: FJSHIM_FAULT_AT=%s FJSHIM_FAULT_CLASS=%s FJSHIM_FAULT_PATH=.jnl):\n%s"
                      % (p[0], p[1], p[2], p[3], p[4], p[5], p[6], p[2], p[1],
                         r_["prog"]))
    runs = sum(r_["runs"] for r_ in results)
    kinds, surf = collections.Counter(), collections.Counter()
    for r_ in results:
        kinds.update(r_["kinds"])
        surf.update(r_["surfaced"])
    rep.coverage = dict(evaluations=runs, distinct_nontrivial=len({r_["sample"]["journal_writes"] * 100 + r_["sample"]["journal_syncs"]
                                                                    for r_ in results if r_.get("sample")}),
                        rule="workloads mixing small operations (error surfaces in flush/persist) and >= 8 KiB values (error surfaces in "
                             "write_all), batches, transactions, clears, explicit persists, manual and automatic journal persist; EIO/ENOSPC "
                             "(optionally after a short write) injected on the n-th write / n-th fsync|fdatasync of *.jnl for every n; "
                             "checked: the operation reports an error, no later write is acknowledged, and after exit (with and without "
                             "clean drop) reopen yields the acknowledged prefix or that plus the complete failed operation",
                        samples=[r_["sample"] for r_ in results if r_.get("sample")][:3], workloads=n, fault_points=runs,
                        racing_writer_schedules=len(rr), unconfirmed_alarms=unconf, racing_writer_schedules_effective=sum(1 for x in rr if x["effective"]),
                        fault_kind_histogram=dict(kinds), error_surface_histogram=dict(surf), disagreements_checked=len(bad),
                        partial_theorems=THEOREMS, partial_theorems_discharged=dis, partial_theorem_problems=pproblems)
    if pproblems and not rep.violations:
        rep.violation("# C13: partial theorem no longer checks\n" + "\n".join(pproblems) + "\n", suffix="no-failing-input-found")
    rep.assumptions = ["faults are injected on journal files only (the property is about journal I/O)", "multi-writer schedules: one slow failing append with two "
                       "writers queued behind it (judged by the order of journal writes in the shim log); other thread schedules are not enumerated"]


def replay(rep, path, build):
    run(rep, "quick", rep.seed, build)
