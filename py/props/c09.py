"""C09 — persist(SyncData|SyncAll) makes all earlier writes power-loss durable.
Power-loss adversary built from the shim's syscall log: at a crash point every journal file is cut back to
what had been written when it was last fsync'ed/fdatasync'ed (the rest is zeroed), then the directory is
reopened by a fresh process."""
import os, shutil, collections, random
from common import run_fjv, workdir, pmap
import crash as C
from props.c02 import allowed_states

LEVEL = "proof"
COQ_TARGETS = ("props/C09.vo",)
THEOREMS = ["C09_persist_sync_durable", "C09_persist_buffer_crash_safe", "C09_powerloss_is_prefix", "C09_synced_batches_recovered"]


def synced_extents(evs):
    """per journal file: bytes written so far, and the written extent at its last sync"""
    written, synced = collections.Counter(), {}
    for e in evs:
        p = e["path"]
        if not p.endswith(".jnl"):
            continue
        if e["call"] in ("write", "pwrite", "writev") and e["ret"].lstrip("-").isdigit() and e["off"].isdigit():
            written[p] = max(written[p], int(e["off"]) + int(e["ret"]))
        elif e["call"] in ("fsync", "fdatasync") and e["ret"] == "0":
            synced[p] = written[p]
    return written, synced


def powerloss_image(db, evs):
    written, synced = synced_extents(evs)
    lost = 0
    for f in os.listdir(db):
        if f.endswith(".jnl"):
            keep = synced.get(f, 0)
            path = os.path.join(db, f)
            size = os.path.getsize(path)
            with open(path, "r+b") as fh:
                fh.truncate(keep)
                fh.truncate(size)       # zero-fill the lost tail (keeps the pre-allocated length)
            lost += max(0, written[f] - keep)
    return lost


def is_sync_line(t):
    return (t and ((t[0] == "persist" and t[1] in ("data", "all")) or (t[0] == "batch" and t[1] in ("data", "all"))))


def pl_workload(args):
    idx, seed, tier = args
    r = random.Random(seed * 49979687 + idx)
    mode = ["plain", "plain", "sw", "occ"][idx % 4]
    manual = (idx % 2 == 1)
    prog = C.workload(seed * 49979687 + idx, mode=mode, nops=r.randrange(7, 14), maint=(idx % 4 == 0),
                      jcomp=r.choice(["none", "lz4"]), manual=manual, persists=True, arm_early=True)
    if idx % 3 == 0:
        prog = prog.replace("exit 0\n", "close\nexit 0\n")       # Journal::drop must sync
    states = C.prefix_states(prog)
    wd = workdir()
    out = dict(prog=prog, runs=0, problems=[], lost_bytes=0, sync_lines=0, calls=collections.Counter())
    try:
        db = C.fresh(wd)
        obs, raw, rc = run_fjv(prog, dbdir=db, env_extra=C.shim_env(db, wd))
        evs = C.read_log(wd)
        for e in evs:
            if e["path"].endswith(".jnl"):
                out["calls"][e["call"]] += 1
        pl = prog.splitlines()
        out["sync_lines"] = sum(1 for l in pl if is_sync_line(l.split()))
        points = [e["n"] + 1 for e in evs] + [len(evs) + 1]
        if tier == "quick" and len(points) > 40:
            points = sorted(set(r.sample(points, 36) + [len(evs) + 1]))
        for n in points:
            db = C.fresh(wd)
            o, raw, rc = run_fjv(prog, dbdir=db, env_extra=C.shim_env(db, wd, CRASH_AT=n))
            ev2 = C.read_log(wd)
            out["lost_bytes"] += powerloss_image(db, [e for e in ev2 if "CRASH" not in e["ret"] and "TORN" not in e["ret"]])
            last = C.acked_ops(prog, o)
            okres, dump, o2 = C.reopen_dump(db, mode)
            out["runs"] += 1
            sync_acked = [i for i in sorted(o) if i <= last and is_sync_line(pl[i - 1].split()) and o[i] == "ok"]
            if "close" in pl and o.get(pl.index("close") + 1) == "ok":
                sync_acked.append(pl.index("close") + 1)          # clean drop syncs the journal
            L = max(sync_acked) if sync_acked else 0
            durable = [j for j, (ln, _) in enumerate(states) if ln - 1 <= L]
            lo = durable[-1] if durable else None
            _, hi = allowed_states(prog, states, last)
            hi = min(hi + 1, len(states) - 1)
            allowed = [states[j][1] for j in range(lo if lo is not None else 0, hi + 1)]
            # power loss may keep a later write that reached a table (flush syncs tables) while an earlier, unsynced
            # journal tail is lost: the guarantee is per write, not a prefix.  Every key must carry a value it had
            # at some position between the last sync-acknowledged operation and the operation in flight.
            def parse(d):
                out_ = {}
                for part in (d or "").split(";"):
                    if "{" in part:
                        name, body = part[:-1].split("{", 1)
                        for kv in body.split(","):
                            if kv:
                                k, v = kv.split("=")
                                out_[(name, k)] = v
                return out_
            ok = okres == "ok"
            if ok and lo is not None:
                rec = parse(dump)
                cands = [parse(a) for a in allowed]
                keys = set(rec)
                for c_ in cands:
                    keys |= set(c_)
                for key in keys:
                    if rec.get(key) not in [c_.get(key) for c_ in cands]:
                        ok = False
                        break
            if not ok:
                out["problems"].append(("powerloss", n, "last acknowledged line %d, last sync-acknowledged line %d" % (last, L),
                                        "%s %s" % (okres, dump), allowed))
                break
        out["sample"] = dict(mode=mode, manual_persist=manual, sync_lines=out["sync_lines"], points=out["runs"],
                             ops=[l[:60] for l in pl[5:10]])
        return out
    finally:
        shutil.rmtree(wd, ignore_errors=True)


def trace_conformance(args):
    """(a) the syscall sequence per API call: persist(data) => flush (write) then fdatasync; persist(all) => fsync;
    persist(buffer) => write only; automatic mode: every write op flushes to the OS before it returns."""
    idx, seed = args
    wd = workdir()
    try:
        db = C.fresh(wd)
        prog = ("open plain jcomp=none manual=1\nks h0 alpha manualp=1\narm\nput h0 61 01\nput h0 62 02\npersist buffer\nput h0 63 03\n"
                "persist data\nput h0 64 04\npersist all\nbatch all h0:p:65:05\nbatch data h0:p:66:06\nbatch buffer h0:p:67:07\nexit 0\n")
        o, raw, rc = run_fjv(prog, dbdir=db, env_extra=C.shim_env(db, wd))
        seq = [e["call"] for e in C.read_log(wd) if e["path"].endswith(".jnl")]
        want = ["write", "write", "fdatasync", "write", "fsync", "write", "fsync", "write", "fdatasync", "write"]
        return None if seq == want else ("manual", seq, want)
    finally:
        shutil.rmtree(wd, ignore_errors=True)


def writer_conformance(args):
    """Writer.v vs the real journal writer: random sequences of writes (entry sizes on both sides of the 8 KiB buffer,
    accumulating across it) and persists with fully manual journal persist; the sequence of write()/fdatasync()/fsync()
    calls on the journal file and their byte counts must equal the model's."""
    import subprocess
    from common import FJM, ENV
    idx, seed = args
    r = random.Random(seed * 982451653 + idx)
    L = ["open plain jcomp=none manual=1", "ks h0 alpha manualp=1", "persist buffer", "arm"]
    M = []
    for _ in range(r.randrange(8, 30)):
        c = r.random()
        if c < 0.55:
            n = r.choice([0, 1, 10, 100, 1000, 3000, 4000, 8100, 8150, 8171, 8192, 9000, 20000])
            k = "6b%02x" % r.randrange(256)
            L.append("put h0 %s %s" % (k, ("ab" * n) or "-"))
            M.append("b 13 %d 13" % (21 + 2 + n))
        elif c < 0.75:
            its, lens = [], [13]
            for _ in range(r.randrange(1, 5)):
                n = r.choice([0, 5, 500, 5000, 8192, 10000])
                k = "6c%02x" % r.randrange(256)
                its.append("h0:p:%s:%s" % (k, ("cd" * n) or "-"))
                lens.append(21 + 2 + n)
            dur = r.choice(["-", "buffer", "data", "all"])
            L.append("batch %s %s" % (dur, " ".join(its)))
            M.append("b " + " ".join(map(str, lens + [13])))
            if dur != "-":
                M.append("p " + dur)
        elif c < 0.85:
            # a clear record (Start 13 + Clear 9 + End 13 bytes), often directly between two persists
            if r.random() < 0.5:
                m = r.choice(["buffer", "data", "all"])
                L.append("persist " + m)
                M.append("p " + m)
            L.append("clear h0")
            M.append("b 13 9 13")
            if r.random() < 0.7:
                m = r.choice(["buffer", "data", "all"])
                L.append("persist " + m)
                M.append("p " + m)
        else:
            m = r.choice(["buffer", "data", "all"])
            L.append("persist " + m)
            M.append("p " + m)
    L.append("exit 0")
    wd = workdir()
    try:
        db = C.fresh(wd)
        o, raw, rc = run_fjv("\n".join(L) + "\n", dbdir=db, env_extra=C.shim_env(db, wd))
        got = []
        for e in C.read_log(wd):
            if e["path"].endswith(".jnl"):
                got.append("write %s" % e["len"] if e["call"] in ("write", "pwrite", "writev") else e["call"])
        p = subprocess.run([FJM, "writer"], input="\n".join(M) + "\n", env=ENV, stdout=subprocess.PIPE, stderr=subprocess.PIPE, text=True)
        want = p.stdout.split("\n")[:-1]
        return None if got == want else dict(prog="\n".join(l[:80] for l in L), got=got, want=want)
    finally:
        shutil.rmtree(wd, ignore_errors=True)


def rotation_powerloss(variant):
    """data written before a journal rotation: > 64 MB of traffic seals 0.jnl (kept alive by a lagging keyspace); later a
    persist(SyncAll) is acknowledged; power loss = every journal cut back to its last synced extent; reopen must show all"""
    manual = variant == 1
    mp = " manualp=1" if manual else ""
    L = ["open plain jcomp=none" + (" manual=1" if manual else ""), "arm", "ks h0 hot" + mp, "ks h1 cold" + mp, "put h1 63 01",
         "batch - h1:p:65:03 h0:p:65:03", "bigfill h0 66 1024 t0", "rotate h0", "drain", "info", "put h1 64 02",
         "persist %s" % ("data" if variant == 2 else "all"), "put h1 66 ff", "exit 0"]
    prog = "\n".join(L) + "\n"
    wd = workdir()
    try:
        db = C.fresh(wd)
        o, raw, rc = run_fjv(prog, dbdir=db, env_extra=C.shim_env(db, wd), timeout=900)
        if rc == -99 or any(v == "err timeout" for v in o.values()):
            return dict(problem=None, effective=False, lost=0)       # cut-off run on an overloaded machine
        evs = C.read_log(wd)
        written, synced = synced_extents(evs)
        lost = powerloss_image(db, evs)
        njournals = len([f for f in os.listdir(db) if f.endswith(".jnl")])
        o2, raw2, rc2 = run_fjv("open plain\nks h1 cold\nscan - h1 fwd all\nks h0 hot\nget - h0 65\n", dbdir=db, timeout=120)
        got = o2.get(3) or ""
        ok = o.get(12) == "ok" and o2.get(1) == "ok" and got.startswith("63=01,64=02,65=03") and o2.get(5) == "some 03"
        if njournals < 2:
            return dict(problem=None, effective=False, lost=lost)
        if not ok:
            return dict(problem="persist acknowledged (%s) after a journal rotation, then power loss: cold = %s (expected 63=01,64=02,65=03[,66=ff]), "
                                "hot 65 = %s, open = %s; written/synced per journal: %s / %s"
                                % (o.get(12), got, o2.get(5), o2.get(1), dict(written), synced), prog=prog, effective=True, lost=lost)
        return dict(problem=None, effective=True, lost=lost)
    finally:
        shutil.rmtree(wd, ignore_errors=True)


def run(rep, tier, seed, build):
    from common import proof_audit, TRUSTED_BASE
    obl, dis, pproblems = proof_audit("props/C09.v", THEOREMS, build["coq"])
    wc = [x for x in pmap(writer_conformance, [(i, seed) for i in range(40 if tier == "quick" else 600)]) if x]
    n = 24 if tier == "quick" else 400
    results = pmap(pl_workload, [(i, seed, tier) for i in range(n)])
    rp = pmap(rotation_powerloss, [0] if tier == "quick" else [0, 1, 2], workers=3)
    for x in [x for x in rp if x["problem"]][:1]:
        rep.violation("# C09: %s\n# (shim log -> every *.jnl cut back to its last synced extent -> reopen)\n%s" % (x["problem"], x["prog"]))
    tc = trace_conformance((0, seed))
    bad = [r_ for r_ in results if r_["problems"]]
    for r_ in bad[:3]:
        p = r_["problems"][0]
        rep.violation("# C09: after power loss at event %s (%s) the recovered state misses durable writes\n# reopen: %s\n# allowed: %s\n"
                      "# workload (shim FJSHIM_CRASH_AT=%s, then every *.jnl cut back to its last synced extent):\n%s"
                      % (p[1], p[2], p[3], p[4], p[1], r_["prog"]))
    runs = sum(r_["runs"] for r_ in results)
    calls = collections.Counter()
    for r_ in results:
        calls.update(r_["calls"])
    rep.coverage = dict(evaluations=runs + 1, distinct_nontrivial=len({(r_["sync_lines"], r_["runs"]) for r_ in results if r_["sync_lines"] > 0}),
                        rule="workloads with persist(buffer|data|all) calls and batch durability levels at random positions, manual and "
                             "automatic journal persist, optional clean close; for (a sample of) every later system call: kill there, cut "
                             "every journal file back to the extent written at its last successful fsync/fdatasync (shim log), reopen; "
                             "the recovered state must be a prefix state at or after the last sync-acknowledged operation; plus one "
                             "syscall-trace conformance scenario; non-trivial = workload with at least one sync-level persist",
                        samples=[r_["sample"] for r_ in results if r_.get("sample")][:3], workloads=n, powerloss_points=runs,
                        rotation_powerloss_scenarios=len(rp), rotation_powerloss_effective=sum(1 for x in rp if x["effective"]),
                        unsynced_bytes_dropped=sum(r_["lost_bytes"] for r_ in results),
                        journal_syscall_histogram=dict(calls), disagreements_checked=len(bad) + len(wc),
                        obligations=obl, discharged=dis if not pproblems else min(dis, obl - 1),
                        checker_cmd="cd coq && make props/C09.vo (coqc 8.16.1) + Print Assumptions audit", trusted_base=TRUSTED_BASE,
                        programs=n + (40 if tier == "quick" else 600), traces_validated_against_impl=(40 if tier == "quick" else 600),
                        proof_problems=pproblems)
    # the syscall correspondence with Writer.v: a difference is a violation of the property only if the power-loss adversary
    # above finds data lost; otherwise the theorems no longer speak about this code and that is reported as such
    if (wc or tc) and not rep.violations:
        x = wc[0] if wc else dict(got=tc[1], want=tc[2], prog="(fixed trace scenario: put, put, persist buffer, put, persist data, put, persist all, batches)")
        rep.violation("# C09: correspondence Writer.v <-> journal writer no longer checks: the write()/fdatasync()/fsync() sequence differs;\n"
                      "# the power-loss adversary (%d workloads, %d power-loss points, rotation scenario) found no lost durable write\n"
                      "# implementation: %s\n# model:          %s\n%s\n" % (n, sum(r_["runs"] for r_ in results), x["got"], x["want"], x["prog"]),
                      suffix="no-failing-input-found")
    if pproblems and not rep.violations:
        rep.violation("# C09: proof obligations no longer check\n" + "\n".join(pproblems) + "\n", suffix="no-failing-input-found")
    rep.assumptions = ["fsync/fdatasync make the data written so far durable (the OS's promise)",
                       "only journal files lose unsynced data in the quick tier; table/manifest durability belongs to lsm-tree"]


def replay(rep, path, build):
    run(rep, "quick", rep.seed, build)
