"""C01 — ordered-map equivalence under background maintenance."""
import collections
from common import proof_audit, TRUSTED_BASE
from gen import Gen
from seqdiff import run_seq
from seqprop import audit, coverage, corpus

LEVEL = "proof"
COQ_TARGETS = ("props/C01.vo",)
THEOREMS = ['C01_step_refines', 'C01_refines_reference_map', 'C01_reads_refine', 'C01_reads_refine_all', 'C01_program_get_line', 'C01_interpreter_steps_are_model_steps',
            'C01_interpreter_states_reachable', 'C01_get_observation', 'C01_scan_observation', 'C01_maintenance_invisible', 'C01_scan_is_the_sorted_map',
            'C01_invariant_reachable', 'C01_gc_stream_keeps_values', 'C01_refines_example',
            'C01_write_point_read_partial', 'C01_gc_keeps_newest_partial', 'C01_point_read_agrees_with_scan_partial',
            'C01_reads_agree', 'C01_reads_agree_example', 'C01_shadowing_refuted_without_recency',
            'C01_db_reads_agree', 'C01_db_reads_agree_example']

# keyspace configurations drawn per keyspace: standard, key-value separation (threshold 1 / 8 bytes); FIFO is documented for insert-only workloads with monotone keys only (lsm-tree asserts a disjoint L0) and is exercised by dedicated scenarios
CONFIGS = ["", "", "blob=8", "blob=1"]


def programs(seed, n, nops):
    out = []
    for i in range(n):
        mode = ["plain", "plain", "sw", "occ"][i % 4]
        g = Gen(seed * 100003 + i, mode=mode, nks=1 + i % 3, sealing=(2 if i >= n - max(8, n // 20) else 0), configs=CONFIGS,
                weights=dict(reopen=0, snap=0, it=0, tx=0, txop=0, gc=0.5, ks=0.3, delks=0, ingest=2, clear=1, major=1))
        out.append(g.program(nops))
    return out


def run(rep, tier, seed, build):
    n, nops = (240, 45) if tier == "quick" else (4000, 120)
    audit(rep, "props/C01.v", THEOREMS, build)
    progs = corpus("C01") + programs(seed, n, nops)
    res = run_seq(rep, progs)
    coverage(rep, res, progs,
             "generated programs over 1-3 keyspaces (plain / single-writer / optimistic databases), random placement of "
             "rotate/step/drain/major between operations; each operation's result is compared between implementation, "
             "model(as_is) and oracle(ideal); non-trivial = uses >= 4 distinct operation kinds, distinct by operation-kind "
             "sequence; the obligations counted are the theorems of props/C01.v (refinement to reference maps, scans, GC stream)",
             dict(theorems=THEOREMS))


def replay(rep, path, build):
    prog = "".join(l for l in open(path) if not l.startswith("#"))
    run_seq(rep, [prog], shrink=False)
    rep.coverage = dict(programs=1, disagreements_checked=len(rep.violations), samples=[prog.splitlines()[:10]])
