"""C15 — journal records round-trip bit-exactly; damage is never read as different data.
Theorems: props/C15.v.  Correspondence: real writer/reader vs Codec.v/Reader.v, round trips under both
compression settings (written under one, read under the other) and every single-byte alteration."""
import os, random, shutil, collections
from common import (proof_audit, run_fjv, workdir, pmap, TRUSTED_BASE, known_switch, log)
import journal as J
from props.c03 import state_of, dump_str, NAMES

LEVEL = "proof"
COQ_TARGETS = ("props/C15.vo",)
THEOREMS = ["C15_entry_roundtrip", "C15_journal_roundtrip", "C15_accepted_batches_checksummed",
            "C15_damage_needs_collision"]


def roundtrip(args):
    idx, seed, tier = args
    r = random.Random(seed * 7919 + idx)
    jw, jr = r.choice([("none", "lz4"), ("lz4", "none"), ("lz4", "lz4"), ("none", "none")])
    prog = J.journal_program(seed * 7919 + idx, jw, r.randrange(2, 8), big=True)
    wd = workdir()
    out = dict(prog=prog, jw=jw, jr=jr, problems=[])
    try:
        db = os.path.join(wd, "db")
        C, obs, rc = J.make_journal(prog, db)
        full = os.path.join(wd, "full.jnl")
        open(full, "wb").write(C + b"\0" * 16)
        li = J.read_impl(full)
        open(full, "wb").write(C + b"\0" * 16)
        lm = J.read_model(full)
        batches = [l for l in li if l.startswith("batch ")]
        if li != lm:
            out["problems"].append(("read", li[-2:], lm[-2:]))
        enc = J.encode_model(batches, jw, 4096)
        if enc != C:
            out["problems"].append(("encode", ["model %d bytes" % len(enc)], ["impl %d bytes" % len(C)]))
        # expected content straight from the program text (what was written), independent of any reader
        st = {n: {} for n in NAMES.values()}
        hmap = {"h0": "alpha", "h1": "beta", "h2": "gamma"}
        for l in prog.splitlines():
            t = l.split()
            if t[0] == "put":
                st[hmap[t[1]]][t[2]] = t[3]
            elif t[0] in ("del", "delw"):
                st[hmap[t[1]]].pop(t[2], None)
            elif t[0] == "clear":
                st[hmap[t[1]]] = {}
            elif t[0] == "batch":
                for it in t[2:]:
                    f = it.split(":")
                    if f[1] == "p":
                        st[hmap[f[0]]][f[2]] = f[3]
                    else:
                        st[hmap[f[0]]].pop(f[2], None)
        o2, _, _ = run_fjv("open plain jcomp=%s\ndump\n" % jr, dbdir=db)
        if o2.get(2) != dump_str(st):
            out["problems"].append(("reopen-content", [o2.get(1), (o2.get(2) or "")[:200]], [dump_str(st)[:200]]))
        out["sample"] = dict(write_setting=jw, read_setting=jr, journal_bytes=len(C), batches=len(batches),
                             ops=prog.splitlines()[4:6])
        out["sig"] = (len(C), len(batches), jw, jr)
        return out
    finally:
        shutil.rmtree(wd, ignore_errors=True)


def small_program(seed):
    r = random.Random(seed)
    ls = ["open plain jcomp=%s" % r.choice(["none", "lz4"]), "ks h0 alpha", "ks h1 beta", "ks h2 gamma",
          "put h0 6b 7631"]
    for _ in range(r.randrange(1, 4)):
        c = r.random()
        if c < 0.4:
            ls.append("batch - h0:p:6b:%s h1:p:6a:77 h0:d:%s" % (r.choice(["7632", "-", "aabbcc"]), r.choice(["6c", "6b"])))
        elif c < 0.6:
            ls.append("put h1 %s %s" % (r.choice(["6a", "6b"]), r.choice(["00", "ff01", "-"])))
        elif c < 0.8:
            ls.append("del h0 6b")
        else:
            ls.append("clear h1")
    return "\n".join(ls) + "\n"


def damage(args):
    idx, seed, tier = args
    prog = small_program(seed * 104729 + idx)
    wd = workdir()
    out = dict(prog=prog, cases=0, problems=[], known=[], errs=collections.Counter())
    try:
        db = os.path.join(wd, "db")
        C, obs, rc = J.make_journal(prog, db)
        entries, ends = J.frame(C)
        jf = os.path.join(wd, "content.jnl")
        open(jf, "wb").write(C)
        full = os.path.join(wd, "f.jnl")
        open(full, "wb").write(C)
        orig = [l for l in J.read_impl(full) if l.startswith("batch ")]
        prefix_states = [dump_str(state_of(orig[:k])) for k in range(len(orig) + 1)]
        cl = []
        for off in range(len(C)):
            for v in sorted({C[off] ^ 1, C[off] ^ 0x80, 0} - {C[off]}):
                cl.append((len(C), 64, off, v))
        inp = "".join("%d %d %d %d\n" % c for c in cl)
        import subprocess
        from common import FJV, FJM, ENV
        pi = subprocess.run([FJV, "readcuts", jf, os.path.join(wd, "scratch.jnl")], input=inp, env=ENV,
                            stdout=subprocess.PIPE, stderr=subprocess.PIPE, text=True, timeout=600)
        pm = subprocess.run([FJM, "cuts", jf], input=inp, env=ENV, stdout=subprocess.PIPE, stderr=subprocess.PIPE,
                            text=True, timeout=1200)
        bi, bm = J._blocks(pi.stdout), J._blocks(pm.stdout)
        if len(bi) != len(cl) or len(bm) != len(cl):
            out["problems"].append(("damage-run", -1, -1, ["impl %d" % len(bi)], ["model %d %s" % (len(bm), pm.stderr[-200:])]))
            return out
        suspicious = []
        for (m, pad, off, v), li, lm in zip(cl, bi, bm):
            out["cases"] += 1
            if li != lm:
                out["problems"].append(("damage-corr", off, v, li[-3:], lm[-3:]))
                if len(out["problems"]) > 3:
                    return out
                continue
            end = li[-2]
            out["errs"][end] += 1
            if end.startswith("end err"):
                continue
            got = [l for l in li if l.startswith("batch ")]
            if got == orig[:len(got)]:
                continue
            suspicious.append((off, v, got))
        # state-level verdict through the real recovery for every accepted-but-different read
        for off, v, got in suspicious[: (40 if tier == "quick" else 400)]:
            db2 = os.path.join(wd, "db2")
            shutil.rmtree(db2, ignore_errors=True)
            shutil.copytree(db, db2)
            data = bytearray(C)
            data[off] = v
            with open(os.path.join(db2, "0.jnl"), "wb") as fh:
                fh.write(bytes(data))
                fh.truncate(len(C) + 4096)
            o2, _, _ = run_fjv("open plain\ndump\n", dbdir=db2)
            if o2.get(1) != "ok":
                continue
            if o2.get(2) in prefix_states:
                continue
            # which field was hit?
            ent = next(((t, s, e) for (t, s, e) in entries if s <= off < e), None)
            in_start_seqno = ent is not None and ent[0] == 1 and 5 <= off - ent[1] < 13
            rec = dict(offset=off, value=v, entry=ent, state=o2.get(2), prefix_states=prefix_states)
            if in_start_seqno:
                out["known"].append(rec)
            else:
                out["problems"].append(("damage-state", off, v, [o2.get(2)], prefix_states))
        out["sample"] = dict(journal_bytes=len(C), alterations=len(cl), accepted_but_different=len(suspicious),
                             ops=prog.splitlines()[4:])
        return out
    finally:
        shutil.rmtree(wd, ignore_errors=True)


def run(rep, tier, seed, build):
    obl, dis, problems = proof_audit("props/C15.v", THEOREMS, build["coq"])
    n_rt = 40 if tier == "quick" else 600
    n_dm = 6 if tier == "quick" else 60
    rts = pmap(roundtrip, [(i, seed, tier) for i in range(n_rt)])
    dms = pmap(damage, [(i, seed, tier) for i in range(n_dm)], workers=8)
    bad = [r for r in rts + dms if r["problems"]]
    for r in bad[:3]:
        p = r["problems"][0]
        rep.violation("# C15: %s\n# implementation: %s\n# model/oracle: %s\n# program:\n%s" % (p[0], p[1:-1], p[-1], r["prog"]))
    kn = [k for r in dms for k in r["known"]]
    if kn:
        f = known_switch("C15", "d_start_unchecked")
        if f:
            rep.known_finding("d_start_unchecked (%s): %s" % (f["id"], f["what"]))
        else:
            r0 = next(r for r in dms if r["known"])
            k = r0["known"][0]
            rep.violation("# C15: altering byte %d (inside a Start marker's seqno, not covered by the checksum) to %d "
                          "yields a state that is no prefix of the commit history\n# state after reopen: %s\n"
                          "# prefix states: %s\n# program:\n%s" % (k["offset"], k["value"], k["state"], k["prefix_states"], r0["prog"]))
    if problems and not rep.violations:
        rep.violation("# C15: proof obligations no longer check\n" + "\n".join(problems) + "\n", suffix="no-failing-input-found")
    errs = collections.Counter()
    for r in dms:
        errs.update(r["errs"])
    cases = sum(r["cases"] for r in dms)
    rep.coverage = dict(
        obligations=obl, discharged=dis if not problems else min(dis, obl - 1),
        checker_cmd="cd coq && make props/C15.vo (coqc 8.16.1) + Print Assumptions audit",
        trusted_base=TRUSTED_BASE, programs=n_rt + n_dm, traces_validated_against_impl=n_rt + cases,
        disagreements_checked=len(bad), evaluations=n_rt + cases,
        distinct_nontrivial=len({r.get("sig") for r in rts if r.get("sig") and r["sig"][1] >= 2}),
        rule="round trip: generated batches (empty values, lengths 4095/4096/4097/5000, compressible and random data, "
             "tombstones, weak tombstones, clears, 1-200 items, 3 keyspaces) written by the real writer under one "
             "compression setting and recovered by the real recovery under another; file bytes must equal the model's "
             "encoding and both readers must agree. damage: every offset of small journals x up to 3 replacement "
             "values, outcome compared between real reader and Reader.v, accepted-but-different reads judged at "
             "state level through the real recovery. non-trivial round trip = >= 2 batches, distinct by size/settings",
        samples=[r["sample"] for r in (rts[:2] + dms[:2]) if r.get("sample")],
        damage_outcome_histogram=dict(errs), known_finding_hits=len(kn), proof_problems=problems)
    rep.assumptions = ["single-byte alterations of a completed journal; xxh3 collisions are not constructed"]


def replay(rep, path, build):
    run(rep, "quick", rep.seed, build)
