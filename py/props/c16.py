"""C16 — keyspace options chosen at creation stay in force.
Theorems: props/C16.v (codec round trips, stored-form round trip, existing name ignores options).
Correspondence: random option records are created through the real API, the stored form
(Keyspace::verif_config_dump) right after creation and after reopen-with-different-options is compared with the
model's encode_kvs / from_kvs∘encode_kvs; a behavioural probe checks that the memtable size is really in force."""
import random, subprocess, re
from common import proof_audit, run_fjv, pmap, FJM, ENV, TRUSTED_BASE, known_switch

LEVEL = "proof"
COQ_TARGETS = ("props/C16.vo",)
THEOREMS = ["C16_policy_roundtrips", "C16_kvs_roundtrip", "C16_length_guard_needed", "C16_existing_ignores_options"]

F32 = ["00000000", "3f800000", "41200000", "38d1b717", "7f7fffff", "00000001", "7fc00001", "7f800001", "ff800000",
       "3e800000", "80000000", "bf800000", "42c80000"]


def lst(r, gen, lo=1, hi=6):
    n = r.choice([lo, 2, 3, hi, r.randrange(lo, 20), 255]) if r.random() < 0.9 else r.randrange(lo, 256)
    return ",".join(gen() for _ in range(max(lo, n)))


def record(r):
    o = []
    if r.random() < 0.7:
        o.append("mt=%d" % r.choice([1, 1000, 4096, 2 ** 20, 2 ** 32, 2 ** 40 + 17, 2 ** 64 - 1]))
    if r.random() < 0.5:
        o.append("manualp=%d" % r.randrange(2))
    if r.random() < 0.5:
        o.append("eprh=%d" % r.randrange(2))
    if r.random() < 0.6:
        o.append("dbs=" + lst(r, lambda: str(r.choice([1, 512, 4096, 65536, 2 ** 32 - 1, r.randrange(2 ** 32)]))))
    if r.random() < 0.6:
        o.append("dbri=" + lst(r, lambda: str(r.choice([1, 2, 16, 255, r.randrange(1, 256)]))))
    if r.random() < 0.6:
        # non-negative finite ratios only: lsm-tree asserts on negative values at use time
        o.append("dbhr=" + lst(r, lambda: r.choice(["00000000", "3f800000", "41200000", "3e800000", "42c80000", "7f7fffff"])))
    for k in ("ibpin", "fbpin", "ibpart", "fbpart"):
        if r.random() < 0.5:
            o.append(k + "=" + lst(r, lambda: str(r.randrange(2))))
    for k in ("dbc", "ibc"):
        if r.random() < 0.5:
            o.append(k + "=" + lst(r, lambda: r.choice(["none", "lz4"])))
    if r.random() < 0.6:
        o.append("fp=" + lst(r, lambda: r.choice(["n", "b" + r.choice(F32), "f" + r.choice(F32)])))
    c = r.random()
    if c < 0.4:
        o.append("lev=%d:%d:%s" % (r.choice([1, 2, 4, 8, 255]), r.choice([1, 1000, 2 ** 26, 2 ** 63, 2 ** 64 - 1]),
                                   lst(r, lambda: r.choice(F32), 1, 7)))
    elif c < 0.7:
        o.append("fifo=%d:%s" % (r.choice([1, 10 ** 6, 2 ** 64 - 1]), r.choice(["-", "0", "3600", str(2 ** 64 - 1)])))
    if r.random() < 0.35:
        o.append("blob=%d:%d:%s:%s:%s" % (r.choice([0, 1, 16, 1024, 2 ** 32 - 1]), r.choice([1, 2 ** 26, 2 ** 64 - 1]),
                                          r.choice(F32), r.choice(F32), r.choice(["none", "lz4"])))
    return " ".join(o)


def check_record(args):
    idx, seed = args
    r = random.Random(seed * 86028121 + idx)
    rec = record(r)
    other = record(r)
    mode = ["plain", "sw", "occ"][idx % 3]
    prog = ("open %s\nksx h0 alpha %s\ncfg h0\nput h0 61 01\nreopen\nksx h1 alpha %s\ncfg h1\nreopen\nks h2 alpha mt=12345\ncfg h2\n"
            % (mode, rec, other))
    o, raw, rc = run_fjv(prog)
    p = subprocess.run([FJM, "opts"], input=rec + "\n", env=ENV, stdout=subprocess.PIPE, stderr=subprocess.PIPE, text=True)
    m = p.stdout.splitlines()
    res = dict(prog=prog, rec=rec, problems=[])
    if len(m) != 2:
        res["problems"].append(("model", p.stderr[-200:], ""))
        return res
    if o.get(2) != "ok":
        res["skipped"] = o.get(2)       # the library refused the record (constructor panic): nothing stored
        return res
    res["corr"] = []
    # the property itself, judged on the implementation alone: what was stored at creation is what is in force after every reopen
    if o.get(7) != o.get(3) or o.get(10) != o.get(3):
        res["problems"].append(("options in force after reopen differ from those stored at creation (reopen passed other options)",
                                o.get(7) if o.get(7) != o.get(3) else o.get(10), o.get(3)))
    # the correspondence with Options.v
    if o.get(3) != m[0]:
        res["corr"].append(("stored form after creation differs from encode_kvs", o.get(3), m[0]))
    elif o.get(7) != m[1]:
        res["corr"].append(("stored form after reopen differs from from_kvs(encode_kvs)", o.get(7), m[1]))
    if m[0] != m[1]:
        res["problems"].append(("model: from_kvs(encode_kvs o) differs from o", m[0], m[1]))
    res["n_opts"] = len(rec.split())
    return res


def behaviour_probe():
    """max_memtable_size decides the rotation point, also after reopen with different options"""
    prog = ("open plain\nksx h0 alpha mt=2000\nput h0 61 %s\ninfo\nreopen\nks h0 alpha mt=99999999\ndrain\nput h0 62 %s\ninfo\n"
            % ("ab" * 2500, "ab" * 2500))
    o, raw, rc = run_fjv(prog)
    q1 = re.search(r"queue=(\d+)", o.get(4, ""))
    q2 = re.search(r"queue=(\d+)", o.get(9, ""))
    if not q1 or not q2 or int(q1.group(1)) < 1 or int(q2.group(1)) < 1:
        return "memtable size 2000 not in force: rotation requests queued before/after reopen: %s / %s" % (o.get(4), o.get(9))
    return None


def create_race(variant):
    """two threads open the same NEW name with different options: the second must get the keyspace the first created (its
    options are ignored), whatever the interleaving.  Thread a is held inside its options closure (Database::keyspace calls
    it at the point where it has decided to create the keyspace); thread b calls keyspace(name) meanwhile."""
    oa, ob = [("mt=2000 blob=1", "mt=99999999"), ("fifo=1000000 manualp=1", "blob=16")][variant]
    L = ["open plain", "pausepoint harness.ks.options 1 hold", "thread a ks h0 alpha %s &" % oa, "waitpause harness.ks.options",
         "thread b ks h1 alpha %s &" % ob, "sleep 300", "pausepoint harness.ks.options 1 off", "release harness.ks.options",
         "thread a cfg h0", "thread b cfg h1", "names", "reopen", "ks h2 alpha", "cfg h2", "names"]
    prog = "\n".join(L) + "\n"
    o, raw, rc = run_fjv(prog, env_extra={"FJV_SYNC_TIMEOUT_MS": "8000"}, timeout=90)
    ca, cb, n1, c2, n2 = o.get(9), o.get(10), o.get(11), o.get(14), o.get(15)
    if ca is None or cb is None or (ca or "").startswith("err") or (cb or "").startswith("err"):
        return None
    if ca != cb or c2 != ca or n1 != "alpha" or n2 != "alpha":
        return ("two threads created keyspace 'alpha' concurrently with options (%s) and (%s): stored options seen by a: %s | by b: %s | "
                "after reopen: %s; names %s / %s" % (oa, ob, ca, cb, c2, n1, n2), prog)
    return None


def wrap_probe():
    """known: a level-ratio vector of 256 entries stores length byte 0 (lsm-tree's Leveled has no bound)"""
    rec = "lev=4:1000:" + ",".join(["3f800000"] * 256)
    prog = "open plain\nksx h0 alpha %s\ncfg h0\nreopen\nks h1 alpha\ncfg h1\n" % rec
    o, raw, rc = run_fjv(prog)
    return o.get(3) != o.get(6), o.get(6)


def run(rep, tier, seed, build):
    obl, dis, problems = proof_audit("props/C16.v", THEOREMS, build["coq"])
    n = 300 if tier == "quick" else 10000
    results = pmap(check_record, [(i, seed) for i in range(n)])
    bad = [r_ for r_ in results if r_["problems"]]
    for r_ in bad[:3]:
        p = r_["problems"][0]
        rep.violation("# C16: %s\n# implementation: %s\n# model:          %s\n%s" % (p[0], p[1], p[2], r_["prog"]))
    bp = behaviour_probe()
    if bp:
        rep.violation("# C16: " + bp + "\n")
    for x in [x for x in pmap(create_race, [0, 1], workers=2) if x][:1]:
        rep.violation("# C16: %s\n%s" % x)
    wrapped, after = wrap_probe()
    if wrapped:
        f = known_switch("C16", "d_ratio_len_wrap")
        if f:
            rep.known_finding("d_ratio_len_wrap (%s): %s" % (f["id"], f["what"]))
        else:
            rep.violation("# C16: a level_ratio_policy of 256 entries is not restored after reopen (length byte wraps to 0)\n"
                          "open plain\nksx h0 alpha lev=4:1000:<256 x 3f800000>\ncfg h0\nreopen\nks h1 alpha\ncfg h1\n# after reopen: %s\n" % after[:300])
    corr = [r_ for r_ in results if r_.get("corr")]
    if corr and not rep.violations:
        p = corr[0]["corr"][0]
        rep.violation("# C16: correspondence Options.v <-> stored keyspace options no longer checks: %s; in all %d records the options in force after "
                      "reopen equal those stored at creation\n# implementation: %s\n# model:          %s\n%s"
                      % (p[0], len(results), p[1], p[2], corr[0]["prog"]), suffix="no-failing-input-found")
    if problems and not rep.violations:
        rep.violation("# C16: proof obligations no longer check\n" + "\n".join(problems) + "\n", suffix="no-failing-input-found")
    done = [r_ for r_ in results if "n_opts" in r_]
    rep.coverage = dict(
        obligations=obl, discharged=dis if not problems else min(dis, obl - 1),
        checker_cmd="cd coq && make props/C16.vo (coqc 8.16.1) + Print Assumptions audit",
        trusted_base=TRUSTED_BASE, programs=n, traces_validated_against_impl=len(done), disagreements_checked=len(bad) + len([r_ for r_ in results if r_.get("corr")]),
        evaluations=n, distinct_nontrivial=len({r_["rec"] for r_ in done if r_["n_opts"] >= 3}),
        rule="random option records (policy vectors of length 1..255, extreme numerics, NaN/denormal f32 bit patterns, leveled / "
             "fifo strategies with parameters, blob options present or absent, manual persist, memtable size) created through "
             "KeyspaceCreateOptions on plain / single-writer / optimistic databases; stored form after creation, after reopen "
             "passing different options (ksx) and after a second reopen (ks) compared with encode_kvs and from_kvs(encode_kvs) "
             "of Options.v; non-trivial = record setting >= 3 options, distinct by record",
        samples=[done[0]["rec"][:300], done[1]["rec"][:300]] if len(done) > 1 else [],
        refused_by_library=sum(1 for r_ in results if "skipped" in r_), proof_problems=problems)
    rep.assumptions = ["f32 option values are compared as bit patterns", "negative hash ratios excluded from generation (lsm-tree asserts at use time)"]


def replay(rep, path, build):
    run(rep, "quick", rep.seed, build)
