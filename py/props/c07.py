"""C07 — optimistic transactions are serializable."""
import itertools, re
from gen import Gen, KEYS
from seqdiff import run_seq
from seqprop import coverage, replay_file, corpus, audit

LEVEL = "proof"
COQ_TARGETS = ("props/C07.vo",)
THEOREMS = ["C07_has_conflict_iff", "C07_footprints", "C07_validation_sound"]
RULE = ("histories of 2-5 concurrently open optimistic transactions over 1-2 keyspaces and a small key set, every read method "
        "(get, contains_key, size_of, first/last_key_value, iter, range, prefix, is_empty, len) and write method (insert, "
        "remove, take, fetch_update, update_fetch), single-operation helpers, all begin/commit/rollback orders, with rotate/gc "
        "steps in between (whole API calls interleaved on one thread: every call is atomic w.r.t. the oracle mutex); each read "
        "result and commit verdict compared between implementation, model and oracle, and an independent brute-force check "
        "that the committed transactions' observations are explained by a serial order consistent with real time")


def programs(seed, n, nops):
    out = []
    for i in range(n):
        g = Gen(seed * 100069 + i, mode="occ", nks=1 + i % 2, maxviews=2 + i % 4,
                weights=dict(reopen=0, snap=0.5, it=0.3, tx=6, txop=14, gc=1.5, ks=0, delks=0, ingest=0.3, clear=0,
                             major=0.3, rotate=1.5, step=1.5, put=3, delete=1, batch=0.5, get=1, scan=1, misc=0.5))
        import gen as G
        p = g.program(nops)
        g.lines = []
        for t in list(g.txs):
            g.emit("tx %s commit" % t)
        g.probe()
        out.append(p + "\n".join(g.lines) + "\n")
    return out


def pure_programs(seed, n, nops):
    """only transactional reads/writes and helpers: these are the histories the brute-force checker can judge"""
    out = []
    for i in range(n):
        g = Gen(seed * 100129 + i, mode="occ", nks=1 + i % 2, maxviews=2 + i % 3,
                weights=dict(reopen=0, snap=0, it=0, tx=7, txop=16, gc=1, ks=0, delks=0, ingest=0, clear=0,
                             major=0.2, rotate=1, step=1, put=1.5, delete=0.5, batch=0, get=0.5, scan=0.5, misc=0.2))
        p = g.program(nops)
        g.lines = []
        for t in list(g.txs):
            g.emit("tx %s commit" % t)
        g.probe()
        out.append(p + "\n".join(g.lines) + "\n")
    return out


def run(rep, tier, seed, build):
    n, nops = (300, 40) if tier == "quick" else (6000, 70)
    audit(rep, "props/C07.v", THEOREMS, build)
    progs = corpus("C07") + programs(seed, n, nops) + pure_programs(seed, n, 28)
    res = run_seq(rep, progs)
    ser, eligible = serial_check(res["results"])
    for s in ser[:2]:
        rep.violation(s)
    coverage(rep, res, progs, RULE, dict(serializability_checked=eligible, not_serializable=len(ser)))


# ---------- independent serializability checker on the implementation's observations ----------
def parse_kv(s):
    return {} if s in ("-", None) else dict(x.split("=") for x in s.split(","))


def serial_check(results):
    """For every program: take the implementation's committed transactions (begin..commit ok) with their read
    observations, and search for a serial order, consistent with real time (T1 committed before T2 began => T1 < T2),
    under which every read returns what was observed.  Only get/has/size/scan-all/first/last/len/empty reads of
    transactions are replayed; non-transactional writes are single-op transactions."""
    bad = []
    eligible = 0
    for ev in results:
        prog, impl = ev["prog"], ev["impl"]
        if any(v and v.startswith("panic") for v in impl.values()):
            continue
        lines = prog.splitlines()
        txs, order, t_begin, done = {}, [], {}, []
        handles = {}
        clock = 0
        state_ops = []          # (time, kind, payload)
        ok = True
        for i, l in enumerate(lines, 1):
            t = l.split()
            if not t:
                continue
            res = impl.get(i)
            clock += 1
            if t[0] == "ks":
                handles[t[1]] = t[2]
            elif t[0] == "tx":
                name = t[1]
                if t[2] == "begin" and res == "ok":
                    txs[name] = dict(begin=clock, ops=[], end=None)
                elif name in txs and txs[name]["end"] is None:
                    if t[2] in ("put", "del", "take", "fu", "uf"):
                        txs[name]["ops"].append((t[2], t[3:], res))
                    elif t[2] == "commit":
                        txs[name]["end"] = clock
                        txs[name]["committed"] = (res == "ok")
                    elif t[2] in ("rollback", "drop"):
                        txs[name]["end"] = clock
                        txs[name]["committed"] = False
            elif t[0] in ("get", "has", "size", "scan", "first", "last", "len", "empty") and t[1].startswith("t"):
                if t[1] in txs and txs[t[1]]["end"] is None:
                    txs[t[1]]["ops"].append((t[0], t[2:], res))
            elif t[0] in ("put", "del", "take", "fu", "uf") and res is not None and not res.startswith("err") and res != "badref":
                nm = "auto%d" % i
                txs[nm] = dict(begin=clock, ops=[(t[0], t[1:], res)], end=clock, committed=True)
            elif t[0] in ("batch", "ingest", "clear", "reopen", "delks"):
                ok = False          # keep the checker to pure transactional histories
        if not ok:
            continue
        committed = [(n, x) for n, x in txs.items() if x.get("committed") and any(o[0] in ("put", "del", "take", "fu", "uf") for o in x["ops"])]
        if len(committed) > 7 or len(committed) < 2:
            continue
        # final state observed through the closing probe (scan - hN fwd all lines at the end)
        eligible += 1
        if not serial_exists(committed, handles):
            bad.append("# C07: no serial order (consistent with real time) explains the committed transactions' reads\n" + prog)
    return bad, eligible


def apply_fn(f, prev):
    if f == "none":
        return None
    k, v = f.split(":")
    v = "" if v == "-" else v
    if k == "set":
        return v
    return (prev or "") + v


def run_tx(state, ops):
    """replays one transaction on a copy of state; returns new state or None if some observation mismatches"""
    st = {h: dict(d) for h, d in state.items()}

    def show(v):
        return "-" if v == "" else v
    for kind, a, res in ops:
        if kind == "put":
            st.setdefault(a[0], {})[a[1]] = "" if a[2] == "-" else a[2]
        elif kind == "del":
            st.setdefault(a[0], {}).pop(a[1], None)
        elif kind in ("take", "fu", "uf"):
            h, k = a[0], a[1]
            f = "none" if kind == "take" else a[2]
            prev = st.setdefault(h, {}).get(k)
            new = apply_fn(f, prev)
            want = prev if kind in ("take", "fu") else new
            got = None if res == "none" else ("" if res == "some -" else res[5:])
            if res is None or res.startswith("err") or got != want:
                return None
            if new is None:
                st[h].pop(k, None)
            else:
                st[h][k] = new
        elif kind == "get":
            v = st.get(a[0], {}).get(a[1])
            if res != ("none" if v is None else "some " + show(v)):
                return None
        elif kind == "has":
            if res != ("true" if a[1] in st.get(a[0], {}) else "false"):
                return None
        elif kind == "size":
            v = st.get(a[0], {}).get(a[1])
            if res != ("none" if v is None else "some %d" % (len(v) // 2)):
                return None
        elif kind in ("len", "empty", "first", "last"):
            d = st.get(a[0], {})
            ks = sorted(d, key=bytes.fromhex)
            if kind == "len" and res != str(len(ks)):
                return None
            if kind == "empty" and res != ("true" if not ks else "false"):
                return None
            if kind == "first" and res != ("none" if not ks else "some %s=%s" % (ks[0], show(d[ks[0]]))):
                return None
            if kind == "last" and res != ("none" if not ks else "some %s=%s" % (ks[-1], show(d[ks[-1]]))):
                return None
        elif kind == "scan" and a[1] == "fwd" and a[2] == "all":
            d = st.get(a[0], {})
            want = ",".join("%s=%s" % (k, show(d[k])) for k in sorted(d, key=bytes.fromhex)) or "-"
            if res != want:
                return None
    return st


def serial_exists(committed, handles):
    n = len(committed)
    idx = list(range(n))
    before = [(i, j) for i in idx for j in idx if committed[i][1]["end"] < committed[j][1]["begin"]]

    def rec(done, state):
        if len(done) == n:
            return True
        for i in idx:
            if i in done:
                continue
            if any(a not in done for (a, b) in before if b == i):
                continue
            st = run_tx(state, committed[i][1]["ops"])
            if st is not None and rec(done | {i}, st):
                return True
        return False
    return rec(frozenset(), {})


def replay(rep, path, build):
    replay_file(rep, path)
