"""C03 — batches and transactions are all-or-nothing across crashes.
Theorems: props/C03.v (cut at any byte, reappend).  Correspondence: the real journal
writer/reader vs. the extracted Reader.v on the same bytes, for every cut offset."""
import subprocess, os, random, shutil, collections
from common import (proof_audit, pinned_statements_ok, run_fjv, workdir, pmap, TRUSTED_BASE, log)
import journal as J

LEVEL = "proof"
COQ_TARGETS = ("props/C03.vo",)
THEOREMS = ["C03_cut_any_byte", "C03_reappend"]
PINS = {"C03_cut_any_byte": "", "C03_reappend": ""}
NAMES = {1: "alpha", 2: "beta", 3: "gamma"}


def state_of(batch_lines):
    """expected logical content after replaying the given batch lines"""
    st = {n: {} for n in NAMES.values()}
    for l in batch_lines:
        _, seq, items, _, clears = l.split(" ")
        if items != "-":
            for it in items.split(","):
                ks, vt, k, v = it.split(":")
                name = NAMES[int(ks)]
                if vt == "0":
                    st[name][k] = v
                else:
                    st[name].pop(k, None)
        if clears != "-":
            for c in clears.split(","):
                st[NAMES[int(c)]] = {}
    return st


def dump_str(st):
    return ";".join("%s{%s}" % (n, ",".join("%s=%s" % (k, st[n][k]) for k in sorted(st[n], key=bytes.fromhex)))
                    for n in sorted(st))


DBG = [None]      # path of the harness built with debug assertions and overflow checks (set by run)


def check_journal(args):
    idx, seed, tier = args
    r = random.Random(seed * 1000 + idx)
    jcomp = r.choice(["none", "lz4"])
    prog = J.journal_program(seed * 1000 + idx, jcomp, r.randrange(3, 9), big=True)
    wd = workdir()
    out = dict(idx=idx, prog=prog, jcomp=jcomp, cuts=0, reopen=0, problems=[], sample=None)
    try:
        db = os.path.join(wd, "db")
        C, obs, rc = J.make_journal(prog, db)
        entries, ends = J.frame(C)
        full = os.path.join(wd, "full.jnl")
        open(full, "wb").write(C + b"\x00" * 64)
        mi, mm = J.read_impl(full), None
        open(full, "wb").write(C + b"\x00" * 64)
        mm = J.read_model(full)
        if mi != mm:
            out["problems"].append(("full-read", -1, 0, mi[-3:], mm[-3:]))
            return out
        batches = [l for l in mi if l.startswith("batch ")]
        if len(batches) != len(ends) or mi[-2] != "end ok" or mi[-1] != "len %d" % len(C):
            out["problems"].append(("full-read-oracle", -1, 0, mi[-3:], ["batches %d" % len(ends), "len %d" % len(C)]))
        enc = J.encode_model(batches, jcomp, 4096)
        if enc != C:
            first = next((i for i in range(min(len(enc), len(C))) if enc[i] != C[i]), min(len(enc), len(C)))
            out["problems"].append(("encode", first, 0, ["model %d bytes" % len(enc)], ["impl %d bytes" % len(C)]))
        # cut offsets
        start_last2 = ends[-3] if len(ends) >= 3 else 0
        cuts = set(range(start_last2, len(C) + 1)) if len(C) - start_last2 <= (900 if tier == "quick" else 2500) \
            else set(r.sample(range(start_last2, len(C) + 1), 900 if tier == "quick" else 2500))
        for e in ends:
            cuts.update([e - 1, e, e + 1])
        for (_, s, e) in entries:
            cuts.update([s, s + 1, e - 1])
        cuts.update(r.sample(range(len(C) + 1), min(len(C) + 1, 30)))
        cuts = sorted(c for c in cuts if 0 <= c <= len(C))
        if tier == "quick" and len(cuts) > 500:
            keep = set(r.sample(cuts, 500))
            keep.update(e for e in ends)
            cuts = sorted(keep)
        f = os.path.join(wd, "cut.jnl")
        jf = os.path.join(wd, "content.jnl")
        open(jf, "wb").write(C)
        cl = []
        for m in cuts:
            for pad in ((0, 37) if (m % 3 == 0 or tier != "quick") else (r.choice([0, 1, 64]),)):
                cl.append((m, pad))
        chunks = [cl[i:i + 60] for i in range(0, len(cl), 60)]
        # the implementation side in chunks as well (each fjv process gets its own scratch file): a thorough journal has up
        # to 12 000 cuts, too many for one process under a time limit on a busy machine
        ichunks = [cl[i:i + 400] for i in range(0, len(cl), 400)]
        try:
            bi = [b for part in pmap(lambda a: J.cuts_impl(jf, f + ".%d" % a[0], a[1]), list(enumerate(ichunks)), workers=4) for b in part]
            bm = [b for part in pmap(lambda ch: J.cuts_model(jf, ch), chunks, workers=8) for b in part]
        except subprocess.TimeoutExpired:
            out["incomplete"] = True          # too slow right now: nothing judged for this journal
            return out
        # the same cuts once more through the build with debug assertions and overflow checks on: it must behave like the
        # release build (an assertion tripped by a torn tail is a recovery that panics)
        if DBG[0]:
            try:
                bd = [b for part in pmap(lambda a: J.cuts_impl(jf, f + ".d%d" % a[0], a[1], fjv=DBG[0]), list(enumerate(ichunks)), workers=4) for b in part]
            except subprocess.TimeoutExpired:
                bd = None
            if bd is not None:
                out["dbg_cuts"] = len(bd)
                if len(bd) != len(cl):
                    idx = min(len(bd), len(cl) - 1)
                    out["problems"].append(("cut-debug-assertions", cl[idx][0], cl[idx][1], ["the build with debug assertions stopped after %d of %d cuts (panic / abort)" % (len(bd), len(cl))], [], []))
                    return out
                for (m, pad), li, ld in zip(cl, bi, bd):
                    if li != ld:
                        out["problems"].append(("cut-debug-assertions", m, pad, ld[-3:], li[-3:], ["release build"]))
                        return out
        if len(bi) != len(cl) or len(bm) != len(cl):
            out["problems"].append(("cut-run", -1, 0, ["impl blocks %d" % len(bi)], ["model blocks %d" % len(bm)], [str(len(cl))]))
            return out
        for (m, pad), li, lm in zip(cl, bi, bm):
            out["cuts"] += 1
            k = sum(1 for e in ends if e <= m)
            want_len = ends[k - 1] if k else 0
            want = batches[:k] + ["end ok", "len %d" % want_len]
            if li != lm or li != want:
                out["problems"].append(("cut", m, pad, li[-3:], lm[-3:], want[-3:]))
                if len(out["problems"]) > 3:
                    return out
        # reopen with the real recovery at a few cut points, then append and reopen again
        nre = 4 if tier == "quick" else 20
        for m in r.sample(cuts, min(nre, len(cuts))):
            db2 = os.path.join(wd, "db2")
            shutil.rmtree(db2, ignore_errors=True)
            shutil.copytree(db, db2)
            jp = os.path.join(db2, "0.jnl")
            pad = r.choice([0, 100, 64 * 1024 * 1024 - m])
            with open(jp, "wb") as fh:
                fh.write(C[:m])
                fh.truncate(m + pad)
            k = sum(1 for e in ends if e <= m)
            st = state_of(batches[:k])
            p2 = "open plain jcomp=%s\ndump\nks h0 alpha\nput h0 7a7a 0102\nbatch - h0:p:7a7b:03 h0:d:7a7a h0:p:7a7c:-\nreopen\ndump\n" % jcomp
            o2, raw2, rc2 = run_fjv(p2, dbdir=db2)
            st2 = {n: dict(v) for n, v in st.items()}
            st2["alpha"]["7a7b"] = "03"
            st2["alpha"]["7a7c"] = "-"
            st2["alpha"].pop("7a7a", None)
            out["reopen"] += 1
            if o2.get(2) != dump_str(st) or o2.get(7) != dump_str(st2):
                out["problems"].append(("reopen", m, pad, [o2.get(1), o2.get(2), o2.get(6), o2.get(7)],
                                        [dump_str(st), dump_str(st2)]))
        out["sample"] = dict(program_lines=len(prog.splitlines()), journal_bytes=len(C), batches=len(ends),
                             cuts=out["cuts"], jcomp=jcomp, first_ops=prog.splitlines()[4:7])
        out["nbytes"] = len(C)
        out["nbatches"] = len(ends)
        out["kinds"] = collections.Counter(t for (t, _, _) in entries)
        return out
    finally:
        shutil.rmtree(wd, ignore_errors=True)


def torn_write_runs(rep, seed, n):
    """Split points of the final write() call through the shim: the process is killed after k bytes of the
    last journal write of a batch; reopen must give the state before that batch."""
    from common import SHIM
    r = random.Random(seed)
    done = 0
    problems = []
    for i in range(n):
        wd = workdir()
        try:
            db = os.path.join(wd, "db")
            arm = os.path.join(wd, "armed")
            pre = "open plain jcomp=none\nks h0 alpha\nput h0 61 01\nput h0 62 02\narm\n"
            big = "".join("%02x" % r.randrange(256) for _ in range(r.choice([10, 9000, 20000])))
            last = "batch - h0:p:63:%s h0:d:61 h0:p:64:04\nexit 0\n" % big
            env = {"LD_PRELOAD": SHIM, "FJSHIM_ROOT": db, "FJSHIM_ARM_FILE": arm,
                   "FJSHIM_LOG": os.path.join(wd, "log")}
            # count events of the armed part
            o, raw, rc = run_fjv(pre + last, dbdir=db, env_extra=env)
            evs = [l.split() for l in open(os.path.join(wd, "log")).read().splitlines()]
            writes = [e for e in evs if e[1] in ("write", "pwrite", "writev") and e[2].endswith(".jnl")]
            if not writes:
                continue
            for w in writes:
                n_ev, ln = int(w[0]), int(w[4])
                for k in sorted(set([0, 1, ln // 2, max(ln - 1, 0)])):
                    shutil.rmtree(db, ignore_errors=True)
                    if os.path.exists(arm):
                        os.remove(arm)
                    env2 = dict(env, FJSHIM_CRASH_AT=str(n_ev), FJSHIM_TORN=str(k))
                    run_fjv(pre + last, dbdir=db, env_extra=env2)
                    o2, _, _ = run_fjv("open plain jcomp=none\ndump\n", dbdir=db)
                    done += 1
                    if o2.get(2) != "alpha{61=01,62=02}":
                        problems.append(("torn", n_ev, k, o2.get(1), o2.get(2)))
        finally:
            shutil.rmtree(wd, ignore_errors=True)
    return done, problems


def run(rep, tier, seed, build):
    obl, dis, problems = proof_audit("props/C03.v", THEOREMS, build["coq"])
    from common import build_dbg
    DBG[0] = build_dbg()
    njournals = 12 if tier == "quick" else 64
    results = pmap(check_journal, [(i, seed, tier) for i in range(njournals)])
    cuts = sum(r["cuts"] for r in results)
    reop = sum(r["reopen"] for r in results)
    bad = [r for r in results if r["problems"]]
    torn_done, torn_problems = torn_write_runs(rep, seed, 2 if tier == "quick" else 12)
    kinds = collections.Counter()
    for r in results:
        kinds.update(r.get("kinds", {}))
    for r in bad[:3]:
        p = r["problems"][0]
        rep.violation("# C03: journal cut/read disagreement (%s at offset %s, padding %s)\n# implementation: %s\n"
                      "# model/oracle: %s\n# program that produced the journal (jcomp=%s):\n%s" %
                      (p[0], p[1], p[2], p[3], p[4:], r["jcomp"], r["prog"]))
    for p in torn_problems[:2]:
        rep.violation("# C03: torn final write (event %s cut after %s bytes) did not recover the pre-batch state\n# got: %s\n"
                      % (p[1], p[2], p[3:]))
    if problems and not rep.violations:
        rep.violation("# C03: proof obligations no longer check\n" + "\n".join(problems) + "\n",
                      suffix="no-failing-input-found")
    rep.coverage = dict(
        obligations=obl, discharged=dis if not problems else min(dis, obl - 1),
        checker_cmd="cd coq && coq_makefile -f _CoqProject -o Makefile && make props/C03.vo (coqc 8.16.1) + Print Assumptions audit",
        trusted_base=TRUSTED_BASE,
        programs=njournals, traces_validated_against_impl=cuts, disagreements_checked=len(bad),
        evaluations=cuts + reop + torn_done,
        distinct_nontrivial=len({(r.get("nbytes"), r.get("nbatches")) for r in results if r.get("nbatches", 0) >= 2}),
        rule="journals written by the real writer from generated programs (1-200 items per batch, 3 keyspaces, values "
             "around the 4096 B compression threshold, tombstones, clears, jcomp none/lz4); every byte offset of the "
             "last two batches plus all entry/batch boundaries, with and without zero padding, read by the real reader "
             "and by the extracted Reader.v; non-trivial = journal with >= 2 batches, distinct by (bytes, batches)",
        samples=[r["sample"] for r in results if r.get("sample")][:3],
        entry_kind_histogram={str(k): v for k, v in kinds.items()},
        reopen_runs=reop, torn_write_runs=torn_done, proof_problems=problems,
        cuts_repeated_with_debug_assertions=sum(r.get("dbg_cuts", 0) for r in results),
        debug_assertions_build=("ok" if DBG[0] else "did not build"))
    rep.assumptions = ["a torn write leaves a prefix of the intended bytes followed by zeros or EOF (journal files are "
                       "created fresh and pre-allocated with zeros)", "xxh3 and lz4 are uninterpreted in the theorems"]


def replay(rep, path, build):
    run(rep, "quick", rep.seed, build)
